------------------------------ MODULE Instantiate ------------------------------
(* Properties C07 and C08: hierarchical flattening of pymoca (src/pymoca/tree.py, lookup in
   src/pymoca/ast.py), in oracle mode (DESIGN.md 2.2 (C), Appendix C.1 - C.3).

   A PROGRAM is a parameter vector pv; the Modelica class library is DERIVED from pv by the
   operator Lib(pv, spelling) below (nothing is derived in Python).  For every pv TLC

     * runs the OPERATIONAL definition - one action per step of the real code:
         Lookup             root.find_class                      (ast.py  _find_class)
         ExpandInstance     build_instance_tree on ONE instance: flatten_extends (FlattenExtends),
                            then the shifting of the modification environment to the symbols
                            (ShiftModifications), children are queued
         FlattenNode        flatten_symbols on ONE instance, children first: name prefixing,
                            input/output stripping, apply_symbol_modifications (scope matched,
                            applied in order, last wins), flatten_component_refs (RenameRefs)
         ExpandConnectors   (only the part that concerns a connect-free model: unconnected flow = 0)
         AddValueEquations  add_state_value_equations
       once per SPELLING of the modifications ("mixed" a.x(start = e), "dotted" a.x.start = e,
       "nested" a(x(start = e))),
     * evaluates the DECLARATIVE definition of Appendix C (LeafPaths / Effective(path, attr) /
       FlatEqs: outermost applicable modification, renamed in the scope where it is written), and
     * checks, as invariants, operational = declarative for every spelling that is not rejected,
       spelling invariance, one variable per leaf, and - on the intermediate states - that every
       modification arrives at its leaf in inner-to-outer order.

   The last transition of a program prints one  <<"PROG", json>>  line with the library in every
   spelling and the expected flat class; vf/checks/C07.py / C08.py render it, run tree.flatten and
   compare.

   AS-BUILT switches (DESIGN 2.4).  FALSE = what the properties require (the _intended cfg files, TLC must
   pass), TRUE = what the pinned code does (the _asbuilt cfg files, TLC is expected to find the
   counterexample, which the check replays on the real code):
     DottedAttrAsValue         a.x.start = e  reaching the elementary symbol x is taken as  x = e
     InnerArgsLoseScope        the arguments inside  x(start = e)  carry no scope, so e is resolved
                               in the innermost instance that has the name, not where it is written
     ReRenameFlatRefs          an attribute expression that was already renamed to a flat name is
                               renamed again in every enclosing instance (a.b.p -> a.a.b.p)
     AliasOfAliasDropsMods     type Y = X; type X = Real: modifications on a Y component are lost
     InheritedTypeInDerivedScope  the type of an inherited component is looked up from the
                               derived class instead of the class that declares the component    *)
EXTENDS Integers, Sequences, FiniteSets, TLC, Json, IOUtils, SequencesExt

CONSTANTS Family,        \* "hier" (C07) | "mods" (C08) | "file" (parameter vectors from IOEnv.PV_FILE)
          MaxDepth,      \* depth bound of the enumerated families
          Wide,          \* BOOLEAN: wider domains (thorough tier)
          DottedAttrAsValue, InnerArgsLoseScope, ReRenameFlatRefs, AliasOfAliasDropsMods,
          InheritedTypeInDerivedScope

VARIABLES pv,      \* the program (parameter vector)
          libs,    \* the library derived from pv, one per spelling
          decls,   \* per spelling already started: the declarative flat class of libs[j]
          sp,      \* index of the spelling being run
          pc,      \* phase: "start" "look" "inst" "flat" "conn" "vals" "next" "done"
          todo,    \* instances still to expand: <<[path, cp, env]>>
          nodes,   \* expanded instance tree: instance path -> [cp, syms, eqs, ieqs]
          order,   \* instance paths in expansion order (flattened in reverse: children first)
          flats,   \* flattened instances: path -> [syms, eqs, ieqs]
          flat,    \* the top-level flat class under construction
          res,     \* per spelling: result [rej, why, syms, eqs, ieqs]
          shard,   \* <<number of shards, this shard>>: constant, read once from IOEnv (evaluating IOEnv is slow)
          last     \* history: name of the last action (hidden by VIEW)

vars == <<pv, libs, decls, sp, pc, todo, nodes, order, flats, flat, res, shard, last>>

--------------------------------------------------------------------------------
(* Vocabulary *)

Attributes == {"value", "min", "max", "start", "fixed", "nominal", "unit", "quantity", "displayUnit"}
Builtin    == {"Real", "Integer", "Boolean", "String"}
NoClass    == <<"<noclass>">>
NoScope    == <<"<noscope>">>
Nothing    == <<>>

Lit(n)      == [k |-> "lit", v |-> n]
BoolE(b)    == [k |-> "bool", v |-> b]
StrE(s)     == [k |-> "str", v |-> s]
RefI(p, ix) == [k |-> "ref", p |-> p, ix |-> ix, flat |-> FALSE]
Ref(p)      == RefI(p, <<>>)
Bin(op, a, b) == [k |-> "bin", op |-> op, a |-> <<a, b>>]
Eq(l, r)    == [l |-> l, r |-> r]

Arg(name, sub, val) == [name |-> name, sub |-> sub, val |-> val, scope |-> NoScope]
Cmp(name, type, pre, dims, mods, val) ==
    [name |-> name, type |-> type, prefixes |-> pre, dims |-> dims, mods |-> mods, val |-> val]
Ext(base, mods) == [base |-> base, mods |-> mods]
Cl(kind, name, ext, nested, comps, eqs, ieqs) ==
    [kind |-> kind, name |-> name, ext |-> ext, nested |-> nested, comps |-> comps,
     eqs |-> eqs, ieqs |-> ieqs, short |-> FALSE]
Alias(name, base, mods) ==
    [kind |-> "type", name |-> name, ext |-> <<Ext(base, mods)>>, nested |-> <<>>, comps |-> <<>>,
     eqs |-> <<>>, ieqs |-> <<>>, short |-> TRUE]

RECURSIVE JoinDot(_)
JoinDot(p) == IF Len(p) = 0 THEN "" ELSE IF Len(p) = 1 THEN p[1] ELSE p[1] \o "." \o JoinDot(Tail(p))

SeqToSet(s) == {s[i] : i \in DOMAIN s}
Count(e, s) == Cardinality({i \in DOMAIN s : s[i] = e})
SameBag(s, t) == /\ Len(s) = Len(t)
                 /\ \A i \in DOMAIN s : Count(s[i], s) = Count(s[i], t)
Filter(s, T(_)) == SelectSeq(s, T)
Map(s, F(_)) == [i \in DOMAIN s |-> F(s[i])]

--------------------------------------------------------------------------------
(* THE PROGRAM FAMILY: parameter vector -> library.

   Levels are counted from the bottom: level 1 is the class that declares the variable of
   interest x, level i >= 2 declares instances of the level i-1 class, level pv.depth is Top.      *)

Modes == {"none", "one", "late", "chain", "multi", "chain2"}
HierModes == Modes \ {"chain2"}      \* chain2 (two extends levels that both modify the target) only matters for C08

(* pv.twin: the level-1 class is ALSO called Top; it lives in package A, everything else in package B, so the instance path
   goes through two classes with the same short name (B.Top ... A.Top) *)
CN(d, i) == IF i = d \/ (pv.twin /\ i = 1) THEN "Top" ELSE <<"Leaf", "Mid", "Mid2">>[i]
ClsRef(i) == IF pv.twin /\ i = 1 THEN <<"A", "Top">> ELSE <<CN(pv.depth, i)>>
IN1(i) == IF pv.same THEN "a" ELSE "a" \o ToString(i)     \* first instance declared by level i
IN2(i) == IF pv.same THEN "b" ELSE "b" \o ToString(i)     \* second instance (pv.fan = 2)

RECURSIVE DownA(_)                                        \* a_i . a_(i-1) ... a_2   (i >= 2)
DownA(i) == IF i < 2 THEN <<>> ELSE <<IN1(i)>> \o DownA(i - 1)
XPath(i) == DownA(i) \o <<"x">>                           \* path of x seen from class level i
XIx == IF pv.xdims = 0 THEN <<>> ELSE IF pv.xdims = 1 THEN <<1>> ELSE <<1, 2>>
XDims == IF pv.xdims = 0 THEN <<>> ELSE IF pv.xdims = 1 THEN <<2>> ELSE <<2, 3>>

XType == CASE pv.xtype = "aR" -> "TR" [] pv.xtype = "aI" -> "TI" [] pv.xtype = "aB" -> "TB"
           [] pv.xtype = "aaR" -> "TRR" [] OTHER -> pv.xtype
IsAliasX == pv.xtype \in {"aR", "aI", "aB", "aaR"}

Pre(s) == IF s = "" THEN <<>> ELSE <<s>>

(* modification sites: [k, i, e]  k \in {"type","decl","extb","ext","comp"}, i = level, e \in {"lit","ref"};
   "extb" = the INNER extends clause of a two-level chain (split mode chain2):  LeafB extends LeafB0(x(..)) *)
Rank(m) == CASE m.k = "type" -> 0 [] m.k = "decl" -> 1 [] m.k = "ext" -> 4 * m.i [] m.k = "extb" -> 4 * m.i - 1
             [] m.k = "comp" -> 4 * m.i - 2
MExpr(m) ==
    IF pv.attr = "fixed" THEN BoolE(Rank(m) % 2 = 1)
    ELSE IF pv.attr = "unit" THEN StrE("u" \o ToString(Rank(m)))
    ELSE IF m.e = "ref" THEN Bin("+", Ref(<<"p">>), Lit(Rank(m)))
    ELSE Lit(10 + Rank(m))
SiteMods(k, i) == Filter(pv.mods, LAMBDA m : m.k = k /\ m.i = i)

RECURSIVE NestArg(_, _)
NestArg(full, e) == IF Len(full) = 1 THEN Arg(full, <<>>, <<e>>)
                    ELSE Arg(<<full[1]>>, <<NestArg(Tail(full), e)>>, <<>>)
(* one modification of attribute a of the component at path t, written in spelling s *)
MkArg(s, t, a, e) ==
    LET full == IF a = "value" THEN t ELSE t \o <<a>> IN
    CASE s = "dotted" -> Arg(full, <<>>, <<e>>)
      [] s = "nested" -> NestArg(full, e)
      [] OTHER        -> IF a = "value" THEN Arg(t, <<>>, <<e>>) ELSE Arg(t, <<Arg(<<a>>, <<>>, <<e>>)>>, <<>>)

ExtArgs(s, i)  == Map(SiteMods("ext", i),  LAMBDA m : MkArg(s, XPath(i), pv.attr, MExpr(m)))
ExtBArgs(s, i) == Map(SiteMods("extb", i), LAMBDA m : MkArg(s, XPath(i), pv.attr, MExpr(m)))
CompArgs(s, i) == Map(SiteMods("comp", i), LAMBDA m : MkArg(s, XPath(i - 1), pv.attr, MExpr(m)))
DeclMods == LET ms == SiteMods("decl", 1) IN
            IF pv.attr = "value" THEN <<>> ELSE Map(ms, LAMBDA m : Arg(<<pv.attr>>, <<>>, <<MExpr(m)>>))
DeclVal  == LET ms == SiteMods("decl", 1) IN
            IF pv.attr = "value" /\ Len(ms) > 0 THEN <<MExpr(ms[1])>> ELSE <<>>
TypeMods == Map(SiteMods("type", 0), LAMBDA m : Arg(<<pv.attr>>, <<>>, <<MExpr(m)>>))

AliasClasses ==
    CASE pv.xtype = "aR"  -> <<Alias("TR", <<"Real">>, TypeMods)>>
      [] pv.xtype = "aI"  -> <<Alias("TI", <<"Integer">>, TypeMods)>>
      [] pv.xtype = "aB"  -> <<Alias("TB", <<"Boolean">>, TypeMods)>>
      [] pv.xtype = "aaR" -> <<Alias("TR", <<"Real">>, <<>>), Alias("TRR", <<"TR">>, TypeMods)>>
      [] OTHER -> <<>>

(* the logical content of level i, split in the part that a base class may take (P = parameter p,
   M = the main components) and the rest (R) *)
PComp(i) == Cmp("p", <<"Real">>, <<"parameter">>, <<>>, <<>>, <<Lit(i)>>)
(* pv.clash: the derived class declares p again (as Integer): the own element replaces the inherited one *)
PClash(i) == IF pv.clash THEN <<Cmp("p", <<"Integer">>, <<"parameter">>, <<>>, <<>>, <<Lit(100 + i)>>)>> ELSE <<>>
(* pv.skew: from level 3 up the SECOND instance is of the class two levels down, so the same instance name leads to the
   same class at two different depths (Top.a : Mid2, Mid2.b : Leaf, Mid2.a : Mid, Mid.b : Leaf  =>  paths a.b and a.a.b lead to the same class) *)
SecondLevel(i) == IF pv.skew /\ i >= 3 THEN i - 2 ELSE i - 1
MainComps(s, i) ==
    IF i = 1 THEN <<Cmp("x", <<XType>>, Pre(pv.xpre), XDims, DeclMods, DeclVal)>>
    ELSE <<Cmp(IN1(i), ClsRef(i - 1), <<>>, <<>>, CompArgs(s, i), <<>>)>>
         \o (IF pv.fan = 2 THEN <<Cmp(IN2(i), ClsRef(SecondLevel(i)), <<>>, <<>>, <<>>, <<>>)>> ELSE <<>>)
(* in the hierarchy family the level-1 class also has  Real w = p : a declaration value with a SIMPLE name, which becomes the
   flat equation  <path>.w = <path>.p *)
RestComps(i) == IF i = 1 THEN <<Cmp("z", <<"Real">>, <<>>, <<>>, <<>>, <<>>)>>
                                \o (IF pv.attr = "" THEN <<Cmp("w", <<"Real">>, <<>>, <<>>, <<>>, <<Ref(<<"p">>)>>)>> ELSE <<>>)
                ELSE <<Cmp("y", <<"Real">>, Pre(pv.ypre), <<>>, <<>>, <<>>)>>
MainEqs(i) == IF i = 1 THEN <<Eq(RefI(<<"x">>, XIx), Lit(1))>>
              ELSE IF pv.fan = 2 THEN <<Eq(Ref(<<IN2(i)>> \o DownA(SecondLevel(i)) \o <<"z">>), Lit(i))>> ELSE <<>>
RestEqs(i) == IF i = 1 THEN <<Eq(Ref(<<"z">>), Bin("+", RefI(<<"x">>, XIx), Ref(<<"p">>)))>>
              ELSE <<Eq(Ref(<<"y">>), Bin("*", RefI(XPath(i), XIx), Ref(<<"p">>)))>>
MainIeqs(i) == IF pv.ieq THEN <<Eq(RefI(XPath(i), XIx), Lit(7))>> ELSE <<>>
RestIeqs(i) == IF pv.ieq THEN (IF i = 1 THEN <<Eq(Ref(<<"z">>), Lit(0))>>
                               ELSE <<Eq(RefI(XPath(i), XIx), Ref(<<"p">>))>>) ELSE <<>>

(* wrap 3: Top in P2 extends P1.TopB.   wrap 4 (with split chain2 at the top level): an extends chain of length 2 ACROSS
   packages - P3.Top extends P2.TopB, P2.TopB extends P1.TopB0, the far base P1.TopB0 declares the components, whose types are
   local to P1 and SHADOWED by same-named decoy classes in P2 *)
BaseRef(i, nm) == IF pv.wrap = 3 /\ i = pv.depth THEN <<"P1", nm>>
                  ELSE IF pv.wrap = 4 /\ i = pv.depth THEN <<"P2", nm>> ELSE <<nm>>
BaseRef0(i, nm) == IF pv.wrap = 4 /\ i = pv.depth THEN <<"P1", nm>> ELSE <<nm>>

(* the classes of level i; `inner` = classes to nest inside the class that declares the instances *)
LevelClasses(s, i, innerMain, innerBase) ==
    LET n  == CN(pv.depth, i)
        md == pv.split[i]
        xa == ExtArgs(s, i)
    IN CASE md = "none" ->
              <<Cl("model", n, <<>>, innerMain, <<PComp(i)>> \o MainComps(s, i) \o RestComps(i),
                   MainEqs(i) \o RestEqs(i), MainIeqs(i) \o RestIeqs(i))>>
         [] md = "one" ->
              <<Cl("model", n \o "B", <<>>, innerMain, <<PComp(i)>> \o MainComps(s, i), MainEqs(i), MainIeqs(i)),
                Cl("model", n, <<Ext(BaseRef(i, n \o "B"), xa)>>, <<>>, RestComps(i) \o PClash(i), RestEqs(i), RestIeqs(i))>>
         [] md = "late" ->
              <<Cl("model", n \o "B", <<>>, innerBase, <<PComp(i)>>, <<>>, <<>>),
                Cl("model", n, <<Ext(BaseRef(i, n \o "B"), <<>>)>>, innerMain, MainComps(s, i) \o RestComps(i) \o PClash(i),
                   MainEqs(i) \o RestEqs(i), MainIeqs(i) \o RestIeqs(i))>>
         [] md = "chain" ->
              <<Cl("model", n \o "B0", <<>>, <<>>, <<PComp(i)>>, <<>>, <<>>),
                Cl("model", n \o "B", <<Ext(<<n \o "B0">>, <<>>)>>, innerMain, MainComps(s, i), MainEqs(i), MainIeqs(i)),
                Cl("model", n, <<Ext(BaseRef(i, n \o "B"), xa)>>, <<>>, RestComps(i) \o PClash(i), RestEqs(i), RestIeqs(i))>>
         [] md = "chain2" ->     \* the main components live in B0; B extends B0(inner modifiers); n extends B(outer modifiers)
              <<Cl("model", n \o "B0", <<>>, innerMain, <<PComp(i)>> \o MainComps(s, i), MainEqs(i), MainIeqs(i)),
                Cl("model", n \o "B", <<Ext(BaseRef0(i, n \o "B0"), ExtBArgs(s, i))>>, <<>>, <<>>, <<>>, <<>>),
                Cl("model", n, <<Ext(BaseRef(i, n \o "B"), xa)>>, <<>>, RestComps(i) \o PClash(i), RestEqs(i), RestIeqs(i))>>
         [] md = "multi" ->
              <<Cl("model", n \o "BA", <<>>, <<>>, <<PComp(i)>>, <<>>, <<>>),
                Cl("model", n \o "BB", <<>>, innerMain, MainComps(s, i), MainEqs(i), MainIeqs(i)),
                Cl("model", n, <<Ext(BaseRef(i, n \o "BA"), <<>>), Ext(BaseRef(i, n \o "BB"), xa)>>, <<>>,
                   RestComps(i) \o PClash(i), RestEqs(i), RestIeqs(i))>>

RECURSIVE LevelsFrom(_, _)
LevelsFrom(s, i) == IF i > pv.depth THEN <<>> ELSE LevelClasses(s, i, <<>>, <<>>) \o LevelsFrom(s, i + 1)

(* all classes in definition order; the level-1 classes go where pv.nest says *)
(* pv.shadow: a decoy class with the name of the (nested) level-1 class also exists at library level;
   lexical lookup must find the nested one *)
Decoy == IF pv.shadow THEN <<Cl("model", CN(pv.depth, 1), <<>>, <<>>, <<Cmp("decoy", <<"Real">>, <<>>, <<>>, <<>>, <<>>)>>, <<>>, <<>>)>>
         ELSE <<>>
AllClasses(s) ==
    LET l1 == LevelClasses(s, 1, <<>>, <<>>) IN
    IF pv.depth = 1 \/ pv.nest = "lib" THEN AliasClasses \o l1 \o LevelsFrom(s, 2)
    ELSE IF pv.nest = "user" THEN AliasClasses \o Decoy \o LevelClasses(s, 2, l1, <<>>) \o LevelsFrom(s, 3)
    ELSE AliasClasses \o Decoy \o LevelClasses(s, 2, <<>>, l1) \o LevelsFrom(s, 3)

Lib(s) ==
    LET all  == AllClasses(s)
        topc == all[Len(all)]
        rest == SubSeq(all, 1, Len(all) - 1)
        n == Len(all)
        decoys == (IF pv.depth >= 2 THEN <<Cl("model", CN(pv.depth, pv.depth - 1), <<>>, <<>>,
                                              <<Cmp("wrong", <<"Boolean">>, <<>>, <<>>, <<>>, <<>>)>>, <<>>, <<>>)>> ELSE <<>>)
                  \o (IF IsAliasX THEN <<Alias(XType, <<"Integer">>, <<>>)>> ELSE <<>>)
    IN IF pv.twin THEN <<Cl("package", "A", <<>>, LevelClasses(s, 1, <<>>, <<>>), <<>>, <<>>, <<>>),
                         Cl("package", "B", <<>>, LevelsFrom(s, 2), <<>>, <<>>, <<>>)>>
       ELSE
       CASE pv.wrap = 0 -> all
         [] pv.wrap = 4 -> <<Cl("package", "P1", <<>>, SubSeq(all, 1, n - 2), <<>>, <<>>, <<>>),
                             Cl("package", "P2", <<>>, decoys \o <<all[n - 1]>>, <<>>, <<>>, <<>>),
                             Cl("package", "P3", <<>>, <<topc>>, <<>>, <<>>, <<>>)>>
         [] pv.wrap = 1 -> <<Cl("package", "P", <<>>, all, <<>>, <<>>, <<>>)>>
         [] pv.wrap = 2 -> <<Cl("package", "P", <<>>, rest \o <<Cl("package", "Q", <<>>, <<topc>>, <<>>, <<>>, <<>>)>>,
                                <<>>, <<>>, <<>>)>>
         [] pv.wrap = 3 -> <<Cl("package", "P1", <<>>, rest, <<>>, <<>>, <<>>),
                             Cl("package", "P2", <<>>, <<topc>>, <<>>, <<>>, <<>>)>>
TopPath == IF pv.twin THEN <<"B", "Top">> ELSE
           CASE pv.wrap = 0 -> <<"Top">> [] pv.wrap = 4 -> <<"P3", "Top">> [] pv.wrap = 1 -> <<"P", "Top">>
             [] pv.wrap = 2 -> <<"P", "Q", "Top">> [] pv.wrap = 3 -> <<"P2", "Top">>

HasSpellable == \E j \in DOMAIN pv.mods : pv.mods[j].k \in {"ext", "extb", "comp"}
Spellings == IF HasSpellable THEN <<"mixed", "dotted", "nested">> ELSE <<"mixed">>

(* ---- well-formedness of a parameter vector (also applied to vectors read from a file) ---- *)
SiteOK(m) ==
    CASE m.k = "type" -> m.i = 0 /\ IsAliasX /\ pv.attr # "value" /\ m.e = "lit"
      [] m.k = "decl" -> m.i = 1
      [] m.k = "ext"  -> m.i \in 1..pv.depth /\ pv.split[m.i] \in {"one", "chain", "multi", "chain2"}
      [] m.k = "extb" -> m.i \in 1..pv.depth /\ pv.split[m.i] = "chain2"
      [] m.k = "comp" -> m.i \in 2..pv.depth
      [] OTHER -> FALSE
WellFormed ==
    /\ pv.depth \in 1..4 /\ pv.fan \in 1..2 /\ pv.wrap \in 0..4 /\ pv.xdims \in 0..2
    /\ (pv.wrap = 4 => pv.split[pv.depth] = "chain2" /\ pv.nest = "lib")
    /\ (pv.twin => pv.depth >= 3 /\ pv.wrap = 0 /\ pv.nest = "lib" /\ ~IsAliasX /\ ~pv.shadow /\ \A i \in 1..pv.depth : pv.split[i] = "none")
    /\ Len(pv.split) = pv.depth /\ \A i \in 1..pv.depth : pv.split[i] \in Modes
    /\ pv.nest \in {"lib", "user", "userbase"}
    /\ (pv.nest # "lib" => pv.depth >= 2)
    /\ (pv.nest = "userbase" => pv.split[2] = "late")
    /\ (pv.wrap = 3 => pv.split[pv.depth] \in {"one", "chain", "chain2"} /\ (pv.nest = "lib" \/ pv.depth > 2))
    /\ (pv.wrap = 2 => pv.nest = "lib" \/ pv.depth > 2)
    /\ pv.xtype \in {"Real", "Integer", "Boolean", "aR", "aI", "aB", "aaR"}
    /\ (pv.shadow => pv.nest # "lib")
    /\ (pv.skew => pv.fan = 2 /\ pv.depth >= 3 /\ pv.nest = "lib")
    /\ (pv.clash => \E i \in 1..pv.depth : pv.split[i] # "none")
    /\ \A j \in DOMAIN pv.mods : SiteOK(pv.mods[j])
    /\ \A j, k \in DOMAIN pv.mods : j < k => Rank(pv.mods[j]) > Rank(pv.mods[k])     \* outermost first, no duplicates
    /\ (pv.mods # <<>> => pv.attr \in {"value", "start", "min", "max", "nominal", "fixed", "unit"})
    /\ (pv.attr \in {"fixed", "unit"} => \A j \in DOMAIN pv.mods : pv.mods[j].e = "lit")
    /\ (pv.mods # <<>> => pv.xdims = 0)

--------------------------------------------------------------------------------
(* Library access and class lookup (ast.py _find_class / find_class) *)

HasC(cs, n) == \E i \in DOMAIN cs : cs[i].name = n
GetC(cs, n) == cs[CHOOSE i \in DOMAIN cs : cs[i].name = n]
RECURSIVE ClsIn(_, _)
ClsIn(cs, path) == LET c == GetC(cs, path[1]) IN IF Len(path) = 1 THEN c ELSE ClsIn(c.nested, Tail(path))
RECURSIVE HasIn(_, _)
HasIn(cs, path) == HasC(cs, path[1]) /\ (Len(path) = 1 \/ HasIn(GetC(cs, path[1]).nested, Tail(path)))
NestedOf(L, cp) == IF cp = <<>> THEN L ELSE ClsIn(L, cp).nested

(* _find_class on parsed (not instantiated) classes: own nested classes, then the enclosing class *)
RECURSIVE FindPlain(_, _, _)
FindPlain(L, sc, n) ==
    IF HasIn(NestedOf(L, sc), n) THEN sc \o n
    ELSE IF sc = <<>> THEN NoClass
    ELSE FindPlain(L, Front(sc), n)

(* nested classes visible in an INSTANCE of class cp: inherited ones (extends in order) then own *)
RECURSIVE AllNested(_, _)
AllNested(L, cp) ==
    LET c == ClsIn(L, cp)
        RECURSIVE Go(_, _)
        Go(acc, k) == IF k > Len(c.ext) THEN acc
                      ELSE LET x  == c.ext[k]
                               bp == IF Len(x.base) = 1 /\ x.base[1] \in Builtin THEN NoClass ELSE FindPlain(L, cp, x.base)
                           IN  IF bp = NoClass THEN Go(acc, k + 1) ELSE Go(acc \o AllNested(L, bp), k + 1)
        own == [j \in DOMAIN c.nested |-> [name |-> c.nested[j].name, cp |-> cp \o <<c.nested[j].name>>]]
    IN Go(<<>>, 1) \o own
(* the LAST entry of a name wins (dict.update) *)
NestedLookup(L, cp, nm) ==
    LET all == AllNested(L, cp)
        idx == {j \in DOMAIN all : all[j].name = nm}
    IN IF idx = {} THEN NoClass ELSE all[CHOOSE j \in idx : \A k \in idx : k <= j].cp

(* find_class from an instance class: inherited + own nested classes, then outward *)
FindFromInstance(L, cp, n) ==
    LET first == NestedLookup(L, cp, n[1]) IN
    IF first # NoClass /\ (Len(n) = 1 \/ HasIn(ClsIn(L, first).nested, Tail(n))) THEN first \o Tail(n)
    ELSE IF cp = <<>> THEN NoClass ELSE FindPlain(L, Front(cp), n)

(* Appendix C.1: Find(C, n): nested classes of Elems(C) (inherited included), else Encl(C), ... *)
RECURSIVE FindD(_, _, _)
FindD(L, cp, n) ==
    IF cp = <<>> THEN (IF HasIn(L, n) THEN n ELSE NoClass)
    ELSE LET first == NestedLookup(L, cp, n[1]) IN
         IF first # NoClass /\ (Len(n) = 1 \/ HasIn(ClsIn(L, first).nested, Tail(n))) THEN first \o Tail(n)
         ELSE FindD(L, Front(cp), n)

IsBuiltinName(t) == Len(t) = 1 /\ t[1] \in Builtin

(* extends_builtin(): does the class (transitively) extend Real/Integer/Boolean/String *)
RECURSIVE ExtendsBuiltin(_, _)
ExtendsBuiltin(L, cp) ==
    LET c == ClsIn(L, cp) IN
    \E k \in DOMAIN c.ext :
        \/ IsBuiltinName(c.ext[k].base)
        \/ LET bp == FindPlain(L, cp, c.ext[k].base) IN bp # NoClass /\ ExtendsBuiltin(L, bp)

--------------------------------------------------------------------------------
(* OPERATIONAL SIDE 1: flatten_extends *)

SymOf(k, cp) == [name |-> k.name, type |-> k.type, decl |-> cp, prefixes |-> k.prefixes, dims |-> k.dims,
                 cmods |-> k.mods \o (IF k.val # <<>> THEN <<Arg(<<"value">>, <<>>, k.val)>> ELSE <<>>)]
ValueSym(t, mods) == [name |-> "__value", type |-> <<t>>, decl |-> <<>>, prefixes |-> <<>>, dims |-> <<>>, cmods |-> mods]

RECURSIVE Upd(_, _)          \* OrderedDict.update: an existing key keeps its position
Upd(syms, new) ==
    IF new = <<>> THEN syms
    ELSE LET n   == Head(new)
             idx == {i \in DOMAIN syms : syms[i].name = n.name}
         IN  Upd(IF idx = {} THEN Append(syms, n) ELSE [syms EXCEPT ![CHOOSE i \in idx : TRUE] = n], Tail(new))

AddCmods(syms, nm, args) == [i \in DOMAIN syms |-> IF syms[i].name = nm THEN [syms[i] EXCEPT !.cmods = @ \o args] ELSE syms[i]]

FE0 == [ok |-> TRUE, why |-> "", syms |-> <<>>, eqs |-> <<>>, ieqs |-> <<>>, env |-> <<>>, builtin |-> FALSE]

RECURSIVE FlattenExtends(_, _, _)
FlattenExtends(L, cp, penv) ==
    LET c == ClsIn(L, cp)
        RECURSIVE Go(_, _)
        Go(acc, k) ==
            IF k > Len(c.ext) \/ ~acc.ok THEN acc
            ELSE LET x == c.ext[k] IN
                 IF IsBuiltinName(x.base)
                 THEN Go([acc EXCEPT !.syms = Upd(@, <<ValueSym(x.base[1], x.mods)>>), !.builtin = TRUE], k + 1)
                 ELSE LET bp == FindPlain(L, cp, x.base) IN
                      IF bp = NoClass THEN [acc EXCEPT !.ok = FALSE, !.why = "ClassNotFoundError"]
                      ELSE LET b == FlattenExtends(L, bp, x.mods) IN
                           IF ~b.ok THEN b
                           ELSE Go([acc EXCEPT !.syms = Upd(@, b.syms), !.eqs = @ \o b.eqs, !.ieqs = @ \o b.ieqs,
                                               !.env = @ \o b.env,
                                               !.builtin = @ \/ (b.builtin /\ ~AliasOfAliasDropsMods)], k + 1)
        a  == Go(FE0, 1)
        a2 == [a EXCEPT !.syms = Upd(@, [j \in DOMAIN c.comps |-> SymOf(c.comps[j], cp)]),
                        !.eqs = @ \o c.eqs, !.ieqs = @ \o c.ieqs, !.env = @ \o penv]
    IN IF ~a.ok THEN a
       ELSE IF a2.builtin THEN [a2 EXCEPT !.syms = AddCmods(@, "__value", a2.env), !.env = <<>>]
       ELSE a2

--------------------------------------------------------------------------------
(* OPERATIONAL SIDE 2: build_instance_tree on one instance - shifting the modification environment *)

RECURSIVE NestDotted(_, _, _, _)
NestDotted(name, sub, val, scope) ==       \* a.b.c(sub) = val   ==>   a(b(c(sub) = val))
    IF Len(name) = 1 THEN [name |-> name, sub |-> sub, val |-> val, scope |-> scope]
    ELSE [name |-> <<name[1]>>, sub |-> <<NestDotted(Tail(name), sub, val, scope)>>, val |-> <<>>, scope |-> scope]

(* an argument that reached an elementary symbol (or a component whose type derives from a builtin):
   its nested arguments become arguments of the symbol, its value becomes a "value" argument *)
ConvertForElem(arg) ==
    LET a1 == IF ~DottedAttrAsValue /\ Len(arg.name) > 1
              THEN NestDotted(arg.name, arg.sub, arg.val, arg.scope) ELSE arg
        inner(s) == [s EXCEPT !.scope = IF InnerArgsLoseScope \/ s.scope # NoScope THEN s.scope ELSE a1.scope]
    IN  Map(a1.sub, inner)
        \o (IF a1.val # <<>> THEN <<[name |-> <<"value">>, sub |-> <<>>, val |-> a1.val, scope |-> a1.scope]>> ELSE <<>>)

(* expansion of a component whose type is an alias of a builtin: returns [ok, btype, cmods] *)
AliasExpand(L, tcp, env) ==
    LET fe == FlattenExtends(L, tcp, env) IN
    IF ~fe.ok THEN [ok |-> FALSE, why |-> fe.why]
    ELSE LET vi    == CHOOSE i \in DOMAIN fe.syms : fe.syms[i].name = "__value"
             vs    == fe.syms[vi]
             bad   == {j \in DOMAIN fe.env : fe.env[j].name[1] \notin Attributes \cup {"__value"}}
             moved == FlattenSeq(Map(Filter(fe.env, LAMBDA a : a.name[1] \in {"__value", "value"}), ConvertForElem))
         IN  IF bad # {} THEN [ok |-> FALSE, why |-> "ModificationTargetNotFound"]
             ELSE [ok |-> TRUE, btype |-> vs.type[1], cmods |-> vs.cmods \o moved]     \* the rest of fe.env is dropped

SetScope(args, cp) == Map(args, LAMBDA a : IF a.scope = NoScope THEN [a EXCEPT !.scope = cp] ELSE a)

(* build_instance_tree(class cp, env) at instance path ip: the node and the children to expand *)
ExpandOne(L, cp, env, ip) ==
    LET fe == FlattenExtends(L, cp, env) IN
    IF ~fe.ok THEN [ok |-> FALSE, why |-> fe.why]
    ELSE
    LET names == {fe.syms[i].name : i \in DOMAIN fe.syms}
        RECURSIVE Go(_, _)
        Go(acc, i) ==
            IF i > Len(fe.syms) \/ ~acc.ok THEN acc
            ELSE
            LET s    == fe.syms[i]
                mine == Filter(acc.env, LAMBDA a : a.name[1] = s.name \/ (s.name = "__value" /\ a.name[1] = "value"))
                rest == Filter(acc.env, LAMBDA a : ~(a.name[1] = s.name \/ (s.name = "__value" /\ a.name[1] = "value")))
            IN
            IF IsBuiltinName(s.type) THEN
                Go([acc EXCEPT !.env = rest,
                               !.syms = Append(@, [name |-> s.name, kind |-> "elem", btype |-> s.type[1], prefixes |-> s.prefixes,
                                                   dims |-> s.dims, cmods |-> s.cmods \o FlattenSeq(Map(mine, ConvertForElem))])], i + 1)
            ELSE
            LET tcp == FindFromInstance(L, IF InheritedTypeInDerivedScope THEN cp ELSE s.decl, s.type) IN
            IF tcp = NoClass THEN [acc EXCEPT !.ok = FALSE, !.why = "ClassNotFoundError"]
            ELSE IF ExtendsBuiltin(L, tcp) THEN
                LET cm == SetScope(s.cmods \o FlattenSeq(Map(mine, ConvertForElem)), cp)
                    al == AliasExpand(L, tcp, cm)
                IN  IF ~al.ok THEN [acc EXCEPT !.ok = FALSE, !.why = al.why]
                    ELSE Go([acc EXCEPT !.env = rest,
                                        !.syms = Append(@, [name |-> s.name, kind |-> "elem", btype |-> al.btype, prefixes |-> s.prefixes,
                                                            dims |-> s.dims, cmods |-> al.cmods])], i + 1)
            ELSE IF \E j \in DOMAIN mine : Len(mine[j].name) = 1
                 THEN [acc EXCEPT !.ok = FALSE, !.why = "IndexError"]      \* component.child[0] of a name without child
            ELSE
                LET shifted == Map(mine, LAMBDA a : [a EXCEPT !.name = Tail(a.name)])
                    cm      == SetScope(s.cmods \o shifted, cp)
                IN  Go([acc EXCEPT !.env = rest,
                                   !.syms = Append(@, [name |-> s.name, kind |-> "class", btype |-> "", prefixes |-> s.prefixes,
                                                       dims |-> s.dims, cmods |-> <<>>]),
                                   !.kids = Append(@, [path |-> ip \o <<s.name>>, cp |-> tcp, env |-> cm])], i + 1)
        unknown == {j \in DOMAIN fe.env : fe.env[j].name[1] \notin names \cup Attributes}
        r == Go([ok |-> TRUE, why |-> "", env |-> fe.env, syms |-> <<>>, kids |-> <<>>], 1)
    IN  IF unknown # {} THEN [ok |-> FALSE, why |-> "ModificationTargetNotFound"]
        ELSE IF ~r.ok THEN [ok |-> FALSE, why |-> r.why]
        ELSE [ok |-> TRUE, why |-> "", node |-> [cp |-> cp, syms |-> r.syms, eqs |-> fe.eqs, ieqs |-> fe.ieqs], kids |-> r.kids]

--------------------------------------------------------------------------------
(* OPERATIONAL SIDE 3: flatten_symbols on one instance *)

RECURSIVE RenameE(_, _, _)            \* ComponentRefFlattener: prefix + dotted name, if that is a flat symbol
RenameE(e, prefix, names) ==
    CASE e.k = "ref" ->
            IF e.flat /\ ~ReRenameFlatRefs THEN e
            ELSE IF (prefix \o e.p) \in names THEN [e EXCEPT !.p = prefix \o e.p, !.flat = TRUE] ELSE e
      [] e.k \in {"bin", "neg", "der", "call"} -> [e EXCEPT !.a = [i \in DOMAIN e.a |-> RenameE(e.a[i], prefix, names)]]
      [] OTHER -> e
RenameEq(q, prefix, names) == [l |-> RenameE(q.l, prefix, names), r |-> RenameE(q.r, prefix, names)]

NoAttrs == <<>>
SetAttr(f, a, e) == (a :> e) @@ f

(* modify_symbol: the arguments whose scope is None or the current class, in order, last wins *)
RECURSIVE ApplyArgs(_, _)
ApplyArgs(attrs, args) ==
    IF args = <<>> THEN attrs
    ELSE LET a == Head(args) IN ApplyArgs(SetAttr(attrs, a.name[1], IF a.val # <<>> THEN a.val[1] ELSE [k |-> "garbage"]), Tail(args))

StripIO(pre) == Filter(pre, LAMBDA w : w \notin {"input", "output"})

FlattenOne(node, ip, kidflat) ==       \* kidflat: instance path -> flat of the child
    LET RECURSIVE Go(_, _)
        Go(acc, i) ==
            IF i > Len(node.syms) THEN acc
            ELSE LET s == node.syms[i] IN
                 IF s.kind = "elem"
                 THEN Go([acc EXCEPT !.syms = Append(@, [name |-> ip \o <<s.name>>, type |-> s.btype,
                                                          prefixes |-> IF ip = <<>> THEN s.prefixes ELSE StripIO(s.prefixes),
                                                          dims |-> s.dims, cmods |-> s.cmods, attrs |-> NoAttrs])], i + 1)
                 ELSE LET kf == kidflat[ip \o <<s.name>>] IN
                      Go([acc EXCEPT !.syms = @ \o Map(kf.syms, LAMBDA t : [t EXCEPT !.dims = s.dims \o t.dims]),
                                     !.eqs = @ \o kf.eqs, !.ieqs = @ \o kf.ieqs], i + 1)
        m      == Go([syms |-> <<>>, eqs |-> <<>>, ieqs |-> <<>>], 1)
        here(a) == a.scope = NoScope \/ a.scope = node.cp
        bad    == \E i \in DOMAIN m.syms : \E j \in DOMAIN m.syms[i].cmods :
                      here(m.syms[i].cmods[j]) /\ m.syms[i].cmods[j].name[1] \notin Attributes
        appl   == Map(m.syms, LAMBDA t : [t EXCEPT !.attrs = ApplyArgs(t.attrs, Filter(t.cmods, here)),
                                                   !.cmods = Filter(t.cmods, LAMBDA a : ~here(a))])
        names  == {appl[i].name : i \in DOMAIN appl}
        ren    == Map(appl, LAMBDA t : [t EXCEPT !.attrs = [a \in DOMAIN t.attrs |-> RenameE(t.attrs[a], ip, names)]])
    IN  IF bad THEN [ok |-> FALSE, why |-> "Exception"]
        ELSE [ok |-> TRUE, why |-> "", syms |-> ren,
              eqs  |-> m.eqs  \o Map(node.eqs,  LAMBDA q : RenameEq(q, ip, names)),
              ieqs |-> m.ieqs \o Map(node.ieqs, LAMBDA q : RenameEq(q, ip, names))]

FlatRef(p) == [k |-> "ref", p |-> p, ix |-> <<>>, flat |-> TRUE]

(* expand_connectors on a connect-free model: every flow variable is unconnected *)
FlowEqs(syms) == Map(Filter(syms, LAMBDA t : \E j \in DOMAIN t.prefixes : t.prefixes[j] = "flow"),
                     LAMBDA t : Eq(FlatRef(t.name), Lit(0)))

(* add_state_value_equations *)
IsParam(t) == \E j \in DOMAIN t.prefixes : t.prefixes[j] \in {"parameter", "constant"}
HasValue(t) == "value" \in DOMAIN t.attrs
ValueEqs(syms) == Map(Filter(syms, LAMBDA t : HasValue(t) /\ ~IsParam(t)), LAMBDA t : Eq(FlatRef(t.name), t.attrs["value"]))
DropValue(t) == IF HasValue(t) /\ ~IsParam(t) THEN [t EXCEPT !.attrs = [a \in DOMAIN t.attrs \ {"value"} |-> t.attrs[a]]] ELSE t

Rejected(why) == [rej |-> TRUE, why |-> why, syms |-> <<>>, eqs |-> <<>>, ieqs |-> <<>>]
Pub(t) == [name |-> JoinDot(t.name), path |-> t.name, type |-> t.type, prefixes |-> t.prefixes, dims |-> t.dims, attrs |-> t.attrs]

--------------------------------------------------------------------------------
(* DECLARATIVE SIDE (Appendix C.1 - C.3) *)

RECURSIVE UpdD(_, _)
UpdD(els, new) ==
    IF new = <<>> THEN els
    ELSE LET n   == Head(new)
             idx == {i \in DOMAIN els : els[i].comp.name = n.comp.name}
         IN  UpdD(IF idx = {} THEN Append(els, n) ELSE [els EXCEPT ![CHOOSE i \in idx : TRUE] = n], Tail(new))

(* Elems(C): inherited components (extends in order) then own; each remembers its declaring class
   and the extends-clause modifier lists it was inherited through (outermost first) *)
RECURSIVE ElemsD(_, _)
ElemsD(L, cp) ==
    LET c == ClsIn(L, cp)
        RECURSIVE Go(_, _)
        Go(acc, k) == IF k > Len(c.ext) THEN acc
                      ELSE LET x == c.ext[k] IN
                           IF IsBuiltinName(x.base) THEN Go(acc, k + 1)
                           ELSE LET bp == FindD(L, cp, x.base)
                                    inh == Map(ElemsD(L, bp), LAMBDA el : [el EXCEPT !.via = <<x.mods>> \o @])
                                IN  Go(UpdD(acc, inh), k + 1)
        own == [j \in DOMAIN c.comps |-> [comp |-> c.comps[j], decl |-> cp, via |-> <<>>]]
    IN UpdD(Go(<<>>, 1), own)

RECURSIVE EqsD(_, _, _)
EqsD(L, cp, initial) ==
    LET c == ClsIn(L, cp)
        RECURSIVE Go(_, _)
        Go(acc, k) == IF k > Len(c.ext) THEN acc
                      ELSE IF IsBuiltinName(c.ext[k].base) THEN Go(acc, k + 1)
                      ELSE Go(acc \o EqsD(L, FindD(L, cp, c.ext[k].base), initial), k + 1)
    IN Go(<<>>, 1) \o (IF initial THEN c.ieqs ELSE c.eqs)

(* concrete modifier argument -> abstract modifications [t (component path), a (attribute), e];
   the spelling disappears here *)
SplitPath(full, e) == IF Last(full) \in Attributes THEN [t |-> Front(full), a |-> Last(full), e |-> e]
                      ELSE [t |-> full, a |-> "value", e |-> e]
RECURSIVE AbsArg(_, _)
AbsArg(arg, pre) ==
    LET full == pre \o arg.name IN
    (IF arg.val # <<>> THEN <<SplitPath(full, arg.val[1])>> ELSE <<>>)
    \o FlattenSeq([j \in DOMAIN arg.sub |-> AbsArg(arg.sub[j], full)])
AbsArgs(args, pre) == FlattenSeq([j \in DOMAIN args |-> AbsArg(args[j], pre)])

(* type chain of an elementary component: [base, mods (outer alias first)] *)
RECURSIVE TypeChain(_, _, _)
TypeChain(L, sc, t) ==
    IF IsBuiltinName(t) THEN [base |-> t[1], mods |-> <<>>]
    ELSE LET tcp == FindD(L, sc, t)
             x   == ClsIn(L, tcp).ext[1]
             up  == TypeChain(L, tcp, x.base)
         IN  [base |-> up.base, mods |-> AbsArgs(x.mods, <<>>) \o up.mods]

IsElemD(L, el) == IsBuiltinName(el.comp.type) \/ ExtendsBuiltin(L, FindD(L, el.decl, el.comp.type))

WithSite(ms, q) == Map(ms, LAMBDA m : [t |-> m.t, a |-> m.a, e |-> m.e, q |-> q])

(* leaves(Inst(C, q)) with, for every leaf, ALL applicable modifications, outermost first *)
RECURSIVE LeavesD(_, _, _, _)
LeavesD(L, cp, q, outer) ==
    LET els == ElemsD(L, cp)
        one(el) ==
            LET k     == el.comp
                via   == FlattenSeq([j \in DOMAIN el.via |-> WithSite(AbsArgs(el.via[j], <<>>), q)])
                own   == WithSite(AbsArgs(k.mods, <<k.name>>)
                                  \o (IF k.val # <<>> THEN <<[t |-> <<k.name>>, a |-> "value", e |-> k.val[1]]>> ELSE <<>>), q)
                all   == Filter(outer \o via \o own, LAMBDA m : m.t # <<>> /\ m.t[1] = k.name)
                below == Map(all, LAMBDA m : [m EXCEPT !.t = Tail(m.t)])
            IN  IF IsElemD(L, el)
                THEN LET tc == TypeChain(L, el.decl, k.type) IN
                     <<[path |-> q \o <<k.name>>, type |-> tc.base,
                        prefixes |-> Filter(k.prefixes, LAMBDA w : w \in {"parameter", "constant", "discrete", "flow"}
                                                                   \/ (q = <<>> /\ w \in {"input", "output"})),
                        dims |-> k.dims,
                        mods |-> Filter(below, LAMBDA m : m.t = <<>>) \o WithSite(tc.mods, <<>>)]>>
                ELSE LeavesD(L, FindD(L, el.decl, k.type), q \o <<k.name>>, Filter(below, LAMBDA m : m.t # <<>>))
    IN FlattenSeq([j \in DOMAIN els |-> one(els[j])])

(* every class instance (C, q) of the instance tree *)
RECURSIVE InstancesD(_, _, _)
InstancesD(L, cp, q) ==
    LET els == ElemsD(L, cp)
        sub(el) == IF IsElemD(L, el) THEN <<>> ELSE InstancesD(L, FindD(L, el.decl, el.comp.type), q \o <<el.comp.name>>)
    IN <<[cp |-> cp, q |-> q]>> \o FlattenSeq([j \in DOMAIN els |-> sub(els[j])])

RECURSIVE RenameIn(_, _, _)          \* an expression written in instance q: every name it mentions is q.name
RenameIn(e, q, leafs) ==
    CASE e.k = "ref" -> IF (q \o e.p) \in leafs THEN [e EXCEPT !.p = q \o e.p, !.flat = TRUE] ELSE e
      [] e.k \in {"bin", "neg", "der", "call"} -> [e EXCEPT !.a = [i \in DOMAIN e.a |-> RenameIn(e.a[i], q, leafs)]]
      [] OTHER -> e

Declarative(L, top) ==
    LET lv    == LeavesD(L, top, <<>>, <<>>)
        leafs == {lv[i].path : i \in DOMAIN lv}
        eff(l, a) == LET m == l.mods[CHOOSE j \in DOMAIN l.mods : l.mods[j].a = a /\ \A i \in 1..(j - 1) : l.mods[i].a # a]
                     IN RenameIn(m.e, m.q, leafs)
        attrsOf(l) == [a \in {l.mods[j].a : j \in DOMAIN l.mods} |-> eff(l, a)]
        syms  == Map(lv, LAMBDA l : [name |-> l.path, type |-> l.type, prefixes |-> l.prefixes, dims |-> l.dims,
                                     cmods |-> <<>>, attrs |-> attrsOf(l)])
        insts == InstancesD(L, top, <<>>)
        eqsOf(initial) == FlattenSeq([j \in DOMAIN insts |->
                              Map(EqsD(L, insts[j].cp, initial),
                                  LAMBDA q : [l |-> RenameIn(q.l, insts[j].q, leafs), r |-> RenameIn(q.r, insts[j].q, leafs)])])
    IN [rej |-> FALSE, why |-> "",
        syms |-> Map(Map(syms, DropValue), Pub),
        eqs  |-> eqsOf(FALSE) \o FlowEqs(syms) \o ValueEqs(syms),
        ieqs |-> eqsOf(TRUE),
        leaves |-> lv]

--------------------------------------------------------------------------------
(* Families *)

PreChoices == IF Wide THEN {"", "parameter", "constant", "discrete", "flow", "input", "output"}
              ELSE {"", "parameter", "flow", "input", "output"}
SplitSeqs(d) == {s \in [1..d -> HierModes] : Cardinality({i \in 1..d : s[i] # "none"}) <= (IF Wide THEN 2 ELSE 1)}
PlainSplits(d) == {s \in SplitSeqs(d) : \A i \in 1..d : s[i] \in {"none", "one"}}
ModSplits(d) == PlainSplits(d) \cup {[i \in 1..d |-> IF i = k THEN "chain2" ELSE "none"] : k \in 1..d}

PV(d, f, sm, w, n, s, xt, xd, xp, yp, iq, at, ms, cl, sh) ==
    [depth |-> d, fan |-> f, same |-> sm, wrap |-> w, nest |-> n, split |-> s, xtype |-> xt, xdims |-> xd,
     xpre |-> xp, ypre |-> yp, ieq |-> iq, attr |-> at, mods |-> ms, clash |-> cl, shadow |-> sh, skew |-> FALSE, twin |-> FALSE]
(* dedicated shape: depth 3 / 4, two instances per level, names repeated, second instance two levels down *)
SkewPV(d, at, ms) == [PV(d, 2, TRUE, 0, "lib", [i \in 1..d |-> "none"], "Real", 0, "", "", at = "", at, ms, FALSE, FALSE)
                      EXCEPT !.skew = TRUE]

(* C07: hierarchy shapes with a plain leaf, plus leaf shapes (type alias / dimensions / prefixes) on plain hierarchies *)
LeafShapes == ({"Real", "Integer", "Boolean", "aR", "aI", "aB", "aaR"} \X (0..2) \X {""} \X {""} \X {FALSE})
              \cup ({"Real"} \X {0} \X PreChoices \X PreChoices \X BOOLEAN)
              \* prefixes on variables of alias (derived) type - input / output must be stripped below top level there too
              \cup ({"aR", "aI", "aB", "aaR", "Integer"} \X {0} \X (PreChoices \ {""}) \X {"", "output"} \X {FALSE})
(* NB: TLC evaluates every constant-level definition at start-up, so each family is guarded by Family *)
HierFamily ==
    IF Family # "hier" THEN {} ELSE
    UNION {
        {PV(d, f, sm, w, n, s, "Real", 0, "", "", TRUE, "", <<>>, FALSE, FALSE) :
            f \in (IF d = 1 THEN {1} ELSE 1..2), sm \in (IF d = 1 THEN {FALSE} ELSE BOOLEAN),
            w \in 0..3, n \in {"lib", "user", "userbase"}, s \in SplitSeqs(d)}
        \* the two dedicated shapes: own element replaces the inherited one / nested class shadows a library class
        \cup {PV(d, 1, FALSE, w, n, s, "Real", 0, "", "", TRUE, "", <<>>, c[1], c[2]) :
            w \in (IF Wide THEN {0, 1} ELSE {0}), n \in {"lib", "user", "userbase"},
            s \in (IF Wide \/ d < 3 THEN SplitSeqs(d) ELSE {}), c \in {<<TRUE, FALSE>>, <<FALSE, TRUE>>, <<TRUE, TRUE>>}}
        \cup (IF d = 1 THEN {SkewPV(3, "", <<>>), SkewPV(4, "", <<>>)} ELSE {})
        \* extends chain of length 2 across packages, far base uses package-local (shadowed) model / alias types
        \cup {PV(d, 1, FALSE, 4, "lib", [i \in 1..d |-> IF i = d THEN "chain2" ELSE "none"], xt, 0, "", "", TRUE, "", <<>>, FALSE, FALSE) :
                xt \in {"Real", "aR", "aaR"}}
        \cup (IF d = 3 THEN {[PV(3, 1, FALSE, 0, "lib", [i \in 1..3 |-> "none"], "Real", 0, "", "", TRUE, "", <<>>, FALSE, FALSE)
                              EXCEPT !.twin = TRUE]} ELSE {})
        \cup {PV(d, 1, FALSE, w, "lib", s, l[1], l[2], l[3], l[4], l[5], "", <<>>, FALSE, FALSE) :
            w \in (IF Wide THEN {0, 1} ELSE {0}),
            s \in (IF Wide \/ d < 3 THEN PlainSplits(d) ELSE {[i \in 1..d |-> "none"]}), l \in LeafShapes}
        : d \in 1..MaxDepth}

Sites(d, split, alias) ==
    {[k |-> "decl", i |-> 1]}
    \cup (IF alias THEN {[k |-> "type", i |-> 0]} ELSE {})
    \cup {[k |-> "comp", i |-> i] : i \in 2..d}
    \cup {[k |-> "ext", i |-> i] : i \in {j \in 1..d : split[j] \in {"one", "chain", "multi", "chain2"}}}
    \cup {[k |-> "extb", i |-> i] : i \in {j \in 1..d : split[j] = "chain2"}}

ModSeqs(S, kinds, maxn) ==      \* subsets of at most maxn sites with an expression kind each, outermost first
    UNION {{LET ss == SetToSortSeq(T, LAMBDA a, b : Rank(a) > Rank(b))
            IN  [j \in 1..Cardinality(T) |-> [k |-> ss[j].k, i |-> ss[j].i, e |-> f[j]]]
            : f \in [1..Cardinality(T) -> kinds]} : T \in {U \in SUBSET S : Cardinality(U) \in 1..maxn}}

(* C08 *)
SkewMods == {SkewPV(4, at, ms) : at \in {"start", "value"},
                                   ms \in {<<[k |-> "decl", i |-> 1, e |-> "ref"]>>, <<[k |-> "comp", i |-> 2, e |-> "ref"]>>,
                                           <<[k |-> "comp", i |-> 3, e |-> "ref"], [k |-> "decl", i |-> 1, e |-> "ref"]>>}}
(* two classes with the same short name (B.Top, A.Top) on one instance path, the outer one's modification crosses the inner one *)
TwinMods == {[PV(3, 1, FALSE, 0, "lib", [i \in 1..3 |-> "none"], "Real", 0, "", "", FALSE, at, ms, FALSE, FALSE) EXCEPT !.twin = TRUE] :
                at \in {"start", "value"},
                ms \in {<<[k |-> "comp", i |-> 3, e |-> "ref"], [k |-> "comp", i |-> 2, e |-> "lit"]>>,
                        <<[k |-> "comp", i |-> 3, e |-> "lit"], [k |-> "comp", i |-> 2, e |-> "ref"]>>,
                        <<[k |-> "comp", i |-> 3, e |-> "ref"], [k |-> "comp", i |-> 2, e |-> "ref"], [k |-> "decl", i |-> 1, e |-> "ref"]>>,
                        <<[k |-> "comp", i |-> 3, e |-> "ref"]>>}}
ModsFamily ==
    IF Family # "mods" THEN {} ELSE
    SkewMods \cup TwinMods \cup
    {v \in UNION { UNION {
            {PV(d, 1, sm, 0, "lib", s, xt, 0, xp, "", FALSE, at, ms, FALSE, FALSE) :
                sm \in (IF d >= 3 THEN BOOLEAN ELSE {FALSE}), xp \in {"", "parameter"},
                at \in {"value", "start", "min", "max", "nominal", "fixed", "unit"},
                ms \in ModSeqs(Sites(d, s, xt # "Real"), {"lit", "ref"}, IF d >= 3 /\ ~Wide /\ \A i \in 1..d : s[i] # "chain2" THEN 2 ELSE 3)}
            : s \in ModSplits(d), xt \in {"Real", "aR", "aaR"}} : d \in 1..MaxDepth} :
        \* attribute kinds other than start / value are exercised on the plain shapes only
        /\ (v.attr \notin {"start", "value"} => v.xtype = "Real" /\ v.xpre = "" /\ ~v.same)
        /\ (v.xpre # "" => v.attr = "value" \/ Wide)          \* a parameter's value stays an attribute, a variable's becomes an equation
        /\ (v.attr \in {"fixed", "unit"} => \A j \in DOMAIN v.mods : v.mods[j].e = "lit")
        \* alias-typed (and alias-of-alias) targets: every site and every pair of sites, in every spelling
        /\ (v.xtype # "Real" => v.xpre = "" /\ ~v.same /\ (Wide \/ Len(v.mods) <= 2))
        /\ (v.same => \E j \in DOMAIN v.mods : v.mods[j].e = "ref")
        \* a two-level extends chain is only interesting when BOTH of its clauses modify the target
        /\ \A i \in 1..v.depth : v.split[i] = "chain2" =>
               /\ \E j \in DOMAIN v.mods : v.mods[j].k = "ext" /\ v.mods[j].i = i
               /\ \E j \in DOMAIN v.mods : v.mods[j].k = "extb" /\ v.mods[j].i = i
               /\ v.xtype = "Real" \/ v.attr = "start"
    }

FilePVs == IF Family = "file" THEN JsonDeserialize(IOEnv.PV_FILE) ELSE <<>>

--------------------------------------------------------------------------------
(* Shape tags.  ctags name the features that matter for the known as-built deviations; they become
   the `tags` of violation records so that a known finding can be matched narrowly. *)
SpellableOuter == {j \in DOMAIN pv.mods : pv.mods[j].k \in {"ext", "extb", "comp"}}
CTags(s) ==
    (IF s = "dotted" /\ pv.attr # "value" /\ SpellableOuter # {} THEN {"dotted-attr"} ELSE {})
    \cup (IF pv.attr \notin {"value", "fixed", "unit"} /\ \E j \in SpellableOuter : pv.mods[j].e = "ref" /\ s # "dotted"
          THEN {"outer-attr-ref"} ELSE {})
    \cup (IF pv.xtype = "aaR" /\ \E j \in DOMAIN pv.mods : pv.mods[j].k # "type" /\ pv.attr # "value" THEN {"alias2-attr"} ELSE {})
    \cup (IF pv.same /\ pv.depth >= 4 /\ \E j \in DOMAIN pv.mods : pv.mods[j].e = "ref" THEN {"same-names-ref"} ELSE {})
    \cup (IF pv.wrap \in {3, 4} THEN {"base-in-other-package"} ELSE {})
Tags ==
    {"depth" \o ToString(pv.depth), "fan" \o ToString(pv.fan), "wrap" \o ToString(pv.wrap), "nest-" \o pv.nest,
     "xtype-" \o pv.xtype, "xdims" \o ToString(pv.xdims)}
    \cup {"split" \o ToString(i) \o "-" \o pv.split[i] : i \in {j \in 1..pv.depth : pv.split[j] # "none"}}
    \cup (IF pv.same THEN {"same"} ELSE {})
    \cup (IF pv.xpre # "" THEN {"xpre-" \o pv.xpre} ELSE {}) \cup (IF pv.ypre # "" THEN {"ypre-" \o pv.ypre} ELSE {})
    \cup (IF pv.ieq THEN {"ieq"} ELSE {}) \cup (IF pv.clash THEN {"clash"} ELSE {}) \cup (IF pv.shadow THEN {"shadow"} ELSE {}) \cup (IF pv.skew THEN {"skew"} ELSE {}) \cup (IF pv.twin THEN {"twin"} ELSE {})
    \cup (IF pv.attr # "" THEN {"attr-" \o pv.attr} ELSE {})
    \cup {"site-" \o pv.mods[j].k \o ToString(pv.mods[j].i) \o "-" \o pv.mods[j].e : j \in DOMAIN pv.mods}

--------------------------------------------------------------------------------
(* Actions *)

CurLib == libs[sp]

Reset == /\ todo' = <<>> /\ nodes' = <<>> /\ order' = <<>> /\ flats' = <<>> /\ flat' = <<>>

(* sharding: several TLC processes split one family (IOEnv.NSHARDS / IOEnv.SHARD, default 1 / 0) *)
NShards == IF "NSHARDS" \in DOMAIN IOEnv THEN atoi(IOEnv.NSHARDS) ELSE 1
Shard   == IF "SHARD" \in DOMAIN IOEnv THEN atoi(IOEnv.SHARD) ELSE 0
FamilySet == CASE Family = "hier" -> HierFamily [] Family = "mods" -> ModsFamily [] OTHER -> SeqToSet(FilePVs)

(* a cheap hash of the parameter vector, only used to split a family over shards *)
StrIdx(w) == CASE w = "" -> 0 [] w = "parameter" -> 1 [] w = "constant" -> 2 [] w = "discrete" -> 3 [] w = "flow" -> 4
               [] w = "input" -> 5 [] w = "output" -> 6 [] w = "Real" -> 0 [] w = "Integer" -> 1 [] w = "Boolean" -> 2
               [] w = "aR" -> 3 [] w = "aI" -> 4 [] w = "aB" -> 5 [] w = "aaR" -> 6
               [] w = "none" -> 0 [] w = "one" -> 1 [] w = "late" -> 2 [] w = "chain" -> 3 [] w = "multi" -> 4 [] w = "chain2" -> 5
               [] w = "lib" -> 0 [] w = "user" -> 1 [] w = "userbase" -> 2
               [] w = "value" -> 1 [] w = "start" -> 2 [] w = "min" -> 3 [] w = "max" -> 4 [] w = "nominal" -> 5
               [] w = "fixed" -> 6 [] w = "unit" -> 7 [] w = "lit" -> 0 [] w = "ref" -> 1 [] OTHER -> 9
RECURSIVE SumSeq(_)
SumSeq(q) == IF q = <<>> THEN 0 ELSE Head(q) + SumSeq(Tail(q))
Hash(v) == v.depth * 7 + v.fan * 3 + v.wrap * 5 + v.xdims * 11 + StrIdx(v.xtype) * 13 + StrIdx(v.xpre) * 17
           + StrIdx(v.ypre) * 19 + (IF v.same THEN 23 ELSE 0) + (IF v.ieq THEN 29 ELSE 0) + StrIdx(v.nest) * 31
           + StrIdx(v.attr) * 37 + (IF v.clash THEN 41 ELSE 0) + (IF v.shadow THEN 43 ELSE 0) + (IF v.skew THEN 47 ELSE 0) + (IF v.twin THEN 53 ELSE 0)
           + SumSeq([i \in DOMAIN v.split |-> StrIdx(v.split[i]) * (i + 40)])
           + SumSeq([j \in DOMAIN v.mods |-> (Rank(v.mods[j]) * 2 + StrIdx(v.mods[j].e)) * (j + 52)])

Init == /\ shard = <<NShards, Shard>>
        /\ pv \in FamilySet
        /\ Hash(pv) % shard[1] = shard[2]
        /\ WellFormed
        /\ libs = [j \in DOMAIN Spellings |-> Lib(Spellings[j])]
        /\ decls = <<>>
        /\ sp = 1 /\ pc = "start"
        /\ todo = <<>> /\ nodes = <<>> /\ order = <<>> /\ flats = <<>> /\ flat = <<>>
        /\ res = <<>>
        /\ last = "init"

(* the property side: Appendix C evaluated on the library as spelled *)
Specify ==
    /\ pc = "start"
    /\ decls' = Append(decls, Declarative(CurLib, TopPath))
    /\ pc' = "look" /\ last' = "Specify"
    /\ UNCHANGED <<shard, pv, libs, sp, todo, nodes, order, flats, flat, res>>

(* root.find_class(class_name) *)
Lookup ==
    /\ pc = "look"
    /\ LET cp == FindPlain(CurLib, <<>>, TopPath) IN
       IF cp = NoClass
       THEN /\ res' = Append(res, Rejected("ClassNotFoundError")) /\ pc' = "next" /\ UNCHANGED <<todo, nodes, order, flats, flat>>
       ELSE /\ todo' = <<[path |-> <<>>, cp |-> cp, env |-> <<>>]>> /\ pc' = "inst"
            /\ UNCHANGED <<nodes, order, flats, flat, res>>
    /\ last' = "Lookup" /\ UNCHANGED <<shard, pv, libs, decls, sp>>

(* build_instance_tree on the next queued instance (flatten_extends + modification shifting) *)
ExpandInstance ==
    /\ pc = "inst" /\ todo # <<>>
    /\ LET h == Head(todo)
           r == ExpandOne(CurLib, h.cp, h.env, h.path)
       IN IF ~r.ok
          THEN /\ res' = Append(res, Rejected(r.why)) /\ pc' = "next" /\ UNCHANGED <<todo, nodes, order, flats, flat>>
          ELSE /\ nodes' = (h.path :> r.node) @@ nodes
               /\ todo' = Tail(todo) \o r.kids
               /\ order' = Append(order, h.path)
               /\ pc' = IF Tail(todo) \o r.kids = <<>> THEN "flat" ELSE "inst"
               /\ UNCHANGED <<flats, flat, res>>
    /\ last' = "ExpandInstance" /\ UNCHANGED <<shard, pv, libs, decls, sp>>

(* flatten_symbols on the deepest instance not yet flattened *)
FlattenNode ==
    /\ pc = "flat" /\ order # <<>>
    /\ LET ip == Last(order)
           r  == FlattenOne(nodes[ip], ip, flats)
       IN IF ~r.ok
          THEN /\ res' = Append(res, Rejected(r.why)) /\ pc' = "next" /\ UNCHANGED <<todo, nodes, order, flats, flat>>
          ELSE /\ flats' = (ip :> [syms |-> r.syms, eqs |-> r.eqs, ieqs |-> r.ieqs]) @@ flats
               /\ order' = Front(order)
               /\ IF Len(order) = 1 THEN pc' = "conn" /\ flat' = [syms |-> r.syms, eqs |-> r.eqs, ieqs |-> r.ieqs]
                                    ELSE pc' = "flat" /\ flat' = flat
               /\ UNCHANGED <<todo, nodes, res>>
    /\ last' = "FlattenNode" /\ UNCHANGED <<shard, pv, libs, decls, sp>>

ExpandConnectors ==
    /\ pc = "conn"
    /\ flat' = [flat EXCEPT !.eqs = @ \o FlowEqs(flat.syms)]
    /\ pc' = "vals" /\ last' = "ExpandConnectors"
    /\ UNCHANGED <<shard, pv, libs, decls, sp, todo, nodes, order, flats, res>>

AddValueEquations ==
    /\ pc = "vals"
    /\ res' = Append(res, [rej |-> FALSE, why |-> "", syms |-> Map(Map(flat.syms, DropValue), Pub),
                           eqs |-> flat.eqs \o ValueEqs(flat.syms), ieqs |-> flat.ieqs])
    /\ pc' = "next" /\ last' = "AddValueEquations"
    /\ UNCHANGED <<shard, pv, libs, decls, sp, todo, nodes, order, flats, flat>>

Expected == decls[1]
ExpectedPub == [syms |-> Expected.syms, eqs |-> Expected.eqs, ieqs |-> Expected.ieqs]

NextSpelling ==
    /\ pc = "next"
    /\ IF sp < Len(Spellings)
       THEN sp' = sp + 1 /\ pc' = "start"
       ELSE /\ sp' = sp /\ pc' = "done"
            /\ PrintT(<<"PROG", ToJson([pv |-> pv, top |-> JoinDot(TopPath), tags |-> Tags,
                     variants |-> [j \in DOMAIN Spellings |-> [sp |-> Spellings[j], lib |-> libs[j],
                                                                 ctags |-> CTags(Spellings[j]),
                                                                 rej |-> res[j].rej, why |-> res[j].why,
                                                                 op |-> [syms |-> res[j].syms, eqs |-> res[j].eqs, ieqs |-> res[j].ieqs]]],
                     expect |-> ExpectedPub])>>)
    /\ Reset /\ last' = "NextSpelling" /\ UNCHANGED <<shard, pv, libs, decls, res>>

Next == Specify \/ Lookup \/ ExpandInstance \/ FlattenNode \/ ExpandConnectors \/ AddValueEquations \/ NextSpelling

Spec == Init /\ [][Next]_vars

--------------------------------------------------------------------------------
(* Properties *)

SameFlat(r, d) ==
    /\ Len(r.syms) = Len(d.syms)
    /\ \A i \in DOMAIN r.syms : \E j \in DOMAIN d.syms : r.syms[i] = d.syms[j]
    /\ SameBag(r.eqs, d.eqs) /\ SameBag(r.ieqs, d.ieqs)

(* C07 + C08, main statement: operational = declarative for every spelling that is not rejected *)
OpEqualsDecl ==
    pc = "done" => \A j \in DOMAIN res : res[j].rej \/ SameFlat(res[j], decls[j])

(* C08: equivalent spellings never flatten to different models *)
SpellingInvariance ==
    pc = "done" => \A i, j \in DOMAIN res : (~res[i].rej /\ ~res[j].rej) => SameFlat(res[i], res[j])

(* the declarative definition does not see the spelling at all *)
DeclIgnoresSpelling ==
    pc = "done" => \A j \in DOMAIN Spellings :
        decls[j].syms = decls[1].syms /\ decls[j].eqs = decls[1].eqs /\ decls[j].ieqs = decls[1].ieqs

(* C07: exactly one flat variable per elementary leaf, named by its instance path *)
OneVariablePerLeaf ==
    pc = "done" => \A j \in DOMAIN res : res[j].rej \/
        /\ \A a, b \in DOMAIN res[j].syms : a # b => res[j].syms[a].name # res[j].syms[b].name
        /\ {res[j].syms[a].path : a \in DOMAIN res[j].syms} = {Expected.leaves[i].path : i \in DOMAIN Expected.leaves}

(* the spelling pymoca documents (dotted path to the component, attributes in parentheses) is never rejected *)
CanonicalAccepted == pc = "done" => ~res[1].rej

(* intermediate states: when the instance tree is complete, every elementary symbol holds exactly the
   modifications that apply to it, innermost first (so that applying them in order lets the outermost win) *)
ModsArriveInOrder ==
    (pc = "flat" /\ Len(order) = Cardinality(DOMAIN nodes)) =>
        LET d == decls[sp].leaves IN
        \A i \in DOMAIN d :
            LET ip == Front(d[i].path)
                nm == Last(d[i].path)
            IN  /\ ip \in DOMAIN nodes
                /\ \E k \in DOMAIN nodes[ip].syms :
                      /\ nodes[ip].syms[k].name = nm /\ nodes[ip].syms[k].kind = "elem"
                      /\ [j \in DOMAIN nodes[ip].syms[k].cmods |-> <<nodes[ip].syms[k].cmods[j].name, nodes[ip].syms[k].cmods[j].val>>]
                         = Reverse([j \in DOMAIN d[i].mods |-> <<<<d[i].mods[j].a>>, <<d[i].mods[j].e>>>>])

(* no modification is left on an instance when flattening starts, none on a symbol when it ends *)
NothingPending ==
    pc = "conn" => \A i \in DOMAIN flat.syms : flat.syms[i].cmods = <<>>

(* phases only move forward within one spelling *)
PhaseRank(p) == CASE p = "start" -> 0 [] p = "look" -> 0 [] p = "inst" -> 1 [] p = "flat" -> 2 [] p = "conn" -> 3 [] p = "vals" -> 4
                  [] p = "next" -> 5 [] p = "done" -> 6
PhaseOrder == [][(sp' = sp => PhaseRank(pc') >= PhaseRank(pc)) /\ pv' = pv]_vars

View == <<pv, sp, pc, Len(todo), Len(order), Len(res)>>
================================================================================
