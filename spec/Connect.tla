------------------------------ MODULE Connect ------------------------------
(* Property C09.  Connection-set semantics of pymoca's  tree.expand_connectors.

   PROGRAMS.  A model M with components c1..cN (class Comp_i: connectors a, b
   and a sub-component r : Leaf with connectors x, y) and two connectors p, q
   of its own:

       ports   <<i,"a">> <<i,"b">>   = ci.a  ci.b
               <<i,"x">> <<i,"y">>   = ci.r.x  ci.r.y
               <<0,"p">> <<0,"q">>   = p  q

   A program is a sequence of at most MaxLen connect clauses [sc, l, r]; a clause
   is WRITTEN in a scope: sc = 0 is M itself (endpoints ci.a, ci.b = inside
   connectors, p, q = outside connectors), sc = i is the class of component ci
   (endpoints a, b = outside connectors, r.x, r.y = inside connectors).  At most
   MaxSub clauses are written in component classes (MaxSub = 0 is the one-level
   family of DESIGN.md section 5).  flatten_class lists the clauses of c1 first,
   then c2, ..., then M's own, which is the order expand_connectors sees.
   All connectors have the same class; its variables are given by `layout`, a
   sequence of kinds  "p" potential, "f" flow, "i"/"o" input/output (causal
   potentials), "c" parameter (no connection equation); the layout <<"s">> is
   the scalar signal connector  "connector Pin = Real"  (the port itself is the
   only, potential, variable; the code takes the FoundElementaryClassError path).

   OPERATIONAL SIDE (what the code does, tree.py:1003-1163).  One action per
   step of the loop:
     ProcessConnect  one more connect clause is read: per connector variable an
                     equality row, or for a flow variable the merge of the two
                     keyed dictionaries `flow_connections[left_key]` /
                     `[right_key]` (python object identity modelled by `heap`),
                     repointing every member, popping both names from
                     `disconnected_flow_variables`;
     EmitFlowSums    one sum row per distinct dictionary, sign +1 inside /
                     -1 outside, all + when the set has outside members only;
     EmitDisconnectedZeros   x = 0 for every flow variable never popped.
   Because the loop never looks ahead, every prefix of a program is a program:
   ProcessConnect both chooses the next clause and processes it.

   DECLARATIVE SIDE (the property; DESIGN.md appendix C.4).  Vertices are
   (port, inside?) pairs; connection sets = connected components of the connect
   graph; per set all potentials equal and  SUM inside - SUM outside = 0  for
   each flow variable; every flow variable of a port that occurs in no clause
   is zero.

   TLC decides, for every program of the bound, that the emitted rows and the
   declarative rows have the SAME SOLUTION SPACE:
     * SameSolutionsGeneric : exact integer elimination,  rank E = rank D =
       rank (E u D)  per connector variable;
     * SameSolutionsStructural : the structural argument - an emitted row is
       implied iff its coefficients sum to zero on every potential set and are
       a common multiple of the sign vector on every flow set (isolated ports
       are singleton sets); equal rank by counting SUM(|set|-1) resp. #sets.
   plus the inductive invariant that makes the incremental algorithm right
   (DictsAreComponents: the dictionary objects are exactly the components of
   the clauses read so far, no stale object is referenced).

   SWITCH  ZeroIfNotConnectedAsInside.  Modelica 3.4 section 9.2 additionally
   demands  z = 0  for each flow variable of a connector "that is not connected
   as an inside connector in any element instance".  For the connectors of a
   COMPONENT (ci.a connected only from inside Comp_i, i.e. as outside connector)
   the code does not emit it, because the name was popped when the inner clause
   was read.  The property's third sentence ("appears in no connection") does
   not demand it, so FALSE is the verdict-relevant setting.  TRUE is kept as a
   documented stricter variant: Connect_strict92.cfg (SameSolutionsGeneric with
   the switch TRUE) is EXPECTED to fail, shortest counterexample
   "connect(a, r.x) written in Comp1".  For the programs on which the two
   readings ask for different solution spaces (ReadingsDiffer, tag "strict-gap")
   the PROG line carries both expected row sets and the binding accepts either. *)
EXTENDS Integers, Sequences, FiniteSets, TLC, Json, IOUtils

CONSTANTS NComp,        \* number of components c1..cN
          MaxLen,       \* max number of connect clauses
          MaxSub,       \* max number of clauses written inside component classes
          WithLeaf,     \* component classes contain the sub-component r : Leaf (needed when MaxSub > 0)
          Layouts,      \* set of connector layouts (sequences of kinds)
          AllowSelf,    \* connect(a, a) allowed
          Emit,         \* print one PROG line per program (oracle mode)
          FullLen, NParts, Part,   \* programs of length >= FullLen: only the share Part of NParts is finished
          ZeroIfNotConnectedAsInside

VARIABLES layout,       \* the connector class of this program
          prog,         \* clauses read so far: sequence of [sc, l, r]
          pc,           \* "connects" | "zeros" | "done"
          fcKeys,       \* flow_connections: keys in insertion order, key = <<port, var, inside>>
          fcObj,        \* flow_connections: key -> id of the dictionary object it points to
          heap,         \* dictionary objects: id -> sequence of keys (insertion order)
          nextId,
          disc,         \* disconnected_flow_variables: sequence of <<port, var>>
          eqs,          \* emitted rows, in emission order; row = sequence of <<port, var, coef>>
          tags          \* shape tags of the program (history variable)

vars == <<layout, prog, pc, fcKeys, fcObj, heap, nextId, disc, eqs, tags>>

(* values for the cfg files (a cfg file cannot contain tuples or read the environment) *)
PartEnv == atoi(IOEnv.C09_PART)
NPartsEnv == atoi(IOEnv.C09_NPARTS)
LayoutsPF == {<<"p", "f">>}
LayoutsRich == {<<"f", "p">>, <<"p", "p", "f">>, <<"f", "p", "f">>, <<"p", "f", "f", "p">>,
                <<"i", "f", "o">>, <<"c", "p", "f">>, <<"p">>, <<"f">>, <<"o", "c", "i">>, <<"s">>}

-----------------------------------------------------------------------------
(* helpers *)
Range(s) == {s[n] : n \in DOMAIN s}
InSeq(x, s) == \E n \in DOMAIN s : s[n] = x
RECURSIVE SumSet(_, _)
SumSet(S, f) == IF S = {} THEN 0 ELSE LET x == CHOOSE x \in S : TRUE IN f[x] + SumSet(S \ {x}, f)
Abs(n) == IF n < 0 THEN -n ELSE n

-----------------------------------------------------------------------------
(* ports and scopes *)
CompBlock(i) == IF WithLeaf THEN << <<i, "a">>, <<i, "b">>, <<i, "x">>, <<i, "y">> >>
                            ELSE << <<i, "a">>, <<i, "b">> >>
PortSeq ==      \* declaration order of the connectors in the flat class
    LET f[i \in 0..NComp] == IF i = 0 THEN <<>> ELSE f[i - 1] \o CompBlock(i)
    IN  f[NComp] \o << <<0, "p">>, <<0, "q">> >>
Ports == Range(PortSeq)
PortIdxF == [p \in Ports |-> CHOOSE n \in DOMAIN PortSeq : PortSeq[n] = p]
PortIdx(p) == PortIdxF[p]

Scopes == 0..NComp
ScopeRank(sc) == IF sc = 0 THEN NComp + 1 ELSE sc      \* order in which flatten lists the clauses
EndpointsF == [sc \in Scopes |-> IF sc = 0 THEN {p \in Ports : p[2] \in {"a", "b", "p", "q"}}
                                            ELSE {p \in Ports : p[1] = sc}]
Endpoints(sc) == EndpointsF[sc]
(* tree.py:674-679: a reference with more than one name part in the class where the clause is written *)
Inside(sc, p) == IF sc = 0 THEN p[1] # 0 ELSE p[2] \in {"x", "y"}

(* symmetry classes used to enumerate one representative per renaming *)
Cls(p) == IF p[1] = 0 THEN <<"top", 0>>
          ELSE IF p[2] \in {"x", "y"} THEN <<"leaf", p[1]>>
          ELSE <<"comp", IF MaxSub = 0 THEN 0 ELSE p[1]>>
EarlierInClass == [x \in Ports |-> {y \in Ports : Cls(y) = Cls(x) /\ PortIdx(y) < PortIdx(x)}]
Used == UNION {{prog[n].l, prog[n].r} : n \in DOMAIN prog}
CanonOK(U, x) == EarlierInClass[x] \subseteq U

VarIdx == DOMAIN layout
IsPot(j) == layout[j] \in {"p", "i", "o", "s"}
IsFlow(j) == layout[j] = "f"

-----------------------------------------------------------------------------
(* declarative side: connection sets of a clause sequence *)
VL(c) == <<c.l, Inside(c.sc, c.l)>>
VR(c) == <<c.r, Inside(c.sc, c.r)>>
Verts(P) == UNION {{VL(P[n]), VR(P[n])} : n \in DOMAIN P}
Adj(P, v) == {v} \cup {VR(P[n]) : n \in {m \in DOMAIN P : VL(P[m]) = v}}
                 \cup {VL(P[n]) : n \in {m \in DOMAIN P : VR(P[m]) = v}}
RECURSIVE Reach(_, _)
Reach(P, S) == LET T == UNION {Adj(P, v) : v \in S} IN IF T = S THEN S ELSE Reach(P, T)
Comps(P) == {Reach(P, {v}) : v \in Verts(P)}
CompOf(P, v) == Reach(P, {v})

Sign(v) == IF v[2] THEN 1 ELSE -1
ConnectedPorts(P) == {v[1] : v \in Verts(P)}
ConnectedAsInside(P) == {v[1] : v \in {w \in Verts(P) : w[2]}}
(* ports whose flow variables must be zero; strict = Modelica 3.4 section 9.2 reading for component connectors *)
ZeroPorts(P, strict) ==
    (Ports \ ConnectedPorts(P))
    \cup (IF strict THEN {p \in Ports : p[1] # 0} \ ConnectedAsInside(P) ELSE {})
(* component connectors that are connected, but never as an inside connector: only there can the readings differ *)
GapCandidates(P) == {p \in (ConnectedPorts(P) \ ConnectedAsInside(P)) : p[1] # 0}

(* rows as coefficient functions over Ports *)
Diff(a, b) == [p \in Ports |-> (IF p = a THEN 1 ELSE 0) - (IF p = b THEN 1 ELSE 0)]
Unit(a) == [p \in Ports |-> IF p = a THEN 1 ELSE 0]
SetRow(S) == [p \in Ports |-> (IF <<p, TRUE>> \in S THEN 1 ELSE 0) - (IF <<p, FALSE>> \in S THEN 1 ELSE 0)]
ZeroRow == [p \in Ports |-> 0]

FirstPort(S) == CHOOSE p \in {v[1] : v \in S} : \A v \in S : PortIdx(p) <= PortIdx(v[1])
DPot(P) == UNION {{Diff(FirstPort(S), y[1]) : y \in S} : S \in Comps(P)} \ {ZeroRow}
DFlow(P, strict) == {SetRow(S) : S \in Comps(P)} \cup {Unit(p) : p \in ZeroPorts(P, strict)}
DRowsWith(P, j, strict) == IF IsPot(j) THEN DPot(P) ELSE IF IsFlow(j) THEN DFlow(P, strict) ELSE {}
DRows(P, j) == DRowsWith(P, j, ZeroIfNotConnectedAsInside)

-----------------------------------------------------------------------------
(* operational side *)

(* disconnected_flow_variables at loop entry: every flow symbol, in declaration order *)
FlowIdx(lay) == SelectSeq([k \in DOMAIN lay |-> k], LAMBDA k : lay[k] = "f")
RECURSIVE AllFlow(_, _)
AllFlow(n, lay) == IF n > Len(PortSeq) THEN <<>>
                   ELSE [m \in DOMAIN FlowIdx(lay) |-> <<PortSeq[n], FlowIdx(lay)[m]>>] \o AllFlow(n + 1, lay)

Init ==
    /\ layout \in Layouts
    /\ prog = <<>>
    /\ pc = "connects"
    /\ fcKeys = <<>>
    /\ fcObj = <<>>          \* empty function
    /\ heap = <<>>
    /\ nextId = 1
    /\ disc = AllFlow(1, layout)
    /\ eqs = <<>>
    /\ tags = {}


(* the flow branch of the loop body for one flow variable (tree.py:1083-1121) *)
FlowMerge(st, lk, rk) ==
    LET hasL == lk \in DOMAIN st.fcObj
        hasR == rk \in DOMAIN st.fcObj
        Lc == IF hasL THEN st.heap[st.fcObj[lk]] ELSE <<>>      \* flow_connections.get(left_key, OrderedDict())
        Rc == IF hasR THEN st.heap[st.fcObj[rk]] ELSE <<>>
        upd == Lc \o SelectSeq(Rc, LAMBDA k : ~InSeq(k, Lc))    \* left.update(right)
        m1 == IF InSeq(lk, upd) THEN upd ELSE Append(upd, lk)   \* connected_variables[left_key] = ...
        m2 == IF InSeq(rk, m1) THEN m1 ELSE Append(m1, rk)      \* connected_variables[right_key] = ...
        id == IF hasL THEN st.fcObj[lk] ELSE st.nextId          \* the left dictionary object is the one kept
        members == Range(m2)
        newKeys == SelectSeq(m2, LAMBDA k : k \notin DOMAIN st.fcObj)
        obj2 == [k \in DOMAIN st.fcObj \cup members |-> IF k \in members THEN id ELSE st.fcObj[k]]
        live == {obj2[k] : k \in DOMAIN obj2}
    IN  [st EXCEPT !.fcObj = obj2,
                   !.heap = [i \in live |-> IF i = id THEN m2 ELSE st.heap[i]],   \* unreferenced objects are garbage
                   !.fcKeys = @ \o newKeys,
                   !.nextId = IF hasL THEN @ ELSE @ + 1,
                   !.disc = SelectSeq(@, LAMBDA d : d # <<lk[1], lk[2]>> /\ d # <<rk[1], rk[2]>>)]

(* loop over the connector variables of the left connector class *)
RECURSIVE ProcVars(_, _, _)
ProcVars(st, c, j) ==
    IF j > Len(layout) THEN st
    ELSE IF IsPot(j) THEN ProcVars([st EXCEPT !.eqs = Append(@, << <<c.l, j, 1>>, <<c.r, j, -1>> >>)], c, j + 1)
    ELSE IF IsFlow(j) THEN ProcVars(FlowMerge(st, <<c.l, j, Inside(c.sc, c.l)>>, <<c.r, j, Inside(c.sc, c.r)>>), c, j + 1)
    ELSE ProcVars(st, c, j + 1)          \* constants / parameters are skipped

(* sampling gate for the longest programs: all programs shorter than FullLen are generated, of the others
   (and hence of their extensions) the share Part of NParts *)
RECURSIVE Hash(_, _)
Hash(P, n) == IF n > Len(P) THEN 0
              ELSE (7 * Hash(P, n + 1) + 3 * PortIdx(P[n].l) + 5 * PortIdx(P[n].r) + P[n].sc) % 1009
Selected(P) == Len(P) < FullLen \/ Hash(P, 1) % NParts = Part

ShapeTag(c) ==   \* class of this clause with respect to the sets built so far (declarative)
    LET V == Verts(prog)
        inL == VL(c) \in V
        inR == VR(c) \in V
    IN  IF c.l = c.r THEN (IF inL THEN "self-old" ELSE "self-new")
        ELSE IF inL /\ inR THEN (IF CompOf(prog, VL(c)) = CompOf(prog, VR(c)) THEN "redundant" ELSE "merge")
        ELSE IF inL THEN "extend-left-set"
        ELSE IF inR THEN "extend-right-set"
        ELSE "fresh"

ProcessConnect(sc, l, r) ==
    /\ pc = "connects"
    /\ Len(prog) < MaxLen
    /\ AllowSelf \/ l # r
    /\ prog # <<>> => ScopeRank(sc) >= ScopeRank(prog[Len(prog)].sc)
    /\ sc # 0 => Cardinality({n \in DOMAIN prog : prog[n].sc # 0}) < MaxSub
    /\ CanonOK(Used, l) /\ CanonOK(Used \cup {l}, r)
    /\ LET c == [sc |-> sc, l |-> l, r |-> r]
           st0 == [fcKeys |-> fcKeys, fcObj |-> fcObj, heap |-> heap, nextId |-> nextId,
                   disc |-> disc, eqs |-> eqs]
           st == ProcVars(st0, c, 1)
       IN  /\ Selected(Append(prog, c))
           /\ prog' = Append(prog, c)
           /\ fcKeys' = st.fcKeys /\ fcObj' = st.fcObj /\ heap' = st.heap /\ nextId' = st.nextId
           /\ disc' = st.disc /\ eqs' = st.eqs
           /\ tags' = tags \cup {ShapeTag(c)} \cup (IF sc # 0 THEN {"hier"} ELSE {})
    /\ UNCHANGED <<layout, pc>>

SumRow(c) ==
    LET allOut == \A n \in DOMAIN c : ~c[n][3]      \* "All outer variables. Don't include unnecessary minus"
    IN  [n \in DOMAIN c |-> <<c[n][1], c[n][2], IF allOut \/ c[n][3] THEN 1 ELSE -1>>]
RECURSIVE Sums(_, _, _)
Sums(i, processed, acc) ==
    IF i > Len(fcKeys) THEN acc
    ELSE LET c == heap[fcObj[fcKeys[i]]]
         IN  IF InSeq(c, processed) THEN Sums(i + 1, processed, acc)
             ELSE Sums(i + 1, Append(processed, c), Append(acc, SumRow(c)))

EmitFlowSums ==
    /\ pc = "connects"
    /\ pc' = "zeros"
    /\ eqs' = eqs \o Sums(1, <<>>, <<>>)
    /\ UNCHANGED <<layout, prog, fcKeys, fcObj, heap, nextId, disc, tags>>

-----------------------------------------------------------------------------
(* rows of the final equation list as coefficient functions *)
RowVar(row) == row[1][2]
Coef(row, p) == LET T == {n \in DOMAIN row : row[n][1] = p} IN SumSet(T, [n \in T |-> row[n][3]])
CoefFn(row) == [p \in Ports |-> Coef(row, p)]
ERowsOf(E, j) == {CoefFn(E[n]) : n \in {m \in DOMAIN E : RowVar(E[m]) = j}} \ {ZeroRow}

(* exact rank by fraction-free elimination on sets of integer rows *)
RECURSIVE Rank(_, _)
Rank(rows, cols) ==
    IF rows = {} \/ cols = {} THEN 0
    ELSE LET c == CHOOSE c \in cols : TRUE
             nz == {r \in rows : r[c] # 0}
             rest == cols \ {c}
         IN  IF nz = {} THEN Rank({[d \in rest |-> r[d]] : r \in rows} \ {[d \in rest |-> 0]}, rest)
             ELSE LET p == CHOOSE r \in nz : TRUE
                      red == {[d \in rest |-> p[c] * r[d] - r[c] * p[d]] : r \in rows \ {p}}
                  IN  1 + Rank(red \ {[d \in rest |-> 0]}, rest)
RankP(rows) == Rank(rows, Ports)

(* the two readings ask for different solution spaces (the extra z = 0 rows are not already implied) *)
ReadingsDiffer(P) == /\ \E j \in VarIdx : IsFlow(j)
                     /\ GapCandidates(P) # {}
                     /\ RankP(DFlow(P, TRUE)) # RankP(DFlow(P, FALSE))

TermsOf(f, j) == LET s == SelectSeq(PortSeq, LAMBDA p : f[p] # 0) IN [n \in DOMAIN s |-> <<s[n], j, f[s[n]]>>]
ExpectRows(strict) == UNION {{TermsOf(f, j) : f \in DRowsWith(prog, j, strict)} : j \in VarIdx}

EmitDisconnectedZeros ==
    /\ pc = "zeros"
    /\ pc' = "done"
    /\ eqs' = eqs \o [n \in DOMAIN disc |-> << <<disc[n][1], disc[n][2], 1>> >>]
    /\ Emit => PrintT(<<"PROG", ToJson([prog |-> [layout |-> layout, ncomp |-> NComp, clauses |-> prog],
                                tags |-> tags \cup {"len" \o ToString(Len(prog))}
                                             \cup (IF ReadingsDiffer(prog) THEN {"strict-gap"} ELSE {}),
                                expect |-> [rows |-> ExpectRows(FALSE),
                                            alt |-> IF ReadingsDiffer(prog) THEN ExpectRows(TRUE) ELSE {},
                                            emitted |-> eqs']])>>)
    /\ UNCHANGED <<layout, prog, fcKeys, fcObj, heap, nextId, disc, tags>>

Next == \/ \E sc \in Scopes : \E l, r \in Endpoints(sc) : ProcessConnect(sc, l, r)
        \/ EmitFlowSums
        \/ EmitDisconnectedZeros

Spec == Init /\ [][Next]_vars

-----------------------------------------------------------------------------
(* invariants *)

(* the dictionary-of-dictionaries is a partition into the connection sets of the clauses read so far *)
DictsAreComponents ==
    pc = "connects" =>
        /\ Range(fcKeys) = DOMAIN fcObj
        /\ \A n, m \in DOMAIN fcKeys : n # m => fcKeys[n] # fcKeys[m]
        /\ \A k \in DOMAIN fcObj :
              LET c == heap[fcObj[k]] IN
              /\ \A n, m \in DOMAIN c : n # m => c[n] # c[m]
              /\ InSeq(k, c)                                        \* no stale object
              /\ \A k2 \in Range(c) : k2 \in DOMAIN fcObj /\ fcObj[k2] = fcObj[k]
        /\ \A j \in VarIdx : IsFlow(j) =>
              {{<<k[1], k[3]>> : k \in Range(heap[i])} : i \in {fcObj[k] : k \in {q \in DOMAIN fcObj : q[2] = j}}}
                  = Comps(prog)
        /\ Range(disc) = {<<p, j>> : p \in Ports \ ConnectedPorts(prog), j \in {i \in VarIdx : IsFlow(i)}}

(* every row speaks about one connector variable; parameters get no row *)
RowsPure ==
    \A n \in DOMAIN eqs : /\ \A t \in DOMAIN eqs[n] : eqs[n][t][2] = RowVar(eqs[n])
                          /\ layout[RowVar(eqs[n])] # "c"

(* same solution space, generic: exact elimination *)
SameSolutionsGeneric ==
    pc = "done" => \A j \in VarIdx :
        LET E == ERowsOf(eqs, j)
            D == DRows(prog, j)
            rE == RankP(E)
        IN  /\ rE = RankP(D)
            /\ rE = RankP(E \cup D)

(* same solution space, structural argument (valid when no port is seen both from inside and from outside) *)
AllSets == Comps(prog) \cup {{<<p, TRUE>>} : p \in Ports \ ConnectedPorts(prog)}
Disjoint == \A p \in Ports : ~(<<p, TRUE>> \in Verts(prog) /\ <<p, FALSE>> \in Verts(prog))
ImpliedPot(f) == \A S \in AllSets : SumSet({v[1] : v \in S}, f) = 0
ImpliedFlow(f) == \A S \in AllSets : \A v, w \in S : f[v[1]] * Sign(w) = f[w[1]] * Sign(v)
SameSolutionsStructural ==
    (pc = "done" /\ Disjoint) => \A j \in VarIdx :
        LET E == ERowsOf(eqs, j) IN
        /\ IsPot(j)  => /\ \A f \in E : ImpliedPot(f)
                        /\ RankP(E) = SumSet(AllSets, [S \in AllSets |-> Cardinality(S) - 1])
        /\ IsFlow(j) => /\ \A f \in E : ImpliedFlow(f)
                        /\ RankP(E) = Cardinality(AllSets)
        /\ layout[j] = "c" => E = {}

(* number of equations: one per clause and potential variable; one per set and per unconnected port and flow variable *)
EquationCount ==
    pc = "done" => \A j \in VarIdx :
        LET n == Cardinality({m \in DOMAIN eqs : RowVar(eqs[m]) = j}) IN
        /\ IsPot(j) => n = Len(prog)
        /\ IsFlow(j) => n = Cardinality(Comps(prog)) + Cardinality(Ports \ ConnectedPorts(prog))
=============================================================================
