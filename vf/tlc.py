"""Run TLC on a module of /verif/spec and collect what the harness needs.

* statistics (distinct / generated states, depth)
* the TR-log: one JSON object per explored transition, printed by the spec's
  always-true ACTION_CONSTRAINT  ``Log == PrintT(<<"TR", ToJson(...)>>)``
  (any tag can be used; lines are grouped by tag)
* invariant / property violations and the textual counterexample
* per-action coverage when asked for
"""
import json
import os
import re
import shutil
import subprocess
import tempfile
import time

VERIF = os.path.dirname(os.path.dirname(os.path.abspath(__file__)))
SPEC = os.path.join(VERIF, "spec")
JAR = "/opt/veriftools/tla/tla2tools.jar"


class TLCError(Exception):
    """TLC itself failed (parse error, evaluation error, timeout)."""


class TLCResult:
    def __init__(self):
        self.rc = None
        self.distinct = 0
        self.generated = 0
        self.depth = 0
        self.tagged = {}        # tag -> list of decoded JSON objects
        self.violated = []      # names of violated invariants / properties
        self.deadlock = False
        self.cex = ""           # textual counterexample, if any
        self.coverage = {}      # action name -> (distinct, total)
        self.wall = 0.0
        self.cmd = ""
        self.out = ""

    def tr(self, tag="TR"):
        return self.tagged.get(tag, [])


_TAGLINE = re.compile(r'^<<"([A-Z]+)", (".*")>>$')


def parse_output(out, res):
    lines = out.splitlines()
    i = 0
    seen_error = False
    while i < len(lines):
        ln = lines[i]
        if ln.startswith('<<"'):
            # TLC may wrap very long tuples; join until the closing >>
            buf = ln
            while not buf.endswith('">>') and i + 1 < len(lines):
                i += 1
                buf += lines[i].strip()
            m = _TAGLINE.match(buf)
            if m and not seen_error:
                try:
                    obj = json.loads(json.loads(m.group(2)))
                    res.tagged.setdefault(m.group(1), []).append(obj)
                except ValueError as e:
                    raise TLCError("cannot decode tagged line: %s ... (%s)" % (buf[:200], e))
        elif ln.startswith("Error: Invariant ") and " is violated" in ln:
            if ln.split()[2] not in res.violated:      # with -continue the same invariant is reported many times
                res.violated.append(ln.split()[2])
            seen_error = True
        elif ln.startswith("Error: Action property ") or ln.startswith("Error: Temporal properties"):
            res.violated.append(ln[len("Error: "):].strip())
            seen_error = True
        elif ln.startswith("Error: Postcondition "):
            res.violated.append("POSTCONDITION:" + ln.split()[2])
            seen_error = True
        elif ln.startswith("Error: Deadlock reached"):
            res.deadlock = True
            seen_error = True
        elif ln.startswith("Error:") and "The behavior up to this point" not in ln \
                and "The following behavior constitutes a counter-example" not in ln:
            seen_error = True
            res.errors = getattr(res, "errors", []) + [ln]
        m = re.match(r"^(\d+) states generated, (\d+) distinct states found", ln)
        if m:
            res.generated = int(m.group(1))
            res.distinct = int(m.group(2))
        m = re.match(r"^The depth of the complete state graph search is (\d+)", ln)
        if m:
            res.depth = int(m.group(1))
        m = re.match(r"^<(\w+) line \d+, col \d+ to line \d+, col \d+ of module \w+>: (\d+):(\d+)", ln)
        if m:
            a = res.coverage.get(m.group(1), (0, 0))
            res.coverage[m.group(1)] = (a[0] + int(m.group(2)), a[1] + int(m.group(3)))
        i += 1
    k = out.find("Error:")
    if k >= 0:
        res.cex = out[k:k + 20000]


def run(module, cfg, *, workers=1, simulate=None, depth=None, seed=0, env=None,
        timeout=900, coverage=False, deadlock=True, heap="6g", expect_violation=False,
        extra=(), spec_dir=SPEC, dfid=None):
    """Run TLC.  `cfg` is a file name inside spec_dir.  Returns TLCResult.

    Raises TLCError on machinery failure (SANY error, TLC evaluation error,
    timeout).  Invariant violations are *results*, not errors.
    """
    meta = tempfile.mkdtemp(prefix="vftlc_")
    cmd = ["tlc"]
    cmd += ["-workers", str(workers), "-metadir", meta, "-noGenerateSpecTE", "-config", cfg]
    if not deadlock:
        cmd += ["-deadlock"]
    if coverage:
        cmd += ["-coverage", "1"]
    if simulate:
        cmd += ["-simulate", simulate]
    if depth:
        cmd += ["-depth", str(depth)]
    if dfid:
        cmd += ["-dfid", str(dfid)]
    if simulate or seed:
        cmd += ["-seed", str(seed)]
    cmd += list(extra)
    cmd += [module + ".tla"]
    e = dict(os.environ)
    e.setdefault("JAVA_TOOL_OPTIONS", "")
    if env:
        e.update({k: str(v) for k, v in env.items()})
    res = TLCResult()
    res.cmd = " ".join(cmd)
    t0 = time.time()
    try:
        p = subprocess.run(cmd, cwd=spec_dir, env=e, stdout=subprocess.PIPE, stderr=subprocess.STDOUT,
                           timeout=timeout, text=True, errors="replace")
    except subprocess.TimeoutExpired:
        shutil.rmtree(meta, ignore_errors=True)
        subprocess.run(["pkill", "-f", meta], check=False)
        raise TLCError("TLC timed out after %ss: %s" % (timeout, res.cmd))
    finally:
        shutil.rmtree(meta, ignore_errors=True)
    res.wall = time.time() - t0
    res.rc = p.returncode
    res.out = p.stdout
    parse_output(p.stdout, res)
    bad = ("Parsing or semantic analysis failed" in p.stdout
           or "TLC threw an unexpected exception" in p.stdout
           or "Error: Evaluating" in p.stdout
           or "Error: The exception was" in p.stdout
           or "was not found" in p.stdout and "Error:" in p.stdout and not res.violated)
    errs = [x for x in getattr(res, "errors", [])]
    if bad or (p.returncode != 0 and not res.violated and not res.deadlock):
        tail = "\n".join(p.stdout.splitlines()[-40:])
        raise TLCError("TLC failed (rc=%s) for %s\n%s\n%s" % (p.returncode, res.cmd, "\n".join(errs[:5]), tail))
    return res


def sany(module, spec_dir=SPEC):
    p = subprocess.run(["tla-sany", module + ".tla"], cwd=spec_dir, stdout=subprocess.PIPE,
                       stderr=subprocess.STDOUT, text=True)
    ok = p.returncode == 0 and "Semantic errors" not in p.stdout and "Parse Error" not in p.stdout \
        and "Fatal errors" not in p.stdout and "Could not find" not in p.stdout
    return ok, p.stdout
