\* EXPECTED TO FAIL: with the Modelica 3.4 section 9.2 reading for component connectors the as-built
\* algorithm misses  z = 0  for a connector that is connected only as an outside connector
CONSTANTS NComp = 1  MaxLen = 2  MaxSub = 2  WithLeaf = TRUE
          Layouts <- LayoutsPF
          AllowSelf = TRUE  Emit = FALSE
          FullLen = 99  NParts = 1  Part = 0
          ZeroIfNotConnectedAsInside = TRUE
INIT Init
NEXT Next
INVARIANT SameSolutionsGeneric
CHECK_DEADLOCK FALSE
