\* C20 intended (quick): sub-folder file, both library folders, three option sets, two versions; quotient by VIEW
CONSTANTS K = 2
          Editable = {"M","L2","S"}
          Addable = {"S"}
          OptNames = {"O1","O4"}
          Modes = {"cache"}
          Versions = {1,2}
          Holds = {FALSE}
          MaxClock = 1000000
          LibFoldersInKey = TRUE
          Beyond = {}
          OptionValuesCompared = TRUE
          FreshLibHandles = TRUE
INIT Init
NEXT Next
VIEW View
INVARIANT TypeOK
INVARIANT ClockInv
INVARIANT ResultIsFresh
PROPERTY ResultIsFreshAct
INVARIANT HitImpliesFresh
PROPERTY EditInvalidates
PROPERTY TransferLeavesValidCache
PROPERTY HitIsReadOnly
CHECK_DEADLOCK FALSE
