\* oracle enumeration of program family "index" (quick bounds), INTENDED switches: TLC must pass.
\* One PROG line (program IR, shape tags, expected rows at the defined points) per program.
CONSTANTS Family = "index" Tier = "quick"
  DivMapped = TRUE SlicesRangeChecked = TRUE LoopIndexRangeChecked = TRUE PartialSubscriptIsRow = TRUE CallFirstOutput = TRUE StepRangeParsed = TRUE RangeStopExact = TRUE IfStmtSequential = TRUE ExploreOptions = FALSE
INIT Init
NEXT Next
INVARIANT WellTyped
INVARIANT RejectsIffIndexBad
INVARIANT GenValueAgrees
CHECK_DEADLOCK FALSE
