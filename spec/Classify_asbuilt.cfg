\* C10 as-built (two-keyword prefixes glued by the parser): TLC is EXPECTED to report a violation
CONSTANTS Pairs = "none" GluedPrefixes = TRUE
INIT Init
NEXT Next
VIEW View
CHECK_DEADLOCK FALSE
PROPERTY PhaseOrder
INVARIANT ChainComputesCat
INVARIANT ExactlyOnce
INVARIANT DerBijection
INVARIANT OutputsRight
INVARIANT OrderKept
