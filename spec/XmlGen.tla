------------------------------- MODULE XmlGen -------------------------------
(* Property C25.  pymoca's ModelicaXML back end (backends/xml/generator.py).

   Oracle-mode specification.  A behaviour picks a flat model `prog` and then
   runs XmlGenerator's bottom-up walk as named actions

       ExitSymbol    one per flat variable: component / builtin / modifier / item elements
       ExitEquation  one per flat equation: equal / when and the expression elements below
       ExitClass     class + equation section,   ExitTree  modelica / declarations
       WriteOut     the element tree that is written out

   Elements live in a HEAP with parent pointers and are created by `NewElem`,
   which has lxml's semantics: an element has one parent, so handing an element
   that already has a parent to a new parent MOVES it.  This is what makes the
   as-built treatment of declaration equations (`Real y = 3;` becomes the flat
   equation `y = 3` whose left side is the Symbol node, i.e. the component
   element itself) lose the left operand.

   The PROPERTY side is declarative: XmlOf(prog) built as a plain tree, plus the
   reader ExprOf/EqOf (the inverse, following backends/xml/parser.py: `operator`
   and `apply` are applications, distinguished only by arity) with the theorem
   "reading the output back gives the flat model".                            *)
EXTENDS Integers, Sequences, FiniteSets, TLC, Json, IOUtils

CONSTANTS
    DeclEqLhsIsReference,   \* the left side of a declaration equation is emitted as <local name=..>
    EmitsElseWhen,          \* every branch of a when-equation is emitted
    ExpressionAttributes,   \* start/value given by an expression do not make the generator raise
    Family

VARIABLES prog, phase, pc, heap, compId, eqId, root, out, moved, last
vars == <<prog, phase, pc, heap, compId, eqId, root, out, moved, last>>

SW == [decl |-> DeclEqLhsIsReference, elsew |-> EmitsElseWhen, exattr |-> ExpressionAttributes]

-----------------------------------------------------------------------------
(* ---- flat model IR ---- *)
E(k, n, a, v, d) == [k |-> k, n |-> n, a |-> a, v |-> v, d |-> d]
Ref(key)     == E("ref", key, <<>>, 0, 1)
Lit(i)       == E("lit", "", <<>>, i, 1)
RealL(n, d)  == E("real", "", <<>>, n, d)             \* the literal n/d, d in {2, 4, 10}
(* a Real literal given by its decimal spelling (long mantissas, large and tiny magnitudes): its value is the exact
   decimal; TLC only carries the text, the binding compares the emitted text with it as exact rationals *)
DecL(text)   == E("dec", text, <<>>, 0, 1)
BoolL(b)     == E("bool", "", <<>>, IF b THEN 1 ELSE 0, 1)
TimeE        == E("time", "", <<>>, 0, 1)
Der(key)     == E("der", "", <<Ref(key)>>, 0, 1)
Un(o, x)     == E("un", o, <<x>>, 0, 1)
Bin(o, l, r) == E("bin", o, <<l, r>>, 0, 1)
Call(f, as)  == E("call", f, as, 0, 1)
Hole         == E("hole", "", <<>>, 0, 1)
NoE          == E("none", "", <<>>, 0, 1)

IsLiteral(e) == e.k \in {"lit", "real", "bool", "dec"}

(* variable: type, prefixes in source order (flow, variability, causality), start / value expressions (NoE when
   absent), fixed in {"none","true","false"} *)
Var(key, type, pres, start, value, fixed) ==
    [key |-> key, type |-> type, pres |-> pres, start |-> start, value |-> value, fixed |-> fixed]
HasPre(v, x) == \E i \in DOMAIN v.pres : v.pres[i] = x
(* equations: ordinary, declaration (left side is the variable's Symbol node), when *)
Eq(l, r)        == [k |-> "eq", l |-> l, r |-> r, key |-> "", cond |-> NoE, then |-> <<>>, elsew |-> <<>>]
DeclEq(key, r)  == [k |-> "decl", l |-> Ref(key), r |-> r, key |-> key, cond |-> NoE, then |-> <<>>, elsew |-> <<>>]
When(c, th, ew) == [k |-> "when", l |-> NoE, r |-> NoE, key |-> "", cond |-> c, then |-> th, elsew |-> ew]
Branch(c, th)   == [cond |-> c, then |-> th]

(* the variability of a variable is its variability prefix, whatever other prefixes (flow, input, output) it carries *)
Variability(v) == IF HasPre(v, "discrete") THEN "discrete" ELSE IF HasPre(v, "parameter") THEN "parameter"
                  ELSE IF HasPre(v, "constant") THEN "constant" ELSE "continuous"
(* flatten(): a declared value of a variable that is not a parameter/constant becomes an equation *)
KeepsValue(v) == HasPre(v, "parameter") \/ HasPre(v, "constant")
(* expand_connectors(): a flow variable that is in no connection set gets the equation  v = 0  (left side: its Symbol) *)
FlatEqs(p) ==
    LET idx == SelectSeq([i \in DOMAIN p.vars |-> i], LAMBDA i : p.vars[i].value # NoE /\ ~KeepsValue(p.vars[i]))
        fl  == SelectSeq([i \in DOMAIN p.vars |-> i], LAMBDA i : HasPre(p.vars[i], "flow"))
    IN  p.eqs \o [j \in DOMAIN fl |-> DeclEq(p.vars[fl[j]].key, Lit(0))]
              \o [j \in DOMAIN idx |-> DeclEq(p.vars[idx[j]].key, p.vars[idx[j]].value)]
FlatValue(v) == IF KeepsValue(v) THEN v.value ELSE NoE

-----------------------------------------------------------------------------
(* ---- abstract XML trees (what is compared with the real output) ---- *)
NoNum == <<0, 0>>
X(tag, attrs, num, kids) == [tag |-> tag, attrs |-> attrs, num |-> num, kids |-> kids]
A1(k, v) == << <<k, v>> >>

RECURSIVE ExprXml(_)
ExprXml(e) ==
    CASE e.k = "ref"  -> X("local", A1("name", e.n), NoNum, <<>>)
      [] e.k = "time" -> X("local", A1("name", "time"), NoNum, <<>>)
      [] e.k = "lit"  -> X("real", <<>>, <<e.v, 1>>, <<>>)
      [] e.k = "real" -> X("real", <<>>, <<e.v, e.d>>, <<>>)
      [] e.k = "dec"  -> X("real", A1("dec", e.n), NoNum, <<>>)
      [] e.k = "bool" -> X("boolean", <<>>, <<e.v, 1>>, <<>>)       \* <true/>, <false/> or value="True"
      [] e.k = "der"  -> X("operator", A1("name", "der"), NoNum, <<ExprXml(e.a[1])>>)
      [] e.k \in {"un", "bin", "call"} ->
            IF Len(e.a) = 1 THEN X("operator", A1("name", e.n), NoNum, <<ExprXml(e.a[1])>>)
            ELSE X("apply", A1("builtin", e.n), NoNum, [i \in DOMAIN e.a |-> ExprXml(e.a[i])])

RECURSIVE EqXml(_)
EqXml(q) ==
    IF q.k = "when"
    THEN X("when", <<>>, NoNum,
           <<X("cond", <<>>, NoNum, <<ExprXml(q.cond)>>), X("then", <<>>, NoNum, [i \in DOMAIN q.then |-> EqXml(q.then[i])])>>
           \o [j \in 1..(2 * Len(q.elsew)) |->
                  IF j % 2 = 1 THEN X("cond", <<>>, NoNum, <<ExprXml(q.elsew[(j + 1) \div 2].cond)>>)
                  ELSE X("then", <<>>, NoNum, [i \in DOMAIN q.elsew[j \div 2].then |-> EqXml(q.elsew[j \div 2].then[i])])])
    ELSE X("equal", <<>>, NoNum, <<ExprXml(q.l), ExprXml(q.r)>>)

ItemXml(name, e) == X("item", A1("name", name), NoNum, <<ExprXml(e)>>)
CompXml(v) ==
    X("component", <<<<"name", v.key>>, <<"variability", Variability(v)>>>>, NoNum,
      <<X("builtin", A1("name", v.type), NoNum, <<>>),
        X("modifier", <<>>, NoNum,
          (IF v.start # NoE THEN <<ItemXml("start", v.start)>> ELSE <<>>)
          \o (IF FlatValue(v) # NoE THEN <<ItemXml("value", FlatValue(v))>> ELSE <<>>)
          \o (IF v.fixed = "true" THEN <<X("item", A1("name", "fixed"), NoNum, <<X("boolean", <<>>, <<1, 1>>, <<>>)>>)>> ELSE <<>>))>>)

XmlOf(p) ==
    X("modelica", A1("format", "1.0"), NoNum,
      <<X("declarations", <<>>, NoNum,
          <<X("classDefinition", A1("name", "M"), NoNum,
              <<X("class", A1("kind", "model"), NoNum,
                  [i \in DOMAIN p.vars |-> CompXml(p.vars[i])]
                  \o <<X("equation", <<>>, NoNum, [q \in DOMAIN FlatEqs(p) |-> EqXml(FlatEqs(p)[q])])>>)>>)>>)>>)

(* what the property names, per variable and per equation (the binding compares exactly these) *)
ExpectComp(v) == [name |-> v.key, type |-> v.type, variability |-> Variability(v),
                  start |-> IF IsLiteral(v.start) THEN ExprXml(v.start) ELSE X("none", <<>>, NoNum, <<>>),
                  value |-> IF IsLiteral(FlatValue(v)) THEN ExprXml(FlatValue(v)) ELSE X("none", <<>>, NoNum, <<>>),
                  startlit |-> IsLiteral(v.start) \/ v.start = NoE,
                  valuelit |-> IsLiteral(FlatValue(v)) \/ FlatValue(v) = NoE]
Expect(p) == [comps |-> [i \in DOMAIN p.vars |-> ExpectComp(p.vars[i])],
              eqs |-> [q \in DOMAIN FlatEqs(p) |-> EqXml(FlatEqs(p)[q])],
              xml |-> XmlOf(p), raises |-> FALSE]

-----------------------------------------------------------------------------
(* ---- reader: the inverse direction (backends/xml/parser.py reads operator / apply by arity) ---- *)
UnOps == {"-", "+", "not"}
BinOps == {"+", "-", "*", "/", "^", "<", "<=", ">", ">=", "==", "<>", "and", "or"}
AttrOf(x, k) == LET i == CHOOSE i \in DOMAIN x.attrs : x.attrs[i][1] = k IN x.attrs[i][2]

RECURSIVE ExprOf(_)
ExprOf(x) ==
    CASE x.tag = "local"   -> IF AttrOf(x, "name") = "time" THEN TimeE ELSE Ref(AttrOf(x, "name"))
      [] x.tag = "real"    -> IF x.attrs # <<>> THEN DecL(AttrOf(x, "dec"))
                              ELSE IF x.num[2] = 1 THEN Lit(x.num[1]) ELSE RealL(x.num[1], x.num[2])
      [] x.tag = "boolean" -> E("bool", "", <<>>, x.num[1], 1)
      [] x.tag \in {"operator", "apply"} ->
            LET op == IF x.tag = "operator" THEN AttrOf(x, "name") ELSE AttrOf(x, "builtin")
                as == [i \in DOMAIN x.kids |-> ExprOf(x.kids[i])]
            IN  IF Len(as) = 1 /\ op = "der" THEN E("der", "", as, 0, 1)
                ELSE IF Len(as) = 1 /\ op \in UnOps THEN Un(op, as[1])
                ELSE IF Len(as) = 2 /\ op \in BinOps THEN Bin(op, as[1], as[2])
                ELSE Call(op, as)
      [] OTHER -> NoE

RECURSIVE EqOf(_)
EqOf(x) ==
    IF x.tag = "equal" /\ Len(x.kids) = 2 THEN [l |-> ExprOf(x.kids[1]), r |-> ExprOf(x.kids[2])]
    ELSE IF x.tag = "when" THEN
        [cond |-> [j \in 1..(Len(x.kids) \div 2) |-> ExprOf(x.kids[2 * j - 1].kids[1])],
         then |-> [j \in 1..(Len(x.kids) \div 2) |-> [i \in DOMAIN x.kids[2 * j].kids |-> EqOf(x.kids[2 * j].kids[i])]]]
    ELSE [bad |-> x.tag]
RECURSIVE EqMeaning(_)
EqMeaning(q) ==
    IF q.k = "when"
    THEN [cond |-> <<q.cond>> \o [j \in DOMAIN q.elsew |-> q.elsew[j].cond],
          then |-> <<[i \in DOMAIN q.then |-> EqMeaning(q.then[i])]>>
                   \o [j \in DOMAIN q.elsew |-> [i \in DOMAIN q.elsew[j].then |-> EqMeaning(q.elsew[j].then[i])]]]
    ELSE [l |-> q.l, r |-> q.r]

ClassOf(x) == x.kids[1].kids[1].kids[1]                  \* modelica / declarations / classDefinition / class
CompsOf(x) == SelectSeq(ClassOf(x).kids, LAMBDA k : k.tag = "component")
EqSecOf(x) == SelectSeq(ClassOf(x).kids, LAMBDA k : k.tag = "equation")

-----------------------------------------------------------------------------
(* ---- operational side: lxml-like element heap ---- *)
Node(tag, attrs, num, kids) == [tag |-> tag, attrs |-> attrs, num |-> num, kids |-> kids, parent |-> 0]

RemoveKid(ks, id) == SelectSeq(ks, LAMBDA k : k # id)

(* create an element with the given children; a child that already has a parent is moved *)
RECURSIVE Adopt(_, _, _)
Adopt(h, id, kids) ==
    IF kids = <<>> THEN h
    ELSE LET k == Head(kids)
             p == h[k].parent
             h1 == IF p # 0 /\ p # id THEN [h EXCEPT ![p].kids = RemoveKid(@, k)] ELSE h
         IN  Adopt([h1 EXCEPT ![k].parent = id], id, Tail(kids))
NewElem(h, tag, attrs, num, kids) ==
    LET id == Len(h) + 1
        h0 == Append(h, Node(tag, attrs, num, kids))
    IN  [h |-> Adopt(h0, id, kids), id |-> id,
         moved |-> \E i \in DOMAIN kids : h[kids[i]].parent # 0]

(* expression elements, bottom-up: returns [h, id] *)
RECURSIVE BuildExpr(_, _), BuildArgs(_, _, _)
BuildArgs(h, as, acc) ==
    IF as = <<>> THEN [h |-> h, ids |-> acc]
    ELSE LET r == BuildExpr(h, Head(as)) IN BuildArgs(r.h, Tail(as), Append(acc, r.id))
BuildExpr(h, e) ==
    CASE e.k = "ref"  -> NewElem(h, "local", A1("name", e.n), NoNum, <<>>)
      [] e.k = "time" -> NewElem(h, "local", A1("name", "time"), NoNum, <<>>)
      [] e.k = "lit"  -> NewElem(h, "real", <<>>, <<e.v, 1>>, <<>>)
      [] e.k = "real" -> NewElem(h, "real", <<>>, <<e.v, e.d>>, <<>>)
      [] e.k = "dec"  -> NewElem(h, "real", A1("dec", e.n), NoNum, <<>>)
      [] e.k = "bool" -> NewElem(h, "boolean", <<>>, <<e.v, 1>>, <<>>)
      [] OTHER ->
            LET r == BuildArgs(h, e.a, <<>>)
                op == IF e.k = "der" THEN "der" ELSE e.n
            IN  IF Len(e.a) = 1 THEN NewElem(r.h, "operator", A1("name", op), NoNum, r.ids)
                ELSE NewElem(r.h, "apply", A1("builtin", op), NoNum, r.ids)

(* exitSymbol: raises when start / value is not a literal and the generator reads `.value` of it *)
SymbolRaises(v, sw) == ~sw.exattr /\ ((v.start # NoE /\ ~IsLiteral(v.start))
                                     \/ (FlatValue(v) # NoE /\ ~IsLiteral(FlatValue(v))))
(* exitSymbol: `for v_type in ["discrete", "continuous", "parameter", "constant"]: if v_type in prefixes: break`;
   no match leaves the attribute out, which readers take as continuous *)
VTypes == <<"discrete", "continuous", "parameter", "constant">>
RECURSIVE ScanVariability(_, _)
ScanVariability(pres, types) ==
    IF types = <<>> THEN "continuous"
    ELSE IF \E i \in DOMAIN pres : pres[i] = Head(types) THEN Head(types)
    ELSE ScanVariability(pres, Tail(types))
BuildItem(h, name, e) ==
    LET r == BuildExpr(h, e) IN NewElem(r.h, "item", A1("name", name), NoNum, <<r.id>>)
BuildSymbol(h, v) ==
    LET r1 == IF v.start # NoE THEN BuildItem(h, "start", v.start) ELSE [h |-> h, id |-> 0]
        r2 == IF FlatValue(v) # NoE THEN BuildItem(r1.h, "value", FlatValue(v)) ELSE [h |-> r1.h, id |-> 0]
        r3 == IF v.fixed = "true"
              THEN LET t == NewElem(r2.h, "boolean", <<>>, <<1, 1>>, <<>>) IN NewElem(t.h, "item", A1("name", "fixed"), NoNum, <<t.id>>)
              ELSE [h |-> r2.h, id |-> 0]
        items == SelectSeq(<<r1.id, r2.id, r3.id>>, LAMBDA i : i # 0)
        m  == NewElem(r3.h, "modifier", <<>>, NoNum, items)
        b  == NewElem(m.h, "builtin", A1("name", v.type), NoNum, <<>>)
    IN  NewElem(b.h, "component", <<<<"name", v.key>>, <<"variability", ScanVariability(v.pres, VTypes)>>>>, NoNum, <<b.id, m.id>>)

(* exitEquation / exitWhenEquation; cid: key -> component element id *)
RECURSIVE BuildEq(_, _, _, _), BuildEqs(_, _, _, _, _)
BuildEqs(h, qs, cid, sw, acc) ==
    IF qs = <<>> THEN [h |-> h, ids |-> acc.ids, moved |-> acc.moved]
    ELSE LET r == BuildEq(h, Head(qs), cid, sw)
         IN  BuildEqs(r.h, Tail(qs), cid, sw, [ids |-> Append(acc.ids, r.id), moved |-> acc.moved \/ r.moved])
BuildEq(h, q, cid, sw) ==
    IF q.k = "when" THEN
        LET c  == BuildExpr(h, q.cond)
            ce == NewElem(c.h, "cond", <<>>, NoNum, <<c.id>>)
            th == BuildEqs(ce.h, q.then, cid, sw, [ids |-> <<>>, moved |-> FALSE])
            te == NewElem(th.h, "then", <<>>, NoNum, th.ids)
            RECURSIVE Branches(_, _, _)
            Branches(hh, bs, acc) ==
                IF bs = <<>> \/ ~sw.elsew THEN [h |-> hh, ids |-> acc]
                ELSE LET bc  == BuildExpr(hh, Head(bs).cond)
                         bce == NewElem(bc.h, "cond", <<>>, NoNum, <<bc.id>>)
                         bt  == BuildEqs(bce.h, Head(bs).then, cid, sw, [ids |-> <<>>, moved |-> FALSE])
                         bte == NewElem(bt.h, "then", <<>>, NoNum, bt.ids)
                     IN  Branches(bte.h, Tail(bs), acc \o <<bce.id, bte.id>>)
            br == Branches(te.h, q.elsew, <<>>)
            w  == NewElem(br.h, "when", <<>>, NoNum, <<ce.id, te.id>> \o br.ids)
        IN  [h |-> w.h, id |-> w.id, moved |-> th.moved]
    ELSE
        LET l == IF q.k = "decl" /\ ~sw.decl
                 THEN [h |-> h, id |-> cid[q.key]]              \* xml[Symbol] is the component element itself
                 ELSE BuildExpr(h, q.l)
            r == BuildExpr(l.h, q.r)
            e == NewElem(r.h, "equal", <<>>, NoNum, <<l.id, r.id>>)
        IN  [h |-> e.h, id |-> e.id, moved |-> e.moved]

RECURSIVE TreeOf(_, _)
TreeOf(h, id) == X(h[id].tag, h[id].attrs, h[id].num, [i \in DOMAIN h[id].kids |-> TreeOf(h, h[id].kids[i])])

-----------------------------------------------------------------------------
(* ---- program families ---- *)
ArithOps == {"+", "-", "*", "/", "^"}
UnS(S)       == {Un("-", x) : x \in S}
Call1S(F, S) == {Call(f, <<x>>) : f \in F, x \in S}
BinS(O, S1, S2) == {Bin(o, l, r) : o \in O, l \in S1, r \in S2}
Call2S(F, S1, S2) == {Call(f, <<l, r>>) : f \in F, l \in S1, r \in S2}
S0 == {Hole}
S1(F1, F2) == S0 \cup UnS(S0) \cup Call1S(F1, S0) \cup BinS(ArithOps, S0, S0) \cup Call2S(F2, S0, S0)
S2(F1, F2) == S0 \cup UnS(S1(F1, F2)) \cup Call1S(F1, S1(F1, F2)) \cup BinS(ArithOps, S1(F1, F2), S1(F1, F2))
              \cup Call2S(F2, S1(F1, F2), S1(F1, F2))

RECURSIVE Fill(_, _, _), FillArgs(_, _, _, _)
FillArgs(as, pal, i, acc) ==
    IF as = <<>> THEN [a |-> acc, i |-> i]
    ELSE LET r == Fill(Head(as), pal, i) IN FillArgs(Tail(as), pal, r.i, Append(acc, r.e))
Fill(e, pal, i) ==
    IF e.k = "hole" THEN [e |-> pal[((i - 1) % Len(pal)) + 1], i |-> i + 1]
    ELSE LET r == FillArgs(e.a, pal, i, <<>>) IN [e |-> [e EXCEPT !.a = r.a], i |-> r.i]

RealV(k)  == Var(k, "Real", <<>>, NoE, NoE, "none")
BaseVars == <<RealV("x"), RealV("y"), Var("p", "Real", <<"parameter">>, NoE, Lit(2), "none"), RealV("w")>>
PalA == <<Ref("x"), Ref("y"), Ref("p"), Lit(3)>>
PalB == <<Der("x"), TimeE, RealL(5, 2), Ref("y")>>
Prog(fam, vs, eqs) == [fam |-> fam, vars |-> vs, eqs |-> eqs]
ExprProgs(shapes, pal) == {Prog("expr", BaseVars, <<Eq(Ref("w"), Fill(s, pal, 1).e)>>) : s \in shapes}

(* relational / logical operators, Boolean literals, calls of other arities *)
RelOps == {"<", "<=", ">", ">=", "==", "<>"}
BoolVars == <<RealV("x"), RealV("y"), Var("b", "Boolean", <<>>, NoE, NoE, "none"), Var("c", "Boolean", <<>>, NoE, NoE, "none")>>
BoolProgs ==
    {Prog("bool", BoolVars, <<Eq(Ref("b"), e)>>) :
        e \in {Bin(o, Ref("x"), Ref("y")) : o \in RelOps}
              \cup {Un("not", Bin(o, Ref("x"), Lit(2))) : o \in RelOps}
              \cup {Bin(lo, Bin(o, Ref("x"), Ref("y")), Un("not", Ref("c"))) : lo \in {"and", "or"}, o \in RelOps}
              \cup {Bin(lo, Ref("c"), BoolL(t)) : lo \in {"and", "or"}, t \in BOOLEAN}
              \cup {BoolL(TRUE), BoolL(FALSE), Ref("c"), Un("not", Ref("c"))}}
    \cup {Prog("bool", BoolVars, <<Eq(Ref("x"), e)>>) :
        e \in {Call("delay", <<Ref("y"), Lit(1), Lit(2)>>), Call("noEvent", <<Ref("y")>>), Un("+", Ref("y")),
               Call("max", <<Ref("y"), Call("min", <<Ref("x"), Lit(0)>>)>>), Call("smooth", <<Lit(1), Un("-", Ref("y"))>>)}}

(* one variable of every kind; `k` is a parameter the value expression may mention *)
Types == {"Real", "Integer", "Boolean"}
Pres  == {<<>>, <<"parameter">>, <<"constant">>, <<"discrete">>, <<"input">>, <<"output">>}
(* variability together with causality / flow: the variability must survive whatever follows or precedes it *)
Pres2 == {<<"parameter", "input">>, <<"constant", "input">>, <<"discrete", "input">>, <<"parameter", "output">>,
          <<"constant", "output">>, <<"discrete", "output">>, <<"flow">>, <<"flow", "discrete">>, <<"flow", "parameter">>}
StartsOf(t) == IF t = "Boolean" THEN {NoE, BoolL(TRUE), BoolL(FALSE)}
               ELSE IF t = "Integer" THEN {NoE, Lit(0), Lit(3), Un("-", Lit(1))}
               ELSE {NoE, Lit(0), Lit(3), RealL(5, 2), Un("-", Lit(1))}
ValuesOf(t) == IF t = "Boolean" THEN {NoE, BoolL(TRUE), Un("not", BoolL(TRUE))}
               ELSE IF t = "Integer" THEN {NoE, Lit(4), Un("-", Lit(4))}
               ELSE {NoE, Lit(4), RealL(1, 4), Un("-", Lit(4)), Bin("*", Lit(2), Ref("k"))}
KVar == Var("k", "Real", <<"parameter">>, NoE, Lit(2), "none")
CompProgs(fixeds) ==
    {Prog("comp", <<KVar, Var("v", t, pre, st, va, fx), RealV("z")>>, <<Eq(Ref("z"), Ref("k"))>>) :
        t \in Types, pre \in Pres, st \in UNION {StartsOf(tt) : tt \in Types}, va \in UNION {ValuesOf(tt) : tt \in Types}, fx \in fixeds}
CompOK(p) == LET v == p.vars[2] IN v.start \in StartsOf(v.type) /\ v.value \in ValuesOf(v.type)
(* two declaration equations and an ordinary one: order of the flat equations *)
TwoDecl == {Prog("comp", <<Var("v", "Real", <<>>, NoE, Lit(4), "none"), Var("u", "Real", pre, Lit(1), Bin("+", Ref("v"), Lit(1)), "none"),
                           RealV("z")>>, <<Eq(Ref("z"), Ref("v"))>>) : pre \in {<<>>, <<"output">>, <<"discrete">>}}
(* two prefixes on one declaration, with and without literal start / value *)
Comp2Progs(types) ==
    {Prog("comp2", <<KVar, Var("v", t, pre, st, va, "none"), RealV("z")>>, <<Eq(Ref("z"), Ref("k"))>>) :
        t \in types, pre \in Pres2, st \in {NoE, Lit(3)}, va \in {NoE, Lit(4)}}

(* long / large / tiny Real literals as start, as value of a constant and a parameter, and as operands *)
DecTexts == {"3.14159265358979", "101325.25", "6.62607015e-34", "8.8541878128e-12", "1.0000000000001", "299792458.0",
             "0.000123456789012", "1e-05", "6.02214076e+23"}
DecProgs ==
    {Prog("declit", <<Var("h", "Real", <<"constant">>, NoE, DecL(t), "none"), Var("g", "Real", <<"parameter">>, DecL(t), DecL(t), "none"),
                      Var("v", "Real", <<>>, DecL(t), NoE, "none"), RealV("x"), RealV("w")>>,
          <<Eq(Ref("w"), Bin("*", DecL(t), Ref("x"))), Eq(Ref("v"), Bin("+", Ref("x"), Un("-", DecL(t)))), Eq(Ref("x"), DecL(t))>>) : t \in DecTexts}
WhenVars == <<RealV("x"), Var("d", "Real", <<"discrete">>, NoE, NoE, "none"), Var("e", "Real", <<"discrete">>, NoE, NoE, "none")>>
WhenProgs ==
    {Prog("when", WhenVars, <<Eq(Der("x"), Lit(1)), When(Bin(">", Ref("x"), Lit(2)), th, ew)>>) :
        th \in {<<Eq(Ref("d"), Bin("+", Ref("x"), Lit(1)))>>, <<Eq(Ref("d"), Lit(1)), Eq(Ref("e"), Ref("x"))>>},
        ew \in {<<>>, <<Branch(Bin("<", Ref("x"), Lit(1)), <<Eq(Ref("d"), Lit(5))>>)>>,
                <<Branch(Bin("<", Ref("x"), Lit(1)), <<Eq(Ref("d"), Lit(5))>>), Branch(Bin("<", Ref("x"), Lit(0)), <<Eq(Ref("d"), Lit(6))>>)>>}}

Programs ==
    CASE Family = "quick" ->
            ExprProgs(S2({"sin"}, {"atan2"}), PalA) \cup ExprProgs(S1({"sin", "abs"}, {"atan2", "max"}), PalB)
            \cup BoolProgs \cup {p \in CompProgs({"none"}) : CompOK(p)} \cup TwoDecl \cup WhenProgs \cup Comp2Progs({"Real"}) \cup DecProgs
      [] Family = "thorough" ->
            ExprProgs(S2({"sin", "abs"}, {"atan2"}), PalA) \cup ExprProgs(S2({"sin"}, {"atan2"}), PalB)
            \cup BoolProgs \cup {p \in CompProgs({"none", "true", "false"}) : CompOK(p)} \cup TwoDecl \cup WhenProgs
            \cup Comp2Progs({"Real", "Integer"}) \cup DecProgs
      [] Family = "cex" ->
            ExprProgs(S1({"sin"}, {"atan2"}), PalA) \cup TwoDecl \cup WhenProgs
            \cup {p \in CompProgs({"none"}) : CompOK(p) /\ p.vars[2].type = "Real" /\ p.vars[2].pres \in {<<>>, <<"parameter">>}}

-----------------------------------------------------------------------------
(* ---- behaviour ---- *)
Init == /\ prog \in Programs
        /\ phase = "symbols" /\ pc = 1
        /\ heap = <<>> /\ compId = <<>> /\ eqId = <<>> /\ root = 0
        /\ out = [raises |-> FALSE, xml |-> X("none", <<>>, NoNum, <<>>)]
        /\ moved = FALSE
        /\ last = [act |-> "init"]

ExitSymbol ==
    /\ phase = "symbols" /\ pc <= Len(prog.vars)
    /\ IF SymbolRaises(prog.vars[pc], SW)
       THEN /\ phase' = "raised" /\ out' = [raises |-> TRUE, xml |-> X("none", <<>>, NoNum, <<>>)]
            /\ UNCHANGED <<heap, compId, pc, moved>>
       ELSE LET r == BuildSymbol(heap, prog.vars[pc]) IN
            /\ heap' = r.h /\ compId' = Append(compId, r.id) /\ pc' = pc + 1
            /\ UNCHANGED <<phase, out, moved>>
    /\ last' = [act |-> "ExitSymbol"]
    /\ UNCHANGED <<prog, eqId, root>>

SymbolsDone ==
    /\ phase = "symbols" /\ pc > Len(prog.vars)
    /\ phase' = "equations" /\ pc' = 1
    /\ last' = [act |-> "SymbolsDone"]
    /\ UNCHANGED <<prog, heap, compId, eqId, root, out, moved>>

CompIdOf == [k \in {prog.vars[i].key : i \in DOMAIN prog.vars} |->
                compId[CHOOSE i \in DOMAIN prog.vars : prog.vars[i].key = k]]

ExitEquation ==
    /\ phase = "equations" /\ pc <= Len(FlatEqs(prog))
    /\ LET r == BuildEq(heap, FlatEqs(prog)[pc], CompIdOf, SW) IN
       /\ heap' = r.h /\ eqId' = Append(eqId, r.id) /\ moved' = (moved \/ r.moved)
    /\ pc' = pc + 1
    /\ last' = [act |-> "ExitEquation"]
    /\ UNCHANGED <<prog, phase, compId, root, out>>

ExitClass ==
    /\ phase = "equations" /\ pc > Len(FlatEqs(prog))
    /\ LET es == NewElem(heap, "equation", <<>>, NoNum, eqId)
           c  == NewElem(es.h, "class", A1("kind", "model"), NoNum, compId \o <<es.id>>)
           cd == NewElem(c.h, "classDefinition", A1("name", "M"), NoNum, <<c.id>>)
       IN  /\ heap' = cd.h /\ root' = cd.id /\ moved' = (moved \/ es.moved \/ c.moved)
    /\ phase' = "class"
    /\ last' = [act |-> "ExitClass"]
    /\ UNCHANGED <<prog, pc, compId, eqId, out>>

ExitTree ==
    /\ phase = "class"
    /\ LET d == NewElem(heap, "declarations", <<>>, NoNum, <<root>>)
           m == NewElem(d.h, "modelica", A1("format", "1.0"), NoNum, <<d.id>>)
       IN  heap' = m.h /\ root' = m.id
    /\ phase' = "tree"
    /\ last' = [act |-> "ExitTree"]
    /\ UNCHANGED <<prog, pc, compId, eqId, out, moved>>

WriteOut ==
    /\ phase = "tree"
    /\ out' = [raises |-> FALSE, xml |-> TreeOf(heap, root)]
    /\ phase' = "done"
    /\ last' = [act |-> "WriteOut"]
    /\ UNCHANGED <<prog, pc, heap, compId, eqId, root, moved>>

Next == ExitSymbol \/ SymbolsDone \/ ExitEquation \/ ExitClass \/ ExitTree \/ WriteOut
Spec == Init /\ [][Next]_vars

-----------------------------------------------------------------------------
(* ---- the property ---- *)
NeverRaises == phase # "raised"
(* the output is the declarative mirror image of the flat model *)
Mirrors == phase = "done" => out.xml = XmlOf(prog)
(* one component per flat variable, one equation element per flat equation, every equal has two operands *)
RECURSIVE AllEqualsBinary(_)
AllEqualsBinary(x) == (x.tag = "equal" => Len(x.kids) = 2) /\ \A i \in DOMAIN x.kids : AllEqualsBinary(x.kids[i])
Counts == phase = "done" =>
            /\ Len(CompsOf(out.xml)) = Len(prog.vars)
            /\ Len(EqSecOf(out.xml)) = 1 /\ Len(EqSecOf(out.xml)[1].kids) = Len(FlatEqs(prog))
            /\ AllEqualsBinary(out.xml)
(* reading the output back (operator/apply by arity, as the XML parser back end does) gives the flat equations *)
ReadBack == phase = "done" =>
            LET es == EqSecOf(out.xml)[1].kids IN
            /\ Len(es) = Len(FlatEqs(prog))
            /\ \A q \in DOMAIN es : EqOf(es[q]) = EqMeaning(FlatEqs(prog)[q])
(* lxml never had to move an element: every element was given to exactly one parent *)
NoElementMoved == ~moved
TypeOK == phase \in {"symbols", "equations", "class", "tree", "done", "raised"}

-----------------------------------------------------------------------------
Pred(p, sw) ==   \* the generator as one function of the switches (as-built prediction for the binding)
    IF \E i \in DOMAIN p.vars : SymbolRaises(p.vars[i], sw) THEN [raises |-> TRUE, xml |-> X("none", <<>>, NoNum, <<>>)]
    ELSE LET RECURSIVE Syms(_, _, _)
             Syms(h, i, acc) == IF i > Len(p.vars) THEN [h |-> h, ids |-> acc]
                                ELSE LET r == BuildSymbol(h, p.vars[i]) IN Syms(r.h, i + 1, Append(acc, r.id))
             s   == Syms(<<>>, 1, <<>>)
             cid == [k \in {p.vars[i].key : i \in DOMAIN p.vars} |-> s.ids[CHOOSE i \in DOMAIN p.vars : p.vars[i].key = k]]
             qs  == BuildEqs(s.h, FlatEqs(p), cid, sw, [ids |-> <<>>, moved |-> FALSE])
             es  == NewElem(qs.h, "equation", <<>>, NoNum, qs.ids)
             c   == NewElem(es.h, "class", A1("kind", "model"), NoNum, s.ids \o <<es.id>>)
             cd  == NewElem(c.h, "classDefinition", A1("name", "M"), NoNum, <<c.id>>)
             d   == NewElem(cd.h, "declarations", <<>>, NoNum, <<cd.id>>)
             m   == NewElem(d.h, "modelica", A1("format", "1.0"), NoNum, <<d.id>>)
         IN  [raises |-> FALSE, xml |-> TreeOf(m.h, m.id)]

(* Pinned: the switches as the originally pinned code behaved (shape tags); AsBuilt: the code now (all three repaired) *)
Pinned == [decl |-> FALSE, elsew |-> FALSE, exattr |-> FALSE]
AsBuilt == [decl |-> TRUE, elsew |-> TRUE, exattr |-> TRUE]

Tags(p) ==
    {p.fam}
    \cup (IF \E i \in DOMAIN p.vars : Len(p.vars[i].pres) > 1 THEN {"two-prefixes"} ELSE {})
    \cup (IF \E i \in DOMAIN p.vars : HasPre(p.vars[i], "flow") THEN {"flow"} ELSE {})
    \cup (IF p.fam = "declit" THEN {"decimal-literal"} ELSE {})
    \cup (IF \E q \in DOMAIN FlatEqs(p) : FlatEqs(p)[q].k = "decl" THEN {"decl-eq"} ELSE {})
    \cup (IF \E q \in DOMAIN p.eqs : p.eqs[q].k = "when" /\ p.eqs[q].elsew # <<>> THEN {"elsewhen"} ELSE {})
    \cup (IF \E q \in DOMAIN p.eqs : p.eqs[q].k = "when" THEN {"when"} ELSE {})
    \cup (IF \E i \in DOMAIN p.vars : SymbolRaises(p.vars[i], Pinned) THEN {"attr-expr"} ELSE {})
    \cup (IF \E i \in DOMAIN p.vars : p.vars[i].type = "Boolean" /\ (p.vars[i].start # NoE \/ p.vars[i].value # NoE) THEN {"bool-attr"} ELSE {})

SetToSeq(S) == LET RECURSIVE f(_) f(R) == IF R = {} THEN <<>> ELSE LET x == CHOOSE x \in R : TRUE IN <<x>> \o f(R \ {x}) IN f(S)

View == <<prog, phase, pc, heap, compId, eqId, root, out, moved>>
Log ==
    IF last'.act = "WriteOut" \/ phase' = "raised"
    THEN PrintT(<<"PROG", ToJson([prog |-> prog, flateqs |-> FlatEqs(prog), tags |-> SetToSeq(Tags(prog)), expect |-> Expect(prog),
                                  pred |-> out', asbuilt |-> Pred(prog, AsBuilt)])>>)
    ELSE TRUE
=============================================================================
