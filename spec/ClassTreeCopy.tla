--------------------------- MODULE ClassTreeCopy ---------------------------
(* Property C06.  "Deep copies of a tree are independent of the original."

   Two descriptions of the same system are kept side by side.

   VALUE SEMANTICS (the property side).  A tree is a value: class name ->
   [here, syms, eqs].  DeepCopy duplicates the value, an edit changes the
   value of the edited tree only, FlatV flattens inside that value.

   POINTER SEMANTICS (the implementation side, shaped like ast.Class /
   copy.deepcopy / Class._find_class).  Trees and classes are OBJECTS with an
   identity, a `parent` pointer (an object id - that is where the code can go
   wrong) and a `src` pointer: the object whose __deepcopy__ method is
   attached to it, i.e. the object that is really copied when this one is
   deep-copied.  FlatP flattens a class by resolving component types and
   extends clauses through the parent pointers exactly like
   Class._find_class, taking copies with find_class(copy=True).

   Switches (DESIGN 2.4):
     DeepCopyRebindsParents  children of a copied tree point to the NEW tree
                             (as built: `self.parent not in memo` is always
                             true, so they keep the parent of their source)
     CopyHookBoundToCopy     the per-instance __deepcopy__ of a copy is bound
                             to the copy (as built: to the object it was
                             copied from, so a copy of a copy copies the
                             original)
     FlattenCopiesTop        tree.flatten works on find_class(copy=True) of the
                             requested class (C05 fix) - only matters as built.

   Library (constant): model Leaf (x; eq Leaf0), model Mid (Leaf l; y; eq
   Mid0), model Top (extends Mid; z; eq Top0).  Edits through the AST API:
   add/remove symbol u on Leaf, v on Mid, w on Top, add/remove equation E1 on Leaf, E2 on
   Top, remove/add class Leaf.                                              *)
EXTENDS Integers, Sequences, FiniteSets, TLC, Json

CONSTANTS DeepCopyRebindsParents, CopyHookBoundToCopy, FlattenCopiesTop,
          MaxTrees, MaxOps,
          Universe         \* "small" or "full": which edits are explored

VARIABLES val,     \* value semantics: sequence of tree values
          obj,     \* pointer semantics: object id -> object
          roots,   \* pointer semantics: tree index -> object id of its root
          ops,     \* number of operations so far
          hist,    \* history variable: the actions so far (hidden by the views)
          last     \* history variable: last action, expected and as-built observations

vars == <<val, obj, roots, ops, hist, last>>

Classes == {"Leaf", "Mid", "Top"}
Order   == <<"Leaf", "Mid", "Top">>            \* order in which deepcopy visits tree.classes
OwnSyms(c) == CASE c = "Leaf" -> {"x"} [] c = "Mid" -> {"y"} [] c = "Top" -> {"z"}
OwnEqs(c)  == CASE c = "Leaf" -> {"Leaf0"} [] c = "Mid" -> {"Mid0"} [] c = "Top" -> {"Top0"}
BaseOf(c)  == IF c = "Top" THEN "Mid" ELSE ""           \* extends clause
CompOf(c)  == IF c = "Mid" THEN "Leaf" ELSE ""          \* type of component l
SymEdits == IF Universe = "small" THEN {<<"Leaf", "u">>, <<"Mid", "v">>}
            ELSE {<<"Leaf", "u">>, <<"Mid", "v">>, <<"Top", "w">>}      \* distinct names: no clashes through inheritance
EqEdits  == IF Universe = "small" THEN {<<"Leaf", "E1">>} ELSE {<<"Leaf", "E1">>, <<"Top", "E2">>}
ClassEdits == {"Leaf"}

Err(t) == [ok |-> FALSE, err |-> t, syms |-> {}, eqs |-> {}]
Ok(s, e) == [ok |-> TRUE, err |-> "", syms |-> s, eqs |-> e]

-----------------------------------------------------------------------------
(* VALUE SEMANTICS *)
PristineClass(c) == [here |-> TRUE, syms |-> OwnSyms(c), eqs |-> OwnEqs(c)]
PristineVal == [c \in Classes |-> PristineClass(c)]

RECURSIVE FlatV(_, _)
FlatV(t, c) ==
    IF ~t[c].here THEN Err("ClassNotFoundError")
    ELSE LET b == IF BaseOf(c) = "" THEN Ok({}, {}) ELSE FlatV(t, BaseOf(c))
             k == IF CompOf(c) = "" THEN Ok({}, {}) ELSE FlatV(t, CompOf(c))
         IN  IF ~b.ok THEN b ELSE IF ~k.ok THEN k
             ELSE Ok(b.syms \cup t[c].syms \cup {"l." \o s : s \in k.syms},
                     b.eqs \cup t[c].eqs \cup k.eqs)

(* which classes' flat model contains class d (itself, through the component type, through extends) *)
Reaches(c, d) == \/ c = d
                 \/ c = "Mid" /\ d = "Leaf"
                 \/ c = "Top" /\ d \in {"Mid", "Leaf"}

-----------------------------------------------------------------------------
(* POINTER SEMANTICS *)
NoKids == [n \in {} |-> 0]
TreeObj(kids, src)   == [kind |-> "tree", name |-> "", syms |-> {}, eqs |-> {}, kids |-> kids, parent |-> 0, src |-> src]
ClassObj(c, s, e, p, src) == [kind |-> "class", name |-> c, syms |-> s, eqs |-> e, kids |-> NoKids, parent |-> p, src |-> src]

N(o) == Len(o)
(* Class._find_class: own nested classes, then the parent chain *)
RECURSIVE Find(_, _, _)
Find(o, p, name) ==
    IF p = 0 THEN 0
    ELSE IF name \in DOMAIN o[p].kids THEN o[p].kids[name]
    ELSE Find(o, o[p].parent, name)

(* flatten of the class object f.  `top`: f is the requested class itself (looked up with
   copy = FlattenCopiesTop); everything else is reached through find_class(copy=True),
   whose deep copy really copies o[f].src and keeps THAT object's parent.               *)
RECURSIVE FlatObj(_, _, _)
FlatObj(o, f, top) ==
    LET e == IF top /\ ~FlattenCopiesTop THEN f ELSE o[f].src
        c == o[e].name
        p == o[e].parent
        bf == IF BaseOf(c) = "" THEN 0 ELSE Find(o, p, BaseOf(c))
        kf == IF CompOf(c) = "" THEN 0 ELSE Find(o, p, CompOf(c))
        b == IF BaseOf(c) = "" THEN Ok({}, {}) ELSE IF bf = 0 THEN Err("ClassNotFoundError") ELSE FlatObj(o, bf, FALSE)
        k == IF CompOf(c) = "" THEN Ok({}, {}) ELSE IF kf = 0 THEN Err("ClassNotFoundError") ELSE FlatObj(o, kf, FALSE)
    IN  IF ~b.ok THEN b ELSE IF ~k.ok THEN k
        ELSE Ok(b.syms \cup o[e].syms \cup {"l." \o s : s \in k.syms}, b.eqs \cup o[e].eqs \cup k.eqs)

FlatP(o, r, i, c) ==
    IF c \notin DOMAIN o[r[i]].kids THEN Err("ClassNotFoundError")
    ELSE FlatObj(o, o[r[i]].kids[c], TRUE)

(* copy.deepcopy(tree i) *)
CopyTree(o, r, i) ==
    LET s    == o[r[i]].src                       \* the object whose __deepcopy__ runs
        n0   == N(o) + 1
        ks   == SelectSeq(Order, LAMBDA c : c \in DOMAIN o[s].kids)
        Child(j) ==
            LET sc == o[o[s].kids[ks[j]]].src     \* ... and the same for every child
                id == n0 + j
                par == IF DeepCopyRebindsParents /\ o[sc].parent = s THEN n0 ELSE o[sc].parent
            IN  ClassObj(o[sc].name, o[sc].syms, o[sc].eqs, par,
                         IF CopyHookBoundToCopy THEN id ELSE o[sc].src)
        kids == [c \in {ks[j] : j \in DOMAIN ks} |-> n0 + (CHOOSE j \in DOMAIN ks : ks[j] = c)]
        root == TreeObj(kids, IF CopyHookBoundToCopy THEN n0 ELSE o[s].src)
    IN  [obj |-> o \o <<root>> \o [j \in DOMAIN ks |-> Child(j)], roots |-> Append(r, n0)]

HasKid(o, r, i, c) == c \in DOMAIN o[r[i]].kids
Kid(o, r, i, c) == o[r[i]].kids[c]

-----------------------------------------------------------------------------
Init == /\ val = <<PristineVal>>
        /\ obj = << TreeObj([c \in Classes |-> 1 + (CHOOSE j \in 1..3 : Order[j] = c)], 1),
                    ClassObj("Leaf", OwnSyms("Leaf"), OwnEqs("Leaf"), 1, 2),
                    ClassObj("Mid", OwnSyms("Mid"), OwnEqs("Mid"), 1, 3),
                    ClassObj("Top", OwnSyms("Top"), OwnEqs("Top"), 1, 4) >>
        /\ roots = <<1>>
        /\ ops = 0
        /\ hist = <<>>
        /\ last = [act |-> "init"]

Trees == DOMAIN val

ExpectAll(v) == [i \in DOMAIN v |-> [c \in Classes |-> FlatV(v[i], c)]]
AsBuiltAll(o, r) == [i \in DOMAIN r |-> [c \in Classes |-> FlatP(o, r, i, c)]]
ParentsOf(o, r) == [i \in DOMAIN r |-> [c \in DOMAIN o[r[i]].kids |->
                        IF o[o[r[i]].kids[c]].parent = r[i] THEN "own"
                        ELSE IF o[o[r[i]].kids[c]].parent = 0 THEN "none" ELSE "foreign"]]

Finish(a) == /\ ops' = ops + 1
             /\ hist' = Append(hist, a)
             /\ last' = a @@ [expect |-> ExpectAll(val'), asbuilt |-> AsBuiltAll(obj', roots'),
                              parents |-> ParentsOf(obj', roots')]

DeepCopy(i) ==
    /\ Len(val) < MaxTrees
    /\ val' = Append(val, val[i])
    /\ LET n == CopyTree(obj, roots, i) IN obj' = n.obj /\ roots' = n.roots
    /\ Finish([act |-> "deepcopy", i |-> i, raises |-> FALSE])

(* edits are enabled by the VALUE semantics (what the user believes the tree contains); the
   pointer side follows if the object is there, otherwise the real call would raise        *)
AddSymbol(i, c, s) ==
    /\ val[i][c].here /\ s \notin val[i][c].syms
    /\ val' = [val EXCEPT ![i][c].syms = @ \cup {s}]
    /\ obj' = IF HasKid(obj, roots, i, c) THEN [obj EXCEPT ![Kid(obj, roots, i, c)].syms = @ \cup {s}] ELSE obj
    /\ UNCHANGED roots
    /\ Finish([act |-> "add_symbol", i |-> i, c |-> c, s |-> s, raises |-> ~HasKid(obj, roots, i, c)])

RemoveSymbol(i, c, s) ==
    /\ val[i][c].here /\ s \in val[i][c].syms /\ s \notin OwnSyms(c)
    /\ val' = [val EXCEPT ![i][c].syms = @ \ {s}]
    /\ obj' = IF HasKid(obj, roots, i, c) THEN [obj EXCEPT ![Kid(obj, roots, i, c)].syms = @ \ {s}] ELSE obj
    /\ UNCHANGED roots
    /\ Finish([act |-> "remove_symbol", i |-> i, c |-> c, s |-> s,
               raises |-> ~HasKid(obj, roots, i, c) \/ s \notin obj[Kid(obj, roots, i, c)].syms])

AddEquation(i, c, e) ==
    /\ val[i][c].here /\ e \notin val[i][c].eqs
    /\ val' = [val EXCEPT ![i][c].eqs = @ \cup {e}]
    /\ obj' = IF HasKid(obj, roots, i, c) THEN [obj EXCEPT ![Kid(obj, roots, i, c)].eqs = @ \cup {e}] ELSE obj
    /\ UNCHANGED roots
    /\ Finish([act |-> "add_equation", i |-> i, c |-> c, e |-> e, raises |-> ~HasKid(obj, roots, i, c)])

RemoveEquation(i, c, e) ==
    /\ val[i][c].here /\ e \in val[i][c].eqs /\ e \notin OwnEqs(c)
    /\ val' = [val EXCEPT ![i][c].eqs = @ \ {e}]
    /\ obj' = IF HasKid(obj, roots, i, c) THEN [obj EXCEPT ![Kid(obj, roots, i, c)].eqs = @ \ {e}] ELSE obj
    /\ UNCHANGED roots
    /\ Finish([act |-> "remove_equation", i |-> i, c |-> c, e |-> e,
               raises |-> ~HasKid(obj, roots, i, c) \/ e \notin obj[Kid(obj, roots, i, c)].eqs])

RemoveClass(i, c) ==
    /\ val[i][c].here
    /\ val' = [val EXCEPT ![i][c] = [here |-> FALSE, syms |-> {}, eqs |-> {}]]
    /\ obj' = IF HasKid(obj, roots, i, c)
              THEN [obj EXCEPT ![roots[i]].kids = [n \in DOMAIN @ \ {c} |-> @[n]],
                               ![Kid(obj, roots, i, c)].parent = 0]
              ELSE obj
    /\ UNCHANGED roots
    /\ Finish([act |-> "remove_class", i |-> i, c |-> c, raises |-> ~HasKid(obj, roots, i, c)])

(* add a freshly built class object with the pristine content *)
AddClass(i, c) ==
    /\ ~val[i][c].here
    /\ val' = [val EXCEPT ![i][c] = PristineClass(c)]
    /\ LET id == N(obj) + 1 IN
       obj' = [obj EXCEPT ![roots[i]].kids = [n \in DOMAIN @ \cup {c} |-> IF n = c THEN id ELSE @[n]]]
              \o <<ClassObj(c, OwnSyms(c), OwnEqs(c), roots[i], id)>>
    /\ UNCHANGED roots
    /\ Finish([act |-> "add_class", i |-> i, c |-> c, raises |-> FALSE])

Edit(i) == \/ \E p \in SymEdits : AddSymbol(i, p[1], p[2]) \/ RemoveSymbol(i, p[1], p[2])
           \/ \E p \in EqEdits : AddEquation(i, p[1], p[2]) \/ RemoveEquation(i, p[1], p[2])
           \/ \E c \in ClassEdits : AddClass(i, c) \/ RemoveClass(i, c)

Next == /\ ops < MaxOps
        /\ \E i \in Trees : DeepCopy(i) \/ Edit(i)

Spec == Init /\ [][Next]_vars

-----------------------------------------------------------------------------
(* The property *)
(* the implementation-shaped pointer semantics computes, for every class of every tree, the flat
   model that the value semantics demands *)
PointerSemanticsIsValueSemantics ==
    /\ Len(roots) = Len(val)
    /\ \A i \in Trees : \A c \in Classes : FlatP(obj, roots, i, c) = FlatV(val[i], c)

(* every class's parent chain stays inside its own tree *)
ParentClosed == \A i \in DOMAIN roots : \A c \in DOMAIN obj[roots[i]].kids :
                    obj[obj[roots[i]].kids[c]].parent = roots[i]

(* an edit on tree i is invisible in every other tree and visible in every class of tree i that
   reaches the edited class (stated on the pointer semantics, as an action property) *)
Independence ==
    [][ last'.act \notin {"init", "deepcopy"} =>
          /\ \A j \in DOMAIN roots : j # last'.i =>
                \A c \in Classes : FlatP(obj', roots', j, c) = FlatP(obj, roots, j, c)
          /\ \A c \in Classes : Reaches(c, last'.c)
                                  /\ (FlatP(obj, roots, last'.i, c).ok \/ FlatP(obj', roots', last'.i, c).ok) =>
                FlatP(obj', roots', last'.i, c) # FlatP(obj, roots, last'.i, c)
      ]_vars
(* a fresh copy shows exactly what its source shows *)
CopyFaithful ==
    [][ last'.act = "deepcopy" =>
          \A c \in Classes : FlatP(obj', roots', Len(roots'), c) = FlatP(obj, roots, last'.i, c) ]_vars
NoRaise == last.act # "init" => ~last.raises

-----------------------------------------------------------------------------
ViewVal == val                                  \* quotient for the intended config: value state only
ViewFull == <<val, obj, roots, ops>>
Log == PrintT(<<"TR", ToJson([src |-> [val |-> val], act |-> last', dst |-> [val |-> val']])>>)
(* as-built run: report only the transitions after which the pointer semantics deviates *)
Clean(l) == l.act = "init" \/ (l.expect = l.asbuilt /\ ~l.raises)
LogDev == (Clean(last) /\ ~Clean(last')) =>
            PrintT(<<"DEV", ToJson([hist |-> hist', act |-> last'])>>)
=============================================================================
