"""C08 - Modifications take effect with Modelica precedence in either spelling.

Spec: spec/Instantiate.tla (family "mods"), oracle mode (binding C).
  * every program = a hierarchy + one attribute + up to three competing modification sites (type definition,
    declaration, extends clause of any level, enclosing component of any level) with literal or name-referencing
    expressions; the library is derived in TLA+ in three spellings (mixed a.x(start = e), dotted a.x.start = e,
    nested a(x(start = e))).
  * TLC runs the operational model (environment merge order, one-level shifting, scope-matched application, last
    wins, renaming) on every spelling and checks: operational = Effective(path, attr) of Appendix C.3 for every
    spelling that is not rejected, spelling invariance, the declarative side ignores the spelling, and on the
    intermediate state that the modifications arrive at each leaf innermost-first.
  * every spelling is rendered and flattened by pymoca; a spelling may be rejected (any exception - counted), a
    spelling that flattens must give exactly the expected flat class (attributes, value equations, everything).
  * a failing variant is additionally compared with what the AS-BUILT configuration of the spec predicts; known
    findings only match failures that the as-built model predicts exactly, everything else alarms.
"""
import copy
import random
from concurrent.futures import ThreadPoolExecutor

from vf import inst_run, par, ir_flat
from vf.core import MachineryError, jkey

META = {
    "ready": True,
    "category": "model_checking",
    "technique": "TLA+ reference semantics of pymoca's modification handling (Instantiate.tla: flatten_extends merge order, "
                 "shifting of modification environments, scope-matched application, checked by TLC against the declarative "
                 "outermost-modification / written-scope definition for three spellings of every program) used as oracle for "
                 "tree.flatten; as-built switches reproduce the pinned code's deviations exactly",
    "text": "For every program of the family (hierarchies of depth <= 2 quick / 3 thorough with optional base classes, an "
            "attribute among value/start/min/max/nominal/fixed/unit, one to three competing modification sites among type "
            "definition, declaration, extends clauses and enclosing components, literal or name-referencing expressions where "
            "the name exists in every scope, plain / parameter / type-alias / alias-of-alias variables, repeated instance "
            "names) TLC checks that the implementation-shaped definition equals Effective(path, attr) in each accepted spelling "
            "and that spellings agree; pymoca flattens each spelling and must reject it or produce the expected flat class.",
    "note": "Trusted: TLC, vf/ir_flat.py. A spelling pymoca rejects is admissible by the property and only counted; rejection "
            "of the spelling pymoca documents (dotted path + parenthesised attribute) is reported. Not covered: redeclare, "
            "each/final, array-valued attributes, modifications of nested classes, quantity/displayUnit.",
    "design_ref": "DESIGN.md section 5 (C08), Appendix C.3",
}


def _w(depth, split, xtype, attr, mods, same=False):
    return {"depth": depth, "fan": 1, "same": same, "wrap": 0, "nest": "lib", "split": split, "xtype": xtype, "xdims": 0,
            "xpre": "", "ypre": "", "ieq": False, "attr": attr, "mods": mods, "clash": False, "shadow": False, "skew": False, "twin": False}


# programs on which the as-built configuration must violate an invariant: one per known deviation
ASBUILT_WITNESSES = [
    _w(2, ["none", "none"], "Real", "start", [{"k": "comp", "i": 2, "e": "lit"}]),                      # dotted attribute -> value
    _w(2, ["none", "none"], "Real", "min", [{"k": "comp", "i": 2, "e": "ref"}]),                        # inner scope
    _w(1, ["none"], "aaR", "max", [{"k": "decl", "i": 1, "e": "lit"}]),                                 # alias of alias
    _w(4, ["none"] * 4, "Real", "value", [{"k": "comp", "i": 2, "e": "ref"}], same=True),              # renamed again (a.a.p -> a.a.a.p)
]


def classify(prog, j, r, asbuilt):
    """-> (record | None, counter key)"""
    v = prog["variants"][j]
    sp = v["sp"]
    tags = sorted(v["ctags"]) + ["spelling-" + sp]
    shape = ",".join(sorted(prog["tags"]))
    if r["kind"] == "exc":
        if sp != "mixed":
            return None, "rejected"            # admissible by the property's wording
        pred = inst_run.asbuilt_predicts(r, asbuilt)
        rec = dict(r["exc"], observable="canonical-spelling-rejected", tags=tags + ["asbuilt-predicted" if pred else "not-asbuilt-predicted"])
        rec["detail"] = "%s | shape %s" % (rec["detail"].replace("\n", " | ")[:300], shape)
        return rec, "violation"
    if not r["diffs"]:
        return None, "ok"
    pred = inst_run.asbuilt_predicts(r, asbuilt)
    kinds = sorted({d[0] for d in r["diffs"]})
    rec = {"observable": "+".join(kinds), "tags": tags + ["asbuilt-predicted" if pred else "not-asbuilt-predicted"],
           "exception_type": None,
           "detail": "%s | shape %s" % ("; ".join(d[1] for d in r["diffs"][:4]), shape)}
    return rec, "violation"


def evaluate(ctx, progs, cover, stats, asbuilt_cfg):
    out = inst_run.evaluate(ctx, progs, True, asbuilt_cfg, canonical_only_exc=True)
    for p, j, r, a in out:
        ctx.programs += 1
        v = p["variants"][j]
        for t in p["tags"]:
            cover[t] = cover.get(t, 0) + 1
        cover["spelling-" + v["sp"]] = cover.get("spelling-" + v["sp"], 0) + 1
        rec, key = classify(p, j, r, a)
        stats[key + ":" + v["sp"]] = stats.get(key + ":" + v["sp"], 0) + 1
        if r["kind"] == "exc" and not v["rej"]:
            ctx.note_drift("rejection-not-predicted-by-intended-model")
        if r["kind"] == "ok" and v["rej"]:
            ctx.note_drift("accepted-though-model-predicts-rejection")
        if rec:
            sc = inst_run.scenario_of(p, j)
            sc["asbuilt"] = a
            ctx.violation(rec, sc)
        elif key == "ok" and len(p["variants"]) == 3:
            ctx.sample({"tags": p["tags"], "spelling": v["sp"], "text": ir_flat.render_library(v["lib"]),
                        "expected": ir_flat.expected_flat(p["expect"])}, limit=4)
    return [(p, j, r) for p, j, r, a in out]


def draw_pvs(rng, n):
    """deeper / wider programs than the enumerated product; ill-formed vectors are dropped by the spec"""
    out = []
    for _ in range(n):
        d = rng.choice([2, 3, 3, 4])
        split = [rng.choice(["none", "none", "one", "chain", "chain2", "chain2", "multi", "late"]) for _ in range(d)]
        xt = rng.choice(["Real", "Real", "aR", "aaR", "aI"])
        attr = rng.choice(["value", "start", "start", "min", "max", "nominal", "fixed", "unit"])
        sites = [("decl", 1)] + [("comp", i) for i in range(2, d + 1)] + \
                [("ext", i + 1) for i in range(d) if split[i] in ("one", "chain", "multi", "chain2")] + \
                [("extb", i + 1) for i in range(d) if split[i] == "chain2"]
        if xt != "Real" and attr != "value":
            sites.append(("type", 0))
        rank = {"type": lambda i: 0, "decl": lambda i: 1, "ext": lambda i: 4 * i, "extb": lambda i: 4 * i - 1, "comp": lambda i: 4 * i - 2}
        k = rng.choice([1, 2, 2, 3, 3, 4])
        chosen = set(rng.sample(sites, min(k, len(sites))))
        for i in range(d):      # both clauses of a two-level extends chain modify the target
            if split[i] == "chain2" and rng.random() < 0.8:
                chosen |= {("ext", i + 1), ("extb", i + 1)}
        chosen = sorted(chosen, key=lambda s: -rank[s[0]](s[1]))
        mods = [{"k": s[0], "i": s[1], "e": "lit" if (attr in ("fixed", "unit") or s[0] == "type") else rng.choice(["lit", "ref"])}
                for s in chosen]
        out.append({"depth": d, "fan": rng.choice([1, 2]), "same": rng.random() < 0.4, "wrap": rng.choice([0, 0, 1, 2]),
                    "nest": "lib", "split": split, "xtype": xt, "xdims": 0, "xpre": rng.choice(["", "", "parameter", "constant", "input"]),
                    "ypre": "", "ieq": False, "attr": attr, "mods": mods, "clash": rng.random() < 0.2, "shadow": False, "skew": rng.random() < 0.25, "twin": False})
    return out


def run(ctx):
    thorough = ctx.tier == "thorough"
    cover, stats = {}, {}
    cfg = "Instantiate_C08_thorough.cfg" if thorough else "Instantiate_C08_quick.cfg"

    def witness(k):
        return inst_run.run_file_family(ctx, "Instantiate_file_asbuilt.cfg", [ASBUILT_WITNESSES[k]],
                                        "as-built switches on witness program %d: TLC is expected to report a violation" % k,
                                        shards=1, expect_violation=True)[1]

    side = ThreadPoolExecutor(len(ASBUILT_WITNESSES))      # the witness runs go on while the main family is enumerated
    wfut = [side.submit(witness, k) for k in range(len(ASBUILT_WITNESSES))]
    progs, _ = inst_run.run_spec(ctx, cfg, "mods family, intended switches: operational = Effective(path, attr) in every accepted "
                                           "spelling, spelling invariance, arrival order")
    if not progs:
        raise MachineryError("vacuous: no program printed by %s" % cfg)
    out = evaluate(ctx, progs, cover, stats, "Instantiate_file_asbuilt_log.cfg")
    n_enum, n_drawn = len(progs), 0
    if thorough:
        rng = random.Random(ctx.seed * 104729 + 8)
        dprogs, _ = inst_run.run_file_family(ctx, "Instantiate_file.cfg", draw_pvs(rng, 2500),
                                             "drawn parameter vectors (depth <= 4, up to 4 competing sites), intended switches")
        n_drawn = len(dprogs)
        evaluate(ctx, dprogs, cover, stats, "Instantiate_file_asbuilt_log.cfg")
    need = ["spelling-mixed", "spelling-dotted", "spelling-nested", "depth1", "depth2", "xtype-aR", "xtype-aaR", "xpre-parameter",
            "attr-value", "attr-start", "attr-min", "attr-max", "attr-nominal", "attr-fixed", "attr-unit",
            "site-type0-lit", "site-decl1-lit", "site-decl1-ref", "site-ext1-lit", "site-ext1-ref", "site-comp2-lit",
            "site-comp2-ref", "site-ext2-lit", "site-ext2-ref", "split1-chain2", "split2-chain2", "site-extb1-lit", "site-extb2-ref", "skew", "twin"]
    if thorough:
        need += ["depth3", "same", "site-comp3-ref", "site-ext3-lit"]
    missing = [t for t in need if not cover.get(t)]
    if missing:
        raise MachineryError("vacuous: family shapes never generated: %s" % missing)
    if not any(k.startswith("ok:") for k in stats) or not stats.get("ok:mixed"):
        raise MachineryError("vacuous: no spelling was accepted and equal to the expectation")
    if not stats.get("rejected:nested"):
        ctx.note_drift("no-nested-spelling-rejected-any-more")
    # the as-built configuration must make TLC itself report the property violation
    violated = {}
    wres = [f.result() for f in wfut]
    side.shutdown()
    for k, ab_res in enumerate(wres):
        v = sorted({x for r in ab_res for x in r.violated})
        if not v:
            raise MachineryError("as-built configuration of Instantiate.tla does not violate any invariant on witness %d "
                                 "(switches out of date?)" % k)
        violated["witness-%d" % k] = v
    # binding self-test: a corrupted expectation must be noticed
    p0 = copy.deepcopy(next(p for p, j, r in out if r["kind"] == "ok" and not r["diffs"] and j == 0
                            and any(s["attrs"] for s in p["expect"]["syms"] if isinstance(s["attrs"], dict) and len(s["attrs"]) and s["name"].endswith("x"))))
    xs = next(s for s in p0["expect"]["syms"] if s["name"].endswith("x") and isinstance(s["attrs"], dict) and s["attrs"])
    a = sorted(xs["attrs"])[0]
    xs["attrs"][a] = {"k": "lit", "v": 99}
    if not inst_run.check_variant((p0, 0, True))["diffs"]:
        raise MachineryError("binding self-test: corrupted expected attribute was not noticed")
    ctx.traces += sum(v for k, v in stats.items())
    ctx.extra["programs_enumerated"] = n_enum
    ctx.extra["programs_drawn"] = n_drawn
    ctx.extra["variants"] = dict(sorted(stats.items()))
    ctx.extra["per_tag_coverage"] = dict(sorted(cover.items()))
    ctx.extra["asbuilt_violated_invariants"] = violated
    ctx.assumptions += ["a spelling that pymoca rejects with any exception is admissible (property wording); it is counted in "
                        "coverage.variants, not reported - except the documented spelling a.x(start = e)",
                        "fixed = false cannot be told from the default on a flat symbol and is not compared",
                        "equation lists are compared as multisets"]
    return {"exhaustive": True}


def replay(ctx, sc):
    r = inst_run.replay_scenario(sc, True)
    prog = {"tags": sc["tags"], "variants": [{"sp": sc["spelling"], "ctags": sc["ctags"]}]}
    rec, _ = classify(prog, 0, r, sc.get("asbuilt"))
    return [rec] if rec else []
