\* intended behaviour, two near-duplicate good texts + 1 bad text, one clean version (+dirty)
CONSTANTS GoodTexts = {"g1","g2"} BadTexts = {"b1"} Versions = {"v1"} MaxDay = 1 ExpChoices = {1,30}
  MaxOps = 1000000 InitedSkipsChecks = FALSE CatchesOnlyUnpickling = FALSE FaultsIncludeRemoval = FALSE
INIT Init
NEXT Next
VIEW View
ACTION_CONSTRAINT Log
INVARIANT TypeOK
PROPERTY ResultIsFresh
PROPERTY NeverRaises
INVARIANT NoneNeverStored
PROPERTY RowsOnlyLeaveWhenExpiredOrLost
CHECK_DEADLOCK FALSE
