\* C10 as-built predictions, invariants off (quick family)
CONSTANTS Pairs = "core" GluedPrefixes = TRUE
INIT Init
NEXT Next
VIEW View
CHECK_DEADLOCK FALSE
PROPERTY PhaseOrder
