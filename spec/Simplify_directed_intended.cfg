\* intended spec at the option sets where the as-built switches matter (incl. iterative simplification)
CONSTANTS Family = "directed" OptMode = "directed" ConstValuesResolved = TRUE OldAliasSignStripped = TRUE
          PrintProg = FALSE PrintFin = FALSE PrintCex = FALSE
INIT Init
NEXT Next
VIEW View
INVARIANT TypeOK
INVARIANT SolutionPreserved
INVARIANT RecordedEliminationsHold
INVARIANT SelfContained
INVARIANT MetadataMerged
PROPERTY Balance
CHECK_DEADLOCK FALSE
