\* as built (pinned tree): TLC is EXPECTED to violate PointerSemanticsIsValueSemantics
CONSTANTS DeepCopyRebindsParents = FALSE CopyHookBoundToCopy = FALSE FlattenCopiesTop = FALSE
          Lib = "flat" Universe = "full" MaxTrees = 3 MaxOps = 4
INIT Init
NEXT Next
VIEW ViewFull
INVARIANT PointerSemanticsIsValueSemantics
CHECK_DEADLOCK FALSE
