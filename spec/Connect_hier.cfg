\* two-level family: clauses written inside the component classes (a, b = outside; r.x, r.y = inside) and in M
CONSTANTS NComp = 2  MaxLen = 3  MaxSub = 2  WithLeaf = TRUE
          Layouts <- LayoutsPF
          AllowSelf = TRUE  Emit = TRUE
          FullLen = 3  NParts <- NPartsEnv  Part <- PartEnv
          ZeroIfNotConnectedAsInside = FALSE
INIT Init
NEXT Next
INVARIANT DictsAreComponents
INVARIANT RowsPure
INVARIANT SameSolutionsGeneric
INVARIANT SameSolutionsStructural
INVARIANT EquationCount
CHECK_DEADLOCK FALSE
