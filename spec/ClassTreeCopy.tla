--------------------------- MODULE ClassTreeCopy ---------------------------
(* Property C06.  "Deep copies of a tree are independent of the original."

   Two descriptions of the same system are kept side by side.

   VALUE SEMANTICS (the property side).  A tree is a value: class name ->
   [here, syms, eqs].  DeepCopy duplicates the value, an edit changes the
   value of the edited tree only, FlatV flattens inside that value.

   POINTER SEMANTICS (the implementation side, shaped like ast.Class /
   copy.deepcopy / Class._find_class).  Trees and classes are OBJECTS with an
   identity, a `parent` pointer (an object id - that is where the code can go
   wrong) and a `src` pointer: the object whose __deepcopy__ method is
   attached to it, i.e. the object that is really copied when this one is
   deep-copied.  FlatP flattens a class by resolving component types and
   extends clauses through the parent pointers exactly like
   Class._find_class, taking copies with find_class(copy=True).

   Switches (DESIGN 2.4):
     DeepCopyRebindsParents  children of a copied tree point to the NEW tree
                             (as built: `self.parent not in memo` is always
                             true, so they keep the parent of their source)
     CopyHookBoundToCopy     the per-instance __deepcopy__ of a copy is bound
                             to the copy (as built: to the object it was
                             copied from, so a copy of a copy copies the
                             original)
     FlattenCopiesTop        tree.flatten works on find_class(copy=True) of the
                             requested class (C05 fix) - only matters as built.

   Library (constant):
       function f (input u; output v)                          no equations
       model Leaf (x)                                          NO equation section
       model Mid  (Leaf l; y; eq Mid0: y = f(l.x))             calls f
       model Top  (extends Mid; Bare b; z; eq Top0)            NO initial equations
       model Bare ()                                           NO symbols, NO equations
   so that every kind of container (symbols, equations, initial equations) is EMPTY in some
   class when a copy is taken.  Edits through the AST API (which ones are explored is chosen
   by `Universe`): add/remove symbol u on Leaf, v on Mid, w on Top, s on Bare, t on the
   function f; add/remove equation E1 on Leaf (E1 calls f), E2 on Top; add/remove initial
   equation I1 on Top; remove / re-add class Leaf.  The flat model of a class contains the
   flattened functions it calls, so an edit of f must show up in Mid and Top of the same tree. *)
EXTENDS Integers, Sequences, FiniteSets, TLC, Json

CONSTANTS DeepCopyRebindsParents, CopyHookBoundToCopy, FlattenCopiesTop,
          MaxTrees, MaxOps,
          Lib,             \* "flat": one name space;  "pkg": classes in several packages
          Universe         \* which edits are explored

VARIABLES val,     \* value semantics: sequence of tree values
          obj,     \* pointer semantics: object id -> object
          roots,   \* pointer semantics: tree index -> object id of its root
          ops,     \* number of operations so far
          hist,    \* history variable: the actions so far (hidden by the views)
          last     \* history variable: last action, expected and as-built observations

vars == <<val, obj, roots, ops, hist, last>>

(* ---- library "flat" (one name space) -------------------------------------------------------
       function f (u, v);  model Base (w0);  model Leaf (x; NO equations);
       model Mid (extends Base; Leaf l; y; Mid0: y = f(l.x));  model Top (extends Mid; Bare b; z; Top0);
       model Bare (NO symbols, NO equations)                     -> chain Top extends Mid extends Base
   ---- library "pkg" (several packages; P.Comp is not visible from Q.D, package R comes last) -----
       package P { model Comp (R.Inner i; u);  model Base (Comp c; w) }
       package Q { model D (extends P.Base; d) }
       package R { model Inner (x; In0);  model Holder (Inner h);  model Special (extends Inner; sp) }   *)
Order == IF Lib = "flat" THEN <<"f", "Base", "Leaf", "Mid", "Top", "Bare">>       \* pre-order of all nodes
         ELSE <<"P", "P.Comp", "P.Base", "Q", "Q.D", "R", "R.Inner", "R.Holder", "R.Special">>
Nodes == {Order[j] : j \in DOMAIN Order}
Packages == IF Lib = "flat" THEN {} ELSE {"P", "Q", "R"}
Classes == Nodes \ Packages
PathOf(n) == CASE n \in {"P.Comp"} -> <<"P", "Comp">> [] n = "P.Base" -> <<"P", "Base">> [] n = "Q.D" -> <<"Q", "D">>
               [] n = "R.Inner" -> <<"R", "Inner">> [] n = "R.Holder" -> <<"R", "Holder">>
               [] n = "R.Special" -> <<"R", "Special">> [] OTHER -> <<n>>
Short(n) == PathOf(n)[Len(PathOf(n))]
PkgOf(n) == IF Len(PathOf(n)) = 1 THEN "" ELSE PathOf(n)[1]
OwnSyms(c) == CASE c = "Leaf" -> {"x"} [] c = "Mid" -> {"y"} [] c = "Top" -> {"z"} [] c = "Bare" -> {} [] c = "f" -> {"u", "v"}
                [] c = "Base" -> {"w0"}
                [] c = "P.Comp" -> {"u"} [] c = "P.Base" -> {"w"} [] c = "Q.D" -> {"d"} [] c = "R.Inner" -> {"x"}
                [] c = "R.Holder" -> {} [] c = "R.Special" -> {"sp"} [] OTHER -> {}
OwnEqs(c)  == CASE c = "Mid" -> {"Mid0"} [] c = "Top" -> {"Top0"} [] c = "R.Inner" -> {"In0"} [] OTHER -> {}
BaseOf(c)  == CASE c = "Top" -> "Mid" [] c = "Mid" -> "Base" [] c = "Q.D" -> "P.Base" [] c = "R.Special" -> "R.Inner"
                [] OTHER -> ""                                                      \* extends clause
CompsOf(c) == CASE c = "Mid" -> {<<"l", "Leaf">>} [] c = "Top" -> {<<"b", "Bare">>}
                [] c = "P.Comp" -> {<<"i", "R.Inner">>} [] c = "P.Base" -> {<<"c", "P.Comp">>}
                [] c = "R.Holder" -> {<<"h", "R.Inner">>} [] OTHER -> {}               \* class-typed components
Calls(e)   == IF e \in {"Mid0", "E1"} THEN {"f"} ELSE {}   \* user functions called by an equation
U(sy, eq, ie, cl, lv) == [sym |-> sy, eq |-> eq, ieq |-> ie, cls |-> cl, live |-> lv]
Edits == CASE Universe = "u1" -> U({<<"Leaf", "u">>, <<"Mid", "v">>}, {<<"Leaf", "E1">>}, {}, {"Leaf"}, {})
           [] Universe = "u2" -> U({<<"Bare", "s">>, <<"f", "t">>}, {<<"Leaf", "E1">>}, {<<"Top", "I1">>}, {}, {})
           [] Universe = "u3" -> U({<<"Bare", "s">>, <<"f", "t">>}, {}, {}, {}, {"Top"})
           [] Universe = "u4" -> U({<<"Mid", "v">>}, {}, {}, {"Base"}, {"Top"})          \* the END of an extends chain goes and comes back
           [] Universe = "full" -> U({<<"Leaf", "u">>, <<"Mid", "v">>, <<"Top", "w">>, <<"Bare", "s">>, <<"f", "t">>},
                                     {<<"Leaf", "E1">>, <<"Top", "E2">>}, {<<"Top", "I1">>}, {"Leaf", "Base"}, {"Top"})
           [] Universe = "p1" -> U({<<"R.Inner", "n">>, <<"P.Comp", "m">>}, {<<"R.Inner", "E9">>}, {}, {"R.Inner"}, {"Q.D"})
           [] Universe = "pfull" -> U({<<"R.Inner", "n">>, <<"P.Comp", "m">>, <<"Q.D", "k">>, <<"R.Holder", "g">>},
                                      {<<"R.Inner", "E9">>}, {<<"Q.D", "I1">>}, {"R.Inner", "P.Comp"}, {"Q.D", "R.Holder"})
SymEdits == Edits.sym        \* distinct names: no clashes through inheritance
EqEdits  == Edits.eq
IeqEdits == Edits.ieq
ClassEdits == Edits.cls
LiveFlat == Edits.live       \* classes that histories flatten on the LIVE tree (before later copies / edits)

NoFuncs == [n \in {} |-> {}]
Err(t) == [ok |-> FALSE, err |-> t, syms |-> {}, eqs |-> {}, ieqs |-> {}, funcs |-> NoFuncs]
Ok(s, e, ie, fs) == [ok |-> TRUE, err |-> "", syms |-> s, eqs |-> e, ieqs |-> ie, funcs |-> fs]
Empty == Ok({}, {}, {}, NoFuncs)
Merge(f, g) == [n \in DOMAIN f \cup DOMAIN g |-> IF n \in DOMAIN g THEN g[n] ELSE f[n]]
(* combine flattened parts; the first failing part decides *)
RECURSIVE Join(_, _)
Join(acc, parts) ==
    IF parts = <<>> THEN acc
    ELSE LET h == Head(parts) IN
         IF ~acc.ok THEN acc ELSE IF ~h.ok THEN h
         ELSE Join(Ok(acc.syms \cup h.syms, acc.eqs \cup h.eqs, acc.ieqs \cup h.ieqs, Merge(acc.funcs, h.funcs)), Tail(parts))
Prefix(nm, r) == IF ~r.ok THEN r ELSE Ok({nm \o "." \o x : x \in r.syms}, r.eqs, r.ieqs, r.funcs)
SetToSeq(S) == LET RECURSIVE F(_)
                   F(T) == IF T = {} THEN <<>> ELSE LET x == CHOOSE y \in T : TRUE IN <<x>> \o F(T \ {x})
               IN  F(S)

-----------------------------------------------------------------------------
(* VALUE SEMANTICS *)
PristineClass(c) == [here |-> TRUE, syms |-> OwnSyms(c), eqs |-> OwnEqs(c), ieqs |-> {}]
Gone == [here |-> FALSE, syms |-> {}, eqs |-> {}, ieqs |-> {}]
PristineVal == [c \in Classes |-> PristineClass(c)]

RECURSIVE FlatV(_, _)
FlatV(t, c) ==
    IF ~t[c].here THEN Err("ClassNotFoundError")
    ELSE LET b == IF BaseOf(c) = "" THEN Empty ELSE FlatV(t, BaseOf(c))
             ks == [k \in DOMAIN SetToSeq(CompsOf(c)) |->
                       Prefix(SetToSeq(CompsOf(c))[k][1], FlatV(t, SetToSeq(CompsOf(c))[k][2]))]
             called == UNION {Calls(e) : e \in t[c].eqs}
             fs == [n \in {m \in called : t[m].here} |-> t[n].syms]      \* an unknown function is taken as builtin
             own == Ok(t[c].syms, t[c].eqs, t[c].ieqs, fs)
         IN  Join(b, ks \o <<own>>)

(* the classes whose content the flat model of c contains: itself, the base class, component types,
   called functions (depends on which equations are there) *)
RECURSIVE ReachV(_, _)
ReachV(t, c) ==
    {c} \cup (IF BaseOf(c) = "" THEN {} ELSE ReachV(t, BaseOf(c)))
        \cup UNION {ReachV(t, k[2]) : k \in CompsOf(c)}
        \cup UNION {Calls(e) : e \in t[c].eqs}

-----------------------------------------------------------------------------
(* POINTER SEMANTICS *)
NoKids == [n \in {} |-> 0]
TreeObj(kids, src)   == [kind |-> "tree", name |-> "", syms |-> {}, eqs |-> {}, ieqs |-> {}, kids |-> kids, parent |-> 0, src |-> src]
NodeObj(c, s, e, ie, kids, p, src) ==
    [kind |-> IF c \in Packages THEN "package" ELSE "class", name |-> c, syms |-> s, eqs |-> e, ieqs |-> ie,
     kids |-> kids, parent |-> p, src |-> src]

N(o) == Len(o)
(* Class._find_class: own nested classes, then the parent chain; a dotted name descends from the first hit *)
RECURSIVE Find(_, _, _)
Find(o, p, name) ==
    IF p = 0 THEN 0
    ELSE IF name \in DOMAIN o[p].kids THEN o[p].kids[name]
    ELSE Find(o, o[p].parent, name)
RECURSIVE Descend(_, _, _)
Descend(o, x, rest) ==
    IF x = 0 \/ rest = <<>> THEN x
    ELSE IF Head(rest) \in DOMAIN o[x].kids THEN Descend(o, o[x].kids[Head(rest)], Tail(rest)) ELSE 0
FindQ(o, p, c) == Descend(o, Find(o, p, PathOf(c)[1]), Tail(PathOf(c)))
(* the object that is class / package c of tree i, the container it lives in *)
KidQ(o, r, i, c) == Descend(o, r[i], PathOf(c))
HasKid(o, r, i, c) == KidQ(o, r, i, c) # 0
Kid(o, r, i, c) == KidQ(o, r, i, c)
Container(o, r, i, c) == Descend(o, r[i], SubSeq(PathOf(c), 1, Len(PathOf(c)) - 1))

(* flatten of the class object f.  `top`: f is the requested class itself (looked up with
   copy = FlattenCopiesTop); everything else is reached through find_class(copy=True),
   whose deep copy really copies o[f].src and keeps THAT object's parent.               *)
RECURSIVE FlatObj(_, _, _)
FlatObj(o, f, top) ==
    LET e == IF top /\ ~FlattenCopiesTop THEN f ELSE o[f].src
        c == o[e].name
        p == o[e].parent
        Sub(ty) == LET k == FindQ(o, p, ty) IN IF k = 0 THEN Err("ClassNotFoundError") ELSE FlatObj(o, k, FALSE)
        b == IF BaseOf(c) = "" THEN Empty ELSE Sub(BaseOf(c))
        cs == SetToSeq(CompsOf(c))
        ks == [k \in DOMAIN cs |-> Prefix(cs[k][1], Sub(cs[k][2]))]
        called == UNION {Calls(q) : q \in o[e].eqs}
        (* FunctionExpander: find_class(copy=True) from the instance; not found = builtin function *)
        fs == [n \in {m \in called : FindQ(o, p, m) # 0} |-> o[o[FindQ(o, p, n)].src].syms]
        own == Ok(o[e].syms, o[e].eqs, o[e].ieqs, fs)
    IN  Join(b, ks \o <<own>>)

FlatP(o, r, i, c) ==
    IF KidQ(o, r, i, c) = 0 THEN Err("ClassNotFoundError")
    ELSE FlatObj(o, KidQ(o, r, i, c), TRUE)

(* copy.deepcopy: the children of source object s are copied below the new object newId; every child is
   really a copy of ITS hook source, and keeps that object's parent unless that parent is s itself and
   parents are rebound.  Ids are handed out in pre-order.                                           *)
KidOrder(o, s) == SelectSeq(Order, LAMBDA n : Short(n) \in DOMAIN o[s].kids /\ o[o[s].kids[Short(n)]].name = n)
RECURSIVE CopyKids(_, _, _, _, _)
CopyKids(o, s, names, newId, next) ==
    IF names = <<>> THEN [objs |-> <<>>, kids |-> NoKids, next |-> next]
    ELSE LET nm == Short(Head(names))
             sc == o[o[s].kids[nm]].src
             id == next
             sub == CopyKids(o, sc, KidOrder(o, sc), id, id + 1)
             par == IF DeepCopyRebindsParents /\ o[sc].parent = s THEN newId ELSE o[sc].parent
             me == NodeObj(o[sc].name, o[sc].syms, o[sc].eqs, o[sc].ieqs, sub.kids, par,
                           IF CopyHookBoundToCopy THEN id ELSE o[sc].src)
             rest == CopyKids(o, s, Tail(names), newId, sub.next)
         IN  [objs |-> <<me>> \o sub.objs \o rest.objs,
              kids |-> [k \in {nm} \cup DOMAIN rest.kids |-> IF k = nm THEN id ELSE rest.kids[k]],
              next |-> rest.next]
CopyTree(o, r, i) ==
    LET s    == o[r[i]].src                       \* the object whose __deepcopy__ runs
        n0   == N(o) + 1
        ck   == CopyKids(o, s, KidOrder(o, s), n0, n0 + 1)
        root == TreeObj(ck.kids, IF CopyHookBoundToCopy THEN n0 ELSE o[s].src)
    IN  [obj |-> o \o <<root>> \o ck.objs, roots |-> Append(r, n0)]

-----------------------------------------------------------------------------
IdOf(n) == 1 + (CHOOSE j \in DOMAIN Order : Order[j] = n)
InitKids(p) == [k \in {Short(n) : n \in {m \in Nodes : PkgOf(m) = p /\ m # p}} |->
                   IdOf(CHOOSE n \in Nodes : PkgOf(n) = p /\ n # p /\ Short(n) = k)]
InitObjs == << TreeObj([k \in {n \in Nodes : PkgOf(n) = ""} |-> IdOf(k)], 1) >>
            \o [j \in DOMAIN Order |->
                  LET n == Order[j] IN
                  NodeObj(n, OwnSyms(n), OwnEqs(n), {}, IF n \in Packages THEN InitKids(n) ELSE NoKids,
                          IF PkgOf(n) = "" THEN 1 ELSE IdOf(PkgOf(n)), j + 1)]
Init == /\ val = <<PristineVal>>
        /\ obj = InitObjs
        /\ roots = <<1>>
        /\ ops = 0
        /\ hist = <<>>
        /\ last = [act |-> "init"]

Trees == DOMAIN val

ExpectAll(v) == [i \in DOMAIN v |-> [c \in Classes |-> FlatV(v[i], c)]]
AsBuiltAll(o, r) == [i \in DOMAIN r |-> [c \in Classes |-> FlatP(o, r, i, c)]]
ParentsOf(o, r) == [i \in DOMAIN r |-> [c \in {d \in Classes : KidQ(o, r, i, d) # 0} |->
                        IF o[KidQ(o, r, i, c)].parent = Container(o, r, i, c) THEN "own"
                        ELSE IF o[KidQ(o, r, i, c)].parent = 0 THEN "none" ELSE "foreign"]]

Finish(a) == LET full == a @@ [expect |-> ExpectAll(val'), asbuilt |-> AsBuiltAll(obj', roots'),
                              parents |-> ParentsOf(obj', roots')]
             IN  /\ ops' = ops + 1
                 /\ hist' = Append(hist, full)
                 /\ last' = full

DeepCopy(i) ==
    /\ Len(val) < MaxTrees
    /\ val' = Append(val, val[i])
    /\ LET n == CopyTree(obj, roots, i) IN obj' = n.obj /\ roots' = n.roots
    /\ Finish([act |-> "deepcopy", i |-> i, raises |-> FALSE])

(* edits are enabled by the VALUE semantics (what the user believes the tree contains); the
   pointer side follows if the object is there, otherwise the real call would raise        *)
AddSymbol(i, c, s) ==
    /\ val[i][c].here /\ s \notin val[i][c].syms
    /\ val' = [val EXCEPT ![i][c].syms = @ \cup {s}]
    /\ obj' = IF HasKid(obj, roots, i, c) THEN [obj EXCEPT ![Kid(obj, roots, i, c)].syms = @ \cup {s}] ELSE obj
    /\ UNCHANGED roots
    /\ Finish([act |-> "add_symbol", i |-> i, c |-> c, s |-> s, raises |-> ~HasKid(obj, roots, i, c)])

RemoveSymbol(i, c, s) ==
    /\ val[i][c].here /\ s \in val[i][c].syms /\ s \notin OwnSyms(c)
    /\ val' = [val EXCEPT ![i][c].syms = @ \ {s}]
    /\ obj' = IF HasKid(obj, roots, i, c) THEN [obj EXCEPT ![Kid(obj, roots, i, c)].syms = @ \ {s}] ELSE obj
    /\ UNCHANGED roots
    /\ Finish([act |-> "remove_symbol", i |-> i, c |-> c, s |-> s,
               raises |-> ~HasKid(obj, roots, i, c) \/ s \notin obj[Kid(obj, roots, i, c)].syms])

AddEquation(i, c, e) ==
    /\ val[i][c].here /\ e \notin val[i][c].eqs
    /\ val' = [val EXCEPT ![i][c].eqs = @ \cup {e}]
    /\ obj' = IF HasKid(obj, roots, i, c) THEN [obj EXCEPT ![Kid(obj, roots, i, c)].eqs = @ \cup {e}] ELSE obj
    /\ UNCHANGED roots
    /\ Finish([act |-> "add_equation", i |-> i, c |-> c, e |-> e, raises |-> ~HasKid(obj, roots, i, c)])

RemoveEquation(i, c, e) ==
    /\ val[i][c].here /\ e \in val[i][c].eqs /\ e \notin OwnEqs(c)
    /\ val' = [val EXCEPT ![i][c].eqs = @ \ {e}]
    /\ obj' = IF HasKid(obj, roots, i, c) THEN [obj EXCEPT ![Kid(obj, roots, i, c)].eqs = @ \ {e}] ELSE obj
    /\ UNCHANGED roots
    /\ Finish([act |-> "remove_equation", i |-> i, c |-> c, e |-> e,
               raises |-> ~HasKid(obj, roots, i, c) \/ e \notin obj[Kid(obj, roots, i, c)].eqs])

AddInitialEquation(i, c, e) ==
    /\ val[i][c].here /\ e \notin val[i][c].ieqs
    /\ val' = [val EXCEPT ![i][c].ieqs = @ \cup {e}]
    /\ obj' = IF HasKid(obj, roots, i, c) THEN [obj EXCEPT ![Kid(obj, roots, i, c)].ieqs = @ \cup {e}] ELSE obj
    /\ UNCHANGED roots
    /\ Finish([act |-> "add_initial_equation", i |-> i, c |-> c, e |-> e, raises |-> ~HasKid(obj, roots, i, c)])

RemoveInitialEquation(i, c, e) ==
    /\ val[i][c].here /\ e \in val[i][c].ieqs
    /\ val' = [val EXCEPT ![i][c].ieqs = @ \ {e}]
    /\ obj' = IF HasKid(obj, roots, i, c) THEN [obj EXCEPT ![Kid(obj, roots, i, c)].ieqs = @ \ {e}] ELSE obj
    /\ UNCHANGED roots
    /\ Finish([act |-> "remove_initial_equation", i |-> i, c |-> c, e |-> e,
               raises |-> ~HasKid(obj, roots, i, c) \/ e \notin obj[Kid(obj, roots, i, c)].ieqs])

RemoveClass(i, c) ==
    /\ val[i][c].here
    /\ val' = [val EXCEPT ![i][c] = Gone]
    /\ obj' = IF HasKid(obj, roots, i, c)
              THEN [obj EXCEPT ![Container(obj, roots, i, c)].kids = [n \in DOMAIN @ \ {Short(c)} |-> @[n]],
                               ![Kid(obj, roots, i, c)].parent = 0]
              ELSE obj
    /\ UNCHANGED roots
    /\ Finish([act |-> "remove_class", i |-> i, c |-> c, raises |-> ~HasKid(obj, roots, i, c)])

(* add a freshly built class object with the pristine content *)
AddClass(i, c) ==
    /\ ~val[i][c].here
    /\ val' = [val EXCEPT ![i][c] = PristineClass(c)]
    /\ LET id == N(obj) + 1
           box == Container(obj, roots, i, c)
       IN  obj' = IF box = 0 THEN obj
                  ELSE [obj EXCEPT ![box].kids = [n \in DOMAIN @ \cup {Short(c)} |-> IF n = Short(c) THEN id ELSE @[n]]]
                       \o <<NodeObj(c, OwnSyms(c), OwnEqs(c), {}, NoKids, box, id)>>
    /\ UNCHANGED roots
    /\ Finish([act |-> "add_class", i |-> i, c |-> c, raises |-> Container(obj, roots, i, c) = 0])

(* tree.flatten(tree i, c) on the LIVE tree: must not change anything (C05) - in particular nothing that a
   later deepcopy or edit could trip over *)
FlattenLive(i, c) ==
    /\ UNCHANGED <<val, obj, roots>>
    /\ Finish([act |-> "flatten", i |-> i, c |-> c, raises |-> FALSE])

Edit(i) == \/ \E p \in SymEdits : AddSymbol(i, p[1], p[2]) \/ RemoveSymbol(i, p[1], p[2])
           \/ \E p \in EqEdits : AddEquation(i, p[1], p[2]) \/ RemoveEquation(i, p[1], p[2])
           \/ \E p \in IeqEdits : AddInitialEquation(i, p[1], p[2]) \/ RemoveInitialEquation(i, p[1], p[2])
           \/ \E c \in ClassEdits : AddClass(i, c) \/ RemoveClass(i, c)
           \/ \E c \in LiveFlat : FlattenLive(i, c)

Next == /\ ops < MaxOps
        /\ \E i \in Trees : DeepCopy(i) \/ Edit(i)

Spec == Init /\ [][Next]_vars

-----------------------------------------------------------------------------
(* The property *)
(* the implementation-shaped pointer semantics computes, for every class of every tree, the flat
   model that the value semantics demands *)
PointerSemanticsIsValueSemantics ==
    /\ Len(roots) = Len(val)
    /\ \A i \in Trees : \A c \in Classes : FlatP(obj, roots, i, c) = FlatV(val[i], c)

(* every class's parent chain stays inside its own tree *)
ParentClosed == \A i \in DOMAIN roots : \A c \in Nodes : KidQ(obj, roots, i, c) # 0 =>
                    obj[KidQ(obj, roots, i, c)].parent = Container(obj, roots, i, c)

(* an edit on tree i is invisible in every other tree and visible in every class of tree i that
   reaches the edited class (stated on the pointer semantics, as an action property) *)
Independence ==
    [][ last'.act \notin {"init", "deepcopy", "flatten"} =>
          /\ \A j \in DOMAIN roots : j # last'.i =>
                \A c \in Classes : FlatP(obj', roots', j, c) = FlatP(obj, roots, j, c)
          /\ \A c \in Classes : last'.c \in ReachV(val[last'.i], c) \cup ReachV(val'[last'.i], c)
                                  /\ (FlatP(obj, roots, last'.i, c).ok \/ FlatP(obj', roots', last'.i, c).ok) =>
                FlatP(obj', roots', last'.i, c) # FlatP(obj, roots, last'.i, c)
      ]_vars
(* a fresh copy shows exactly what its source shows *)
CopyFaithful ==
    [][ last'.act = "deepcopy" =>
          \A c \in Classes : FlatP(obj', roots', Len(roots'), c) = FlatP(obj, roots, last'.i, c) ]_vars
NoRaise == last.act # "init" => ~last.raises

-----------------------------------------------------------------------------
ViewVal == val                                  \* quotient for the intended config: value state only
ViewFull == <<val, obj, roots, ops>>
Log == PrintT(<<"TR", ToJson([src |-> [val |-> val], act |-> last', dst |-> [val |-> val']])>>)
(* as-built run: report only the transitions after which the pointer semantics deviates *)
Clean(l) == l.act = "init" \/ (l.expect = l.asbuilt /\ ~l.raises)
LogDev == (Clean(last) /\ ~Clean(last')) =>
            PrintT(<<"DEV", ToJson([hist |-> hist', act |-> last'])>>)
=============================================================================
