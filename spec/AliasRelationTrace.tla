------------------------ MODULE AliasRelationTrace ------------------------
(* Code -> spec trace validation for C17 (binding B).

   The batch file (env TRACE_FILE) is a JSON array of traces; a trace is a
   JSON array of events recorded from real AliasRelation objects:
     {"ev":"add",    "r":i, "x":[n,s], "y":[n,s], "blocks":[[[n,s],...],...]}
     {"ev":"remove", "r":i, "block":[[n,s],...],  "blocks":[...]}
     {"ev":"copy",   "r":i,                       "blocks":[...]}
   "blocks" is the partition into non-trivial signed classes that the real
   object reports for relation r (for copy: for the new relation) AFTER the call.
   Every event must be explained by the corresponding action of AliasRelation
   and the logged partition must equal the spec's.                            *)
EXTENDS AliasRelation, IOUtils, TLCExt, SequencesExt

Batch == JsonDeserialize(IOEnv.TRACE_FILE)

VARIABLES tid, l
tvars == <<rel, pairs, ops, last, tid, l>>

ToSigned(p) == <<p[1], p[2]>>
ToBlock(b) == {ToSigned(b[k]) : k \in DOMAIN b}
ToBlocks(bs) == {ToBlock(bs[k]) : k \in DOMAIN bs}

TInit == Init /\ tid = 1 /\ l = 1

Ev == Batch[tid][l]
IsEv(e) == tid <= Len(Batch) /\ l <= Len(Batch[tid]) /\ Ev.ev = e /\ l' = l + 1 /\ tid' = tid /\ ops' = ops + 1

TAdd == /\ IsEv("add")
        /\ Ev.r \in Ids
        /\ Add(Ev.r, ToSigned(Ev.x), ToSigned(Ev.y))
        /\ rel'[Ev.r] = ToBlocks(Ev.blocks)
TRemove == /\ IsEv("remove")
           /\ Ev.r \in Ids
           /\ Remove(Ev.r, ToBlock(Ev.block))
           /\ rel'[Ev.r] = ToBlocks(Ev.blocks)
TCopy == /\ IsEv("copy")
         /\ Ev.r \in Ids
         /\ Copy(Ev.r)
         /\ rel'[Len(rel')] = ToBlocks(Ev.blocks)
(* next trace of the batch: reset the abstract state *)
TNextTrace == /\ tid <= Len(Batch) /\ l = Len(Batch[tid]) + 1
              /\ tid' = tid + 1 /\ l' = 1
              /\ rel' = <<{}>> /\ pairs' = <<{}>> /\ ops' = 0 /\ last' = [act |-> "init"]

TNext == TAdd \/ TRemove \/ TCopy \/ TNextTrace

TView == <<rel, tid, l>>
(* progress report: the furthest (tid, l) reached is the last AT line printed (workers 1, BFS on a chain) *)
At == PrintT(<<"AT", ToJson([tid |-> tid', l |-> l'])>>)
Accepted == TLCGet("stats").diameter = 1 + Len(Batch) + FoldSeq(LAMBDA t, acc : acc + Len(t), 0, Batch)
=============================================================================
