\* x
CONSTANTS Procs = {"p1","p2"}
          DiffOpts = FALSE
          Codegen = FALSE
          N = 3
          NL = 2
          MaxCrashes = 1
          Inits = {"none"}
          AtomicWrite = FALSE
          CatchUnpickle = FALSE
          UniqueLibs = FALSE
          CatchLibError = FALSE
SPECIFICATION Spec
PROPERTY Recovers
CHECK_DEADLOCK FALSE
