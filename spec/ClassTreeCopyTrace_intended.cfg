\* evaluate given histories with the intended switches
CONSTANTS DeepCopyRebindsParents = TRUE CopyHookBoundToCopy = TRUE FlattenCopiesTop = FALSE
          Lib = "flat" Universe = "full" MaxTrees = 4 MaxOps = 1000000
INIT TInit
NEXT TNext
VIEW TView
ACTION_CONSTRAINT At
POSTCONDITION Accepted
CHECK_DEADLOCK FALSE
