"""C27 - Assembling a library from several files is order-independent.

Spec: spec/ClassTreeMerge.tla
  files = subtrees of a package library below `within` paths; file_to_tree placeholders; Class._extend
  transcribed (ExtendTree) against the declarative UnionOf (DESIGN Appendix C.7); invariants
  PrefixConfluence / Confluence / FlatConfluence for every shape (6), every split (16) and every file
  order.  Intended cfg passes, as-built cfg (placeholder survives) must yield a counterexample.
Binding A: every maximal path of the TLC graph (= every permutation of every split of every shape) is
  replayed: each file text is parsed, the trees are merged with Tree.extend in the order of the path
  (both ways the code base does it: first tree as the base / an empty Tree as the base), every model is
  flattened after every step and compared with the spec's flat variable set; for complete orders the
  full flatten JSON is compared with the single-file parse (differential oracle = the property).
  The two real discovery routes are driven with forced listing orders: casadi api._compile_model (os.walk
  shim) and tools/compiler.py parse_all (Path.glob shim / explicit file lists).
"""
import itertools
import json
import os
import pickle
import shutil
import tempfile

from vf import tlc, graph, classtree as ct
from vf.core import MachineryError
from vf.par import pmap

META = {
    "ready": True,
    "category": "model_checking",
    "technique": "TLA+ spec (ClassTreeMerge.tla) of within-placeholders and Class._extend against the declarative union of "
                 "the files, model-checked by TLC for every shape x split x file order (intended / as-built); every "
                 "complete TLC path replayed with real parser.parse + Tree.extend and through the two real discovery "
                 "routes (casadi api._compile_model directory walk, tools/compiler.py parse_all) with forced listing "
                 "orders; single-file parse as differential oracle",
    "text": "TLC checks PrefixConfluence (after every prefix of every order the merged tree equals the union of the files "
            "merged so far), Confluence and FlatConfluence for 6 library shapes (0-2 package constants, nested package with "
            "0-1, three models referring to them by qualified name, one through a component), all 16 splits into 1-5 files "
            "with within clauses and all file orders (4224 states); the as-built merge must yield a counterexample. Every "
            "complete order is replayed on the real code: flat variable sets after every step against the spec, full "
            "flatten JSON of every model against the single-file parse, and the same orders through api._compile_model "
            "(os.walk order forced) and compiler.parse_all (glob order forced).",
    "note": "Trusted: TLC, the ~50-line renderer from node statuses to Modelica text, the os.walk / Path.glob order shims, "
            "pickle snapshots for observation. Only the structure the property names is generated: package constants, nested "
            "package, models; no imports / extends on packages (listed as not covered in notes/C27.md). Intermediate "
            "(incomplete) merges are compared too but count as drift only; violations are raised for complete orders.",
    "design_ref": "DESIGN.md section 3, C27",
}

NODES = ["Lib", "Lib.Sub", "Lib.Sub.MS", "Lib.M1", "Lib.M2"]
MODELS = ["Lib.Sub.MS", "Lib.M1", "Lib.M2"]
CHILDREN = {"Lib": ["Lib.Sub", "Lib.M1", "Lib.M2"], "Lib.Sub": ["Lib.Sub.MS"], "Lib.Sub.MS": [], "Lib.M1": [], "Lib.M2": []}
CONST_VAL = {"k": 3, "k2": 4, "c": 5}
EXPLAINS, NOT_EXPLAINS = "asbuilt:explains", "asbuilt:does-not-explain"


# ---------------------------------------------------------------------------------------------
# rendering: node statuses ("real" / "placeholder" / "absent") -> Modelica text.  No expectations in here.
def _sum(refs, default):
    if not refs:
        return str(default)
    e = refs[0]
    for r in refs[1:]:
        e = "(%s + %s)" % (e, r)
    return e


def render_node(n, status, shape, indent=""):
    st = status.get(n, "absent")
    if st == "absent":
        return []
    short = n.split(".")[-1]
    lib_refs = ["Lib.%s" % k for k in shape["lib"]]
    sub_refs = ["Lib.Sub.%s" % k for k in shape["sub"]]
    kids = []
    for c in CHILDREN[n]:
        kids += render_node(c, status, shape, indent + "  ")
    if n in ("Lib", "Lib.Sub"):
        out = [indent + "package " + short]
        if st == "real":
            for k in (shape["lib"] if n == "Lib" else shape["sub"]):
                out.append(indent + "  constant Real %s = %s;" % (k, CONST_VAL[k]))
        return out + kids + [indent + "end %s;" % short]
    if st != "real":
        raise MachineryError("model node %s cannot be a placeholder" % n)
    if n == "Lib.M1":
        body = ["Real x;", "equation", "x = %s;" % _sum(lib_refs, 1)]
    elif n == "Lib.Sub.MS":
        body = ["Real x;", "equation", "x = %s;" % _sum(sub_refs + lib_refs, 1)]
    else:
        body = ["Lib.M1 a;", "Real y;", "equation", "y = %s;" % _sum(sub_refs, 2)]
    return [indent + "model " + short] + [indent + "  " + b for b in body] + [indent + "end %s;" % short]


def owner(cuts, n):
    while n != "Lib" and n not in cuts:
        n = n.rsplit(".", 1)[0]
    return n


def file_text(root, cuts, shape):
    status = {n: ("real" if owner(cuts, n) == root else "absent") for n in NODES}
    lines = render_node(root, status, shape)
    if root != "Lib":
        lines = ["within %s;" % root.rsplit(".", 1)[0]] + lines
    return "\n".join(lines) + "\n"


def union_text(status, shape):
    return "\n".join(render_node("Lib", status, shape)) + "\n"


# ---------------------------------------------------------------------------------------------
def flats_of(tree):
    """flat variable names of every model, observed on a pickle snapshot (flatten may rewrite its input)"""
    from pymoca import ast, tree as ptree
    out = {}
    for m in MODELS:
        snap = pickle.loads(pickle.dumps(tree))
        try:
            r = ptree.flatten(snap, ast.ComponentRef.from_string(m))
            fc = list(r.classes.values())[-1]
            out[m] = {"ok": True, "vars": sorted(fc.symbols)}
        except Exception as e:
            out[m] = {"ok": False, "vars": [], "err": type(e).__name__}
    return out


def norm(f):
    return {m: {"ok": bool(f[m]["ok"]), "vars": sorted(f[m]["vars"])} for m in MODELS}


def ordered_vars(tree):
    """per model: the flat variables in the order in which the back ends list them (generators sort the flat
    class's symbols by Symbol.order, a stable sort).  Must not depend on the order in which the files were merged."""
    from pymoca import ast, tree as ptree
    out = {}
    for m in MODELS:
        try:
            r = ptree.flatten(pickle.loads(pickle.dumps(tree)), ast.ComponentRef.from_string(m))
            fc = list(r.classes.values())[-1]
            out[m] = [s.name for s in sorted(fc.symbols.values(), key=lambda x: x.order)]
        except Exception as e:
            out[m] = ["<%s>" % type(e).__name__]
    return out


def _drop_order(x):
    """Symbol.order is a per-FILE declaration counter (parser.ASTListener.sym_count), so its absolute value depends on
    how the library is cut into files by construction; it is not part of the flattened model's content."""
    if isinstance(x, dict):
        return {k: _drop_order(v) for k, v in x.items() if k != "order"}
    if isinstance(x, list):
        return [_drop_order(v) for v in x]
    return x


def _norm_flat(o):
    if o[0] != "ok":
        return o
    s = json.dumps(_drop_order(json.loads(o[2])), sort_keys=True)
    return ["ok", ct.digest(s), s]


def _norm_casadi(o):
    """variables are listed per category sorted by Symbol.order (ties between files are broken arbitrarily):
    compare each category and the equation list as multisets"""
    if o[0] != "ok":
        return o
    d = json.loads(o[2])
    s = json.dumps({k: sorted(v, key=json.dumps) for k, v in d.items()}, sort_keys=True)
    return ["ok", ct.digest(s), s]


def json_of(tree, m):
    return _norm_flat(ct.request(pickle.loads(pickle.dumps(tree)), m, "flatten"))


def merge(texts, style):
    from pymoca import ast, parser
    if style == "first-as-base":                         # backends/casadi/api.py::_compile_model
        tree = None
        for t in texts:
            p = parser.parse(t, bypass_cache=True)
            if p is None:
                raise MachineryError("generated file does not parse:\n" + t)
            if tree is None:
                tree = p
            else:
                tree.extend(p)
        return tree
    tree = ast.Tree(name="ModelicaTree")                 # tools/compiler.py::parse_all
    for t in texts:
        p = parser.parse(t, bypass_cache=True)
        if p is None:
            raise MachineryError("generated file does not parse:\n" + t)
        tree.extend(p)
    return tree


class _OsProxy:
    """stands in for the `os` module inside casadi/api.py: walk() lists files in a forced order"""

    def __init__(self, real, rank):
        self._real, self._rank = real, rank

    def __getattr__(self, name):
        return getattr(self._real, name)

    def walk(self, top, **kw):
        for root, dirs, files in self._real.walk(top, **kw):
            dirs.sort(key=lambda d: self._rank.get(d, 1000))
            yield root, dirs, sorted(files, key=lambda f: self._rank.get(f, 1000))


def compile_route(folder, order_files, model):
    """casadi api._compile_model on `folder`, directory listing forced to order_files (None = natural order)"""
    from pymoca.backends.casadi import api
    real_os = api.os
    if order_files is not None:
        api.os = _OsProxy(real_os, {f: i for i, f in enumerate(order_files)})
    try:
        try:
            m = api._compile_model(folder, model, api._merge_default_options({}))
            s = ct._casadi_sig(m)
            return _norm_casadi(["ok", ct.digest(s), s]) + [ct.digest(s)]
        except MachineryError:
            raise
        except Exception as e:
            return ["exc", type(e).__name__, str(e)[:200].replace("\n", " ")]
    finally:
        api.os = real_os


def cli_route(folder, order_files, explicit):
    """tools/compiler.py parse_all + flatten_class; order forced through Path.glob (directory argument) or by
    passing the files explicitly in that order"""
    import pathlib
    mod = ct.cli_module()
    base = type(pathlib.Path())
    rank = {f: i for i, f in enumerate(order_files)}

    class ForcedPath(base):
        def glob(self, pattern, **kw):
            return iter(sorted(super().glob(pattern, **kw), key=lambda p: rank.get(p.name, 1000)))

    paths = [base(os.path.join(folder, f)) for f in order_files] if explicit else [ForcedPath(folder)]
    import pymoca.ast
    lib = pymoca.ast.Tree(name="ModelicaTree")
    files, errors = mod.parse_all(paths, lib)
    if errors or len(files) != len(order_files):
        return {m: ["exc", "parse_all", "files=%r errors=%r" % (files, errors)] for m in MODELS}
    if not explicit and [p.name for p in files] != list(order_files):
        raise MachineryError("glob shim did not force the order: %r" % (files,))
    out = {}
    for m in MODELS:
        snap = pickle.loads(pickle.dumps(lib))
        try:
            r = mod.flatten_class(snap, m)
            out[m] = _norm_flat(["ok", "", ct.tree_json(r)])
        except Exception as e:
            out[m] = ["exc", type(e).__name__, str(e)[:200]]
    return out


# ---------------------------------------------------------------------------------------------
_G = {}
_single = {}


def single_file(shape_id):
    """reference: the whole library in one file"""
    if shape_id not in _single:
        shape = _G["shapes"][shape_id]
        text = union_text({n: "real" for n in NODES}, shape)
        from pymoca import parser
        tree = parser.parse(text, bypass_cache=True)
        ref = {"text": text, "json": {m: json_of(tree, m) for m in MODELS}, "flats": flats_of(tree)}
        d = os.path.join(_G["scratch"], "single_%d_%d" % (os.getpid(), shape_id))
        os.makedirs(d, exist_ok=True)
        with open(os.path.join(d, "Lib.mo"), "w") as f:
            f.write(text)
        ref["casadi"] = {m: compile_route(d, None, m) for m in MODELS}
        _single[shape_id] = ref
    return _single[shape_id]


def run_path(item, corrupt=False):
    """item: {"shape": id, "cuts": [...], "steps": [{"file", "flats", "merged", "asbuilt"}], "routes": bool}"""
    shape = _G["shapes"][item["shape"]]
    cuts = item["cuts"]
    texts = [file_text(s["file"], cuts, shape) for s in item["steps"]]
    res = {"viol": [], "drift": [], "steps": 0, "routes": 0, "order": {}, "casadi_order": {}}
    ref = single_file(item["shape"])
    for style in ("first-as-base", "empty-root-as-base"):
        for k, st in enumerate(item["steps"]):
            tree = merge(texts[:k + 1], style)
            got = norm(flats_of(tree))
            want = norm(st["flats"])
            if corrupt and k == len(item["steps"]) - 1:
                want["Lib.M1"]["vars"] = want["Lib.M1"]["vars"] + ["ghost"]
            res["steps"] += 1
            complete = k == len(item["steps"]) - 1
            if got != want:
                bad = [m for m in MODELS if got[m] != want[m]]
                if complete:
                    res["viol"].append({"observable": "flat-variables-after-merge", "style": style, "models": bad,
                                        "explained": got == norm(st["asbuilt"]),
                                        "detail": "files merged in order %s (%s): flatten(%s) gives %s, required %s" % (
                                            [s["file"] for s in item["steps"]], style, bad[0], json.dumps(got[bad[0]]), json.dumps(want[bad[0]]))})
                else:
                    res["drift"].append("incomplete-merge-differs-from-union")
                continue
            # differential oracle: one file holding exactly the union of the files merged so far
            if complete:
                res["order"][style] = ordered_vars(tree)
                for m in MODELS:
                    a = json_of(tree, m)
                    if not ct.same_outcome(a, ref["json"][m]):
                        res["viol"].append({"observable": "flatten-json-vs-single-file", "style": style, "models": [m],
                                            "explained": norm(st["asbuilt"])[m] != want[m],
                                            "detail": "files merged in order %s (%s): flatten(%s) = %s, single-file library %s" % (
                                                [s["file"] for s in item["steps"]], style, m, ct.short(a), ct.short(ref["json"][m]))})
            else:
                from pymoca import parser
                ut = parser.parse(union_text(st["merged"], shape), bypass_cache=True)
                for m in MODELS:
                    if not ct.same_outcome(json_of(tree, m), json_of(ut, m)):
                        res["drift"].append("incomplete-merge-json-differs-from-union-text")
    if item["routes"]:
        ct.private_cache_env(_G["scratch"])
        d = tempfile.mkdtemp(prefix="p_", dir=_G["scratch"])
        try:
            names = []
            for s, t in zip(item["steps"], texts):
                fn = s["file"].replace(".", "_") + ".mo"
                names.append(fn)
                with open(os.path.join(d, fn), "w") as f:
                    f.write(t)
            last = item["steps"][-1]
            for m in MODELS:
                a = compile_route(d, names, m)
                res["routes"] += 1
                res["casadi_order"][m] = a[3] if a[0] == "ok" else a[1]
                if not ct.same_outcome(a, ref["casadi"][m]):
                    res["viol"].append({"observable": "casadi-compile-model-vs-single-file", "style": "os.walk", "models": [m],
                                        "explained": norm(last["asbuilt"])[m] != norm(last["flats"])[m],
                                        "detail": "api._compile_model(%s) with directory listing %s: %s %s, single-file library %s" % (
                                            m, names, ct.short(a), a[2][:150] if a[0] == "exc" else "", ct.short(ref["casadi"][m]))})
            for explicit in (False, True):
                got = cli_route(d, names, explicit)
                res["routes"] += 1
                for m in MODELS:
                    want = ref["json"][m]
                    if not ct.same_outcome(got[m], want):
                        res["viol"].append({"observable": "compiler-parse_all-vs-single-file", "style": "file-list" if explicit else "glob",
                                            "models": [m], "explained": norm(last["asbuilt"])[m] != norm(last["flats"])[m],
                                            "detail": "compiler.parse_all(%s order %s) then flatten_class(%s): %s, single-file library %s" % (
                                                "files in" if explicit else "directory, glob", names, m, ct.short(got[m]), ct.short(want))})
        finally:
            shutil.rmtree(d, ignore_errors=True)
    return res


def record_of(item, v):
    tags = ["files:%d" % len(item["steps"]), "style:" + v["style"], EXPLAINS if v["explained"] else NOT_EXPLAINS]
    if item["steps"][0]["file"] != "Lib":
        tags.append("own-file-of-Lib-not-first")
    return {"observable": v["observable"], "tags": tags, "exception_type": None,
            "detail": "shape %s, split at %s: %s" % (json.dumps(_G["shapes"][item["shape"]]), item["cuts"], v["detail"])}


def build_lookup(r_int, r_asb):
    """(shape, cuts, order of files) -> (flats required, flats the as-built merge shows)"""
    want = {}
    for e in r_int.tr():
        d = e["dst"]
        want[(d["shape"], frozenset(d["cuts"]), tuple(d["done"]))] = e["act"]["flats"]
    out = {}
    for e in r_asb.tr():
        d = e["dst"]
        k = (d["shape"], frozenset(d["cuts"]), tuple(d["done"]))
        out[k] = (want[k], e["act"]["flats"])
    return out


def run(ctx):
    thorough = ctx.tier == "thorough"
    procs = int(os.environ.get("VERIF_PROCS", "16"))
    r = tlc.run("ClassTreeMerge", "ClassTreeMerge_intended.cfg", workers=1)
    ctx.add_tlc(r, "intended: TypeOK, PrefixConfluence, Confluence, FlatConfluence; 6 shapes x 16 splits x all orders; TR-log")
    if r.violated:
        raise MachineryError("intended spec violates %s\n%s" % (r.violated, r.cex[:2000]))
    ra = tlc.run("ClassTreeMerge", "ClassTreeMerge_asbuilt.cfg", workers=1)
    ctx.add_tlc(ra, "as-built: counterexample expected")
    if "PrefixConfluence" not in ra.violated:
        raise MachineryError("as-built spec does not violate PrefixConfluence - the switch is vacuous")
    ctx.extra["asbuilt_counterexample"] = ra.cex[:1200]
    rg = tlc.run("ClassTreeMerge", "ClassTreeMerge_asbuilt_graph.cfg", workers=1)
    ctx.add_tlc(rg, "as-built graph: what the as-built merge shows after every step; TR-log")
    shapes = {s["id"]: {"lib": sorted(s["lib"]), "sub": sorted(s["sub"])} for s in r.tr("SHAPE")}
    if len(shapes) != 6:
        raise MachineryError("expected 6 shapes")
    asb = {graph.key(e["dst"]): e["act"] for e in rg.tr()}
    _G["lookup"] = build_lookup(r, rg)
    inits = []
    seen = set()
    for e in r.tr():
        if not e["src"]["done"] and graph.key(e["src"]) not in seen:
            seen.add(graph.key(e["src"]))
            inits.append(e["src"])
    g = graph.Graph(r.tr(), init=inits)
    paths = g.all_paths(5, limit=1000000)
    items = []
    for p in paths:
        st = g.steps(p)
        if not st[-1][1]["complete"]:
            raise MachineryError("maximal path is not a complete order")
        steps = []
        for s in st:
            a = asb.get(graph.key(s[2]))
            if a is None:
                raise MachineryError("as-built graph lacks state %s" % graph.key(s[2]))
            steps.append({"file": s[1]["file"], "flats": s[1]["flats"], "merged": s[1]["merged"], "asbuilt": a["flats"]})
        sh = st[0][0]["shape"]
        routes = thorough or sh in (4, 6) or len(items) % 5 == 0
        items.append({"shape": sh, "cuts": st[0][0]["cuts"], "steps": steps, "routes": routes})
    want_paths = 6 * sum(len(list(itertools.permutations(range(k + 1)))) * n for k, n in ((0, 1), (1, 4), (2, 6), (3, 4), (4, 1)))
    if len(items) != want_paths:
        raise MachineryError("expected %d complete orders, the graph gives %d" % (want_paths, len(items)))
    scratch = tempfile.mkdtemp(prefix="c27_")
    _G.update(shapes=shapes, scratch=scratch)
    try:
        results = pmap(run_path, items, procs)
        cov = {"complete_orders": len(items), "merge_steps": 0, "route_runs": 0, "by_files": {}, "violations": 0,
               "asbuilt_predicts_visible_deviation": 0}
        for it, res in zip(items, results):
            ctx.traces += 1
            cov["merge_steps"] += res["steps"]
            cov["route_runs"] += res["routes"]
            nf = str(len(it["steps"]))
            cov["by_files"][nf] = cov["by_files"].get(nf, 0) + 1
            if norm(it["steps"][-1]["asbuilt"]) != norm(it["steps"][-1]["flats"]):
                cov["asbuilt_predicts_visible_deviation"] += 1
            for d in res["drift"]:
                ctx.note_drift(d)
            for v in res["viol"]:
                cov["violations"] += 1
                ctx.violation(record_of(it, v), {"shape": it["shape"], "shape_def": shapes[it["shape"]], "cuts": it["cuts"],
                                                 "steps": it["steps"], "observable": v["observable"], "style": v["style"]})
            if len(it["steps"]) == 3:
                ctx.sample({"shape": shapes[it["shape"]], "cuts": it["cuts"], "order": [s["file"] for s in it["steps"]],
                            "first_file": file_text(it["steps"][0]["file"], it["cuts"], shapes[it["shape"]]),
                            "expected_flat_variables": norm(it["steps"][-1]["flats"]),
                            "violations": [v["detail"][:200] for v in res["viol"]][:2]}, limit=3)
        # across the permutations of ONE split the back ends must list the variables of a model in the same order
        groups = {}
        for it, res in zip(items, results):
            groups.setdefault((it["shape"], tuple(it["cuts"])), []).append((it, res))
        cov["order_groups"] = 0
        cov["order_comparisons"] = 0
        for (sh, cuts), members in groups.items():
            if len(members) < 2:
                continue
            cov["order_groups"] += 1
            it0, res0 = members[0]
            for it, res in members[1:]:
                for kind, a, b in [("flatten:" + st, res0["order"].get(st), res["order"].get(st)) for st in ("first-as-base", "empty-root-as-base")] + \
                                  [("casadi-compile", res0["casadi_order"] or None, res["casadi_order"] or None)]:
                    if not a or not b:
                        continue
                    cov["order_comparisons"] += 1
                    bad = [m for m in MODELS if a.get(m) != b.get(m)]
                    if bad:
                        cov["violations"] += 1
                        o0, o1 = [x["file"] for x in it0["steps"]], [x["file"] for x in it["steps"]]
                        ctx.violation({"observable": "variable-order-depends-on-file-order", "tags": ["files:%d" % len(it["steps"]), "via:" + kind.split(":")[0]],
                                       "exception_type": None,
                                       "detail": "shape %s, split at %s: %s lists the variables of %s as %s after file order %s but as %s after %s" % (
                                           json.dumps(shapes[sh]), list(cuts), kind, bad[0], a[bad[0]], o0, b[bad[0]], o1)},
                                      {"kind": "order-pair", "shape": sh, "shape_def": shapes[sh], "cuts": list(cuts),
                                       "steps": it0["steps"], "steps_b": it["steps"], "via": kind})
        if cov["order_comparisons"] < 1000:
            raise MachineryError("vacuous: only %d variable-order comparisons between file orders" % cov["order_comparisons"])
        cov["nested_layout_runs"] = nested_layout_runs(ctx, shapes, thorough)
        if cov["route_runs"] < 500:
            raise MachineryError("vacuous: only %d discovery-route runs" % cov["route_runs"])
        if not cov["asbuilt_predicts_visible_deviation"]:
            raise MachineryError("vacuous: the as-built model never predicts a visible deviation")
        # natural (unshimmed) directory order of the two routes, once per shape
        nat = natural_order_runs(ctx, shapes)
        cov["natural_order_runs"] = nat
        ctx.extra["replay"] = cov
        # binding self-test: a corrupted expectation must be rejected
        probe = dict(items[len(items) // 2], routes=False)
        bad = run_path(probe, corrupt=True)
        if not any(v["observable"] == "flat-variables-after-merge" for v in bad["viol"]):
            raise MachineryError("binding self-test failed: corrupted expectation accepted")
    finally:
        shutil.rmtree(scratch, ignore_errors=True)
    ctx.assumptions += [
        "incomplete merges (a prefix of the files) are compared with the spec and with a one-file rendering of the union, "
        "but a difference there is reported as drift, not as a violation: the property speaks about complete libraries",
        "file names are <node path with _>.mo in one flat directory; the listing order is forced by replacing the `os` "
        "module object seen by casadi/api.py and by a Path subclass with an ordered glob()",
    ]
    return {"exhaustive": True}


def nested_paths(cuts):
    """the standard Modelica directory layout: a package that has its own file is <dir>/package.mo"""
    out = {"Lib": "Lib/package.mo"}
    for c in cuts:
        out[c] = {"Lib.Sub": "Lib/Sub/package.mo", "Lib.Sub.MS": "Lib/Sub/MS.mo", "Lib.M1": "Lib/M1.mo", "Lib.M2": "Lib/M2.mo"}[c]
    return out


class _WalkRank(_OsProxy):
    """orders files and sub-directories of every directory by a rank on names (reverse = descending)"""

    def __init__(self, real, reverse):
        self._real, self._reverse = real, reverse

    def walk(self, top, **kw):
        for root, dirs, files in self._real.walk(top, **kw):
            dirs.sort(reverse=self._reverse)
            yield root, dirs, sorted(files, reverse=self._reverse)


def nested_layout_runs(ctx, shapes, thorough, only_cuts=None):
    """both discovery routes on the nested directory layout (same-named files - package.mo - at several levels), with the
    listing of every directory ascending and descending"""
    import pathlib
    from pymoca.backends.casadi import api
    n = 0
    all_cuts = only_cuts or [list(c) for k in range(5) for c in itertools.combinations(["Lib.M1", "Lib.M2", "Lib.Sub", "Lib.Sub.MS"], k)]
    for sid, shape in shapes.items():
        if not thorough and sid not in (4, 6):
            continue
        ref = single_file(sid)
        for cuts in all_cuts:
            d = tempfile.mkdtemp(prefix="nest_", dir=_G["scratch"])
            ct.private_cache_env(_G["scratch"])
            for root, rel in nested_paths(cuts).items():
                os.makedirs(os.path.dirname(os.path.join(d, rel)), exist_ok=True)
                with open(os.path.join(d, rel), "w") as f:
                    f.write(file_text(root, cuts, shape))
            for reverse in (False, True):
                real_os = api.os
                for m in MODELS:
                    api.os = _WalkRank(real_os, reverse)
                    try:
                        try:
                            mm = api._compile_model(d, m, api._merge_default_options({}))
                            sig = ct._casadi_sig(mm)
                            a = _norm_casadi(["ok", ct.digest(sig), sig])
                        except MachineryError:
                            raise
                        except Exception as e:
                            a = ["exc", type(e).__name__, str(e)[:200].replace("\n", " ")]
                    finally:
                        api.os = real_os
                    n += 1
                    if not ct.same_outcome(a, ref["casadi"][m]):
                        ctx.violation({"observable": "casadi-compile-model-vs-single-file",
                                       "tags": ["files:%d" % (len(cuts) + 1), "style:nested-directories", NOT_EXPLAINS], "exception_type": None,
                                       "detail": "api._compile_model(%s) on the nested layout %s (listing %s): %s %s, single-file library %s" % (
                                           m, sorted(nested_paths(cuts).values()), "descending" if reverse else "ascending", ct.short(a),
                                           a[2][:120] if a[0] == "exc" else "", ct.short(ref["casadi"][m]))},
                                      {"kind": "nested", "shape": sid, "shape_def": shape, "cuts": cuts})
                # tools/compiler.py parse_all on the directory
                mod = ct.cli_module()
                base = type(pathlib.Path())

                class RankedPath(base):
                    def glob(self, pattern, **kw):
                        return iter(sorted(super().glob(pattern, **kw), key=str, reverse=reverse))

                import pymoca.ast
                lib = pymoca.ast.Tree(name="ModelicaTree")
                files, errors = mod.parse_all([RankedPath(d)], lib)
                for m in MODELS:
                    try:
                        got = _norm_flat(["ok", "", ct.tree_json(mod.flatten_class(pickle.loads(pickle.dumps(lib)), m))])
                    except Exception as e:
                        got = ["exc", type(e).__name__, str(e)[:200]]
                    n += 1
                    if errors or not ct.same_outcome(got, ref["json"][m]):
                        ctx.violation({"observable": "compiler-parse_all-vs-single-file",
                                       "tags": ["files:%d" % (len(cuts) + 1), "style:nested-directories", NOT_EXPLAINS], "exception_type": None,
                                       "detail": "compiler.parse_all on the nested layout %s (%s) then flatten_class(%s): %s, single-file library %s" % (
                                           sorted(nested_paths(cuts).values()), "descending" if reverse else "ascending", m, ct.short(got), ct.short(ref["json"][m]))},
                                      {"kind": "nested", "shape": sid, "shape_def": shape, "cuts": cuts})
            shutil.rmtree(d, ignore_errors=True)
    if n < 300 and only_cuts is None:
        raise MachineryError("vacuous: only %d nested-layout runs" % n)
    return n


def _nested_replay(ctx, shapes, cuts):
    """re-run the nested-layout comparison for one split (reports through ctx)"""
    nested_layout_runs(ctx, shapes, True, only_cuts=[list(cuts)])


def natural_order_runs(ctx, shapes):
    """the two discovery routes without any shim, library split at every cut node (5 files)"""
    n = 0
    for sid, shape in shapes.items():
        cuts = ["Lib.M1", "Lib.M2", "Lib.Sub", "Lib.Sub.MS"]
        d = tempfile.mkdtemp(prefix="nat_", dir=_G["scratch"])
        ct.private_cache_env(_G["scratch"])
        names = []
        for root in ["Lib"] + cuts:
            fn = root.replace(".", "_") + ".mo"
            names.append(fn)
            with open(os.path.join(d, fn), "w") as f:
                f.write(file_text(root, cuts, shape))
        ref = single_file(sid)
        listing = [f for _, _, fs in os.walk(d) for f in fs]
        order = tuple(f[:-3].replace("_", ".") for f in listing)
        want, asbuilt = _G["lookup"][(sid, frozenset(cuts), order)]
        for m in MODELS:
            a = compile_route(d, None, m)
            n += 1
            if not ct.same_outcome(a, ref["casadi"][m]):
                explained = norm(asbuilt)[m] != norm(want)[m]
                ctx.violation({"observable": "casadi-compile-model-vs-single-file",
                               "tags": ["files:5", "style:natural-os.walk", EXPLAINS if explained else NOT_EXPLAINS], "exception_type": None,
                               "detail": "api._compile_model(%s) on a 5-file directory listed as %s: %s, single-file library %s" % (
                                   m, listing, ct.short(a), ct.short(ref["casadi"][m]))},
                              {"natural": True, "shape": sid, "shape_def": shape})
    return n


# ---------------------------------------------------------------------------------------------
def replay(ctx, sc):
    scratch = tempfile.mkdtemp(prefix="c27r_")
    try:
        if sc.get("natural"):
            r = tlc.run("ClassTreeMerge", "ClassTreeMerge_intended.cfg", workers=1)
            rg = tlc.run("ClassTreeMerge", "ClassTreeMerge_asbuilt_graph.cfg", workers=1)
            _G.update(shapes={sc["shape"]: sc["shape_def"]}, scratch=scratch, lookup=build_lookup(r, rg))
            natural_order_runs(ctx, {sc["shape"]: sc["shape_def"]})
            return []          # natural_order_runs reports through ctx itself
        _G.update(shapes={sc["shape"]: sc["shape_def"]}, scratch=scratch)
        if sc.get("kind") == "nested":
            nested_one = {sc["shape"]: sc["shape_def"]}
            _nested_replay(ctx, nested_one, sc["cuts"])
            return []
        if sc.get("kind") == "order-pair":
            recs = []
            ra = run_path({"shape": sc["shape"], "cuts": sc["cuts"], "steps": sc["steps"], "routes": sc["via"] == "casadi-compile"})
            rb = run_path({"shape": sc["shape"], "cuts": sc["cuts"], "steps": sc["steps_b"], "routes": sc["via"] == "casadi-compile"})
            if sc["via"] == "casadi-compile":
                a, b = ra["casadi_order"], rb["casadi_order"]
            else:
                st = sc["via"].split(":", 1)[1]
                a, b = ra["order"].get(st, {}), rb["order"].get(st, {})
            bad = [m for m in MODELS if a.get(m) != b.get(m)]
            if bad:
                recs.append({"observable": "variable-order-depends-on-file-order",
                             "tags": ["files:%d" % len(sc["steps"]), "via:" + sc["via"].split(":")[0]], "exception_type": None,
                             "detail": "%s: %s vs %s" % (bad[0], a.get(bad[0]), b.get(bad[0]))})
            return recs
        item = {"shape": sc["shape"], "cuts": sc["cuts"], "steps": sc["steps"],
                "routes": sc["observable"] in ("casadi-compile-model-vs-single-file", "compiler-parse_all-vs-single-file")}
        res = run_path(item)
        return [record_of(item, v) for v in res["viol"] if v["observable"] == sc["observable"] and v["style"] == sc["style"]]
    finally:
        shutil.rmtree(scratch, ignore_errors=True)
        _single.clear()
