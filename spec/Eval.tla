-------------------------------- MODULE Eval --------------------------------
(* Reference semantics of the flat-model fragment that pymoca's CasADi back
   end translates (properties C11, C12, C13, C23; reused by C18).

   PART 1  program IR (the same node shape is printed as JSON and rendered to
           Modelica text by vf/ir_eval.py)
   PART 2  values: arrays of exact rationals (Rat.tla) in Modelica (row-major)
           element order; evaluation points
   PART 3  the DECLARATIVE side: Val(e, cx) = Modelica meaning of an
           expression, IndexOK through the error value IdxErr, Exec = sequential
           execution of a function's algorithm, EqRows / Residual = lhs - rhs
           of every flat equation
   The operational, implementation-shaped side (how generator.py lowers these
   programs to CasADi MX with 0-based column-major storage, Python slices,
   fold-from-the-right if_else chains, mapped loop bodies and substitution-
   based function inlining) lives in EvalGen.tla, which EXTENDS this module
   and lets TLC check that both sides agree for every program of the bounded
   families (EvalFam.tla).                                                    *)
EXTENDS Rat, FiniteSets, TLC

-----------------------------------------------------------------------------
(* PART 1 - program IR.  Every node is [k, n, a, v]: kind, name/operator,
   children, literal.                                                         *)
N(k, n, a, v) == [k |-> k, n |-> n, a |-> a, v |-> v]
Lit(q)        == N("lit", "real", <<>>, q)
ILit(i)       == N("lit", "int", <<>>, RI(i))
BLit(b)       == N("lit", "bool", <<>>, Bool(b))
SciLit(m, p)  == N("lit", "sci", <<>>, <<m, p>>)    \* the literal  m e-p  (m * 10^-p): outside the exact arithmetic, its value is Und
Ref(x)        == N("ref", x, <<>>, Und)
Idx(x, subs)  == N("ref", x, subs, Und)            \* subs: expressions, Slice, Colon
Slice(lo, hi) == N("slice", "", <<lo, hi>>, Und)
Colon         == N("colon", "", <<>>, Und)
Un(op, a)     == N("un", op, <<a>>, Und)           \* "-", "not"
Bin(op, a, b) == N("bin", op, <<a, b>>, Und)       \* arithmetic, element-wise, relations, and/or
Call(f, args) == N("call", f, args, Und)           \* builtin or user function
IfE(parts)    == N("if", "", parts, Und)           \* <<c1, e1, c2, e2, ..., eElse>>
If(c, t, e)   == IfE(<<c, t, e>>)
Der(r)        == N("der", "", <<r>>, Und)          \* r is a ref node
Arr(elems)    == N("arr", "", elems, Und)
Tup(refs)     == N("tup", "", refs, Und)
Blk(eqs)      == N("blk", "", eqs, Und)
Eq(l, r)      == N("eq", "", <<l, r>>, Und)
IfEq(parts)   == N("ifeq", "", parts, Und)         \* <<c1, Blk, c2, Blk, ..., BlkElse>>
ForEq(i, lo, hi, eqs) == N("for", i, <<lo, hi, Blk(eqs)>>, Und)
ForStepEq(i, lo, st, hi, eqs) == N("for", i, <<lo, hi, Blk(eqs), st>>, Und)   \* lo:st:hi
Asg(l, r)     == N("asg", "", <<l, r>>, Und)
IfSt(parts)   == N("ifst", "", parts, Und)
ForSt(i, lo, hi, sts) == N("forst", i, <<lo, hi, Blk(sts)>>, Und)

(* component: prefix \in {"", "parameter", "constant", "input", "output"};
   mods: sequence of [attr, each, e], attr "value" is the declaration binding *)
Comp(name, type, prefix, dims, mods) ==
    [name |-> name, type |-> type, prefix |-> prefix, dims |-> dims, mods |-> mods]
Mod(attr, e)     == [attr |-> attr, each |-> FALSE, e |-> e]
EachMod(attr, e) == [attr |-> attr, each |-> TRUE, e |-> e]
Real(name)       == Comp(name, "Real", "", <<>>, <<>>)
RealA(name, dims) == Comp(name, "Real", "", dims, <<>>)
Param(name, q)   == Comp(name, "Real", "parameter", <<>>, <<Mod("value", Lit(q))>>)
IParam(name, i)  == Comp(name, "Integer", "parameter", <<>>, <<Mod("value", ILit(i))>>)
Const(name, q)   == Comp(name, "Real", "constant", <<>>, <<Mod("value", Lit(q))>>)

(* function: scalar Real inputs / outputs / protected temporaries *)
Func(name, ins, outs, tmps, body) ==
    [name |-> name, ins |-> ins, outs |-> outs, tmps |-> tmps, body |-> body]

Prog(comps, eqs, ieqs, funcs) ==
    [name |-> "M", comps |-> comps, eqs |-> eqs, ieqs |-> ieqs, funcs |-> funcs]

-----------------------------------------------------------------------------
(* PART 2 - values.  [sh |-> shape, d |-> elements in row-major order];
   sh = <<>> scalar, <<n>> vector, <<r, c>> matrix.  Two error values:
   IdxErr (a subscript violates IndexOK: the program must be REJECTED) and
   TypeErr (ill-typed program: a bug of the family definition).              *)
V(sh, d)  == [sh |-> sh, d |-> d]
Sc(q)     == V(<<>>, <<q>>)
IdxErr    == V(<<-1>>, <<>>)
TypeErr   == V(<<-2>>, <<>>)
IsErr(a)  == Len(a.sh) = 1 /\ a.sh[1] < 0
IsScalar(a) == a.sh = <<>>
Numel(sh) == IF Len(sh) = 0 THEN 1 ELSE IF Len(sh) = 1 THEN sh[1] ELSE sh[1] * sh[2]
HasUnd(a) == \E i \in DOMAIN a.d : IsUnd(a.d[i])

IntSeq(lo, hi) == [i \in 1..(IF hi >= lo THEN hi - lo + 1 ELSE 0) |-> lo + i - 1]

RECURSIVE Flatten(_)
Flatten(ss) == IF ss = <<>> THEN <<>> ELSE Head(ss) \o Flatten(Tail(ss))

(* scalar operator tables of the DECLARATIVE side: the Modelica meaning.
   Booleans are 0/1; and = product, or = sum (truthiness = non-zero), exactly
   as the property states.                                                    *)
Truth(q) == ~IsZero(q)
Apply2(op, x, y) ==
    IF IsUnd(x) \/ IsUnd(y) THEN Und
    ELSE CASE op \in {"+", ".+"} -> RAdd(x, y)
           [] op \in {"-", ".-"} -> RSub(x, y)
           [] op \in {"*", ".*"} -> RMul(x, y)
           [] op \in {"/", "./"} -> RDiv(x, y)
           [] op \in {"^", ".^"} -> RPow(x, y)
           [] op = "<"   -> Bool(RLt(x, y))
           [] op = "<="  -> Bool(RLe(x, y))
           [] op = ">"   -> Bool(RLt(y, x))
           [] op = ">="  -> Bool(RLe(y, x))
           [] op = "=="  -> Bool(x = y)
           [] op = "<>"  -> Bool(x # y)
           [] op = "and" -> RMul(x, y)
           [] op = "or"  -> RAdd(x, y)
           [] op = "min" -> RMin(x, y)
           [] op = "max" -> RMax(x, y)
Apply1(op, x) ==
    IF IsUnd(x) THEN Und
    ELSE CASE op = "-"     -> RNeg(x)
           [] op = "+"     -> x
           [] op = "not"   -> Bool(~Truth(x))
           [] op = "abs"   -> RAbs(x)
           [] op = "floor" -> RFloor(x)
           [] op = "ceil"  -> RCeil(x)
           [] op = "sign"  -> RSign(x)
Builtin1 == {"abs", "floor", "ceil", "sign"}
Builtin2 == {"min", "max"}
(* elementary functions have no exact value: uninterpreted, handled by the "elem" family only *)
Elementary == {"sin", "cos", "tan", "sinh", "cosh", "tanh", "exp", "log", "log10", "sqrt"}

Map1(op, a) == IF IsErr(a) THEN a ELSE V(a.sh, [i \in DOMAIN a.d |-> Apply1(op, a.d[i])])
(* element-wise with scalar broadcast; "*" of two non-scalars would be a matrix product: not in the families *)
ZipV(op, a, b) ==
    IF IsErr(a) THEN a ELSE IF IsErr(b) THEN b
    ELSE IF a.sh = b.sh /\ (IsScalar(a) \/ op # "*")
         THEN V(a.sh, [i \in DOMAIN a.d |-> Apply2(op, a.d[i], b.d[i])])
    ELSE IF IsScalar(a) THEN V(b.sh, [i \in DOMAIN b.d |-> Apply2(op, a.d[1], b.d[i])])
    ELSE IF IsScalar(b) THEN V(a.sh, [i \in DOMAIN a.d |-> Apply2(op, a.d[i], b.d[1])])
    ELSE TypeErr

(* a resolved subscript: ok (IndexOK), the selected 1-based positions, keep (dimension survives) *)
Sub(ok, list, keep) == [ok |-> ok, list |-> list, keep |-> keep]

(* Select elements of an array value. subs: resolved subscripts, one per dimension
   (fewer subscripts than dimensions = trailing ":" as in Modelica).         *)
Select(a, subs) ==
    IF IsErr(a) THEN a
    ELSE IF Len(subs) > Len(a.sh) THEN IdxErr                       \* subscript on a scalar / too many
    ELSE IF \E i \in DOMAIN subs : ~subs[i].ok THEN IdxErr
    ELSE LET full == [i \in 1..Len(a.sh) |-> IF i <= Len(subs) THEN subs[i]
                                             ELSE Sub(TRUE, IntSeq(1, a.sh[i]), TRUE)]
             sh   == Flatten([i \in 1..Len(a.sh) |-> IF full[i].keep THEN <<Len(full[i].list)>> ELSE <<>>])
         IN  IF Len(a.sh) = 1
             THEN V(sh, [j \in 1..Len(full[1].list) |-> a.d[full[1].list[j]]])
             ELSE LET R == full[1].list
                      C == full[2].list
                      nc == a.sh[2]
                  IN  V(sh, [j \in 1..(Len(R) * Len(C)) |->
                               a.d[(R[((j - 1) \div Len(C)) + 1] - 1) * nc + C[((j - 1) % Len(C)) + 1]]])

(* evaluation points.  PointVal gives pairwise distinct values to the elements of one array
   (11 is prime, multipliers coprime), mixes signs, and uses halves at point 3.  *)
NPts == 4
PMul == <<1, 3, 5, 7>>
PAdd == <<2, 7, 1, 4>>
PointVal(k, t, type) ==
    LET raw == ((PMul[t] * k + PAdd[t]) % 11) - 5
    IN  IF type = "Boolean" THEN RI((k + t) % 2)
        ELSE IF type = "Integer" \/ t # 3 THEN RI(raw)
        ELSE Q(raw, 2)

-----------------------------------------------------------------------------
(* PART 3 - declarative semantics.
   cx = [P |-> program, env |-> name -> value, loc |-> loop index -> integer]   *)
Cx(P, env, loc) == [P |-> P, env |-> env, loc |-> loc]
Bind(f, n, v) == [x \in (DOMAIN f) \cup {n} |-> IF x = n THEN v ELSE f[x]]
NoLoc == [x \in {} |-> 0]

FuncNamed(P, f) == CHOOSE fd \in {P.funcs[i] : i \in DOMAIN P.funcs} : fd.name = f
IsUserFunc(P, f) == \E i \in DOMAIN P.funcs : P.funcs[i].name = f

CondIdx(parts) == {i \in 1..Len(parts) : i % 2 = 1 /\ i < Len(parts)}   \* positions of conditions

RECURSIVE Val(_, _), ResolveSubs(_, _, _), Exec(_, _, _), ExecFor(_, _, _, _, _, _), ValIf(_, _, _), ArgVals(_, _)

IntOf(e, cx) ==      \* integer value of a subscript / range bound, or Und
    LET a == Val(e, cx) IN IF IsErr(a) \/ ~IsScalar(a) \/ ~IsInt(a.d[1]) THEN Und ELSE a.d[1]

ResolveSub(s, n, cx) ==
    IF s.k = "colon" THEN Sub(TRUE, IntSeq(1, n), TRUE)
    ELSE IF s.k = "slice"
         THEN LET lo == IntOf(s.a[1], cx)
                  hi == IntOf(s.a[2], cx)
              IN  IF IsUnd(lo) \/ IsUnd(hi) THEN Sub(FALSE, <<>>, TRUE)
                  ELSE IF lo[1] > hi[1] THEN Sub(TRUE, <<>>, TRUE)              \* empty range selects nothing
                  ELSE Sub(lo[1] >= 1 /\ hi[1] <= n, IntSeq(lo[1], hi[1]), TRUE)
    ELSE LET i == IntOf(s, cx)
         IN  IF IsUnd(i) THEN Sub(FALSE, <<>>, FALSE)
             ELSE Sub(i[1] >= 1 /\ i[1] <= n, <<i[1]>>, FALSE)

ResolveSubs(subs, sh, cx) ==
    [i \in 1..Len(subs) |-> ResolveSub(subs[i], IF i <= Len(sh) THEN sh[i] ELSE 0, cx)]

ValRef(e, name, cx) ==
    IF e.a = <<>> /\ name \in DOMAIN cx.loc THEN Sc(RI(cx.loc[name]))
    ELSE IF name \notin DOMAIN cx.env THEN TypeErr
    ELSE IF e.a = <<>> THEN cx.env[name]
    ELSE Select(cx.env[name], ResolveSubs(e.a, cx.env[name].sh, cx))

ValIf(parts, i, cx) ==          \* first condition that holds selects its branch
    IF i = Len(parts) THEN Val(parts[i], cx)
    ELSE LET c == Val(parts[i], cx)
         IN  IF IsErr(c) THEN c
             ELSE IF ~IsScalar(c) THEN TypeErr
             ELSE IF IsUnd(c.d[1]) THEN Sc(Und)
             ELSE IF Truth(c.d[1]) THEN Val(parts[i + 1], cx)
             ELSE ValIf(parts, i + 2, cx)

ArgVals(args, cx) == [i \in DOMAIN args |-> Val(args[i], cx)]

(* all outputs of a user function as a vector value (scalar if there is one output) *)
CallAll(f, args, cx) ==
    LET fd   == FuncNamed(cx.P, f)
        av   == ArgVals(args, cx)
        st0  == [x \in {fd.ins[i] : i \in DOMAIN fd.ins} |->
                    av[CHOOSE i \in DOMAIN fd.ins : fd.ins[i] = x]]
        st   == Exec(fd.body, st0, Cx(cx.P, st0, NoLoc))
    IN  IF \E i \in DOMAIN av : IsErr(av[i]) THEN (LET j == CHOOSE i \in DOMAIN av : IsErr(av[i]) IN av[j])
        ELSE IF \E i \in DOMAIN av : ~IsScalar(av[i]) THEN TypeErr
        ELSE IF \E i \in DOMAIN fd.outs : fd.outs[i] \notin DOMAIN st THEN TypeErr
        ELSE IF \E i \in DOMAIN fd.outs : IsErr(st[fd.outs[i]]) THEN TypeErr
        ELSE IF Len(fd.outs) = 1 THEN st[fd.outs[1]]
        ELSE V(<<Len(fd.outs)>>, [i \in DOMAIN fd.outs |-> st[fd.outs[i]].d[1]])

Val(e, cx) ==
    CASE e.k = "lit" -> (IF e.n = "sci" THEN Sc(Und) ELSE Sc(e.v))
      [] e.k = "ref" -> ValRef(e, e.n, cx)
      [] e.k = "der" -> ValRef(e.a[1], "der(" \o e.a[1].n \o ")", cx)
      [] e.k = "un"  -> Map1(e.n, Val(e.a[1], cx))
      [] e.k = "bin" -> ZipV(e.n, Val(e.a[1], cx), Val(e.a[2], cx))
      [] e.k = "if"  -> ValIf(e.a, 1, cx)
      [] e.k = "arr" ->
            LET vs == ArgVals(e.a, cx)
            IN  IF \E i \in DOMAIN vs : IsErr(vs[i]) THEN vs[CHOOSE i \in DOMAIN vs : IsErr(vs[i])]
                ELSE IF \A i \in DOMAIN vs : IsScalar(vs[i]) THEN V(<<Len(vs)>>, [i \in DOMAIN vs |-> vs[i].d[1]])
                ELSE IF \A i \in DOMAIN vs : vs[i].sh = vs[1].sh /\ Len(vs[1].sh) = 1
                     THEN V(<<Len(vs), vs[1].sh[1]>>, Flatten([i \in DOMAIN vs |-> vs[i].d]))
                ELSE TypeErr
      [] e.k = "call" ->
            IF e.n \in Builtin1 THEN Map1(e.n, Val(e.a[1], cx))
            ELSE IF e.n \in Builtin2 THEN ZipV(e.n, Val(e.a[1], cx), Val(e.a[2], cx))
            ELSE IF e.n = "sum" THEN
                 LET a == Val(e.a[1], cx)
                     RECURSIVE S(_)
                     S(i) == IF i = 0 THEN Zero ELSE RAdd(a.d[i], S(i - 1))
                 IN  IF IsErr(a) THEN a ELSE Sc(S(Len(a.d)))
            ELSE IF e.n \in Elementary \/ e.n = "delay" THEN      \* delay(e, d): uninterpreted here (C22 owns it)
                 LET a == Val(e.a[1], cx) IN IF IsErr(a) THEN a ELSE V(a.sh, [i \in DOMAIN a.d |-> Und])
            ELSE IF IsUserFunc(cx.P, e.n) THEN
                 LET r == CallAll(e.n, e.a, cx)                 \* expression context: the first output
                 IN  IF IsErr(r) \/ IsScalar(r) THEN r ELSE Sc(r.d[1])
            ELSE TypeErr
      [] OTHER -> TypeErr

(* sequential execution of an algorithm section; st: local store name -> value.
   Branches of an if-statement contain assignments only (as in the families). *)
AssignedIn(s) == UNION {{s.a[j].a[m].a[1].n : m \in DOMAIN s.a[j].a} : j \in {jj \in DOMAIN s.a : s.a[jj].k = "blk"}}
ExecFor(i, v, hi, body, st, cx) ==
    IF v > hi THEN st
    ELSE ExecFor(i, v + 1, hi, body, Exec(body, st, [cx EXCEPT !.loc = Bind(cx.loc, i, v)]), cx)

Exec(stmts, st, cx) ==
    IF stmts = <<>> THEN st
    ELSE LET s  == Head(stmts)
             c1 == [cx EXCEPT !.env = st]
         IN  CASE s.k = "asg" ->
                    Exec(Tail(stmts), Bind(st, s.a[1].n, Val(s.a[2], c1)), cx)
               [] s.k = "ifst" ->
                    LET RECURSIVE Pick(_)
                        Pick(i) == IF i = Len(s.a) THEN [und |-> FALSE, b |-> s.a[i].a]
                                   ELSE LET c == Val(s.a[i], c1)
                                        IN  IF IsErr(c) \/ IsUnd(c.d[1]) THEN [und |-> TRUE, b |-> <<>>]
                                            ELSE IF Truth(c.d[1]) THEN [und |-> FALSE, b |-> s.a[i + 1].a]
                                            ELSE Pick(i + 2)
                        p == Pick(1)
                    IN  IF p.und        \* undefined condition: every variable assigned in a branch is undefined
                        THEN Exec(Tail(stmts), [x \in (DOMAIN st) \cup AssignedIn(s) |-> IF x \in AssignedIn(s) THEN Sc(Und) ELSE st[x]], cx)
                        ELSE Exec(p.b \o Tail(stmts), st, cx)
               [] s.k = "forst" ->
                    LET lo == IntOf(s.a[1], c1)
                        hi == IntOf(s.a[2], c1)
                    IN  Exec(Tail(stmts), ExecFor(s.n, lo[1], hi[1], s.a[3].a, st, cx), cx)

(* rows contributed by one equation: a vector value (Modelica order), or an error value *)
Cat(a, b) == IF IsErr(a) THEN a ELSE IF IsErr(b) THEN b ELSE V(<<Len(a.d) + Len(b.d)>>, a.d \o b.d)
Empty == V(<<0>>, <<>>)
AsRows(a) == IF IsErr(a) THEN a ELSE V(<<Len(a.d)>>, a.d)

RECURSIVE EqRows(_, _), BlkRows(_, _, _), ForRows(_, _, _, _, _)

BlkRows(eqs, i, cx) == IF i > Len(eqs) THEN Empty ELSE Cat(EqRows(eqs[i], cx), BlkRows(eqs, i + 1, cx))

ForRows(e, v, st, hi, cx) ==      \* iteration-major: all body rows for v, then v + st, ...
    IF (st > 0 /\ v > hi) \/ (st < 0 /\ v < hi) THEN Empty
    ELSE Cat(BlkRows(e.a[3].a, 1, [cx EXCEPT !.loc = Bind(cx.loc, e.n, v)]), ForRows(e, v + st, st, hi, cx))

EqRows(e, cx) ==
    CASE e.k = "eq" ->
            IF e.a[1].k = "tup"
            THEN LET l == Val(Arr(e.a[1].a), cx)
                     r == CallAll(e.a[2].n, e.a[2].a, cx)
                 IN  IF IsErr(l) THEN l ELSE IF IsErr(r) THEN r
                     ELSE IF Len(l.d) > Len(r.d) THEN TypeErr
                     ELSE V(<<Len(l.d)>>, [i \in DOMAIN l.d |-> RSub(l.d[i], r.d[i])])   \* surplus outputs are discarded
            ELSE LET l == Val(e.a[1], cx)
                     r == Val(e.a[2], cx)
                 IN  IF IsErr(l) THEN l ELSE IF IsErr(r) THEN r
                     ELSE IF l.sh # r.sh /\ ~IsScalar(r) /\ ~IsScalar(l) THEN TypeErr
                     ELSE AsRows(ZipV("-", l, r))
      [] e.k = "ifeq" ->
            LET RECURSIVE Pick(_)
                Pick(i) == IF i = Len(e.a) THEN BlkRows(e.a[i].a, 1, cx)
                           ELSE LET c == Val(e.a[i], cx)
                                    b == BlkRows(e.a[i + 1].a, 1, cx)
                                IN  IF IsErr(c) THEN c
                                    ELSE IF IsUnd(c.d[1]) THEN (IF IsErr(b) THEN b ELSE V(b.sh, [j \in DOMAIN b.d |-> Und]))
                                    ELSE IF Truth(c.d[1]) THEN b
                                    ELSE Pick(i + 2)
            IN  Pick(1)
      [] e.k = "for" ->
            LET lo == IntOf(e.a[1], cx)
                hi == IntOf(e.a[2], cx)
                st == IF Len(e.a) = 4 THEN IntOf(e.a[4], cx) ELSE One
            IN  IF IsUnd(lo) \/ IsUnd(hi) \/ IsUnd(st) \/ st[1] = 0 THEN TypeErr
                ELSE ForRows(e, lo[1], st[1], hi[1], cx)
      [] OTHER -> TypeErr

(* the residual as a sequence of blocks, one per top-level equation *)
Blocks(eqs, cx) == [i \in DOMAIN eqs |-> EqRows(eqs[i], cx)]

-----------------------------------------------------------------------------
(* environment of a program at point t *)
CompIndex(P, name) == CHOOSE i \in DOMAIN P.comps : P.comps[i].name = name
ModOf(c, attr) == LET S == {i \in DOMAIN c.mods : c.mods[i].attr = attr}
                  IN  IF S = {} THEN [attr |-> "none", each |-> FALSE, e |-> Lit(Und)] ELSE c.mods[CHOOSE i \in S : TRUE]
HasMod(c, attr) == \E i \in DOMAIN c.mods : c.mods[i].attr = attr

(* constants with a literal binding, and Integer constants / parameters with a literal OR a constant-expression
   binding over earlier such components (they size arrays and loops and appear in subscripts), keep their declared
   value at every point; everything else is a free input of the residual *)
Pinned(c) == /\ HasMod(c, "value") /\ c.dims = <<>>
             /\ (c.prefix = "constant" \/ (c.prefix = "parameter" /\ c.type = "Integer"))
             /\ (ModOf(c, "value").e.k = "lit" \/ c.type = "Integer")

RECURSIVE PinEnvUpTo(_, _)
PinEnvUpTo(P, n) ==      \* name -> value of the pinned components among the first n declarations
    IF n = 0 THEN [x \in {} |-> Sc(Zero)]
    ELSE LET prev == PinEnvUpTo(P, n - 1)
             c    == P.comps[n]
         IN  IF ~Pinned(c) THEN prev
             ELSE Bind(prev, c.name, IF ModOf(c, "value").e.k = "lit" THEN Sc(ModOf(c, "value").e.v)
                                     ELSE Val(ModOf(c, "value").e, Cx(P, prev, NoLoc)))

CompVal(P, i, t, off) ==
    LET c == P.comps[i]
        n == Numel(c.dims)
    IN  IF Pinned(c) /\ off = 0 THEN PinEnvUpTo(P, i)[c.name]
        ELSE V(c.dims, [j \in 1..n |-> PointVal(3 * (i + off) + j, t, c.type)])

HasDer(c) == c.type = "Real" /\ c.prefix \in {"", "output"}

EnvNames(P) == {P.comps[i].name : i \in DOMAIN P.comps}
               \cup {"der(" \o P.comps[i].name \o ")" : i \in {j \in DOMAIN P.comps : HasDer(P.comps[j])}}
               \cup {"time"}
EnvAt(P, t) ==
    [x \in EnvNames(P) |->
        IF x = "time" THEN Sc(PointVal(1, t, "Real"))
        ELSE IF \E i \in DOMAIN P.comps : P.comps[i].name = x
             THEN CompVal(P, CompIndex(P, x), t, 0)
             ELSE LET i == CHOOSE j \in DOMAIN P.comps : x = "der(" \o P.comps[j].name \o ")"
                  IN  CompVal(P, i, t, 5)]

CxAt(P, t) == Cx(P, EnvAt(P, t), NoLoc)

(* structural environment: only the pinned components (what sizes arrays, loops and subscripts) *)
SEnv(P) == PinEnvUpTo(P, Len(P.comps))

(* a slice lo:hi with lo > hi selects nothing whatever the declared size; whether such a program must be
   rejected when lo or hi lie outside 1..n is not something the properties decide: "either" is accepted *)
RECURSIVE EmptySliceIn(_, _)
EmptySliceIn(e, cx) ==       \* bounds are structural: literals or constant expressions over pinned components
    (e.k = "slice" /\ LET lo == IntOf(e.a[1], cx) hi == IntOf(e.a[2], cx) IN ~IsUnd(lo) /\ ~IsUnd(hi) /\ RLt(hi, lo))
    \/ \E i \in DOMAIN e.a : EmptySliceIn(e.a[i], cx)
HasEmptySlice(P) == LET cx == Cx(P, SEnv(P), NoLoc)
                    IN  (\E i \in DOMAIN P.eqs : EmptySliceIn(P.eqs[i], cx)) \/ (\E j \in DOMAIN P.ieqs : EmptySliceIn(P.ieqs[j], cx))

=============================================================================
