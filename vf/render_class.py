"""Class declarations of spec/ClassDecl.tla (JSON) <-> Modelica text / projection of the parsed ast.Class.

render(): pure pretty-printer, no expected-value logic.
project(): pure reader of what pymoca.parser built, in the vocabulary of ClassDecl.tla's `Declared`.
"""


def quote(piece):
    """a comment piece of ClassDecl.tla as a Modelica string: ~ stands for an escaped double quote"""
    return '"%s"' % piece.replace("~", '\\"')


def comment_readings(text):
    """the two readings of a comment the check accepts: escape sequences kept as written, or resolved"""
    return (text.replace("~", '\\"'), text.replace("~", '"'))


def _subs(ds):
    return "[" + ", ".join(ds) + "]" if ds else ""


def _decl(d):
    s = d["name"] + _subs(d["ddims"])
    if d["attrs"]:
        s += "(" + ", ".join("%s = %s" % (a, v) for a, v in d["attrs"]) + ")"
    if d["value"] != "":
        s += " = " + d["value"]
    if d["comment"]:
        s += " " + " + ".join(quote(c) for c in d["comment"])
    return s


def render_element(el, ind):
    k = el["k"]
    if k == "clause":
        head = " ".join(el["prefixes"] + [".".join(el["type"]) + _subs(el["cdims"])])
        return ["%s%s %s;" % (ind, head, ", ".join(_decl(d) for d in el["decls"]))]
    if k == "extends":
        mods = "(" + ", ".join("%s = %s" % (a, v) for a, v in el["mods"]) + ")" if el["mods"] else ""
        return ["%sextends %s%s;" % (ind, ".".join(el["base"]), mods)]
    if k == "import":
        p = ".".join(el["path"])
        if el["form"] == "qual":
            return ["%simport %s;" % (ind, p)]
        if el["form"] == "renamed":
            return ["%simport %s = %s;" % (ind, el["names"][0], p)]
        if el["form"] == "star":
            return ["%simport %s.*;" % (ind, p)]
        return ["%simport %s.{%s};" % (ind, p, ", ".join(el["names"]))]
    if k == "short":
        mods = "(" + ", ".join("%s = %s" % (a, v) for a, v in el["mods"]) + ")" if el["mods"] else ""
        return ["%stype %s = %s%s;" % (ind, el["name"], ".".join(el["base"]), mods)]
    if k == "class":
        lines = render_class(el["c"], ind)
        lines[-1] += ";"
        return lines
    raise ValueError("unknown element kind %r" % k)


def render_class(c, ind=""):
    head = "%s%s %s" % (ind, c["kind"], c["name"])
    if c["comment"]:
        head += " " + quote(c["comment"])
    lines = [head]
    for s in c["sections"]:
        if s["k"] == "elems":
            if s["vis"] != "first":
                lines.append(ind + s["vis"])
            for el in s["elems"]:
                lines += render_element(el, ind + "  ")
        elif s["k"] == "eq":
            lines.append(ind + ("initial equation" if s["initial"] else "equation"))
            lines += ["%s  e%d = %d;" % (ind, i, i) for i in s["ids"]]
        elif s["k"] == "alg":
            lines.append(ind + ("initial algorithm" if s["initial"] else "algorithm"))
            lines += ["%s  s%d := %d;" % (ind, i, i) for i in s["ids"]]
        else:
            raise ValueError("unknown section kind %r" % s["k"])
    lines.append("%send %s" % (ind, c["name"]))
    return lines


def render(c):
    lines = render_class(c)
    lines[-1] += ";"
    return "\n".join(lines) + "\n"


# ---------------------------------------------------------------------------------------------
def _atom(x):
    """a subscript / modification value as the text it was written as"""
    from pymoca import ast
    if isinstance(x, ast.Primary):
        if x.value is None:
            return None
        if isinstance(x.value, bool):
            return "true" if x.value else "false"
        return str(x.value)
    if isinstance(x, ast.ComponentRef):
        return ".".join(x.to_tuple())
    return "<%s>" % type(x).__name__


def _mods(cm):
    from pymoca import ast
    if cm is None:
        return []
    out = []
    for a in cm.arguments:
        v = a.value
        if isinstance(v, ast.ElementModification):
            vals = [_atom(m) for m in v.modifications]
            out.append([".".join(v.component.to_tuple()), vals[0] if len(vals) == 1 else repr(vals)])
        else:
            out.append(["<%s>" % type(v).__name__, ""])
    return out


def _ids(items, prefix):
    from pymoca import ast
    out = []
    for it in items:
        try:
            left = it.left[0] if isinstance(it.left, list) else it.left
            name = left.name
            val = it.right.value
            if isinstance(left, ast.ComponentRef) and name == "%s%d" % (prefix, val):
                out.append(val)
                continue
        except Exception:
            pass
        out.append("<%r>" % (it,))
    return out


def project_symbol(s):
    dims = []
    for grp in (s.dimensions or []):
        for d in grp:
            a = _atom(d)
            if a is not None:
                dims.append(a)
    return {"name": s.name, "type": list(s.type.to_tuple()) if hasattr(s.type, "to_tuple") else ["<%s>" % type(s.type).__name__],
            "prefixes": list(s.prefixes), "dims": dims, "vis": str(s.visibility), "comment": s.comment,
            "mods": _mods(s.class_modification)}


def project(c):
    from pymoca import ast
    imports = []
    for key, v in c.imports.items():
        if isinstance(v, ast.ImportClause):
            kind = "star" if v.unqualified else "renamed"
            imports.append({"key": key, "kind": kind, "paths": [list(p.to_tuple()) for p in v.components]})
        else:
            imports.append({"key": key, "kind": "qual", "paths": [list(v.to_tuple())]})
    return {"name": c.name, "comment": c.comment,
            "comps": [project_symbol(s) for s in c.symbols.values()],
            "keys": list(c.symbols.keys()),
            "eqs": _ids(c.equations, "e"), "ieqs": _ids(c.initial_equations, "e"),
            "stmts": _ids(c.statements, "s"), "istmts": _ids(c.initial_statements, "s"),
            "extends": [{"base": list(e.component.to_tuple()), "mods": _mods(e.class_modification), "vis": str(e.visibility)} for e in c.extends],
            "imports": imports,
            "classes": [project(k) for k in c.classes.values()],
            "class_keys": list(c.classes.keys())}


def all_symbols(c, path=""):
    """[(qualified name, Symbol)] of a class and its nested classes, declaration order"""
    out = [(path + n, s) for n, s in c.symbols.items()]
    for k in c.classes.values():
        out += all_symbols(k, path + str(k.name) + ".")
    return out


def orders(c):
    out = {c.name: [s.order for s in c.symbols.values()]}
    for k in c.classes.values():
        for n, o in orders(k).items():
            out["%s.%s" % (c.name, n)] = o
    return out
