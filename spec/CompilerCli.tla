---------------------------- MODULE CompilerCli ----------------------------
(* Property C26.  Exit status of  tools/compiler.py :: main(argv).

   An INVOCATION is chosen in Init (oracle mode):
     paths    non-empty set of path kinds given as PATH arguments
                dirGood      directory lib/ with Leaf.mo Mid.mo Top.mo Dot.mo Bad.mo (one class per file;
                             Mid uses Leaf, Top extends Mid, Dot modifies Mid; Bad parses but cannot be
                             flattened: unknown component type)
                fileGood     the file solo/Solo.mo
                dirTwin      directory twin/ with one/Twin.mo and two/Twin.mo (same class twice)
                fileSyntax   a file with a syntax error         (parser returns None)
                dirFail      directory faillib/ with Good.mo and six models that cannot be flattened / generated,
                             each failing with a different exception class (see FlattenRejects / CasadiRejects)
                fileListener a file on which the AST listener raises OSError (duplicate declaration)
                fileListenerAttr  a file on which the AST listener raises AttributeError (redeclare of an unknown type)
                notMo        an existing file that is not *.mo
                dirEmpty     an existing directory without *.mo files
                missing, missing2   two paths that do not exist
     outdir   "ok" | "missing" | "blocked" (exists, but <model>.py cannot be written there) | "default" (no -o)
     models   sequence of -m arguments (class names)
     target   "none" | "sympy" | "casadi" | "bogus"
     opts     sequence of -O arguments: "valid" (NAME=VALUE) | "noeq" (no '=') | "twoeq" (a=b=c)
     verbose  number of -v flags

   OPERATIONAL SIDE: the phases of main(), one action each, threading the shared
   state exactly like the code does (`errors`, the model index, the parsed
   library, the set of classes already flattened on the shared library_ast):
     ArgParse -> CheckPaths -> ParseOptions -> EarlyReturn -> ParseFiles | ListFiles
              -> PerModel(1) .. PerModel(n) -> Return
   An escaping exception is the terminal state "crash".

   DECLARATIVE SIDE (the property):  exit code 2 for argument errors; otherwise the
   number of usage errors if there are any; otherwise the number of files with
   parse errors (1 if there is no Modelica file at all) if any; otherwise the
   number of requested models that fail to flatten / generate, where whether a
   model fails is a function of the model, the target and the given paths only
   (Fails) - never of the other models of the same call (MODEL INDEPENDENCE, also
   as the action property PerModelIndependent on the operational loop).

   AS-BUILT SWITCHES (DESIGN 2.4); intended = all TRUE:
     CliCountsTranslateFailures  FALSE: the result of translate() (-t sympy) is ignored
     CliCatchesTranslateErrors   FALSE: translate() only catches OSError/KeyError; the flattening
                                        errors (ClassNotFoundError ...) escape main()
     CliCountsMissingModelFile   FALSE: -t casadi, no file named <model>.mo: logged, not counted  *)
EXTENDS Integers, Sequences, FiniteSets, TLC, Json, IOUtils

CONSTANTS MaxDev,        \* an invocation differs from Base in at most MaxDev dimensions ...
          MaxPaths, MaxModels, MaxModelsRich, MaxOpts,
          SampleDev,     \* ... or in exactly SampleDev dimensions and is in the sampled share
          CliCountsTranslateFailures, CliCatchesTranslateErrors, CliCountsMissingModelFile,
          Emit, NParts, Part

VARIABLES inv, pc, errors, mi, nfiles, nerrfiles, touched, status,
          why      \* history: which as-built deviations made a difference on this run

vars == <<inv, pc, errors, mi, nfiles, nerrfiles, touched, status, why>>

PartEnv == atoi(IOEnv.C26_PART)
NPartsEnv == atoi(IOEnv.C26_NPARTS)

-----------------------------------------------------------------------------
(* the file system the invocations talk about *)
PathKinds == {"dirGood", "fileGood", "dirTwin", "dirFail", "fileSyntax", "fileListener", "fileListenerAttr", "notMo", "dirEmpty",
              "missing", "missing2"}
CoreModels == {"Leaf", "Mid", "Top", "Dot", "Solo", "Twin", "Bad", "Nope"}
(* models of dirFail: they differ by HOW (with which exception class) and WHERE (flattener / one generator) they fail *)
FailModels == {"Good", "Typo", "SelfExt", "SubMod", "ConnKey", "UnkFunc", "AlgSec"}
ModelNames == CoreModels \cup FailModels
OptKinds == {"valid", "noeq", "twoeq"}

(* *.mo files found below a path: sequence of [stem, dir, ok] *)
FilesOf(k) ==
    CASE k = "dirGood"      -> << [stem |-> "Leaf", dir |-> "lib", ok |-> TRUE], [stem |-> "Mid", dir |-> "lib", ok |-> TRUE],
                                  [stem |-> "Top", dir |-> "lib", ok |-> TRUE], [stem |-> "Dot", dir |-> "lib", ok |-> TRUE],
                                  [stem |-> "Bad", dir |-> "lib", ok |-> TRUE] >>
      [] k = "fileGood"     -> << [stem |-> "Solo", dir |-> "solo", ok |-> TRUE] >>
      [] k = "dirFail"      -> << [stem |-> "Good", dir |-> "faillib", ok |-> TRUE], [stem |-> "Typo", dir |-> "faillib", ok |-> TRUE],
                                  [stem |-> "SelfExt", dir |-> "faillib", ok |-> TRUE], [stem |-> "SubMod", dir |-> "faillib", ok |-> TRUE],
                                  [stem |-> "ConnKey", dir |-> "faillib", ok |-> TRUE], [stem |-> "UnkFunc", dir |-> "faillib", ok |-> TRUE],
                                  [stem |-> "AlgSec", dir |-> "faillib", ok |-> TRUE] >>
      [] k = "fileListenerAttr" -> << [stem |-> "Redecl", dir |-> "broken3", ok |-> FALSE] >>
      [] k = "dirTwin"      -> << [stem |-> "Twin", dir |-> "twin/one", ok |-> TRUE], [stem |-> "Twin", dir |-> "twin/two", ok |-> TRUE] >>
      [] k = "fileSyntax"   -> << [stem |-> "Syn", dir |-> "broken", ok |-> FALSE] >>
      [] k = "fileListener" -> << [stem |-> "Dup", dir |-> "broken2", ok |-> FALSE] >>
      [] OTHER              -> << >>

RECURSIVE SumOver(_, _)
SumOver(S, f) == IF S = {} THEN 0 ELSE LET x == CHOOSE x \in S : TRUE IN f[x] + SumOver(S \ {x}, f)
NFiles(P) == SumOver(P, [k \in P |-> Len(FilesOf(k))])
NErrFiles(P) == SumOver(P, [k \in P |-> Cardinality({n \in DOMAIN FilesOf(k) : ~FilesOf(k)[n].ok})])
NStem(P, m) == SumOver(P, [k \in P |-> Cardinality({n \in DOMAIN FilesOf(k) : FilesOf(k)[n].stem = m})])
(* classes of the library obtained by parsing every good file of the paths *)
Classes(P) == UNION {{FilesOf(k)[n].stem : n \in {i \in DOMAIN FilesOf(k) : FilesOf(k)[i].ok}} : k \in P}
Needs(m) == CASE m = "Mid" -> {"Mid", "Leaf"} [] m = "Top" -> {"Top", "Mid", "Leaf"} [] m = "Dot" -> {"Dot", "Mid", "Leaf"}
              [] m = "Typo" -> {"Typo", "Good"} [] m = "SubMod" -> {"SubMod", "Good"}
              [] OTHER -> {m}

(* does the request for model m fail?  A function of (m, target, paths, outdir) ONLY. *)
(* the flattener rejects them, each with another exception class:
     Bad     unknown component type            ast.ClassNotFoundError
     Typo    modification of a missing element  tree.ModificationTargetNotFound
     SelfExt class extending itself             bare Exception
     SubMod  subscripted modifier               bare Exception (re-raised with the symbol name)
     ConnKey connect() to an undeclared name    KeyError
   the CasADi generator alone rejects (flatten and sympy succeed):
     UnkFunc call of an unknown function        bare Exception
     AlgSec  algorithm section in a model       NotImplementedError                                  *)
FlattenRejects == {"Bad", "Typo", "SelfExt", "SubMod", "ConnKey"}
CasadiRejects == {"UnkFunc", "AlgSec"}
FlattenFails(m, P) == ~(Needs(m) \subseteq Classes(P)) \/ m \in FlattenRejects
Fails(m, target, P, outdir) ==
    CASE target = "none"   -> FlattenFails(m, P)
      [] target = "sympy"  -> FlattenFails(m, P) \/ outdir = "blocked"
      [] target = "casadi" -> NStem(P, m) # 1 \/ m \in FlattenRejects \cup CasadiRejects   \* model directory = that of the unique <m>.mo

-----------------------------------------------------------------------------
(* declarative side *)
ArgError(v) == \/ v.paths = {}
               \/ v.target = "bogus"
               \/ (v.target \in {"sympy", "casadi"} /\ v.models = <<>>)
UsageErrors(v) == (IF v.outdir = "missing" THEN 1 ELSE 0)
                  + Cardinality(v.paths \cap {"missing", "missing2"})
                  + Cardinality({n \in DOMAIN v.opts : v.opts[n] # "valid"})
FailingModels(v) == Cardinality({n \in DOMAIN v.models : Fails(v.models[n], v.target, v.paths, v.outdir)})
Expected(v) ==
    IF ArgError(v) THEN [kind |-> "exit", code |-> 2]
    ELSE IF UsageErrors(v) > 0 THEN [kind |-> "return", code |-> UsageErrors(v)]
    ELSE IF NFiles(v.paths) = 0 THEN [kind |-> "return", code |-> 1]
    ELSE IF v.target # "casadi" /\ NErrFiles(v.paths) > 0 THEN [kind |-> "return", code |-> NErrFiles(v.paths)]
    ELSE [kind |-> "return", code |-> FailingModels(v)]

-----------------------------------------------------------------------------
(* the family: everything within MaxDev changes of a plain invocation (base 0), and everything within MaxDev
   changes of the model / output / verbosity arguments of the calls  -t casadi | -t sympy | flatten-only  on a rich
   library that includes dirFail (bases 1, 2, 3; there every model name of ModelNames can be requested) *)
Base(b) == CASE b = 0 -> [paths |-> {"dirGood"}, outdir |-> "ok", models |-> <<"Leaf">>, target |-> "none", opts |-> <<>>, verbose |-> 0]
             [] b = 1 -> [paths |-> {"dirGood", "fileGood", "dirTwin", "dirFail"}, outdir |-> "ok", models |-> <<"Leaf">>,
                          target |-> "casadi", opts |-> <<>>, verbose |-> 0]
             [] b = 2 -> [paths |-> {"dirGood", "fileGood", "dirTwin", "dirFail"}, outdir |-> "ok", models |-> <<"Leaf">>,
                          target |-> "sympy", opts |-> <<>>, verbose |-> 0]
             [] b = 3 -> [paths |-> {"dirGood", "fileGood", "dirTwin", "dirFail"}, outdir |-> "ok", models |-> <<"Leaf">>,
                          target |-> "none", opts |-> <<>>, verbose |-> 0]
Bases == 0..3
Dims == {"paths", "outdir", "models", "target", "opts", "verbose"}
FreeDims(b) == IF b = 0 THEN Dims ELSE {"models", "outdir", "verbose"}
SeqsUpTo(S, n) == UNION {[1..k -> S] : k \in 0..n}
Hash(v) == (17 * Cardinality(v.paths) + 3 * Len(v.models) + 5 * Len(v.opts) + 7 * v.verbose
            + 11 * Cardinality(v.paths \cap {"dirGood", "fileSyntax", "missing", "dirTwin"})
            + 13 * Cardinality({n \in DOMAIN v.models : v.models[n] \in {"Leaf", "Bad", "Twin", "Top"}})
            + (IF v.target = "sympy" THEN 1 ELSE IF v.target = "casadi" THEN 2 ELSE 0)
            + (IF v.outdir = "ok" THEN 0 ELSE 19)) % 997
(* outside the verdict family (see notes/C26.md): with -t casadi the files of PATH are never parsed, so what the
   status should be when one of them is broken is not fixed by the property *)
InFamily(v) == ~(v.target = "casadi" /\ v.paths \cap {"fileSyntax", "fileListener"} # {})
Dom(b, f) ==
          CASE f = "paths"   -> {P \in SUBSET PathKinds : Cardinality(P) <= MaxPaths}
            [] f = "outdir"  -> {"ok", "missing", "blocked", "default"}
            [] f = "models"  -> IF b = 0 THEN SeqsUpTo(CoreModels, MaxModels) ELSE SeqsUpTo(ModelNames, MaxModelsRich)
            [] f = "target"  -> {"none", "sympy", "casadi", "bogus"}
            [] f = "opts"    -> SeqsUpTo(OptKinds, MaxOpts)
            [] f = "verbose" -> 0..2
(* the invocations that differ from base b exactly in the dimensions D *)
Variants(b, D) == [f \in Dims |-> IF f \in D THEN Dom(b, f) \ {Base(b)[f]} ELSE {Base(b)[f]}]
VariantSet(b, D) == LET V == Variants(b, D) IN
    [paths : V["paths"], outdir : V["outdir"], models : V["models"], target : V["target"], opts : V["opts"], verbose : V["verbose"]]
Around(b, n) == UNION {VariantSet(b, D) : D \in {E \in SUBSET FreeDims(b) : Cardinality(E) = n}}
Invocations ==
    {v \in UNION {Around(b, n) : b \in Bases, n \in 0..MaxDev} : InFamily(v)}
    \cup {v \in UNION {Around(b, SampleDev) : b \in Bases} : InFamily(v) /\ Hash(v) % NParts = Part}

-----------------------------------------------------------------------------
(* operational side: the phases of main() *)
Init == /\ inv \in Invocations
        /\ pc = "ArgParse"
        /\ errors = 0 /\ mi = 1 /\ nfiles = 0 /\ nerrfiles = 0 /\ touched = {}
        /\ status = [kind |-> "running", code |-> 0]
        /\ why = {}

Finish(kind, code) == /\ pc' = "done"
                      /\ status' = [kind |-> kind, code |-> code]

(* argparse itself, then "-t/--target requires -m/--model" (argp.error -> SystemExit(2)) *)
ArgParse ==
    /\ pc = "ArgParse"
    /\ IF inv.paths = {} \/ inv.target = "bogus" \/ (inv.target \in {"sympy", "casadi"} /\ inv.models = <<>>)
       THEN Finish("exit", 2) /\ UNCHANGED errors
       ELSE pc' = "CheckPaths" /\ UNCHANGED <<status, errors>>
    /\ UNCHANGED <<inv, mi, nfiles, nerrfiles, touched, why>>

CheckPaths ==
    /\ pc = "CheckPaths"
    /\ errors' = errors + (IF inv.outdir = "missing" THEN 1 ELSE 0) + Cardinality(inv.paths \cap {"missing", "missing2"})
    /\ pc' = "ParseOptions"
    /\ UNCHANGED <<inv, mi, nfiles, nerrfiles, touched, status, why>>

ParseOptions ==
    /\ pc = "ParseOptions"
    /\ errors' = errors + Cardinality({n \in DOMAIN inv.opts : inv.opts[n] # "valid"})
    /\ pc' = "EarlyReturn"
    /\ UNCHANGED <<inv, mi, nfiles, nerrfiles, touched, status, why>>

EarlyReturn ==
    /\ pc = "EarlyReturn"
    /\ IF errors > 0 THEN Finish("return", errors)
       ELSE pc' = (IF inv.target = "casadi" THEN "ListFiles" ELSE "ParseFiles") /\ UNCHANGED status
    /\ UNCHANGED <<inv, errors, mi, nfiles, nerrfiles, touched, why>>

(* -t sympy or no target: parse_all() *)
ParseFiles ==
    /\ pc = "ParseFiles"
    /\ nfiles' = NFiles(inv.paths)
    /\ nerrfiles' = NErrFiles(inv.paths)
    /\ errors' = errors + (IF nfiles' = 0 THEN 1 ELSE nerrfiles')
    /\ pc' = (IF errors' = 0 /\ inv.models # <<>> THEN "PerModel" ELSE "Return")
    /\ UNCHANGED <<inv, mi, touched, status, why>>

(* -t casadi: list_modelica_files() only *)
ListFiles ==
    /\ pc = "ListFiles"
    /\ nfiles' = NFiles(inv.paths)
    /\ errors' = errors + (IF nfiles' = 0 THEN 1 ELSE 0)
    /\ pc' = (IF nfiles' = 0 THEN "Return" ELSE "PerModel")
    /\ UNCHANGED <<inv, mi, nerrfiles, touched, status, why>>

PerModel ==
    /\ pc = "PerModel"
    /\ LET m == inv.models[mi]
           fails == Fails(m, inv.target, inv.paths, inv.outdir)
           next == IF mi = Len(inv.models) THEN "Return" ELSE "PerModel"
       IN  CASE inv.target = "none" ->
                  \* flatten on the SHARED library_ast; any exception is caught and counted
                  /\ errors' = errors + (IF fails THEN 1 ELSE 0)
                  /\ touched' = touched \cup {m}
                  /\ pc' = next /\ mi' = mi + 1 /\ UNCHANGED <<status, why>>
             [] inv.target = "sympy" ->
                  \* translate(): generate on a deep copy, write <model>.py
                  IF FlattenFails(m, inv.paths) /\ ~CliCatchesTranslateErrors
                  THEN Finish("crash", 0) /\ why' = why \cup {"translate-error-escapes"} /\ UNCHANGED <<errors, mi, touched>>
                  ELSE /\ errors' = errors + (IF fails /\ CliCountsTranslateFailures THEN 1 ELSE 0)
                       /\ why' = why \cup (IF fails /\ ~CliCountsTranslateFailures THEN {"translate-failure-not-counted"} ELSE {})
                       /\ pc' = next /\ mi' = mi + 1 /\ UNCHANGED <<touched, status>>
             [] inv.target = "casadi" ->
                  \* infer the model directory from the file stems, then transfer_model()
                  LET n == NStem(inv.paths, m) IN
                  /\ errors' = errors + (IF n >= 2 THEN 1
                                         ELSE IF n = 0 THEN (IF CliCountsMissingModelFile THEN 1 ELSE 0)
                                         ELSE IF fails THEN 1 ELSE 0)
                  /\ why' = why \cup (IF n = 0 /\ ~CliCountsMissingModelFile THEN {"missing-model-file-not-counted"} ELSE {})
                  /\ pc' = next /\ mi' = mi + 1 /\ UNCHANGED <<touched, status>>
    /\ UNCHANGED <<inv, nfiles, nerrfiles>>

Phase(v) == IF ArgError(v) THEN "argerr"
            ELSE IF UsageErrors(v) > 0 THEN "usage"
            ELSE IF NFiles(v.paths) = 0 THEN "nofiles"
            ELSE IF v.target # "casadi" /\ NErrFiles(v.paths) > 0 THEN "parse-errors"
            ELSE IF v.models = <<>> THEN "parse-only"
            ELSE "models"
Tags(v) == {Phase(v), "target-" \o v.target}
           \cup (IF Phase(v) = "models" THEN {IF Fails(v.models[n], v.target, v.paths, v.outdir) THEN "fail-" \o v.models[n] ELSE "ok"
                                              : n \in DOMAIN v.models} ELSE {})
           \cup (IF Phase(v) = "models" /\ Len(v.models) > 1 THEN {"multi"} ELSE {})
           \cup (IF v.outdir = "blocked" /\ Phase(v) = "models" /\ v.target = "sympy" THEN {"blocked-outdir"} ELSE {})

Return ==
    /\ pc = "Return"
    /\ Finish("return", errors)
    /\ UNCHANGED <<inv, errors, mi, nfiles, nerrfiles, touched, why>>

Log == (Emit /\ pc' = "done") =>
          PrintT(<<"PROG", ToJson([prog |-> inv, tags |-> Tags(inv), expect |-> Expected(inv),
                                   asbuilt |-> status', why |-> why'])>>)

Next == ArgParse \/ CheckPaths \/ ParseOptions \/ EarlyReturn \/ ParseFiles \/ ListFiles \/ PerModel \/ Return

Spec == Init /\ [][Next]_vars

-----------------------------------------------------------------------------
(* properties *)
StatusIsCount == pc = "done" => status = Expected(inv)
(* the switches explain every difference: a run on which no as-built deviation made a difference gives the count *)
DeviationsExplainAll == (pc = "done" /\ why = {}) => status = Expected(inv)

NeverCrashes == status.kind # "crash"

(* the error counter only grows, and a phase after the early return is reached only without usage errors *)
ErrorsMonotone == [][errors' >= errors]_vars
NoWorkAfterUsageError == (pc \in {"ParseFiles", "ListFiles", "PerModel"}) => UsageErrors(inv) = 0

(* model independence on the operational loop: what one PerModel step adds to the status depends on that model,
   the target and the paths only - not on the position, the counter, or what was flattened before *)
PerModelIndependent ==
    [][(pc = "PerModel" /\ pc' # "done") =>
          errors' - errors = (IF Fails(inv.models[mi], inv.target, inv.paths, inv.outdir) THEN 1 ELSE 0)]_vars
(* ... hence the status of a call is the sum over its one-model calls *)
SumOfSingles ==
    (pc = "done" /\ Phase(inv) = "models" /\ status.kind = "return") =>
        status.code = SumOver(DOMAIN inv.models,
                              [n \in DOMAIN inv.models |-> Expected([inv EXCEPT !.models = <<inv.models[n]>>]).code])
=============================================================================
