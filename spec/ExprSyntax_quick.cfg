\* quick tier: every tree with <= 2 operator nodes over the full operator set, every tree with 3 nodes over
\* one representative per precedence level; minimal / redundant / full parentheses; literal leaves; literals
CONSTANTS
  FullOps <- OpsAll
  MaxFull = 2
  RepOps <- OpsRep
  MaxRep = 3
  Variants = {"full", "red", "lits", "mixed", "elseif"}
  Literals = TRUE
  Fuel = 4
  BrkLimit = 14
  RedUpTo = 2
INIT Init
NEXT Next
ACTION_CONSTRAINT Emit
INVARIANT RoundTrip
INVARIANT ValuePreserved
INVARIANT ReadIsABracketing
INVARIANT PrintInjective
INVARIANT WellTyped
INVARIANT Distinguished
INVARIANT LiteralValue
INVARIANT ValuesWellFormed
CHECK_DEADLOCK FALSE
