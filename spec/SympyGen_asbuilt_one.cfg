\* as-built value of OneListPerVariable only: TLC is expected to report a counterexample to ClassificationMatches
CONSTANTS SympyParenthesises = TRUE
 SafeNames = TRUE
 ClassifiesDiscrete = TRUE
 PrintsValueExpressions = TRUE
          OneListPerVariable = FALSE
          Family = "cex"
INIT Init
NEXT Next
VIEW View
INVARIANT TypeOK
INVARIANT Injective
INVARIANT ClassificationMatches
INVARIANT ValidPython
INVARIANT Constructs
INVARIANT OneSymbolPerVariable
INVARIANT MeaningPreserved
CHECK_DEADLOCK FALSE
