CONSTANTS Procs <- EnvProcs SameText <- EnvSameText InitModels <- EnvModels InitMeta <- EnvMeta InitRows <- EnvRows
  TouchOnHit <- EnvTouch SharedInited <- EnvShared DeferredSchemaTxn <- EnvDeferred
  LockedCountsAsCorrupt <- EnvLockedCorrupt AllowTimeout <- EnvTimeout
INIT Init
NEXT Next
VIEW View
INVARIANT NoDbError
INVARIANT NoRemoveWhileInUse
INVARIANT AtMostOneWriter
INVARIANT DbIntactAtEnd
