\* as-built value of ExpressionAttributes only: TLC is expected to report a counterexample to NeverRaises
CONSTANTS DeclEqLhsIsReference = TRUE
          EmitsElseWhen = TRUE
          ExpressionAttributes = FALSE
          Family = "cex"
INIT Init
NEXT Next
VIEW View
INVARIANT TypeOK
INVARIANT NeverRaises
INVARIANT NoElementMoved
INVARIANT Counts
INVARIANT Mirrors
INVARIANT ReadBack
CHECK_DEADLOCK FALSE
