\* C21 half fixed (atomic write but loader does not catch): EXPECTED to violate NoRaise from a pre-existing truncated file
CONSTANTS Procs = {"p1"}
          DiffOpts = FALSE
          Codegen = FALSE
          N = 3
          NL = 2
          MaxCrashes = 1
          Inits = {"none","o1","trunc"}
          Sequential = TRUE
          AtomicWrite = TRUE
          CatchUnpickle = FALSE
          UniqueLibs = TRUE
          CatchLibError = TRUE
INIT Init
NEXT Next
INVARIANT TypeOK
INVARIANT NoRaise
CHECK_DEADLOCK FALSE
