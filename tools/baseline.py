#!/venv/bin/python
"""Run the repository's pinned baseline with the hook guard OFF and compare with /root/.vp/BASELINE.json.
usage: baseline.py [repo_dir]   exit 0 iff every stable_pass test still passes."""
import json, os, subprocess, sys, tempfile, xml.etree.ElementTree as ET
repo = sys.argv[1] if len(sys.argv) > 1 else "/repo"
base = json.load(open("/root/.vp/BASELINE.json"))
fd, xmlp = tempfile.mkstemp(suffix=".xml"); os.close(fd)
env = dict(os.environ); env.pop("PYMOCA_VERIF", None)
env["XDG_CACHE_HOME"] = tempfile.mkdtemp(prefix="bl_cache_")
# /venv has an editable install pointing at /repo/src: make the tests import the tree under test
env["PYTHONPATH"] = os.path.join(repo, "src") + os.pathsep + repo
subprocess.run(["/venv/bin/python", "-m", "pytest", "-q", "-p", "no:cacheprovider", "--timeout=900",
                "--continue-on-collection-errors", "--junitxml=" + xmlp], cwd=repo, env=env,
               stdout=subprocess.DEVNULL, stderr=subprocess.DEVNULL)
passed = set()
for tc in ET.parse(xmlp).getroot().iter("testcase"):
    if not any(c.tag in ("failure", "error", "skipped") for c in tc):
        passed.add("%s::%s" % (tc.get("classname"), tc.get("name")))
os.unlink(xmlp)
import shutil; shutil.rmtree(env["XDG_CACHE_HOME"], ignore_errors=True)
want = set(base["stable_pass"])
missing = sorted(want - passed)
print("baseline: %d/%d stable tests pass; newly passing beyond baseline: %d" % (len(want & passed), len(want), len(passed - want)))
for m in missing: print("  NOW FAILING:", m)
sys.exit(1 if missing else 0)
