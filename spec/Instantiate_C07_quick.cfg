\* C07 quick: hierarchy family to depth 3, intended switches, every invariant (TLC must pass)
CONSTANTS Family = "hier" MaxDepth = 3 Wide = FALSE
 DottedAttrAsValue = FALSE InnerArgsLoseScope = FALSE ReRenameFlatRefs = FALSE AliasOfAliasDropsMods = FALSE InheritedTypeInDerivedScope = FALSE
INIT Init
NEXT Next
VIEW View
CHECK_DEADLOCK FALSE
PROPERTY PhaseOrder
INVARIANT DeclIgnoresSpelling
INVARIANT OpEqualsDecl
INVARIANT SpellingInvariance
INVARIANT OneVariablePerLeaf
INVARIANT CanonicalAccepted
INVARIANT ModsArriveInOrder
INVARIANT NothingPending
