\* C08 as-built, invariants off: as-built predictions for the cross-check
CONSTANTS Family = "mods" MaxDepth = 2 Wide = FALSE
 DottedAttrAsValue = TRUE InnerArgsLoseScope = TRUE ReRenameFlatRefs = TRUE AliasOfAliasDropsMods = TRUE InheritedTypeInDerivedScope = TRUE
INIT Init
NEXT Next
VIEW View
CHECK_DEADLOCK FALSE
PROPERTY PhaseOrder
INVARIANT DeclIgnoresSpelling
