\* x
CONSTANTS Procs = {"p1","p2"}
          DiffOpts = TRUE
          Codegen = TRUE
          N = 2
          NL = 2
          MaxCrashes = 1
          Inits = {"o1"}
          AtomicWrite = FALSE
          CatchUnpickle = FALSE
          UniqueLibs = FALSE
          CatchLibError = FALSE
INIT Init
NEXT Next
INVARIANT TypeOK
INVARIANT NoRaise
INVARIANT ReturnsCorrect
CHECK_DEADLOCK FALSE
