\* C19 family B (thorough)
CONSTANTS XKinds = {"pdep"}
          YKinds = {"lit","none"}
          Aliases = {"none","pos","neg"}
          Delays = {"none","lit","par","par_lit","par_par2","sum"}
          Opts = {"base","aliases","rcv","ev","eva","evb","rpv"}
          FKinds = {"none","lit","pdep"}
          Typed = {TRUE,FALSE}
          Strs = {TRUE,FALSE}
          Outs = {TRUE,FALSE}
          SwapDepClasses = FALSE
          ForgetOutputs = FALSE
          DurDepsOffByOne = FALSE
          ConstMXNotMX = FALSE
          TruthyOptions = FALSE
INIT Init
NEXT Next
INVARIANT RoundTrip
INVARIANT NoMXPickled
INVARIANT SwitchedIsFresh
CHECK_DEADLOCK FALSE
