\* one-level family (DESIGN section 5): 2 components a/b + outside p/q, <= 4 connects, connector = (potential, flow)
\* every program of length <= 3 is generated; of length 4 the share C09_PART of C09_NPARTS (thorough: all shares)
CONSTANTS NComp = 2  MaxLen = 4  MaxSub = 0  WithLeaf = FALSE
          Layouts <- LayoutsPF
          AllowSelf = TRUE  Emit = TRUE
          FullLen = 4  NParts <- NPartsEnv  Part <- PartEnv
          ZeroIfNotConnectedAsInside = FALSE
INIT Init
NEXT Next
INVARIANT DictsAreComponents
INVARIANT RowsPure
INVARIANT SameSolutionsGeneric
INVARIANT SameSolutionsStructural
INVARIANT EquationCount
CHECK_DEADLOCK FALSE
