"""C26 - Compiler CLI exit status counts exactly the errors.

Spec: spec/CompilerCli.tla (oracle mode + model independence)
  TLC runs the phases of tools/compiler.py::main (ArgParse / CheckPaths / ParseOptions / EarlyReturn /
  ParseFiles | ListFiles / PerModel(i) / Return) on every invocation of the bounded family and checks the
  accumulated status against the declarative count (StatusIsCount), that nothing escapes (NeverCrashes),
  and model independence (PerModelIndependent, SumOfSingles).  One PROG line per invocation carries the
  expected status.
Binding: every invocation is replayed IN-PROCESS through tools.compiler.main(argv) on a real scratch
  directory tree (SystemExit captured), incl. -t sympy / -t casadi and -O options; the return value /
  exit code must equal the expected one; every multi-model call is additionally compared with the
  corresponding one-model calls on the real code.
"""
import json
import os
import random
import shutil
import sys
import tempfile

from vf import tlc
from vf.core import MachineryError, exc_record, REPO
from vf.par import pmap

META = {
    "ready": True,
    "category": "model_checking",
    "technique": "TLA+ spec of the phases of tools/compiler.py::main (CompilerCli.tla) model-checked by TLC against the declarative error count; every enumerated invocation replayed in-process through tools.compiler.main(argv) on real directory trees",
    "text": "TLC enumerates every invocation within two changes of a plain call (path sets over good / twin / syntax-error / listener-error / non-.mo / empty / missing paths, output directory ok / missing / blocked / default, 0-3 models from good, failing and unknown classes, targets none / sympy / casadi / invalid, 0-2 -O options valid or malformed, -v flags; rich-library base calls for all three targets on which 15 model names incl. models failing with ClassNotFoundError / ModificationTargetNotFound / bare Exception / KeyError / NotImplementedError can be requested) plus, in the thorough tier, a seeded share of three-change invocations, checks that the operational phase model of main() returns the declarative count (usage errors, else parse-error files or 1 for no files, else failing models; 2 for argument errors) and that each model contributes independently; each invocation is executed through the real main(argv) and its return value / SystemExit code compared; multi-model calls are compared with their one-model calls on the real code.",
    "note": "Trusted: TLC, the scratch-tree builder and argv renderer. Not covered: duplicate or overlapping PATH arguments, -t casadi together with unparsable files (the files of PATH are never parsed there; the property does not fix the status), casadi 'cache'/'codegen' options (they write into the model directory), --version, log output.",
    "design_ref": "DESIGN.md section 3, C26",
}

FILES = {
    "lib/Leaf.mo": "model Leaf\n  parameter Real k = 2;\n  Real x(start = 1);\nequation\n  der(x) = -k * x;\nend Leaf;\n",
    "lib/Mid.mo": "model Mid\n  Leaf l(k = 3);\n  Real y;\nequation\n  y = 2 * l.x;\nend Mid;\n",
    "lib/Top.mo": "model Top\n  extends Mid;\n  Real z;\nequation\n  z = y + 1;\nend Top;\n",
    "lib/Dot.mo": "model Dot\n  Mid m(l.k = 5);\n  Real w;\nequation\n  w = m.y - 1;\nend Dot;\n",
    "lib/Bad.mo": "model Bad\n  Missing q;\n  Real x;\nequation\n  x = 1;\nend Bad;\n",
    "solo/Solo.mo": "model Solo\n  Real s;\n  input Real u;\nequation\n  s = 3 * u;\nend Solo;\n",
    "twin/one/Twin.mo": "model Twin\n  Real t;\nequation\n  t = 7;\nend Twin;\n",
    "twin/two/Twin.mo": "model Twin\n  Real t;\nequation\n  t = 7;\nend Twin;\n",
    "broken/Syn.mo": "model Syn\n  Real x\nequation\n  x = 1;\nend Syn;\n",
    "broken2/Dup.mo": "model Dup\n  Real x;\n  Real x;\nend Dup;\n",
    "notes.txt": "not modelica\n",
    # dirFail: models that cannot be flattened / generated, each with a different exception class
    "faillib/Good.mo": "model Good\n  Real x(start = 1);\nequation\n  der(x) = -x;\nend Good;\n",
    "faillib/Typo.mo": "model Typo\n  Good g(y(start = 2));\nend Typo;\n",                      # ModificationTargetNotFound
    "faillib/SelfExt.mo": "model SelfExt\n  extends SelfExt;\n  Real x;\nequation\n  x = 1;\nend SelfExt;\n",   # bare Exception
    "faillib/SubMod.mo": "model SubMod\n  Good g[2](x[1](start = 2));\nend SubMod;\n",           # bare Exception (re-raised)
    "faillib/ConnKey.mo": "model ConnKey\n  Real x;\nequation\n  connect(x, zz);\n  x = 1;\nend ConnKey;\n",   # KeyError
    "faillib/UnkFunc.mo": "model UnkFunc\n  Real x;\nequation\n  x = frobnicate(2);\nend UnkFunc;\n",         # casadi: bare Exception
    "faillib/AlgSec.mo": "model AlgSec\n  Real x;\nalgorithm\n  x := 1;\nend AlgSec;\n",                     # casadi: NotImplementedError
    # fileListenerAttr: the AST listener raises AttributeError
    "broken3/Redecl.mo": "model Redecl\n  replaceable Good g;\nend Redecl;\nmodel RedeclUse\n  Redecl r(redeclare Missing2 g);\nend RedeclUse;\n",
}
# what the spec assumes about the LIBRARY (not the CLI): checked by calibrate() before every run
EXPECTED_EXC = {"Bad": "ClassNotFoundError", "Typo": "ModificationTargetNotFound", "SelfExt": "Exception", "SubMod": "Exception",
                "ConnKey": "KeyError"}
EXPECTED_EXC_CASADI = {"UnkFunc": "Exception", "AlgSec": "NotImplementedError"}
PATH_OF = {"dirFail": "faillib", "fileListenerAttr": "broken3/Redecl.mo", "dirGood": "lib", "fileGood": "solo/Solo.mo", "dirTwin": "twin", "fileSyntax": "broken/Syn.mo",
           "fileListener": "broken2/Dup.mo", "notMo": "notes.txt", "dirEmpty": "empty", "missing": "does_not_exist", "missing2": "lib/Nothing.mo"}
MODELS = ["Leaf", "Mid", "Top", "Dot", "Solo", "Twin", "Bad", "Nope", "Good", "Typo", "SelfExt", "SubMod", "ConnKey", "UnkFunc", "AlgSec"]
# calibrated on the unchanged tree: each of these leaves every good model of the tree compilable with -t casadi
VALID_OPTS = ["detect_aliases=true", "replace_constant_values=False", "expand_vectors=true", "reduce_affine_expression=TRUE",
              "eliminate_constant_assignments=true", "expand_mx=true", "replace_parameter_values=true", "resolve_parameter_values=true",
              "factor_and_simplify_equations=true", "replace_constant_expressions=true", "inline_functions=false",
              "unroll_loops=false", "my_string_option=abc"]


def make_tree(root):
    for p, t in FILES.items():
        os.makedirs(os.path.dirname(os.path.join(root, p)), exist_ok=True)
        with open(os.path.join(root, p), "w") as f:
            f.write(t)
    os.makedirs(os.path.join(root, "empty"))
    os.makedirs(os.path.join(root, "work"))


def argv_of(inv, root, outdir, variant):
    """inv: the spec's invocation record; variant: small int choosing among equivalent spellings"""
    rng = random.Random(variant)
    paths = [os.path.join(root, PATH_OF[k]) for k in sorted(inv["paths"])]
    rng.shuffle(paths)
    opt = []
    if inv["outdir"] != "default":
        opt.append([rng.choice(["-o", "--outdir"]), outdir])
    for m in inv["models"]:
        opt.append([rng.choice(["-m", "--model"]), m])
    if inv["target"] != "none":
        opt.append([rng.choice(["-t", "--target"]), "fortran" if inv["target"] == "bogus" else inv["target"]])
    for n, o in enumerate(inv["opts"]):
        opt.append([rng.choice(["-O", "--option"]),
                    {"valid": VALID_OPTS[(variant + n) % len(VALID_OPTS)], "noeq": "detect_aliases", "twoeq": "a=b=c"}[o]])
    if inv["verbose"] == 1:
        opt.append([rng.choice(["-v", "--verbose"])])
    elif inv["verbose"] == 2:
        opt.append(rng.choice([["-vv"], ["-v", "-v"]]))
    # keep the relative order of the -m arguments (the property talks about "each requested model")
    others = [o for o in opt if o[0] not in ("-m", "--model")]
    rng.shuffle(others)
    ms = [o for o in opt if o[0] in ("-m", "--model")]
    merged = []
    while ms or others:
        if ms and (not others or rng.random() < 0.5):
            merged.append(ms.pop(0))
        else:
            merged.append(others.pop(0))
    flat = [x for o in merged for x in o]
    return paths + flat if rng.random() < 0.5 else flat + paths


_COMPILER = None


def _compiler():
    global _COMPILER
    if _COMPILER is None:
        tools = os.path.join(REPO, "tools")
        if tools not in sys.path:
            sys.path.insert(0, tools)
        import importlib
        _COMPILER = importlib.import_module("compiler")
        if not os.path.realpath(_COMPILER.__file__).startswith(os.path.realpath(tools)):
            raise MachineryError("imported a different 'compiler' module: %s" % _COMPILER.__file__)
    return _COMPILER


def call_main(argv, cwd, cache):
    """run tools.compiler.main(argv) in-process -> {"kind": "return"|"exit"|"crash", "code": n, ...}"""
    comp = _compiler()
    os.environ["XDG_CACHE_HOME"] = cache
    old = os.getcwd()
    save = os.dup(2)
    dn = os.open(os.devnull, os.O_WRONLY)
    os.dup2(dn, 2)
    os.chdir(cwd)
    try:
        try:
            r = comp.main(list(argv))
            if isinstance(r, bool) or not isinstance(r, int):
                return {"kind": "return", "code": repr(r)}
            return {"kind": "return", "code": r}
        except SystemExit as e:
            return {"kind": "exit", "code": e.code}
        except MachineryError:
            raise
        except BaseException as e:  # escaped from main()
            return dict(exc_record(e), kind="crash", code=None)
    finally:
        os.chdir(old)
        os.dup2(save, 2)
        os.close(save)
        os.close(dn)


def run_invocation(root, inv, variant):
    """fresh output directory per call; returns observation + argv (relative to root)"""
    work = tempfile.mkdtemp(prefix="inv_", dir=os.path.join(root, "work"))
    try:
        outdir = os.path.join(work, "out")
        if inv["outdir"] in ("ok", "blocked", "default"):
            os.makedirs(outdir)
        if inv["outdir"] == "blocked":
            for m in MODELS:
                os.makedirs(os.path.join(outdir, m + ".py"))
        argv = argv_of(inv, root, outdir, variant)
        cwd = outdir if inv["outdir"] == "default" else work
        obs = call_main(argv, cwd, os.path.join(root, "cache", str(os.getpid())))
        if inv["target"] == "sympy" and obs["kind"] == "return" and obs["code"] == 0:
            obs["written"] = sorted(os.listdir(outdir)) if os.path.isdir(outdir) else []
        obs["argv"] = [a.replace(root, "$ROOT").replace(work.replace(root, "$ROOT"), "$WORK") for a in argv]
        return obs
    finally:
        shutil.rmtree(work, ignore_errors=True)


def judge(item):
    """item = {root, inv, tags, expect, variant}; returns {"recs": [...], "obs": ...}"""
    root, inv, exp = item["root"], item["inv"], item["expect"]
    tags = sorted(item["tags"])
    obs = run_invocation(root, inv, item["variant"])
    recs = []
    # a difference that is exactly what the spec's as-built switches predict is labelled with the switches involved
    ab = item.get("asbuilt") or {}
    if item.get("why") and ab != exp and obs["kind"] == ab.get("kind") and (obs["kind"] == "crash" or obs["code"] == ab.get("code")):
        tags = tags + ["asbuilt:" + w for w in sorted(item["why"])]
    if obs["kind"] == "crash":
        recs.append({"observable": "exception-escapes-main", "tags": tags, "exception_type": obs["exception_type"],
                     "detail": "main(%s) raised %s; expected %s %s" % (obs["argv"], obs["detail"], exp["kind"], exp["code"])})
    elif obs["kind"] != exp["kind"] or obs["code"] != exp["code"]:
        recs.append({"observable": "exit-status", "tags": tags, "exception_type": None,
                     "sigdetail": "%s%s-for-%s%s" % (obs["kind"], obs["code"], exp["kind"], exp["code"]),
                     "detail": "main(%s) -> %s %s; expected %s %s" % (obs["argv"], obs["kind"], obs["code"], exp["kind"], exp["code"])})
    elif "written" in obs:
        want = sorted(set(m + ".py" for m in inv["models"]))
        if obs["written"] != want:
            recs.append({"observable": "drift:sympy-output-files", "tags": tags, "exception_type": None,
                         "detail": "files written %s expected %s" % (obs["written"], want)})
    # model independence on the real code: the call with several models against its one-model calls
    if "multi" in tags and obs["kind"] == "return" and isinstance(obs["code"], int):
        singles = []
        for m in inv["models"]:
            o1 = run_invocation(root, dict(inv, models=[m]), item["variant"] + 1)
            singles.append(o1)
        if all(o["kind"] == "return" and isinstance(o["code"], int) for o in singles):
            tot = sum(o["code"] for o in singles)
            if tot != obs["code"]:
                recs.append({"observable": "model-independence", "tags": tags, "exception_type": None,
                             "detail": "main(%s) -> %s but the one-model calls give %s" % (
                                 obs["argv"], obs["code"], [(m, o["code"]) for m, o in zip(inv["models"], singles)])})
    return {"recs": recs, "obs": {k: obs[k] for k in ("kind", "code", "argv")}}


def cfgs(tier, seed):
    """(intended cfg: checked by TLC, as-built cfg: same family, prints expected and as-built status, env)"""
    if tier == "thorough":
        return [("CompilerCli_thorough.cfg", "CompilerCli_thorough_asbuilt.cfg", {"C26_PART": seed % 16, "C26_NPARTS": 16}),
                ("CompilerCli_models3.cfg", "CompilerCli_models3_asbuilt.cfg", {"C26_PART": 0, "C26_NPARTS": 1})]
    return [("CompilerCli_intended.cfg", "CompilerCli_asbuilt.cfg", {"C26_PART": seed % 64, "C26_NPARTS": 64})]


def calibrate(root):
    """The spec's table of which model fails under which target (and with which exception class, the point of the
    dirFail kinds) is a statement about the pymoca LIBRARY.  It is re-established by calling the library directly, so that a
    change of the library shows up as 'family out of date' (machinery, exit 2) and never as a false alarm about the CLI."""
    import pymoca.parser
    import pymoca.tree
    import pymoca.ast
    os.environ["XDG_CACHE_HOME"] = os.path.join(root, "cache", "calib")

    def library():
        t = None
        for d in ("lib", "faillib"):
            for f in sorted(os.listdir(os.path.join(root, d))):
                with open(os.path.join(root, d, f)) as fh:
                    tt = pymoca.parser.parse(fh.read())
                if tt is None:
                    raise MachineryError("calibration: %s/%s does not parse" % (d, f))
                if t is None:
                    t = tt
                else:
                    t.extend(tt)
        return t

    def exc_name(fn):
        try:
            fn()
            return None
        except MachineryError:
            raise
        except Exception as e:
            return type(e).__name__
    import pymoca.backends.sympy.generator as sympy_gen
    from pymoca.backends.casadi.api import transfer_model
    problems = []
    for m in ["Leaf", "Mid", "Top", "Dot", "Good", "Bad", "Typo", "SelfExt", "SubMod", "ConnKey", "UnkFunc", "AlgSec"]:
        d = "lib" if m in ("Leaf", "Mid", "Top", "Dot", "Bad") else "faillib"
        got = {"none": exc_name(lambda: pymoca.tree.flatten(library(), pymoca.ast.ComponentRef.from_string(m))),
               "sympy": exc_name(lambda: sympy_gen.generate(library(), m, {})),
               "casadi": exc_name(lambda: transfer_model(os.path.join(root, d), m, {}))}
        want = {"none": EXPECTED_EXC.get(m), "sympy": EXPECTED_EXC.get(m), "casadi": EXPECTED_EXC.get(m) or EXPECTED_EXC_CASADI.get(m)}
        if got != want:
            problems.append("%s: library raises %s, the family assumes %s" % (m, got, want))
    if problems:
        raise MachineryError("C26 family is out of date with the pymoca library (not a CLI verdict): " + "; ".join(problems))


NEED = ["fail-Typo", "fail-SelfExt", "fail-SubMod", "fail-ConnKey", "fail-UnkFunc", "fail-AlgSec", "argerr", "usage", "nofiles", "parse-errors", "parse-only", "models", "multi", "target-none", "target-sympy",
        "target-casadi", "target-bogus", "ok", "fail-Bad", "fail-Nope", "fail-Twin", "blocked-outdir"]


def run(ctx):
    procs = min(16, int(os.environ.get("VERIF_PROCS", "16")))
    from concurrent.futures import ThreadPoolExecutor
    jobs = []
    for intended, asbuilt, env in cfgs(ctx.tier, ctx.seed):
        jobs.append((intended, env, min(4, procs)))
        jobs.append((asbuilt, env, 1))
    with ThreadPoolExecutor(len(jobs)) as ex:
        results = list(ex.map(lambda j: tlc.run("CompilerCli", j[0], workers=j[2], env=j[1], timeout=3000), jobs))
    progs = []
    for (cfg, env, _), res in zip(jobs, results):
        ctx.add_tlc(res, cfg + (": phases of main() = declarative count, never crashes, model independence" if "asbuilt" not in cfg
                                else ": as-built switches, PROG log (expected + as-built status)"))
        if res.violated:
            raise MachineryError("spec CompilerCli violates %s in %s:\n%s" % (res.violated, cfg, res.cex[:3000]))
        progs += res.tr("PROG")
    seen = set()
    progs = [p for p in progs if not (json.dumps(p["prog"], sort_keys=True) in seen or seen.add(json.dumps(p["prog"], sort_keys=True)))]
    if not any(p["asbuilt"] != p["expect"] for p in progs):
        raise MachineryError("the as-built switches make no difference in the family")
    if not progs:
        raise MachineryError("no PROG lines")
    root = tempfile.mkdtemp(prefix="c26_")
    try:
        make_tree(root)
        calibrate(root)
        items = [{"root": root, "inv": p["prog"], "tags": p["tags"], "expect": p["expect"], "asbuilt": p["asbuilt"], "why": p["why"],
                  "variant": ctx.seed * 1000003 + n}
                 for n, p in enumerate(progs)]
        outs = pmap(judge, items, procs)
        cov = {}
        for it, o in zip(items, outs):
            ctx.programs += 1
            for t in it["tags"]:
                cov[t] = cov.get(t, 0) + 1
            for rec in o["recs"]:
                if rec["observable"].startswith("drift:"):
                    ctx.note_drift(rec["observable"][6:])
                    continue
                ctx.violation(rec, {k: it[k] for k in ("inv", "tags", "expect", "asbuilt", "why", "variant")})
            if "multi" in it["tags"] and "target-casadi" in it["tags"]:
                ctx.sample({"argv": o["obs"]["argv"], "expected": it["expect"], "observed": {k: o["obs"][k] for k in ("kind", "code")}}, limit=2)
            elif "usage" in it["tags"] and len(it["inv"]["opts"]) == 2:
                ctx.sample({"argv": o["obs"]["argv"], "expected": it["expect"], "observed": {k: o["obs"][k] for k in ("kind", "code")}}, limit=4)
        ctx.traces += ctx.programs
        missing = [t for t in NEED if not cov.get(t)]
        if missing:
            raise MachineryError("vacuous: invocation classes %s never produced" % missing)
        # binding self-test: a wrong expectation must be reported
        probe = next(it for it in items if "models" in it["tags"] and it["expect"]["code"] == 1 and "target-none" in it["tags"])
        bad = dict(probe, expect={"kind": "return", "code": 0})
        if not judge(bad)["recs"]:
            raise MachineryError("binding self-test: a corrupted expectation was accepted")
        ctx.extra["per_tag_invocations"] = cov
    finally:
        shutil.rmtree(root, ignore_errors=True)
    ctx.assumptions += ["PATH arguments are distinct and do not contain each other",
                        "with -t casadi no unparsable file is among the PATHs"]
    return {"exhaustive": False,
            "explanation": "every invocation within 2 changes of a base call is replayed; thorough adds a seeded share of the 3-change invocations"}


def replay(ctx, sc):
    root = tempfile.mkdtemp(prefix="c26_")
    try:
        make_tree(root)
        out = judge(dict(sc, root=root))
        return [r for r in out["recs"] if not r["observable"].startswith("drift:")]
    finally:
        shutil.rmtree(root, ignore_errors=True)
