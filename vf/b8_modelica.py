"""Shared helpers of the C22 / C24 / C25 checks (owner: builder 8).

* render(prog)      program IR (as printed by SympyGen / XmlGen / Delay specs) -> Modelica text,
                    expressions FULLY parenthesised (BUILD_GUIDE verdict policy)
* project_flat(cls) pymoca flat class -> the same IR (pure reader) so that a front-end deviation is
                    recognised as such and never blamed on the back end under test

Pure printer / reader: no expected-value logic lives here.

IR  expression node: {"k": kind, "n": name/operator, "a": [children], "v": int literal}
    kinds: ref lit time der un call bin (bin covers arithmetic, relational and logical binary operators)
    variable: {"key": "a.b", "pre": none|parameter|constant|input|output|discrete, "val": none|lit|neg|expr, ...}
    equation: {"l": expr, "r": expr}
"""

MODEL = "M"


def rexpr(e):
    k = e["k"]
    if k == "ref":
        return e["n"]
    if k == "lit":
        return str(e["v"])
    if k == "bool":
        return "true" if e["v"] else "false"
    if k == "real":
        return repr(e["v"] / e["d"])
    if k == "dec":
        return e["n"]            # decimal literal, spelled as the spec gives it
    if k == "time":
        return "time"
    if k == "der":
        return "der(%s)" % rexpr(e["a"][0])
    if k == "un":
        return "(%s %s)" % (e["n"], rexpr(e["a"][0])) if e["n"] == "not" else "(%s%s)" % (e["n"], rexpr(e["a"][0]))
    if k == "call":
        return "%s(%s)" % (e["n"], ", ".join(rexpr(x) for x in e["a"]))
    if k == "bin":
        return "(%s %s %s)" % (rexpr(e["a"][0]), e["n"], rexpr(e["a"][1]))
    if k == "if":
        return "(if %s then %s else %s)" % tuple(rexpr(x) for x in e["a"])
    raise ValueError("cannot render node kind %r" % (k,))


def value_text(v, i):
    val = v.get("val", "none")
    if val == "none":
        return ""
    if val == "lit":
        return " = %d" % (i + 2)
    if val == "neg":
        return " = -%d" % (i + 2)
    if val == "expr":
        return " = %d * 2" % (i + 2)
    raise ValueError(val)


def decl(v, name, i):
    pre = v.get("pre", "none")
    typ = v.get("type", "Real")
    caus = v.get("caus", "")
    return "  %s%s%s %s%s;" % ("" if pre == "none" else pre + " ", caus + " " if caus else "", typ, name, value_text(v, i))


def render(prog, extra_decls=(), eq_texts=None):
    """-> Modelica source with top-level model M; dotted keys become components of helper classes."""
    classes = []        # text of helper classes
    top = []            # declarations of M
    comps = {}          # head -> list of (var, index)
    order = []
    for i, v in enumerate(prog["vars"]):
        parts = v["key"].split(".")
        if len(parts) == 1:
            order.append(("var", i))
        elif len(parts) == 2:
            if parts[0] not in comps:
                comps[parts[0]] = []
                order.append(("comp", parts[0]))
            comps[parts[0]].append(i)
        else:
            raise ValueError("only one level of components is rendered: %s" % v["key"])
    ncls = 0
    for kind, x in order:
        if kind == "var":
            top.append(decl(prog["vars"][x], prog["vars"][x]["key"], x))
        else:
            ncls += 1
            cname = "T%d" % ncls
            body = [decl(prog["vars"][i], prog["vars"][i]["key"].split(".")[1], i) for i in comps[x]]
            classes.append("model %s\n%s\nend %s;" % (cname, "\n".join(body), cname))
            top.append("  %s %s;" % (cname, x))
    top += list(extra_decls)
    if eq_texts is None:
        eq_texts = ["  %s = %s;" % (rexpr(q["l"]), rexpr(q["r"])) for q in prog["eqs"]]
    txt = "\n".join(classes) + "\nmodel %s\n%s\nequation\n%s\nend %s;\n" % (MODEL, "\n".join(top), "\n".join(eq_texts), MODEL)
    return txt


# ---------------------------------------------------------------------------------------------
def pexpr(node):
    """pymoca AST expression -> IR (only the node kinds of the families; anything else raises ValueError)."""
    from pymoca import ast
    if isinstance(node, ast.Primary):
        if isinstance(node.value, bool):
            return {"k": "bool", "n": "", "a": [], "v": int(node.value)}
        if isinstance(node.value, int):
            return {"k": "lit", "n": "", "a": [], "v": node.value}
        if isinstance(node.value, float):
            from fractions import Fraction
            f = Fraction(node.value)
            return {"k": "real", "n": "", "a": [], "v": f.numerator, "d": f.denominator}
        raise ValueError("primary %r" % (node.value,))
    if isinstance(node, ast.ComponentRef):
        if any(i != [None] for i in node.indices) or node.child:
            raise ValueError("subscripted / nested reference %s" % node)
        if node.name == "time":
            return {"k": "time", "n": "", "a": [], "v": 0}
        return {"k": "ref", "n": node.name, "a": [], "v": 0}
    if isinstance(node, ast.Symbol):
        return {"k": "ref", "n": node.name, "a": [], "v": 0}
    if isinstance(node, ast.IfExpression):
        if len(node.conditions) != 1:
            raise ValueError("elseif")
        return {"k": "if", "n": "", "a": [pexpr(node.conditions[0]), pexpr(node.expressions[0]), pexpr(node.expressions[1])], "v": 0}
    if isinstance(node, ast.Expression):
        ops = [pexpr(o) for o in node.operands]
        if isinstance(node.operator, ast.ComponentRef):
            return {"k": "call", "n": node.operator.name, "a": ops, "v": 0}
        op = str(node.operator)
        if op == "der":
            return {"k": "der", "n": "", "a": ops, "v": 0}
        if len(ops) == 1:
            return {"k": "un", "n": op, "a": ops, "v": 0}
        if len(ops) == 2:
            return {"k": "bin", "n": op, "a": ops, "v": 0}
    raise ValueError("unsupported node %s" % type(node).__name__)


def project_flat(cls):
    """flat class -> {"vars": [{"key", "pre"}], "eqs": [{"l","r"}]} (prefix `state` removed: it is derived)."""
    vs = []
    for s in cls.symbols.values():
        pres = [p for p in s.prefixes if p != "state"]
        vs.append({"key": s.name, "pre": pres[0] if len(pres) == 1 else ("none" if not pres else "+".join(pres))})
    eqs = [{"l": pexpr(q.left), "r": pexpr(q.right)} for q in cls.equations]
    return {"vars": vs, "eqs": eqs}


def strip(e):
    """IR node reduced to the fields that carry meaning (for comparison)"""
    if e["k"] == "dec":          # the parser turns the decimal text into a double: compare as that double
        from fractions import Fraction
        f = Fraction(float(e["n"]))
        return {"k": "real", "n": "", "a": [], "v": f.numerator, "d": f.denominator}
    return {"k": e["k"], "n": e["n"] if e["k"] in ("ref", "un", "call", "bin") else "", "a": [strip(x) for x in e["a"]],
            "v": e["v"] if e["k"] in ("lit", "bool", "real") else 0, "d": e.get("d", 1) if e["k"] == "real" else 1}
