CONSTANTS Procs <- EnvProcs SameText <- EnvSameText InitModels <- EnvModels InitMeta <- EnvMeta InitRows <- EnvRows
  TouchOnHit <- EnvTouch SharedInited <- EnvShared DeferredSchemaTxn <- EnvDeferred
INIT Init
NEXT Next
VIEW View
INVARIANT NoDbError
INVARIANT AtMostOneWriter
INVARIANT DbIntactAtEnd
