\* C19 family B (quick): delays, options, typed variables, strings, outputs
CONSTANTS XKinds = {"pdep"}
          YKinds = {"lit"}
          Aliases = {"none","neg"}
          Delays = {"none","lit","par","par_lit","par_par2","sum"}
          Opts = {"base","aliases","rcv","ev","eva","evb"}
          Typed = {TRUE}
          Strs = {TRUE}
          Outs = {TRUE,FALSE}
          SwapDepClasses = FALSE
          ForgetOutputs = FALSE
          DurDepsOffByOne = FALSE
          TruthyOptions = FALSE
INIT Init
NEXT Next
INVARIANT RoundTrip
INVARIANT NoMXPickled
INVARIANT SwitchedIsFresh
CHECK_DEADLOCK FALSE
