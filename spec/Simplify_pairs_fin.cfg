\* as Simplify_pairs.cfg, additionally printing the predicted final name sets (FIN lines; workers 1)
CONSTANTS Family = "pairs" OptMode = "file" ConstValuesResolved = TRUE OldAliasSignStripped = TRUE
          PrintProg = FALSE PrintFin = TRUE PrintCex = FALSE
INIT Init
NEXT Next
VIEW View
ACTION_CONSTRAINT Log
INVARIANT TypeOK
INVARIANT SolutionPreserved
INVARIANT RecordedEliminationsHold
INVARIANT SelfContained
INVARIANT MetadataMerged
PROPERTY Balance
CHECK_DEADLOCK FALSE
