--------------------------- MODULE ParseCacheConc ---------------------------
(* Property C02: concurrent parser.parse() calls sharing one cache database.

   Every SQL statement / commit / close that parse() and _check_database_structure()
   issue is ONE step of the calling process (label pc[p]); the steps of different
   processes interleave arbitrarily.  The database file is protected by SQLite's
   rollback-journal locking protocol, modelled per connection:

     lock[p] \in {"none","shared","reserved","pending"}   ("exclusive" is only held inside the
                                                           atomic final step of a commit)
     a read  needs SHARED   : refused while another connection is PENDING  -> the caller WAITS
                              (busy handler; modelled as the step being disabled)
     a write needs RESERVED : from "none"  : waits while another connection holds RESERVED/PENDING
                              from "shared": if another connection holds RESERVED/PENDING SQLite
                                             returns SQLITE_BUSY at once (no busy handler, it would
                                             deadlock) -> the statement RAISES "database is locked"
     a commit of a write transaction takes PENDING (new readers wait) and finishes when no other
                              connection holds SHARED
     close / garbage collection of a connection releases its locks

   Data: only what decides the control flow of parse(): do the two tables exist with the right
   layout, which texts have a row, who has passed the once-per-process init block.

   As-built switch
     DeferredSchemaTxn   _check_database_structure opens its transactions with a deferred BEGIN and
                         then upgrades read->write (CREATE TABLE after SELECT sqlite_master): two
                         processes on a fresh / wrong-layout database make one of them raise.
                         FALSE = intended: BEGIN IMMEDIATE.                                       *)
EXTENDS Integers, Sequences, FiniteSets, TLC, Json

CONSTANTS Procs,             \* e.g. {1,2}
          SameText,          \* TRUE: every process parses text 1; FALSE: process p parses text p
          InitModels,        \* "absent" | "wrong" | "ok"   layout of table models at the start
          InitMeta,          \* "absent" | "wrong" | "ok"
          InitRows,          \* set of texts that already have a row
          TouchOnHit,        \* TRUE: a hit also updates last_hit (always_update_last_hit / entry older than a day)
          SharedInited,      \* TRUE: threads of one process (share parse.initialized_dbs)
          DeferredSchemaTxn,
          LockedCountsAsCorrupt,  \* as-built: a lock error during PRAGMA integrity_check is taken for corruption
                                  \*           and the database file is removed
          AllowTimeout       \* TRUE: at most one blocked call per behaviour may run into its busy timeout

VARIABLES pc,        \* program counter per process
          lock,      \* sqlite lock per connection
          db,        \* committed database content [models, meta, metaKeys, rows]
          shadow,    \* per process: content as modified by its open write transaction, or NoShadow
          inited,    \* set of processes that passed the once-per-process init block
          res,       \* per process: "none" | "hit" | "miss" | "tree" | "raised" | "timedout"
          open,      \* set of processes with an open connection to the database file
          timeouts,  \* number of busy timeouts so far (bounded by 1)
          removedInUse,   \* history: the file was removed while another connection had it open
          last
vars == <<pc, lock, db, shadow, inited, res, open, timeouts, removedInUse, last>>

TextOf(p) == IF SameText THEN 1 ELSE p
NoShadow == [models |-> "-", meta |-> "-", metaKeys |-> FALSE, rows |-> {}]
Others(p) == Procs \ {p}
HoldsWrite(q) == lock[q] \in {"reserved", "pending"}
CanShare(p) == \A q \in Others(p) : lock[q] # "pending"
CanReserve(p) == \A q \in Others(p) : ~HoldsWrite(q)
NoOtherShared(p) == \A q \in Others(p) : lock[q] = "none"
(* what process p reads: its own uncommitted changes if it has any, else the committed content *)
Seen(p) == IF shadow[p] = NoShadow THEN db ELSE shadow[p]

IsInited(p) == IF SharedInited THEN inited # {} ELSE p \in inited

Init == /\ pc = [p \in Procs |-> "connect"]
        /\ lock = [p \in Procs |-> "none"]
        /\ db = [models |-> InitModels, meta |-> InitMeta, metaKeys |-> (InitMeta = "ok"), rows |-> InitRows]
        /\ shadow = [p \in Procs |-> NoShadow]
        /\ inited = {} /\ res = [p \in Procs |-> "none"]
        /\ open = {} /\ timeouts = 0 /\ removedInUse = FALSE
        /\ last = [act |-> "init"]

Goto(p, l) == pc' = [pc EXCEPT ![p] = l]
Step(p, what, outcome) == last' = [act |-> "step", p |-> p, at |-> pc[p], what |-> what, outcome |-> outcome]
UD == UNCHANGED <<db, shadow>>
UR == UNCHANGED <<inited, res>>
UO == UNCHANGED <<open, timeouts, removedInUse>>

(* ---- statement classes -------------------------------------------------- *)
(* explicit BEGIN: deferred takes no lock; immediate takes RESERVED (it holds nothing, so it WAITS) *)
Begin(p, immediate, next) ==
    IF immediate
    THEN /\ CanReserve(p) /\ CanShare(p)
         /\ lock' = [lock EXCEPT ![p] = "reserved"] /\ Goto(p, next) /\ Step(p, "begin-immediate", "ok")
    ELSE /\ Goto(p, next) /\ Step(p, "begin", "ok") /\ UNCHANGED lock

(* a SELECT / PRAGMA inside a transaction: SHARED is kept until commit *)
Read(p, next) ==
    /\ (lock[p] = "none" => CanShare(p))
    /\ lock' = [lock EXCEPT ![p] = IF @ = "none" THEN "shared" ELSE @]
    /\ Goto(p, next) /\ Step(p, "read", "ok")

(* autocommit read (PRAGMA integrity_check): lock taken and released within the call *)
ReadAuto(p, next) == /\ CanShare(p) /\ Goto(p, next) /\ Step(p, "read-auto", "ok") /\ UNCHANGED lock

(* a writing statement needs RESERVED *)
WriteOk(p) == \/ HoldsWrite(p)
              \/ CanReserve(p) /\ (lock[p] = "none" => CanShare(p))
WriteBusyNow(p) == lock[p] = "shared" /\ ~CanReserve(p)      \* read->write upgrade against a writer
Write(p, newContent, next, what) ==
    /\ WriteOk(p) /\ ~WriteBusyNow(p)
    /\ lock' = [lock EXCEPT ![p] = IF HoldsWrite(p) THEN @ ELSE "reserved"]
    /\ shadow' = [shadow EXCEPT ![p] = newContent] /\ UNCHANGED db
    /\ Goto(p, next) /\ Step(p, what, "ok")
Raise(p, what) == /\ pc' = [pc EXCEPT ![p] = "raised"] /\ res' = [res EXCEPT ![p] = "raised"]
                  /\ Step(p, what, "busy-now") /\ UNCHANGED <<lock, db, shadow, inited>>

(* COMMIT: a read transaction drops SHARED; a write transaction goes PENDING, then publishes its changes *)
Commit(p, next) ==
    \/ /\ lock[p] \in {"none", "shared"} /\ UD
       /\ lock' = [lock EXCEPT ![p] = "none"] /\ Goto(p, next) /\ Step(p, "commit-read", "ok")
    \/ /\ lock[p] = "reserved" /\ ~NoOtherShared(p) /\ UD    \* readers present: hold PENDING, keep waiting
       /\ lock' = [lock EXCEPT ![p] = "pending"] /\ UNCHANGED pc /\ Step(p, "commit-write", "wait-pending")
    \/ /\ lock[p] \in {"reserved", "pending"} /\ NoOtherShared(p)
       /\ lock' = [lock EXCEPT ![p] = "none"]
       /\ db' = Seen(p) /\ shadow' = [shadow EXCEPT ![p] = NoShadow]
       /\ Goto(p, next) /\ Step(p, "commit-write", "ok")

(* ---- the program of parse(), statement by statement ---------------------- *)
Proc(p) ==
  LET t == TextOf(p)
      s == Seen(p) IN
  \/ /\ pc[p] = "connect" /\ UD /\ UR /\ UNCHANGED lock /\ Step(p, "connect", "ok")
     /\ open' = open \cup {p} /\ UNCHANGED <<timeouts, removedInUse>>
     /\ Goto(p, IF IsInited(p) THEN "lk_begin" ELSE "integrity")
  \/ /\ pc[p] = "integrity" /\ UD /\ UR /\ UO /\ ReadAuto(p, "cs1_begin")
  (* the integrity check is blocked (a writer is PENDING) until the busy timeout expires: "database is locked" *)
  \/ /\ pc[p] = "integrity" /\ ~CanShare(p) /\ AllowTimeout /\ timeouts = 0
     /\ timeouts' = 1 /\ UD /\ UNCHANGED <<lock, inited, open, removedInUse>>
     /\ Step(p, "read-auto", "timeout")
     /\ IF LockedCountsAsCorrupt
        THEN Goto(p, "rm_close") /\ UNCHANGED res
        ELSE pc' = [pc EXCEPT ![p] = "raised"] /\ res' = [res EXCEPT ![p] = "timedout"]
  (* as-built only: conn.close(); os.remove(db); connect again *)
  \/ /\ pc[p] = "rm_close" /\ UD /\ UR /\ UNCHANGED <<lock, timeouts, removedInUse>>
     /\ open' = open \ {p} /\ Goto(p, "rm_remove") /\ Step(p, "close", "ok")
  \/ /\ pc[p] = "rm_remove" /\ UD /\ UNCHANGED <<lock, inited, open, timeouts>>
     /\ removedInUse' = (open \ {p} # {})
     /\ res' = [res EXCEPT ![p] = "removed-db"]
     /\ Goto(p, "done") /\ Step(p, "os.remove", "ok")      \* what follows on the new file is not modelled
  (* _check_database_structure, table models:
     BEGIN; SELECT sqlite_master; [PRAGMA table_info]; [DROP TABLE IF EXISTS; CREATE TABLE]; commit *)
  \/ /\ pc[p] = "cs1_begin" /\ UO /\ UD /\ UR /\ Begin(p, ~DeferredSchemaTxn, "cs1_select")
  \/ /\ pc[p] = "cs1_select" /\ UO /\ UD /\ UR /\ Read(p, IF s.models = "absent" THEN "cs1_drop" ELSE "cs1_info")
  \/ /\ pc[p] = "cs1_info" /\ UO /\ UD /\ UR /\ Read(p, IF s.models = "ok" THEN "cs1_commit" ELSE "cs1_drop")
  \/ /\ pc[p] = "cs1_drop" /\ UO
     /\ \/ /\ s.models = "absent" /\ UD /\ UNCHANGED lock       \* DROP IF EXISTS of a missing table: no write lock
           /\ Goto(p, "cs1_create") /\ Step(p, "drop-noop", "ok") /\ UR
        \/ /\ s.models # "absent" /\ WriteBusyNow(p) /\ Raise(p, "drop-models")
        \/ /\ s.models # "absent" /\ Write(p, [s EXCEPT !.models = "absent", !.rows = {}], "cs1_create", "drop-models") /\ UR
  \/ /\ pc[p] = "cs1_create" /\ UO
     /\ \/ WriteBusyNow(p) /\ Raise(p, "create-models")
        \/ Write(p, [s EXCEPT !.models = "ok", !.rows = {}], "cs1_commit", "create-models") /\ UR
  \/ /\ pc[p] = "cs1_commit" /\ UO /\ UR /\ Commit(p, "cs2_begin")
  (* table metadata, same shape *)
  \/ /\ pc[p] = "cs2_begin" /\ UO /\ UD /\ UR /\ Begin(p, ~DeferredSchemaTxn, "cs2_select")
  \/ /\ pc[p] = "cs2_select" /\ UO /\ UD /\ UR /\ Read(p, IF s.meta = "absent" THEN "cs2_drop" ELSE "cs2_info")
  \/ /\ pc[p] = "cs2_info" /\ UO /\ UD /\ UR /\ Read(p, IF s.meta = "ok" THEN "cs2_commit" ELSE "cs2_drop")
  \/ /\ pc[p] = "cs2_drop" /\ UO
     /\ \/ /\ s.meta = "absent" /\ UD /\ UNCHANGED lock
           /\ Goto(p, "cs2_create") /\ Step(p, "drop-noop", "ok") /\ UR
        \/ /\ s.meta # "absent" /\ WriteBusyNow(p) /\ Raise(p, "drop-meta")
        \/ /\ s.meta # "absent" /\ Write(p, [s EXCEPT !.meta = "absent", !.metaKeys = FALSE], "cs2_create", "drop-meta") /\ UR
  \/ /\ pc[p] = "cs2_create" /\ UO
     /\ \/ WriteBusyNow(p) /\ Raise(p, "create-meta")
        \/ Write(p, [s EXCEPT !.meta = "ok", !.metaKeys = FALSE], "cs2_commit", "create-meta") /\ UR
  \/ /\ pc[p] = "cs2_commit" /\ UO /\ UR /\ Commit(p, "md_begin")
  (* INSERT OR IGNORE the two metadata keys (writing statements even when the keys exist) *)
  \/ /\ pc[p] = "md_begin" /\ UO /\ UD /\ UR /\ Begin(p, FALSE, "md_insert1")
  \/ /\ pc[p] = "md_insert1" /\ UO /\ UR /\ Write(p, s, "md_insert2", "insert-metadata")
  \/ /\ pc[p] = "md_insert2" /\ UO /\ UR /\ Write(p, [s EXCEPT !.metaKeys = TRUE], "md_commit", "insert-metadata")
  \/ /\ pc[p] = "md_commit" /\ UO /\ UR /\ Commit(p, "pr_begin")
  (* prune: DELETE expired rows; UPDATE last_prune *)
  \/ /\ pc[p] = "pr_begin" /\ UO /\ UD /\ UR /\ Begin(p, FALSE, "pr_delete")
  \/ /\ pc[p] = "pr_delete" /\ UO /\ UR /\ Write(p, s, "pr_update", "prune-delete")
  \/ /\ pc[p] = "pr_update" /\ UO /\ UR /\ Write(p, s, "pr_commit", "prune-update")
  \/ /\ pc[p] = "pr_commit" /\ UO /\ UNCHANGED res /\ Commit(p, "lk_begin")
     /\ inited' = IF pc'[p] = "lk_begin" THEN inited \cup {p} ELSE inited
  (* lookup: BEGIN; SELECT; commit *)
  \/ /\ pc[p] = "lk_begin" /\ UO /\ UD /\ UR /\ Begin(p, FALSE, "lk_select")
  \/ /\ pc[p] = "lk_select" /\ UO /\ UD /\ UNCHANGED inited /\ Read(p, "lk_commit")
     /\ res' = [res EXCEPT ![p] = IF t \in s.rows THEN "hit" ELSE "miss"]
  \/ /\ pc[p] = "lk_commit" /\ UO /\ UR
     /\ Commit(p, IF res[p] = "hit" THEN (IF TouchOnHit THEN "th_begin" ELSE "done_close") ELSE "parse_text")
  (* hit: UPDATE last_hit when always_update_last_hit or older than a day *)
  \/ /\ pc[p] = "th_begin" /\ UO /\ UD /\ UR /\ Begin(p, FALSE, "th_update")
  \/ /\ pc[p] = "th_update" /\ UO /\ UR /\ Write(p, s, "th_commit", "touch")
  \/ /\ pc[p] = "th_commit" /\ UO /\ UR /\ Commit(p, "done_close")
  (* miss: parse the text (no database access, no lock held), then INSERT OR REPLACE *)
  \/ /\ pc[p] = "parse_text" /\ UO /\ UD /\ UR /\ UNCHANGED lock /\ Goto(p, "st_begin") /\ Step(p, "parse", "ok")
  \/ /\ pc[p] = "st_begin" /\ UO /\ UD /\ UR /\ Begin(p, FALSE, "st_insert")
  \/ /\ pc[p] = "st_insert" /\ UO /\ UR /\ Write(p, [s EXCEPT !.rows = @ \cup {t}], "st_commit", "store")
  \/ /\ pc[p] = "st_commit" /\ UO /\ UR /\ Commit(p, "done_close")
  \/ /\ pc[p] = "done_close" /\ UD /\ UNCHANGED inited
     /\ lock' = [lock EXCEPT ![p] = "none"] /\ res' = [res EXCEPT ![p] = "tree"]
     /\ open' = open \ {p} /\ UNCHANGED <<timeouts, removedInUse>>
     /\ Goto(p, "done") /\ Step(p, "close", "ok")
  (* the exception left parse(): the leaked connection (and its transaction) goes when it is collected *)
  \/ /\ pc[p] = "raised" /\ (lock[p] # "none" \/ shadow[p] # NoShadow \/ p \in open) /\ UR /\ UNCHANGED <<pc, db>>
     /\ lock' = [lock EXCEPT ![p] = "none"] /\ shadow' = [shadow EXCEPT ![p] = NoShadow]
     /\ open' = open \ {p} /\ UNCHANGED <<timeouts, removedInUse>> /\ Step(p, "gc", "ok")

AllDone == \A p \in Procs : pc[p] \in {"done", "raised"} /\ lock[p] = "none"
Next == (\E p \in Procs : Proc(p)) \/ (AllDone /\ UNCHANGED vars)
Spec == Init /\ [][Next]_vars /\ WF_vars(Next)

-----------------------------------------------------------------------------
(* The property *)
NoDbError == \A p \in Procs : res[p] # "raised"
NoRemoveWhileInUse == ~removedInUse
AtMostOneWriter == Cardinality({p \in Procs : HoldsWrite(p)}) <= 1
NoReadDuringPendingEntry == \A p \in Procs : lock[p] = "pending" => \A q \in Others(p) : lock[q] \in {"none", "shared"}
DbIntactAtEnd == AllDone => (/\ db.models = "ok" /\ db.meta = "ok" /\ db.metaKeys
                             /\ \A p \in Procs : res[p] = "tree" => TextOf(p) \in db.rows)
(* deadlock (every process waiting) is checked by TLC's deadlock detection: AllDone stutters *)
Termination == <>AllDone

View == <<pc, lock, db, shadow, inited, res, open, timeouts, removedInUse>>
Log == PrintT(<<"TR", ToJson([src |-> [pc |-> pc, lock |-> lock, res |-> res], act |-> last', dst |-> [pc |-> pc', lock |-> lock', res |-> res']])>>)
=============================================================================
