\* NOT how the code behaves: alias elimination skipping the durations; TLC must refute RejectsExactly (shows the spec would notice)
CONSTANTS LoopDelayOwnFreeVars = TRUE
          LoopDurationMapped = TRUE
          ParamValuesReachDelays = TRUE
          ChecksBeforeSave = TRUE AliasesReachDurations = FALSE
          DelayInputsForbidden = TRUE ExpandKeepsElements = TRUE
          Family = "cex"
INIT Init
NEXT Next
VIEW View
INVARIANT TypeOK
INVARIANT NoPlaceholderLeft
INVARIANT RejectsExactly
INVARIANT ArgumentsPreserved
INVARIANT CacheHoldsOnlyAccepted
INVARIANT SameAnswerTwice
CHECK_DEADLOCK FALSE
