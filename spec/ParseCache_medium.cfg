\* intended behaviour, 1 good + 1 bad text, 2 versions (+dirty), days 0..2, all expiration choices; complete state graph with TR-log
CONSTANTS GoodTexts = {"g1"} BadTexts = {"b1"} Versions = {"v1","v2"} MaxDay = 2 ExpChoices = {0,1,30}
  MaxOps = 1000000 InitedSkipsChecks = FALSE CatchesOnlyUnpickling = FALSE FaultsIncludeRemoval = FALSE
INIT Init
NEXT Next
VIEW View
ACTION_CONSTRAINT Log
INVARIANT TypeOK
PROPERTY ResultIsFresh
PROPERTY NeverRaises
INVARIANT NoneNeverStored
PROPERTY RowsOnlyLeaveWhenExpiredOrLost
CHECK_DEADLOCK FALSE
