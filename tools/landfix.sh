#!/bin/bash
# usage: landfix.sh <diff file> <property> "<commit subject (without 'fix: ')>" "<what failed>" [known-finding ids to drop ...]
# applies one proposed fix to /repo as ONE unguarded "fix:" commit, after the pinned baseline passes with it
set -e
diff=$(realpath $1); prop=$2; subj=$3; what=$4; shift 4
cd /repo
test -z "$(git status --porcelain --untracked-files=no)" || { echo "repo dirty"; exit 1; }
git apply "$diff"
if ! /verif/tools/baseline.py /repo; then echo "BASELINE FAILS with $diff - reverting"; git checkout -- .; exit 1; fi
git add -A src tools
git commit -q -m "fix: $subj" -m "$what"
c=$(git rev-parse --short HEAD)
cd /verif
vf/kf.py fixed "$(/venv/bin/python -c 'import json,sys; print(json.dumps({"property":sys.argv[1],"commit":sys.argv[2],"what":sys.argv[3]}))' "$prop" "$c" "$what")"
for id in "$@"; do vf/kf.py rm "$id"; done
echo "landed $c: $subj"
