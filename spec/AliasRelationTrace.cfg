CONSTANTS Names = {"a","b","c","d","e"} MaxRel = 4 MaxOps = 1000000
INIT TInit
NEXT TNext
VIEW TView
ACTION_CONSTRAINT At
INVARIANT WellFormed
POSTCONDITION Accepted
CHECK_DEADLOCK FALSE
