\* as-built value of ClassifiesDiscrete only: TLC is expected to report a counterexample to ClassificationMatches
CONSTANTS SympyParenthesises = TRUE
 SafeNames = TRUE
 ClassifiesDiscrete = FALSE
 PrintsValueExpressions = TRUE
          OneListPerVariable = TRUE
          Family = "cex"
INIT Init
NEXT Next
VIEW View
INVARIANT TypeOK
INVARIANT Injective
INVARIANT ClassificationMatches
INVARIANT ValidPython
INVARIANT Constructs
INVARIANT OneSymbolPerVariable
INVARIANT MeaningPreserved
CHECK_DEADLOCK FALSE
