------------------------------- MODULE EvalFam -------------------------------
(* Bounded program families for the CasADi-generator properties.  The
   derivation of every program from small parameter domains lives HERE, in
   TLA+; the harness only renders what TLC prints.

     "expr"   C11  typed expression trees of depth <= 2 over every operator pair
     "elem"   C11  elementary functions (uninterpreted: right function, right argument)
     "eqs"    C11  equation forms x array shapes x loop ranges, initial equations
     "func"   C11  user functions with assignment / if / for statements   (C12: all 8 option sets)
     "index"  C23  every subscript / slice bound in a window around the valid range
   An item is [fam, prog, tags]; tags are the shape classes used for triage.
   (Every family takes the tier as a parameter: TLC evaluates zero-arity constant
   definitions eagerly at start-up, and would otherwise build all families on every run.) *)
EXTENDS Eval

CONSTANTS Family,     \* which family this TLC run enumerates
          Tier        \* "quick" | "thorough": size of the leaf sets / windows

Item(fam, P, extra) == [fam |-> fam, prog |-> P, extra |-> extra]

RECURSIVE NodeTags(_)
NodeTags(e) ==
    (CASE e.k \in {"bin", "un", "call"} -> {"op:" \o e.n}
       [] e.k = "lit" -> {}
       [] e.k = "ref" -> (IF e.a = <<>> THEN {} ELSE {"subscript"})
       [] e.k = "for" -> (IF Len(e.a) = 4 THEN {"k:for", "k:for-step"} ELSE {"k:for"})
       [] OTHER -> {"k:" \o e.k})
    \cup UNION {NodeTags(e.a[i]) : i \in DOMAIN e.a}
SeqTags(s) == UNION {NodeTags(s[i]) : i \in DOMAIN s}
(* a subscripted reference with fewer subscripts than declared dimensions *)
DeclDims(P, name) == IF \E i \in DOMAIN P.comps : P.comps[i].name = name
                     THEN P.comps[CHOOSE i \in DOMAIN P.comps : P.comps[i].name = name].dims ELSE <<>>
RECURSIVE PartialIn(_, _)
PartialIn(e, P) == (e.k = "ref" /\ e.a # <<>> /\ Len(e.a) < Len(DeclDims(P, e.n)))
                   \/ \E i \in DOMAIN e.a : PartialIn(e.a[i], P)
ProgTags(P) == SeqTags(P.eqs) \cup SeqTags(P.ieqs) \cup (IF P.ieqs # <<>> THEN {"initial"} ELSE {})
               \cup UNION {{"fn:" \o t : t \in SeqTags(P.funcs[i].body)} : i \in DOMAIN P.funcs}
               \cup (IF \E i \in DOMAIN P.eqs : PartialIn(P.eqs[i], P) THEN {"partial-subscript"} ELSE {})
TagsOf(it) == {"fam:" \o it.fam} \cup it.extra \cup ProgTags(it.prog)

-----------------------------------------------------------------------------
(* "expr": one equation  r = e  (numeric)  or  rb = e  (Boolean) *)
BoolComp(name) == Comp(name, "Boolean", "", <<>>, <<>>)
ExprComps == << Real("r"), BoolComp("rb"), Real("x"), Real("y"), Param("p", RI(2)), Const("c", Q(3, 2)),
                Comp("u", "Real", "input", <<>>, <<>>), Comp("k", "Integer", "", <<>>, <<>>), BoolComp("b") >>

ArithOps == {"+", "-", "*", "/", "^"}
RelOps   == {"<", "<=", ">", ">=", "=="}
LogOps   == {"and", "or"}

LeafAll(tier)   == IF tier = "quick" THEN {Ref("x"), Ref("p"), Ref("c"), Ref("u"), Ref("k"), Ref("time"), Der(Ref("x")), Lit(Q(1, 2))}
                   ELSE {Ref("x"), Ref("y"), Ref("p"), Ref("c"), Ref("u"), Ref("k"), Ref("time"), Der(Ref("x")), ILit(2), Lit(Q(1, 2))}
LeafInner(tier) == IF tier = "quick" THEN {Ref("x"), ILit(2)} ELSE {Ref("x"), Ref("y"), ILit(2)}
LeafOuter(tier) == IF tier = "quick" THEN {Ref("y"), Lit(Q(1, 2))} ELSE {Ref("y"), Ref("p"), Lit(Q(1, 2))}

NumOp(op, a, b) == IF op \in {"min", "max"} THEN Call(op, <<a, b>>) ELSE Bin(op, a, b)
NumBin == ArithOps \cup {"min", "max"}

Num1(L)  == {NumOp(op, a, b) : op \in NumBin, a \in L, b \in L}
            \cup {Un("-", a) : a \in L} \cup {Call(f, <<a>>) : f \in {"abs", "floor", "ceil", "sign"}, a \in L}
Bool1(L) == {Bin(op, a, b) : op \in RelOps, a \in L, b \in L}

(* depth 1 over all leaves; depth 2: an inner depth-1 tree in either operand position.
   quick keeps every operator PAIR but fewer leaf assignments.                         *)
Num1Q(L, L2) == {NumOp(op, a, b) : op \in NumBin, a \in L, b \in L2} \cup {NumOp(op, b, a) : op \in NumBin, a \in L, b \in L2}
                \cup {Un("-", a) : a \in L} \cup {Call(f, <<a>>) : f \in {"abs", "floor", "ceil", "sign"}, a \in L}
Bool1Q(L, L2) == {Bin(op, a, b) : op \in RelOps, a \in L, b \in L2} \cup {Bin(op, b, a) : op \in RelOps, a \in L, b \in L2}
Inner1(tier) == IF tier = "quick"
                THEN {NumOp(op, a, b) : op \in NumBin, a \in {Ref("x")}, b \in {ILit(2)}} \cup {NumOp(op, b, a) : op \in NumBin, a \in {Ref("x")}, b \in {ILit(2)}}
                     \cup {Un("-", Ref("x"))} \cup {Call(f, <<Ref("x")>>) : f \in {"abs", "floor", "ceil", "sign"}}
                ELSE Num1(LeafInner(tier))
CondA(tier) == IF tier = "quick" THEN {Bin(op, Ref("x"), Ref("y")) : op \in RelOps} ELSE Bool1({Ref("x"), Ref("y")})
CondB(tier) == IF tier = "quick" THEN {Bin("<", Ref("y"), Ref("p")), Bin(">=", Ref("y"), Ref("p")), Bin("==", Ref("y"), Ref("p"))}
               ELSE {Bin(op, Ref("y"), Ref("p")) : op \in RelOps}
CondI(tier) == IF tier = "quick" THEN CondA(tier) \cup {Bin(">", Ref("x"), ILit(2)), Bin("<=", ILit(2), Ref("x"))}
               ELSE CondA(tier) \cup Bool1({Ref("x"), ILit(2)})
NumExprs(tier) ==
    (IF tier = "quick" THEN Num1Q(LeafAll(tier), {Ref("y"), ILit(2)}) ELSE Num1(LeafAll(tier)))
    \cup {NumOp(op, a, b) : op \in NumBin, a \in Inner1(tier), b \in LeafOuter(tier)}
    \cup {NumOp(op, b, a) : op \in NumBin, a \in Inner1(tier), b \in LeafOuter(tier)}
    \cup {Un("-", a) : a \in Inner1(tier)}
    \cup {Call("abs", <<a>>) : a \in Inner1(tier)}
    \cup {If(c, a, b) : c \in CondI(tier), a \in LeafOuter(tier), b \in LeafOuter(tier)}
    \cup {If(Ref("b"), a, b) : a \in Inner1(tier), b \in LeafOuter(tier)}
    \cup {IfE(<<c1, ILit(1), c2, ILit(2), ILit(3)>>) : c1 \in CondA(tier), c2 \in CondB(tier)}
BoolExprs(tier) ==
    (IF tier = "quick" THEN Bool1Q(LeafAll(tier), {Ref("y"), ILit(2)}) ELSE Bool1(LeafAll(tier)))
    \cup {Bin(op, a, b) : op \in RelOps, a \in Inner1(tier), b \in LeafOuter(tier)}
    \cup {Bin(op, b, a) : op \in RelOps, a \in Inner1(tier), b \in LeafOuter(tier)}
    \cup {Bin(op, c1, c2) : op \in LogOps, c1 \in CondI(tier), c2 \in CondB(tier)}
    \cup {Bin(op, Ref("b"), c) : op \in LogOps, c \in CondI(tier)}
    \cup {Un("not", c) : c \in CondI(tier) \cup {Ref("b")}}
    \cup {Un("not", Bin(op, c1, c2)) : op \in LogOps, c1 \in CondA(tier), c2 \in CondB(tier)}
    \cup {Bin(op, Un("not", c1), c2) : op \in LogOps, c1 \in CondA(tier), c2 \in CondB(tier)}

(* guarded expressions: one branch has no value (division by zero, log / sqrt outside the domain - uninterpreted,
   so Und) exactly at the points where the guard does not select it; the meaning of the if-expression is the
   SELECTED branch only.  d takes positive, zero and negative values over the 4 points.                      *)
GuardDens == {Bin("+", Ref("x"), ILit(1)), Ref("k"), Ref("y"), Bin("-", Ref("p"), ILit(2))}
GuardAlts == {ILit(0), Un("-", ILit(1)), Ref("c")}
GuardedExprs(tier) ==
    UNION {
      {If(Bin(">", Call("abs", <<d>>), ILit(0)), Bin("/", Ref("u"), d), alt),            \* if abs(d) > 0 then u/d else alt
       If(Bin("==", d, ILit(0)), alt, Bin("/", Ref("u"), d)),                             \* guarded branch in the else position
       If(Bin(">", d, ILit(0)), Call("log", <<d>>), alt),                                 \* log only where d > 0
       If(Bin("<=", d, ILit(0)), alt, Call("log", <<d>>)),
       If(Bin(">=", d, ILit(0)), Call("sqrt", <<d>>), alt),
       If(Bin(">", d, ILit(0)), Bin("/", ILit(1), Call("sqrt", <<d>>)), alt),
       IfE(<<Bin(">", d, ILit(0)), Bin("/", Ref("u"), d), Bin("<", d, ILit(0)), Bin("/", Ref("c"), d), alt>>),   \* elseif chain
       Bin("+", Ref("c"), Bin("*", ILit(2), If(Bin(">", Call("abs", <<d>>), ILit(0)), Bin("/", Ref("u"), d), alt)))}   \* inside a larger expression
      : d \in GuardDens, alt \in (IF tier = "quick" THEN {ILit(0), Ref("c")} ELSE GuardAlts)}

ExprItems(tier) ==
    {Item("expr", Prog(ExprComps, <<Eq(Ref("r"), e)>>, <<>>, <<>>), {"num"}) : e \in NumExprs(tier)}
    \cup {Item("expr", Prog(ExprComps, <<Eq(Ref("rb"), e)>>, <<>>, <<>>), {"bool"}) : e \in BoolExprs(tier)}
    \cup {Item("expr", Prog(ExprComps, <<Eq(Ref("r"), e)>>, <<>>, <<>>), {"num", "guarded"}) : e \in GuardedExprs(tier)}
    (* the same guard as an if-equation *)
    \cup {Item("expr", Prog(ExprComps, <<IfEq(<<Bin(">", Call("abs", <<d>>), ILit(0)), Blk(<<Eq(Ref("r"), Bin("/", Ref("u"), d))>>),
                                                Blk(<<Eq(Ref("r"), Ref("c"))>>)>>)>>, <<>>, <<>>), {"num", "guarded"}) : d \in GuardDens}

(* "elem": r = f(arg); the expected row is printed as (value of r, f, value of arg) *)
ElemItems(tier) ==
    {Item("elem", Prog(ExprComps, <<Eq(Ref("r"), Call(f, <<a>>))>>, <<>>, <<>>), {}) :
        f \in Elementary, a \in {Ref("x"), Ref("time"), Bin("*", Ref("x"), Lit(Q(1, 2))), Bin("+", Ref("y"), Ref("p")), Bin("*", Ref("x"), Lit(Q(1, 4))), Un("-", Ref("y"))}}

-----------------------------------------------------------------------------
(* "eqs": equation forms over vectors z, w of size n and matrices A, B of shape r x c *)
EqComps(n, r, c) == << Real("x"), Real("y"), RealA("z", <<n>>), RealA("w", <<n>>), RealA("A", <<r, c>>), RealA("B", <<r, c>>),
                       RealA("v", <<c>>), RealA("q", <<r>>), Param("p", RI(2)), IParam("m", n), BoolComp("b") >>
I(i) == ILit(i)
Ri == Ref("i")
ZSizes(tier) == IF tier = "quick" THEN {3} ELSE {1, 2, 3}
AShapes(tier) == IF tier = "quick" THEN {<<2, 3>>} ELSE {<<2, 2>>, <<2, 3>>, <<3, 2>>}

VecEqs(n) ==    \* equation lists over z[n], w[n]
    {<<Eq(Ref("z"), Ref("w"))>>,
     <<Eq(Ref("z"), Bin("*", I(2), Ref("w")))>>,
     <<Eq(Ref("z"), Bin("*", Ref("w"), Ref("p")))>>,
     <<Eq(Ref("z"), Bin("/", Ref("w"), Ref("p")))>>,
     <<Eq(Ref("z"), Un("-", Ref("w")))>>,
     <<Eq(Ref("z"), Bin("+", Ref("w"), Ref("z")))>>,
     <<Eq(Ref("z"), Bin("-", Ref("w"), Ref("z")))>>,
     <<Eq(Ref("z"), Bin(".*", Ref("w"), Ref("z")))>>,
     <<Eq(Ref("z"), Bin("./", Ref("w"), Ref("z")))>>,
     <<Eq(Ref("z"), Bin(".^", Ref("w"), I(2)))>>,
     <<Eq(Ref("z"), Arr([j \in 1..n |-> Lit(Q(j, 2))]))>>,
     <<Eq(Ref("x"), Call("sum", <<Ref("z")>>))>>,
     <<Eq(Ref("z"), Call("abs", <<Ref("w")>>))>>,
     <<Eq(Der(Ref("z")), Ref("w"))>>,
     <<Eq(Ref("z"), IfE(<<Bin(">", Ref("x"), Ref("y")), Ref("w"), Bin("*", I(2), Ref("w"))>>))>>}
    \cup {<<Eq(Idx("z", <<I(j)>>), Bin("+", Ref("x"), Idx("w", <<I(n + 1 - j)>>)))>> : j \in 1..n}
    \cup {<<Eq(Der(Idx("z", <<I(j)>>)), Idx("w", <<I(j)>>))>> : j \in 1..n}
    \cup {<<Eq(Idx("z", <<Slice(I(ab[1]), I(ab[2]))>>), Idx("w", <<Slice(I(ab[3]), I(ab[3] + ab[2] - ab[1]))>>))>> :
              ab \in {t \in (1..n) \X (1..n) \X (1..n) : t[2] >= t[1] /\ t[3] + t[2] - t[1] <= n}}
    \cup (IF n >= 2 THEN {<<Eq(Idx("z", <<Slice(I(2), I(1))>>), Idx("w", <<Slice(I(n), I(n - 1))>>)), Eq(Ref("x"), Ref("y"))>>} ELSE {})
    \cup {<<Eq(Idx("z", <<Colon>>), Idx("w", <<Colon>>))>>}
    \cup {<<Eq(Ref("x"), Call("sum", <<Idx("z", <<Slice(I(a), I(b))>>)>>))>> : a \in 1..n, b \in 1..n}
    (* if-equations *)
    \cup {<<IfEq(<<Bin(op, Ref("x"), Ref("y")), Blk(<<Eq(Ref("x"), I(1))>>), Blk(<<Eq(Ref("x"), Ref("p"))>>)>>)>> : op \in RelOps}
    \cup {<<IfEq(<<Bin(">", Ref("x"), I(1)), Blk(<<Eq(Ref("y"), I(1)), Eq(Idx("z", <<I(1)>>), I(2))>>),
                  Bin(">", Ref("x"), I(-1)), Blk(<<Eq(Ref("y"), I(3)), Eq(Idx("z", <<I(n)>>), I(4))>>),
                  Blk(<<Eq(Ref("y"), Ref("p")), Eq(Idx("w", <<I(1)>>), Ref("x"))>>)>>)>>,
          <<IfEq(<<Ref("b"), Blk(<<Eq(Ref("z"), Ref("w"))>>), Blk(<<Eq(Ref("z"), Bin("*", I(2), Ref("w")))>>)>>)>>,
          <<IfEq(<<Bin("and", Bin(">", Ref("x"), I(0)), Bin("<", Ref("y"), I(2))), Blk(<<Eq(Ref("x"), I(1))>>),
                  Blk(<<Eq(Ref("y"), I(2))>>)>>)>>}
    (* for-equations *)
    \cup {<<ForEq("i", I(lo), I(hi), <<Eq(Idx("z", <<Ri>>), Bin("*", Ri, Ref("x")))>>)>> : lo \in 1..n, hi \in 0..n}
    \cup {<<ForEq("i", I(1), Ref("m"), <<Eq(Idx("z", <<Ri>>), Bin("+", Idx("w", <<Ri>>), Ri))>>)>>,
          <<ForEq("i", I(1), Ref("m"), <<Eq(Der(Idx("z", <<Ri>>)), Idx("w", <<Ri>>))>>)>>,
          <<ForEq("i", I(1), Ref("m"), <<Eq(Idx("z", <<Ri>>), Idx("w", <<Bin("+", Bin("-", Ref("m"), Ri), I(1))>>))>>)>>,
          <<ForEq("i", I(1), Ref("m"), <<Eq(Idx("z", <<Ri>>), I(1)), Eq(Idx("w", <<Ri>>), Bin("*", I(2), Idx("z", <<Ri>>)))>>)>>,
          <<ForEq("i", I(1), Ref("m"), <<Eq(Idx("z", <<Ri>>), IfE(<<Bin(">", Idx("w", <<Ri>>), Ref("x")), Ri, Un("-", Ri)>>))>>)>>,
          <<ForEq("i", I(1), Ref("m"), <<Eq(Idx("z", <<Ri>>), Call("min", <<Idx("w", <<Ri>>), Ref("x")>>))>>)>>,
          <<ForEq("i", I(1), Ref("m"), <<IfEq(<<Bin(">", Ref("x"), I(0)), Blk(<<Eq(Idx("z", <<Ri>>), Ri)>>), Blk(<<Eq(Idx("z", <<Ri>>), Idx("w", <<Ri>>))>>)>>)>>)>>}
    \cup (IF n >= 2
          THEN {<<ForEq("i", I(1), I(n - 1), <<Eq(Idx("z", <<Bin("+", Ri, I(1))>>), Idx("z", <<Ri>>))>>)>>,
                <<ForEq("i", I(2), I(n), <<Eq(Idx("z", <<Bin("-", Ri, I(1))>>), Bin("*", Ri, Idx("w", <<Ri>>)))>>)>>,
                <<ForStepEq("i", I(1), I(2), I(n), <<Eq(Idx("z", <<Ri>>), Bin("*", Ri, Ref("x")))>>)>>,
                <<ForStepEq("i", I(1), I(1), I(n), <<Eq(Idx("z", <<Ri>>), Bin("+", Ri, Idx("w", <<Ri>>)))>>)>>,
                <<ForStepEq("i", I(1), I(2), I(n - 1), <<Eq(Idx("z", <<Ri>>), Bin("-", Ri, Idx("w", <<Ri>>)))>>)>>}
          ELSE {})

MatEqs(r, c) ==   \* A, B: r x c; v: c; q: r
    {<<Eq(Ref("A"), Ref("B"))>>,
     <<Eq(Ref("A"), Bin("*", I(2), Ref("B")))>>,
     <<Eq(Ref("A"), Bin("+", Ref("A"), Ref("B")))>>,
     <<Eq(Ref("A"), Bin("-", Ref("B"), Ref("A")))>>,
     <<Eq(Ref("A"), Bin(".*", Ref("A"), Ref("B")))>>,
     <<Eq(Ref("A"), Un("-", Ref("B")))>>,
     <<Eq(Der(Ref("A")), Ref("B"))>>,
     <<Eq(Ref("x"), Call("sum", <<Idx("A", <<Colon, I(1)>>)>>))>>}
    \cup {<<Eq(Idx("A", <<I(i), I(j)>>), Bin("-", Ref("x"), Idx("B", <<I(r + 1 - i), I(c + 1 - j)>>)))>> : i \in 1..r, j \in 1..c}
    \cup {<<Eq(Idx("A", <<I(i), Colon>>), Ref("v"))>> : i \in 1..r}
    \cup {<<Eq(Idx("A", <<Colon, I(j)>>), Ref("q"))>> : j \in 1..c}
    \cup {<<Eq(Idx("A", <<I(i), Colon>>), Idx("B", <<I(r + 1 - i), Colon>>))>> : i \in 1..r}
    \cup {<<Eq(Idx("A", <<Colon, I(j)>>), Idx("B", <<Colon, I(c + 1 - j)>>))>> : j \in 1..c}
    \cup {<<Eq(Idx("A", <<I(i), Slice(I(a), I(b))>>), Idx("v", <<Slice(I(a), I(b))>>))>> : i \in 1..r, a \in 1..c, b \in 1..c}
    \cup {<<Eq(Idx("A", <<Slice(I(1), I(2)), Slice(I(c - 1), I(c))>>), Idx("B", <<Slice(I(r - 1), I(r)), Slice(I(1), I(2))>>))>>}
    \cup {<<Eq(Idx("A", <<I(i)>>), Ref("v"))>> : i \in 1..r}                          \* partial subscript = row i
    (* loops over rows / columns *)
    \cup {<<ForEq("i", I(1), I(r), <<Eq(Idx("A", <<Ri, Colon>>), Bin("*", Ref("v"), Ri))>>)>>,
          <<ForEq("i", I(1), I(c), <<Eq(Idx("A", <<Colon, Ri>>), Bin("*", Ref("q"), Ri))>>)>>,
          <<ForEq("i", I(1), I(c), <<Eq(Idx("A", <<I(1), Ri>>), Idx("v", <<Ri>>)), Eq(Idx("A", <<I(2), Ri>>), Bin("*", I(2), Idx("v", <<Ri>>)))>>)>>,
          <<ForEq("i", I(1), I(r), <<Eq(Idx("A", <<Ri, I(1)>>), Idx("q", <<Ri>>)), Eq(Idx("A", <<Ri, I(c)>>), Bin("+", Idx("B", <<Ri, I(1)>>), Ri))>>)>>,
          <<ForEq("i", I(1), I(r), <<Eq(Idx("A", <<Ri, Colon>>), Idx("B", <<Bin("-", I(r + 1), Ri), Colon>>))>>)>>,
          <<ForEq("i", I(1), I(c), <<Eq(Der(Idx("A", <<I(1), Ri>>)), Idx("B", <<I(2), Ri>>))>>)>>}
    \cup {<<ForEq("i", I(1), I(c), <<Eq(Idx("A", <<I(j), Ri>>), Bin("*", Ri, Idx("B", <<I(r + 1 - j), Ri>>)))>>)>> : j \in 1..r}
    \cup {<<ForEq("i", I(1), I(r), <<Eq(Idx("A", <<Ri, I(j)>>), Bin("*", Ri, Idx("B", <<Ri, I(c + 1 - j)>>)))>>)>> : j \in 1..c}

EqItems(tier) ==
    UNION {{Item("eqs", Prog(EqComps(n, 2, 3), eqs, <<>>, <<>>), {"vec"}) : eqs \in VecEqs(n)} : n \in ZSizes(tier)}
    \cup UNION {{Item("eqs", Prog(EqComps(3, s[1], s[2]), eqs, <<>>, <<>>), {"mat"}) : eqs \in MatEqs(s[1], s[2])} : s \in AShapes(tier)}
    (* the same forms as initial equations (one representative size) plus a mixed model *)
    \cup {Item("eqs", Prog(EqComps(3, 2, 3), <<>>, eqs, <<>>), {"vec", "initial"}) : eqs \in VecEqs(3)}
    \cup {Item("eqs", Prog(EqComps(3, 2, 3), <<Eq(Der(Ref("x")), Ref("y")), Eq(Ref("z"), Ref("w"))>>,
                          <<Eq(Ref("x"), I(1)), Eq(Idx("z", <<I(2)>>), Ref("p"))>>, <<>>), {"mixed", "initial"})}

-----------------------------------------------------------------------------
(* "func": user functions.  Templates x argument expressions x call contexts *)
Ra == Ref("a")
Rb == Ref("b")
Rr == Ref("r")
Rs == Ref("s")
Rt == Ref("t")

FStraight == Func("f", <<"a", "b">>, <<"r">>, <<"t">>,
    <<Asg(Rt, Bin("*", Ra, I(2))), Asg(Rr, Bin("-", Rt, Rb)), Asg(Rr, Bin("*", Rr, Rr))>>)
FIf(op) == Func("f", <<"a", "b">>, <<"r">>, <<>>,
    <<IfSt(<<Bin(op, Ra, Rb), Blk(<<Asg(Rr, Bin("-", Ra, Rb))>>), Blk(<<Asg(Rr, Bin("*", I(2), Rb))>>)>>)>>)
FIf3 == Func("f", <<"a", "b">>, <<"r">>, <<>>,
    <<IfSt(<<Bin(">", Ra, I(1)), Blk(<<Asg(Rr, I(1))>>), Bin(">", Ra, I(-1)), Blk(<<Asg(Rr, Rb)>>), Blk(<<Asg(Rr, Bin("-", Ra, Rb))>>)>>)>>)
(* both branches assign r and s, in the same order, s depending on the r assigned just before *)
FIfDep == Func("f", <<"a", "b">>, <<"r", "s">>, <<>>,
    <<IfSt(<<Bin(">", Ra, Rb), Blk(<<Asg(Rr, Bin("+", Ra, I(1))), Asg(Rs, Bin("*", Rr, I(2)))>>),
                               Blk(<<Asg(Rr, Bin("-", Rb, I(1))), Asg(Rs, Bin("*", Rr, I(3)))>>)>>)>>)
(* branches assign r and s in different orders *)
FIfOrder == Func("f", <<"a", "b">>, <<"r", "s">>, <<>>,
    <<Asg(Rr, Ra),
      IfSt(<<Bin(">", Ra, Rb), Blk(<<Asg(Rs, Bin("+", Rr, I(1))), Asg(Rr, I(5))>>),
                               Blk(<<Asg(Rr, I(2)), Asg(Rs, Bin("+", Rr, I(2)))>>)>>)>>)
FFor(lo, hi) == Func("f", <<"a", "b">>, <<"r">>, <<>>,
    <<Asg(Rr, Ra), ForSt("i", I(lo), I(hi), <<Asg(Rr, Bin("+", Bin("*", Rr, I(2)), Bin("*", Ri, Rb)))>>)>>)
FFor2 == Func("f", <<"a", "b">>, <<"r", "s">>, <<>>,
    <<Asg(Rr, Ra), Asg(Rs, I(0)),
      ForSt("i", I(1), I(3), <<Asg(Rr, Bin("-", Rr, Rs)), Asg(Rs, Bin("+", Rs, Bin("*", Ri, Rb)))>>)>>)
FMulti == Func("f", <<"a", "b">>, <<"r", "s">>, <<"t">>,
    <<Asg(Rt, Bin("+", Ra, Rb)), Asg(Rr, Bin("*", Rt, Ra)), Asg(Rs, Bin("-", Rt, Rr))>>)
FMix == Func("f", <<"a", "b">>, <<"r", "s">>, <<"t">>,
    <<Asg(Rt, Bin("*", Ra, I(2))), Asg(Rr, Bin("+", Rt, Rb)),
      IfSt(<<Bin(">", Rr, I(3)), Blk(<<Asg(Rs, Bin("-", Rr, I(1))), Asg(Rt, I(5))>>),
                                 Blk(<<Asg(Rs, Bin("+", Rt, Rr)), Asg(Rt, I(2))>>)>>),
      ForSt("i", I(1), I(3), <<Asg(Rr, Bin("+", Rr, Bin("*", Ri, Rt)))>>)>>)
FShare == Func("f", <<"a", "b">>, <<"r">>, <<>>, <<Asg(Rr, Bin("/", Ra, Rb))>>)                     \* f(3 + 4, 2) = 3.5
FMean  == Func("f", <<"a", "b">>, <<"r">>, <<"t">>, <<Asg(Rt, Bin("+", Ra, Rb)), Asg(Rr, Bin("/", Rt, I(4)))>>)
(* if-statement whose not-selected branch has no value (division by zero) *)
FGuard == Func("f", <<"a", "b">>, <<"r">>, <<>>,
    <<IfSt(<<Bin(">", Call("abs", <<Rb>>), I(0)), Blk(<<Asg(Rr, Bin("/", Ra, Rb))>>), Blk(<<Asg(Rr, Ra)>>)>>)>>)
GOuter == Func("g", <<"a">>, <<"r">>, <<>>, <<Asg(Rr, Bin("+", Call("f", <<Ra, Bin("-", Ra, I(1))>>), I(1)))>>)

FuncComps == << Real("x"), Real("y"), RealA("z", <<3>>), Param("p", RI(2)) >>
FuncArgs(tier) == IF tier = "quick" THEN {<<Ref("p"), Ref("y")>>, <<Bin("+", Ref("y"), I(1)), Idx("z", <<I(3)>>)>>, <<Ref("x"), Bin("+", Ref("y"), I(1))>>}
                  ELSE {<<Ref("y"), Ref("p")>>, <<Ref("p"), Ref("y")>>, <<Bin("+", Ref("y"), I(1)), Ref("time")>>,
                        <<Idx("z", <<I(2)>>), Idx("z", <<I(3)>>)>>, <<Lit(Q(1, 2)), Ref("y")>>, <<Ref("x"), Bin("+", Ref("y"), I(1))>>}
Single(tier) == {FStraight, FIf3, FFor(1, 3), FFor(2, 2), FFor(1, 0), FGuard} \cup {FIf(op) : op \in RelOps}
Multi(tier)  == {FIfDep, FFor2, FMulti, FMix}

FuncItems(tier) ==
    {Item("func", Prog(FuncComps, <<Eq(Ref("x"), Call("f", <<a[1], a[2]>>))>>, <<>>, <<fd>>), {"call-scalar-lhs"}) :
        fd \in Single(tier) \cup Multi(tier), a \in FuncArgs(tier)}
    \cup {Item("func", Prog(FuncComps, <<Eq(Tup(<<Ref("x"), Ref("y")>>), Call("f", <<a[1], a[2]>>))>>, <<>>, <<fd>>), {"call-tuple-lhs"}) :
        fd \in Multi(tier), a \in {<<Ref("p"), Ref("time")>>, <<Idx("z", <<I(1)>>), Ref("p")>>}}
    \cup {Item("func", Prog(FuncComps, <<Eq(Ref("x"), Bin("+", Call("f", <<a[1], a[2]>>), Bin("*", I(2), Call("f", <<a[2], a[1]>>))))>>, <<>>, <<fd>>), {"call-in-expr"}) :
        fd \in Single(tier), a \in FuncArgs(tier)}
    \cup {Item("func", Prog(FuncComps, <<Eq(Ref("x"), Bin("+", Call("f", <<a[1], a[2]>>), I(1)))>>, <<>>, <<fd>>), {"multi-output-in-expr"}) :
        fd \in Multi(tier), a \in {<<Ref("y"), Ref("p")>>}}
    \cup {Item("func", Prog(FuncComps, <<Eq(Tup(<<Ref("x"), Ref("y")>>), Call("f", <<Ref("p"), Ref("time")>>))>>, <<>>, <<FIfOrder>>), {"if-branch-order"}),
          Item("func", Prog(FuncComps, <<Eq(Ref("x"), Call("g", <<Ref("y")>>))>>, <<>>, <<FStraight, GOuter>>), {"nested-call"}),
          Item("func", Prog(FuncComps, <<Eq(Ref("x"), Call("g", <<Ref("y")>>))>>, <<>>, <<FFor(1, 3), GOuter>>), {"nested-call"}),
          Item("func", Prog(FuncComps, <<ForEq("i", I(1), I(3), <<Eq(Idx("z", <<Ri>>), Call("f", <<Ri, Ref("x")>>))>>)>>, <<>>, <<FStraight>>), {"call-in-loop"}),
          Item("func", Prog(FuncComps, <<ForEq("i", I(1), I(3), <<Eq(Idx("z", <<Ri>>), Call("f", <<Idx("z", <<Ri>>), Ref("x")>>))>>)>>, <<>>, <<FFor(1, 3)>>), {"call-in-loop"}),
          Item("func", Prog(FuncComps, <<ForEq("i", I(1), I(3), <<Eq(Idx("z", <<Ri>>), Call("f", <<Ref("x"), Ri>>))>>)>>, <<>>, <<FIf(">")>>), {"call-in-loop"}),
          Item("func", Prog(FuncComps, <<IfEq(<<Bin(">", Ref("x"), I(0)), Blk(<<Eq(Ref("y"), Call("f", <<Ref("x"), Ref("p")>>))>>),
                                                Blk(<<Eq(Ref("y"), Call("f", <<Ref("p"), Ref("x")>>))>>)>>)>>, <<>>, <<FStraight>>), {"call-in-ifeq"}),
          Item("func", Prog(FuncComps, <<>>, <<Eq(Ref("x"), Call("f", <<Ref("y"), Ref("p")>>))>>, <<FMix>>), {"call-in-initial"})}

-----------------------------------------------------------------------------
(* "index" (C23): every integer subscript and slice bound in the window -1 .. n+2 *)
Win(n) == (-1)..(n + 2)
IdxComps(n, r, c) == << Real("x"), Real("y"), RealA("z", <<n>>), RealA("w", <<n + 3>>), RealA("A", <<r, c>>), RealA("B", <<r + 3, c + 3>>), IParam("m", n) >>
NSizes(tier) == IF tier = "quick" THEN {1, 3} ELSE {1, 2, 3}
MShapes(tier) == IF tier = "quick" THEN {<<2, 3>>} ELSE {<<2, 2>>, <<2, 3>>, <<3, 3>>}

IdxVecEqs(n) ==
    {<<Eq(Ref("x"), Idx("z", <<I(i)>>))>> : i \in Win(n)}
    \cup {<<Eq(Idx("z", <<I(i)>>), Ref("x"))>> : i \in Win(n)}
    \cup {<<Eq(Ref("x"), Call("sum", <<Idx("z", <<Slice(I(a), I(b))>>)>>))>> : a \in Win(n), b \in Win(n)}
    (* same slice on both sides: an empty selection would silently drop the equation *)
    \cup {<<Eq(Idx("z", <<Slice(I(a), I(b))>>), Bin("*", I(2), Idx("z", <<Slice(I(a), I(b))>>)))>> : a \in Win(n), b \in Win(n)}
    \cup {<<Eq(Idx("z", <<Slice(I(ab[1]), I(ab[2]))>>), Idx("w", <<Slice(I(2), I(2 + ab[2] - ab[1]))>>))>> :
              ab \in {pp \in Win(n) \X Win(n) : pp[2] >= pp[1]}}
    (* subscripts on scalars *)
    \cup {<<Eq(Ref("y"), Idx("x", <<I(i)>>))>> : i \in {0, 1, 2}}
    \cup {<<Eq(Ref("y"), Call("sum", <<Idx("x", <<Slice(I(1), I(1))>>)>>))>>, <<Eq(Ref("y"), Idx("z", <<I(1), I(1)>>))>>}
    (* under for-loops: i + k with i in lo..hi *)
    \cup {<<ForEq("i", I(lo), I(hi), <<Eq(Idx("z", <<Bin("+", Ri, I(k))>>), Ref("x"))>>)>> :
              lo \in {0, 1}, hi \in {n, n + 1}, k \in {-1, 0, 1}}
    \cup {<<ForEq("i", I(1), Ref("m"), <<Eq(Ref("x"), Idx("z", <<Bin("+", Ri, I(k))>>))>>)>> : k \in {-1, 0, 1}}
    \cup {<<ForEq("i", I(lo), I(hi), <<Eq(Idx("w", <<Bin("+", Ri, I(1))>>), Idx("z", <<Ri>>))>>)>> : lo \in {0, 1}, hi \in {n, n + 1}}

IdxMatEqs(r, c) ==
    {<<Eq(Ref("x"), Idx("A", <<I(i), I(j)>>))>> : i \in Win(r), j \in Win(c)}
    \cup {<<Eq(Idx("A", <<I(i), Slice(I(a), I(b))>>), Bin("*", I(2), Idx("A", <<I(i), Slice(I(a), I(b))>>)))>> : i \in {0, 1, r, r + 1}, a \in Win(c), b \in Win(c)}
    \cup {<<Eq(Ref("x"), Call("sum", <<Idx("A", <<Slice(I(a), I(b)), I(j)>>)>>))>> : j \in {0, 1, c, c + 1}, a \in Win(r), b \in Win(r)}
    \cup {<<Eq(Idx("A", <<Slice(I(a), I(b)), Colon>>), Bin("*", I(2), Idx("A", <<Slice(I(a), I(b)), Colon>>)))>> : a \in Win(r), b \in Win(r)}
    \cup {<<Eq(Ref("x"), Idx("A", <<I(1), I(1), I(1)>>))>>}
    \cup {<<ForEq("i", I(lo), I(hi), <<Eq(Idx("A", <<I(j), Bin("+", Ri, I(k))>>), Ref("x"))>>)>> :
              lo \in {0, 1}, hi \in {c, c + 1}, k \in {-1, 0, 1}, j \in {1, r + 1}}
    \cup {<<ForEq("i", I(lo), I(hi), <<Eq(Idx("A", <<Ri, I(j)>>), Ref("x"))>>)>> : lo \in {0, 1}, hi \in {r, r + 1}, j \in {0, 1, c, c + 1}}

(* subscripts given by constant EXPRESSIONS (they reach the generator as integers, not as negated literals):
   a - b of literals, m - k with the Integer parameter m, an Integer constant j declared as such an expression;
   value i over the window -n .. n+2, in plain equations, slices, for-loop bodies and on matrices *)
ConstSub(i) == Bin("-", I(i + 4), I(4))                                        \* (i + 4) - 4, both literals non-negative
ParamSub(i, n) == IF i <= n THEN Bin("-", Ref("m"), I(n - i)) ELSE Bin("+", Ref("m"), I(i - n))    \* m = n
JComp(i, n) == Comp("j", "Integer", "constant", <<>>, <<Mod("value", ParamSub(i, n))>>)
WinX(n) == (-n)..(n + 2)
IdxConstItems(n, r, c) ==
    UNION {{Item("index", Prog(IdxComps(n, r, c) \o <<JComp(i, n)>>, eqs, <<>>, <<>>), {"vec", "const-expr-subscript"}) :
              eqs \in {<<Eq(Ref("x"), Idx("z", <<ConstSub(i)>>))>>,
                        <<Eq(Idx("z", <<ConstSub(i)>>), Ref("x"))>>,
                        <<Eq(Ref("x"), Idx("z", <<ParamSub(i, n)>>))>>,
                        <<Eq(Ref("x"), Idx("z", <<Ref("j")>>))>>,
                        <<Eq(Ref("x"), Idx("z", <<Bin("+", Ref("j"), Bin("-", I(1), I(1)))>>))>>,
                        <<Eq(Ref("x"), Call("sum", <<Idx("z", <<Slice(ConstSub(i), I(n))>>)>>))>>,
                        <<ForEq("i", I(1), I(n), <<Eq(Idx("w", <<Ri>>), Bin("*", Ri, Idx("z", <<ConstSub(i)>>)))>>)>>,
                        <<ForEq("i", I(1), Ref("m"), <<Eq(Idx("w", <<Ri>>), Idx("z", <<Ref("j")>>))>>)>>}} : i \in WinX(n)}
    \cup UNION {{Item("index", Prog(IdxComps(n, r, c) \o <<JComp(1, n)>>, eqs, <<>>, <<>>), {"mat", "const-expr-subscript"}) :
              eqs \in {<<Eq(Ref("x"), Idx("A", <<I(1), ConstSub(i)>>))>>, <<Eq(Ref("x"), Idx("A", <<ConstSub(i), I(c)>>))>>,
                        <<Eq(Idx("A", <<Ref("j"), ConstSub(i)>>), Ref("x"))>>}} : i \in (-c)..(c + 2)}

IndexItems(tier) ==
    UNION {{Item("index", Prog(IdxComps(n, 2, 3), eqs, <<>>, <<>>), {"vec"}) : eqs \in IdxVecEqs(n)} : n \in NSizes(tier)}
    \cup UNION {{Item("index", Prog(IdxComps(3, s[1], s[2]), eqs, <<>>, <<>>), {"mat"}) : eqs \in IdxMatEqs(s[1], s[2])} : s \in MShapes(tier)}
    \cup UNION {IdxConstItems(n, 2, 3) : n \in NSizes(tier)}

-----------------------------------------------------------------------------
(* "opt" (C12): every program with a for-loop or a function call, a few with attributes (metadata must not
   depend on the options either) and with delay() (delay arguments; uninterpreted here, compared across options) *)
HasLoopOrCall(P) == P.funcs # <<>> \/ (\E i \in DOMAIN P.eqs : P.eqs[i].k = "for") \/ (\E j \in DOMAIN P.ieqs : P.ieqs[j].k = "for")
(* attributes given by calls of the program's function f with constant-expression arguments (their value need not be
   an integer), on Real, Integer and Boolean variables: the representation of a call must not leak into metadata *)
CallAttr(a, b) == Call("f", <<a, b>>)
AttrComps == << Comp("x", "Real", "", <<>>, <<Mod("start", Bin("*", I(2), Ref("p"))), Mod("max", Bin("+", Ref("p"), I(3)))>>),
                Comp("ww", "Real", "", <<>>, <<Mod("max", CallAttr(Bin("+", I(3), I(4)), I(2))), Mod("nominal", Bin("*", I(2), I(3)))>>),
                Comp("kk", "Integer", "", <<>>, <<Mod("max", CallAttr(Bin("+", I(3), I(4)), I(2))), Mod("min", Un("-", CallAttr(Bin("+", Lit(Q(1, 2)), I(1)), I(4)))),
                                                  Mod("start", I(2))>>),
                Comp("bb", "Boolean", "", <<>>, <<Mod("start", Bin(">", CallAttr(I(7), I(2)), I(3)))>>),
                Comp("y", "Real", "", <<>>, <<Mod("nominal", I(2)), Mod("fixed", BLit(TRUE))>>),
                Comp("z", "Real", "", <<3>>, <<EachMod("min", Un("-", Ref("p"))), Mod("start", Arr(<<I(1), I(2), I(3)>>))>>),
                Comp("w", "Real", "", <<3>>, <<>>), Param("p", RI(2)), IParam("m", 3), Comp("k", "Integer", "", <<>>, <<Mod("max", I(7))>>) >>
OptItems(tier) ==
    {[it EXCEPT !.fam = "opt"] : it \in {x \in FuncItems(tier) \cup EqItems(tier) : HasLoopOrCall(x.prog)}}
    \cup {Item("opt", Prog(AttrComps, <<ForEq("i", I(1), Ref("m"), <<Eq(Idx("z", <<Ri>>), Bin("*", Ri, Idx("w", <<Ri>>)))>>),
                                        Eq(Ref("x"), Call("f", <<Ref("y"), Ref("p")>>))>>,
                             <<Eq(Ref("y"), I(1))>>, <<fd>>), {"with-attributes"}) : fd \in {FStraight, FFor(1, 3), FMix, FShare, FMean}}
    (* tiny literal coefficients (1e-9 .. 1e-13): every term of these residual rows is tiny, so a representation that
       loses digits of a small constant changes them relatively a lot *)
    \cup {Item("opt", Prog(FuncComps, eqs, ieqs, fds), {"tiny-coefficients"}) :
            eqs \in {<<Eq(Bin("*", SciLit(1, 9), Ref("x")), Bin("*", SciLit(12345, 13), Ref("y"))),
                       ForEq("i", I(1), I(3), <<Eq(Bin("*", SciLit(1, 9), Idx("z", <<Ri>>)), Bin("*", Bin("*", SciLit(33, 14), Ri), Ref("x")))>>)>>,
                      <<Eq(Bin("*", SciLit(1, 12), Ref("y")), Call("f", <<Ref("x"), SciLit(4, 13)>>)),
                        ForEq("i", I(1), I(3), <<Eq(Bin("*", SciLit(2, 12), Idx("z", <<Ri>>)), Call("f", <<Idx("z", <<Ri>>), SciLit(31, 14)>>))>>)>>},
            ieqs \in {<<Eq(Bin("*", SciLit(5, 10), Ref("x")), Bin("*", SciLit(271828, 15), Ref("p")))>>},
            fds \in {<<FStraight>>, <<FFor(1, 3)>>}}
    \cup {Item("opt", Prog(FuncComps, <<Eq(Ref("x"), Call("delay", <<Ref("y"), Ref("p")>>))>>, <<>>, <<>>), {"delay"}),
          Item("opt", Prog(FuncComps, <<Eq(Ref("x"), Call("delay", <<Bin("*", I(2), Ref("y")), Bin("*", I(3), Ref("p"))>>)),
                                       ForEq("i", I(1), I(3), <<Eq(Idx("z", <<Ri>>), Bin("*", Ri, Ref("x")))>>)>>, <<>>, <<>>), {"delay"}),
          Item("opt", Prog(FuncComps, <<Eq(Ref("x"), Call("delay", <<Call("f", <<Ref("y"), Ref("p")>>), Ref("p")>>))>>, <<>>, <<FFor(1, 3)>>), {"delay"})}

ItemSet == CASE Family = "expr"  -> ExprItems(Tier)
             [] Family = "elem"  -> ElemItems(Tier)
             [] Family = "eqs"   -> EqItems(Tier)
             [] Family = "func"  -> FuncItems(Tier)
             [] Family = "index" -> IndexItems(Tier)
             [] Family = "opt"   -> OptItems(Tier)
=============================================================================
