\* intended, flatten copying the requested class (C05 fix): pointer semantics = value semantics, independence, parents closed; all histories <= 4 over <= 3 trees
CONSTANTS DeepCopyRebindsParents = TRUE CopyHookBoundToCopy = TRUE FlattenCopiesTop = TRUE
          Lib = "flat" Universe = "full" MaxTrees = 3 MaxOps = 4
INIT Init
NEXT Next
VIEW ViewFull
INVARIANT PointerSemanticsIsValueSemantics
INVARIANT ParentClosed
INVARIANT NoRaise
PROPERTY Independence
PROPERTY CopyFaithful
CHECK_DEADLOCK FALSE
