\* C20 intended, TRUE state space with the explicit clock (no VIEW): the premise 'every edit is later than the cache' is an invariant of the clock
CONSTANTS K = 2
          Editable = {"M","L1"}
          Addable = {"A"}
          OptNames = {"O1","O4"}
          Modes = {"cache"}
          Versions = {1}
          Holds = {FALSE}
          MaxClock = 3
          LibFoldersInKey = TRUE
          Beyond = {}
          OptionValuesCompared = TRUE
          FreshLibHandles = TRUE
INIT Init
NEXT Next
INVARIANT TypeOK
INVARIANT ClockInv
INVARIANT ResultIsFresh
INVARIANT HitImpliesFresh
PROPERTY EditInvalidates
PROPERTY TransferLeavesValidCache
PROPERTY HitIsReadOnly
CHECK_DEADLOCK FALSE
