\* intended state graph, quotient by the value state, 2 trees, edit universe u2 (Bare s, f t, Leaf E1, Top I1: additions to EMPTY containers, function edits): every transition logged (TR)
CONSTANTS DeepCopyRebindsParents = TRUE CopyHookBoundToCopy = TRUE FlattenCopiesTop = FALSE
          Lib = "flat" Universe = "u2" MaxTrees = 2 MaxOps = 1000000
INIT Init
NEXT Next
VIEW ViewVal
ACTION_CONSTRAINT Log
INVARIANT PointerSemanticsIsValueSemantics
CHECK_DEADLOCK FALSE
