\* intended behaviour (all switches TRUE): TLC must pass
\* thorough family B: up to 3 models (all sequences over 8 class names) x one other change
CONSTANTS MaxDev = 2  SampleDev = 9  MaxPaths = 1  MaxModels = 3  MaxModelsRich = 2  MaxOpts = 1
          CliCountsTranslateFailures = TRUE  CliCatchesTranslateErrors = TRUE  CliCountsMissingModelFile = TRUE
          Emit = FALSE  NParts <- NPartsEnv  Part <- PartEnv
INIT Init
NEXT Next
INVARIANT StatusIsCount
INVARIANT NeverCrashes
INVARIANT NoWorkAfterUsageError
INVARIANT SumOfSingles
PROPERTY ErrorsMonotone
PROPERTY PerModelIndependent
CHECK_DEADLOCK FALSE
