\* graph: edits of model and library file, added library file
CONSTANTS K = 2
          Editable = {"M","L1","A"}
          Addable = {"A"}
          OptNames = {"O1"}
          Modes = {"cache"}
          Versions = {1}
          Holds = {FALSE}
          MaxClock = 1000000
          LibFoldersInKey = TRUE
          Beyond = {}
          OptionValuesCompared = TRUE
          FreshLibHandles = TRUE
INIT Init
NEXT Next
VIEW View
ACTION_CONSTRAINT Log
CHECK_DEADLOCK FALSE
