\* intended spec: blueprints of BP_FILE x all 512 subsets of the nine rewriting options
CONSTANTS Family = "file" OptMode = "main" ConstValuesResolved = TRUE OldAliasSignStripped = TRUE
          PrintProg = FALSE PrintFin = FALSE PrintCex = FALSE
INIT Init
NEXT Next
VIEW View
INVARIANT TypeOK
INVARIANT SolutionPreserved
INVARIANT RecordedEliminationsHold
INVARIANT SelfContained
INVARIANT MetadataMerged
PROPERTY Balance
CHECK_DEADLOCK FALSE
