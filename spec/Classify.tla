-------------------------------- MODULE Classify --------------------------------
(* Property C10: the generated CasADi model classifies every flat variable exactly once
   (src/pymoca/backends/casadi/generator.py exitClass, tree.py annotate_states, generator
   get_derivative), in oracle mode (DESIGN.md 2.2 (C), Appendix C.5).

   A PROGRAM is a parameter vector pv = [level, vs]: one or two variables declared (in this
   order) in the same class instance - the top model or a sub-component s of it - each with a
   variability keyword, a causality keyword, a type and a way in which der() is applied to it.
   The Modelica library is DERIVED from pv by Lib below.

   OPERATIONAL side, one action per step of the code:
     Parse           the prefix keywords of each declaration become the prefix list, the symbol
                     gets its order number                        (parser.py enterComponent_clause)
     Flatten         names are prefixed with the instance path, input / output are stripped below
                     the top level, references are renamed                   (tree.py flatten_symbols)
     AnnotateStates  a walk with an in_der counter over all equations and initial equations marks
                     every referenced symbol met while in_der > 0                (StateAnnotator)
     Classify        symbols sorted by order go through the if / elif chain of exitClass;
                     der_states are made from the states, outputs from states + algebraics
   DECLARATIVE side (Appendix C.5): Cat(l) by the precedence constant > parameter > top-level
   input > differentiated > algebraic, where "differentiated" = l is mentioned below some der()
   of a flat equation or initial equation; String constants / parameters go to the string lists.

   TLC checks: the chain computes Cat for every variable, the eight lists partition the
   variables, der_states is the image of states under  x |-> der(x)  position by position,
   outputs = output-prefixed states and algebraics, and variables of one class instance keep
   their declaration order inside every list.

   AS-BUILT switch  GluedPrefixes: TRUE = the pinned parser turns a two-keyword prefix
   ("parameter input") into the single word "parameterinput" (getText() has no spaces), so the
   variable falls through the chain.                                                         *)
EXTENDS Integers, Sequences, FiniteSets, TLC, Json, IOUtils, SequencesExt

CONSTANTS Pairs,          \* "none" | "core" (pairs over the core kinds) | "wide" (any kind x core kind)
          GluedPrefixes   \* as-built switch

VARIABLES pv,     \* the program
          pc,     \* "parse" "flatten" "annotate" "classify" "done"
          syms,   \* symbols: <<[name, prefixes, type, order, inst, state]>>
          feqs,   \* flat equations and initial equations (after Flatten)
          model,  \* the generated model: category lists, outputs
          shard,  \* <<number of shards, this shard>> (read once from IOEnv)
          last

vars == <<pv, pc, syms, feqs, model, shard, last>>

--------------------------------------------------------------------------------
Lit(n)      == [k |-> "lit", v |-> n]
BoolE(b)    == [k |-> "bool", v |-> b]
StrE(s)     == [k |-> "str", v |-> s]
Ref(p)      == [k |-> "ref", p |-> p, ix |-> <<>>]
Bin(op, a, b) == [k |-> "bin", op |-> op, a |-> <<a, b>>]
Der(e)      == [k |-> "der", a |-> <<e>>]
Eq(l, r)    == [l |-> l, r |-> r]
Cmp(name, type, pre, val) == [name |-> name, type |-> <<type>>, prefixes |-> pre, dims |-> <<>>, mods |-> <<>>, val |-> val]
AliasCl(name, base) == [kind |-> "type", name |-> name, ext |-> <<[base |-> <<base>>, mods |-> <<>>]>>, nested |-> <<>>,
                         comps |-> <<>>, eqs |-> <<>>, ieqs |-> <<>>, short |-> TRUE]
Cl(name, comps, eqs, ieqs) == [kind |-> "model", name |-> name, ext |-> <<>>, nested |-> <<>>, comps |-> comps,
                               eqs |-> eqs, ieqs |-> ieqs, short |-> FALSE]
Map(s, F(_)) == [i \in DOMAIN s |-> F(s[i])]
Filter(s, T(_)) == SelectSeq(s, T)
SeqToSet(s) == {s[i] : i \in DOMAIN s}
RECURSIVE JoinDot(_)
JoinDot(p) == IF Len(p) = 1 THEN p[1] ELSE p[1] \o "." \o JoinDot(Tail(p))

--------------------------------------------------------------------------------
(* The family *)
Vars  == {"", "discrete", "parameter", "constant"}
IOs   == {"", "input", "output"}
Types == {"Real", "Integer", "Boolean", "String"}
Ders  == {"none", "direct", "inexpr", "ofexpr", "nested", "initial", "aftersub", "initafter"}
(* aftersub:  der(((2 * g) + v)) = 1   - the argument of der() is a compound expression and v comes AFTER a nested operator
              node (g is a helper declared next to v, differentiated as well);  initafter: the same in an initial equation *)

(* der() only on Real; String variables only as parameters / constants (a String input / output / algebraic is outside
   what the CasADi back end supports: Model.outputs cannot even name a StringVariable) *)
Kinds == {k \in [var : Vars, io : IOs, type : Types, der : Ders, alias : BOOLEAN] :
             /\ (k.der # "none" => k.type = "Real")
             /\ (k.type = "String" => k.var \in {"parameter", "constant"} /\ ~k.alias)}
CoreKinds == {k \in Kinds :
                 \/ k.alias /\ k.type = "Real" /\ k.var = "" /\ k.io \in {"input", "output"} /\ k.der \in {"none", "direct"}
                 \/ k.alias /\ k.type = "Integer" /\ k.var = "parameter" /\ k.io = "output"
                 \/ ~k.alias /\
                    \/ k.type = "Real" /\ k.der \in {"none", "direct"} /\ (k.var = "" \/ k.io = "")
                    \/ k.type = "Real" /\ k.der = "inexpr" /\ k.var = "" /\ k.io = "output"
                    \/ k.type = "Real" /\ k.der = "aftersub" /\ k.var = "" /\ k.io = ""
                    \/ k.type = "String" /\ k.var \in {"parameter", "constant"} /\ k.io = ""
                    \/ k.type = "Integer" /\ k.var = "parameter" /\ k.io = ""
                    \/ k.type = "Boolean" /\ k.var = "" /\ k.io = "input"}

Programs ==
    {[level |-> l, vs |-> <<k>>] : l \in {"top", "nested"}, k \in Kinds}
    \cup (IF Pairs = "none" THEN {}
          ELSE {[level |-> l, vs |-> <<k1, k2>>] : l \in {"top", "nested"},
                                                  k1 \in (IF Pairs = "wide" THEN Kinds ELSE CoreKinds), k2 \in CoreKinds})
WellFormed == \A i \in DOMAIN pv.vs : pv.vs[i].der = "nested" => pv.level = "nested"

(* the first declared variable is called vb, the second va: declaration order # alphabetical order *)
VName(i) == IF i = 1 THEN "vb" ELSE "va"
KPrefixes(k) == (IF k.var = "" THEN <<>> ELSE <<k.var>>) \o (IF k.io = "" THEN <<>> ELSE <<k.io>>)
KValue(k) == IF k.var \in {"parameter", "constant"}
             THEN <<CASE k.type = "Real" -> Lit(2) [] k.type = "Integer" -> Lit(3) [] k.type = "Boolean" -> BoolE(TRUE)
                      [] k.type = "String" -> StrE("s")>>
             ELSE <<>>
(* a variable of alias type is declared with  type TReal = Real;  at library level *)
TypeName(k) == IF k.alias THEN "T" \o k.type ELSE k.type
AliasClasses == LET ts == {pv.vs[i].type : i \in {j \in DOMAIN pv.vs : pv.vs[j].alias}} IN
                (IF "Real" \in ts THEN <<AliasCl("TReal", "Real")>> ELSE <<>>)
                \o (IF "Integer" \in ts THEN <<AliasCl("TInteger", "Integer")>> ELSE <<>>)
                \o (IF "Boolean" \in ts THEN <<AliasCl("TBoolean", "Boolean")>> ELSE <<>>)
VComps == [i \in DOMAIN pv.vs |-> Cmp(VName(i), TypeName(pv.vs[i]), KPrefixes(pv.vs[i]), KValue(pv.vs[i]))]
NeedH == \E i \in DOMAIN pv.vs : pv.vs[i].der = "inexpr"
NeedG == \E i \in DOMAIN pv.vs : pv.vs[i].der \in {"aftersub", "initafter"}
GComp == IF NeedG THEN <<Cmp("g", "Real", <<>>, <<>>)>> ELSE <<>>
HComp == IF NeedH THEN <<Cmp("h", "Real", <<>>, <<>>)>> ELSE <<>>

(* where the der() of variable i is written: in the class that declares it ("own") or, for a
   variable of the sub-component, in the top model through the dotted name ("top") *)
Where(i) == IF pv.level = "top" THEN "own"
            ELSE IF pv.vs[i].der \in {"nested", "ofexpr", "aftersub", "initafter"} THEN "own" ELSE "top"
VRef(i, w) == IF pv.level = "nested" /\ w = "top" THEN Ref(<<"s", VName(i)>>) ELSE Ref(<<VName(i)>>)
DerEqs(w) ==   \* equations written in class w ("own" = declaring class, "top")
    LET one(i) == LET k == pv.vs[i] IN
            IF Where(i) # w THEN <<>>
            ELSE CASE k.der \in {"direct", "nested"} -> <<Eq(Der(VRef(i, w)), Lit(1))>>
                   [] k.der = "inexpr" -> <<Eq(Ref(<<"h">>), Bin("*", Lit(2), Der(VRef(i, w))))>>
                   [] k.der = "ofexpr" -> <<Eq(Der(Bin("*", VRef(i, w), Lit(2))), Lit(1))>>
                   [] k.der = "aftersub" -> <<Eq(Der(Bin("+", Bin("*", Lit(2), Ref(<<"g">>)), VRef(i, w))), Lit(1))>>
                   [] OTHER -> <<>>
    IN FlattenSeq([i \in DOMAIN pv.vs |-> one(i)])
DerIeqs(w) ==
    FlattenSeq([i \in DOMAIN pv.vs |->
        IF pv.vs[i].der = "initial" /\ Where(i) = w THEN <<Eq(Der(VRef(i, w)), Lit(0))>>
        ELSE IF pv.vs[i].der = "initafter" /\ Where(i) = w
             THEN <<Eq(Der(Bin("+", Bin("*", Lit(2), Ref(<<"g">>)), VRef(i, w))), Lit(0))>>
        ELSE <<>>])

Lib == AliasClasses \o
       IF pv.level = "top"
       THEN <<Cl("Top", VComps \o HComp \o GComp, DerEqs("own"), DerIeqs("own"))>>
       ELSE <<Cl("Sub", VComps \o GComp, DerEqs("own"), DerIeqs("own")),
              Cl("Top", <<Cmp("s", "Sub", <<>>, <<>>)>> \o HComp, DerEqs("top"), DerIeqs("top"))>>

--------------------------------------------------------------------------------
(* OPERATIONAL side *)

(* parser: ctx.type_prefix().getText().split(" ") *)
RECURSIVE Glue(_)
Glue(ws) == IF ws = <<>> THEN "" ELSE Head(ws) \o Glue(Tail(ws))
ParsedPrefixes(k) == LET ws == KPrefixes(k) IN IF GluedPrefixes /\ Len(ws) > 1 THEN <<Glue(ws)>> ELSE ws

(* symbols in parse order: the classes are parsed in file order, so Sub's symbols come first *)
ParsedSyms ==
    LET vsyms == [i \in DOMAIN pv.vs |-> [name |-> <<VName(i)>>, prefixes |-> ParsedPrefixes(pv.vs[i]), type |-> pv.vs[i].type,
                                          inst |-> IF pv.level = "top" THEN <<>> ELSE <<"s">>, state |-> FALSE]]
        hsym  == IF NeedH THEN <<[name |-> <<"h">>, prefixes |-> <<>>, type |-> "Real", inst |-> <<>>, state |-> FALSE]>> ELSE <<>>
        inst0 == IF pv.level = "top" THEN <<>> ELSE <<"s">>
        gsym  == IF NeedG THEN <<[name |-> <<"g">>, prefixes |-> <<>>, type |-> "Real", inst |-> inst0, state |-> FALSE]>> ELSE <<>>
        all   == IF pv.level = "top" THEN vsyms \o hsym \o gsym ELSE vsyms \o gsym \o hsym
    IN [i \in DOMAIN all |-> [name |-> all[i].name, prefixes |-> all[i].prefixes, type |-> all[i].type, inst |-> all[i].inst,
                              state |-> FALSE, order |-> i]]

RECURSIVE RenameE(_, _, _)
RenameE(e, prefix, names) ==
    CASE e.k = "ref" -> IF (prefix \o e.p) \in names THEN [e EXCEPT !.p = prefix \o e.p] ELSE e
      [] e.k \in {"bin", "der"} -> [e EXCEPT !.a = [i \in DOMAIN e.a |-> RenameE(e.a[i], prefix, names)]]
      [] OTHER -> e
RenameEq(q, prefix, names) == [l |-> RenameE(q.l, prefix, names), r |-> RenameE(q.r, prefix, names)]

(* StateAnnotator: walk with the in_der counter *)
RECURSIVE Walk(_, _)
Walk(e, inDer) ==
    CASE e.k = "der" -> UNION {Walk(e.a[i], inDer + 1) : i \in DOMAIN e.a}
      [] e.k = "bin" -> UNION {Walk(e.a[i], inDer) : i \in DOMAIN e.a}
      [] e.k = "ref" -> IF inDer > 0 THEN {e.p} ELSE {}
      [] OTHER -> {}
WalkEqs(qs) == UNION {Walk(qs[i].l, 0) \cup Walk(qs[i].r, 0) : i \in DOMAIN qs}

Has(s, w) == \E j \in DOMAIN s.prefixes : s.prefixes[j] = w

(* exitClass: the if / elif chain over the symbols sorted by order *)
Chain(s) == IF Has(s, "constant") THEN "constant"
            ELSE IF Has(s, "parameter") THEN "parameter"
            ELSE IF Has(s, "input") THEN "input"
            ELSE IF s.state THEN "state"
            ELSE "alg"
FlatName(s) == JoinDot(s.name)
Names(ss) == [i \in DOMAIN ss |-> FlatName(ss[i])]
Generate(ss) ==     \* ss sorted by order
    LET of(c)  == Filter(ss, LAMBDA s : Chain(s) = c)
        str(q) == Filter(q, LAMBDA s : s.type = "String")
        num(q) == Filter(q, LAMBDA s : s.type # "String")
        st     == of("state")
        alg    == of("alg")
    IN [states |-> Names(st),
        der_states |-> [i \in DOMAIN st |-> "der(" \o FlatName(st[i]) \o ")"],
        alg_states |-> Names(alg),
        inputs |-> Names(of("input")),
        parameters |-> Names(num(of("parameter"))), string_parameters |-> Names(str(of("parameter"))),
        constants |-> Names(num(of("constant"))), string_constants |-> Names(str(of("constant"))),
        outputs |-> Names(Filter(st \o alg, LAMBDA s : Has(s, "output")))]

--------------------------------------------------------------------------------
(* sharding as in Instantiate.tla *)
NShards == IF "NSHARDS" \in DOMAIN IOEnv THEN atoi(IOEnv.NSHARDS) ELSE 1
Shard   == IF "SHARD" \in DOMAIN IOEnv THEN atoi(IOEnv.SHARD) ELSE 0
Idx(w) == CASE w = "" -> 0 [] w = "discrete" -> 1 [] w = "parameter" -> 2 [] w = "constant" -> 3 [] w = "input" -> 1
            [] w = "output" -> 2 [] w = "Real" -> 0 [] w = "Integer" -> 1 [] w = "Boolean" -> 2 [] w = "String" -> 3
            [] w = "none" -> 0 [] w = "direct" -> 1 [] w = "inexpr" -> 2 [] w = "ofexpr" -> 3 [] w = "nested" -> 4
            [] w = "initial" -> 5 [] w = "aftersub" -> 6 [] w = "initafter" -> 7 [] w = "top" -> 0 [] OTHER -> 1
KHash(k) == Idx(k.var) + 4 * Idx(k.io) + 12 * Idx(k.type) + 48 * Idx(k.der) + (IF k.alias THEN 5 ELSE 0)
Hash(v) == Idx(v.level) + 3 * KHash(v.vs[1]) + (IF Len(v.vs) > 1 THEN 7 * KHash(v.vs[2]) ELSE 0)

Init == /\ shard = <<NShards, Shard>>
        /\ pv \in Programs
        /\ Hash(pv) % shard[1] = shard[2]
        /\ WellFormed
        /\ pc = "parse" /\ syms = <<>> /\ feqs = [eqs |-> <<>>, ieqs |-> <<>>] /\ model = <<>>
        /\ last = "init"

Parse ==
    /\ pc = "parse"
    /\ syms' = ParsedSyms
    /\ pc' = "flatten" /\ last' = "Parse" /\ UNCHANGED <<pv, feqs, model, shard>>

Flatten ==
    /\ pc = "flatten"
    /\ LET fs    == Map(syms, LAMBDA s : [s EXCEPT !.name = s.inst \o s.name,
                                                    !.prefixes = IF s.inst = <<>> THEN s.prefixes
                                                                 ELSE Filter(s.prefixes, LAMBDA w : w \notin {"input", "output"})])
           names == {fs[i].name : i \in DOMAIN fs}
           sub   == IF pv.level = "top" THEN <<>> ELSE <<"s">>
       IN /\ syms' = fs
          /\ feqs' = [eqs  |-> Map(DerEqs("own"), LAMBDA q : RenameEq(q, sub, names))
                               \o (IF pv.level = "top" THEN <<>> ELSE Map(DerEqs("top"), LAMBDA q : RenameEq(q, <<>>, names))),
                      ieqs |-> Map(DerIeqs("own"), LAMBDA q : RenameEq(q, sub, names))
                               \o (IF pv.level = "top" THEN <<>> ELSE Map(DerIeqs("top"), LAMBDA q : RenameEq(q, <<>>, names)))]
    /\ pc' = "annotate" /\ last' = "Flatten" /\ UNCHANGED <<pv, model, shard>>

AnnotateStates ==
    /\ pc = "annotate"
    /\ LET marked == WalkEqs(feqs.eqs) \cup WalkEqs(feqs.ieqs) IN
       syms' = Map(syms, LAMBDA s : [s EXCEPT !.state = s.name \in marked])
    /\ pc' = "classify" /\ last' = "AnnotateStates" /\ UNCHANGED <<pv, feqs, model, shard>>

(* the property side, evaluated independently of Chain / Walk *)
RECURSIVE Mentions(_)
Mentions(e) == CASE e.k = "ref" -> {e.p} [] e.k \in {"bin", "der"} -> UNION {Mentions(e.a[i]) : i \in DOMAIN e.a} [] OTHER -> {}
RECURSIVE UnderDer(_)
UnderDer(e) == CASE e.k = "der" -> Mentions(e.a[1]) [] e.k = "bin" -> UNION {UnderDer(e.a[i]) : i \in DOMAIN e.a} [] OTHER -> {}
Differentiated(path) == \E q \in SeqToSet(feqs.eqs) \cup SeqToSet(feqs.ieqs) : path \in UnderDer(q.l) \cup UnderDer(q.r)

DeclaredPrefixes(i) == KPrefixes(pv.vs[i])     \* what the source text says, keyword by keyword
VPath(i) == (IF pv.level = "top" THEN <<>> ELSE <<"s">>) \o <<VName(i)>>
Cat(i) == LET P == SeqToSet(DeclaredPrefixes(i)) IN
          IF "constant" \in P THEN "constant"
          ELSE IF "parameter" \in P THEN "parameter"
          ELSE IF "input" \in P /\ pv.level = "top" THEN "input"
          ELSE IF Differentiated(VPath(i)) THEN "state"
          ELSE "alg"
ListOf(i) == LET c == Cat(i) IN
             CASE c = "constant"  -> IF pv.vs[i].type = "String" THEN "string_constants" ELSE "constants"
               [] c = "parameter" -> IF pv.vs[i].type = "String" THEN "string_parameters" ELSE "parameters"
               [] c = "input" -> "inputs" [] c = "state" -> "states" [] c = "alg" -> "alg_states"
Lists == {"states", "alg_states", "inputs", "parameters", "constants", "string_parameters", "string_constants"}

Classify ==
    /\ pc = "classify"
    /\ model' = Generate(syms)      \* syms are kept sorted by order
    /\ pc' = "done" /\ last' = "Classify"
    /\ PrintT(<<"PROG", ToJson([pv |-> pv, top |-> "Top", lib |-> Lib,
                                tags |-> {"level-" \o pv.level, "n" \o ToString(Len(pv.vs))}
                                         \cup {"type-" \o pv.vs[i].type : i \in DOMAIN pv.vs}
                                         \cup {"der-" \o pv.vs[i].der : i \in DOMAIN pv.vs}
                                         \cup {IF pv.vs[i].alias THEN "alias-type" ELSE "builtin-type" : i \in DOMAIN pv.vs}
                                         \cup {"cat-" \o Cat(i) : i \in DOMAIN pv.vs}
                                         \cup {IF Len(KPrefixes(pv.vs[i])) > 1 THEN "two-keyword-prefix" ELSE "plain-prefix" : i \in DOMAIN pv.vs},
                                ctags |-> {"two-keyword-prefix" : i \in {j \in DOMAIN pv.vs : Len(KPrefixes(pv.vs[j])) > 1}},
                                expect |-> Generate(syms),
                                groups |-> <<[i \in DOMAIN pv.vs |-> JoinDot(VPath(i))]>> \o (IF NeedH THEN << <<"h">> >> ELSE <<>>)
                                          \o (IF NeedG THEN << <<JoinDot((IF pv.level = "top" THEN <<>> ELSE <<"s">>) \o <<"g">>)>> >> ELSE <<>>)])>>)
    /\ UNCHANGED <<pv, syms, feqs, shard>>

Next == Parse \/ Flatten \/ AnnotateStates \/ Classify
Spec == Init /\ [][Next]_vars

--------------------------------------------------------------------------------
(* Properties (checked on the final state of every program) *)
Done == pc = "done"
InList(n, l) == \E j \in DOMAIN model[l] : model[l][j] = n
Pos(n, l) == CHOOSE j \in DOMAIN model[l] : model[l][j] = n

(* every variable of interest is in the list its declarative category names, and in no other *)
ChainComputesCat ==
    Done => \A i \in DOMAIN pv.vs : \A l \in Lists : InList(JoinDot(VPath(i)), l) <=> (l = ListOf(i))

(* the lists partition the flat variables: each exactly once *)
ExactlyOnce ==
    Done => \A s \in SeqToSet(syms) :
        Cardinality({<<l, j>> \in Lists \X (1..8) : j \in DOMAIN model[l] /\ model[l][j] = FlatName(s)}) = 1

(* one derivative per state, position by position *)
DerBijection ==
    Done => /\ Len(model.der_states) = Len(model.states)
            /\ \A j \in DOMAIN model.states : model.der_states[j] = "der(" \o model.states[j] \o ")"

(* outputs = the output-prefixed (top-level) states and algebraics *)
OutputsRight ==
    Done => /\ \A i \in DOMAIN pv.vs :
                  (\E j \in DOMAIN model.outputs : model.outputs[j] = JoinDot(VPath(i)))
                  <=> ("output" \in SeqToSet(DeclaredPrefixes(i)) /\ pv.level = "top" /\ Cat(i) \in {"state", "alg"})
            /\ \A j \in DOMAIN model.outputs : InList(model.outputs[j], "states") \/ InList(model.outputs[j], "alg_states")

(* variables declared in the same class instance keep their declaration order inside a list *)
OrderKept ==
    (Done /\ Len(pv.vs) = 2 /\ ListOf(1) = ListOf(2)) =>
        (InList(JoinDot(VPath(1)), ListOf(1)) /\ InList(JoinDot(VPath(2)), ListOf(1))
         => Pos(JoinDot(VPath(1)), ListOf(1)) < Pos(JoinDot(VPath(2)), ListOf(1)))

PhaseRank(p) == CASE p = "parse" -> 0 [] p = "flatten" -> 1 [] p = "annotate" -> 2 [] p = "classify" -> 3 [] p = "done" -> 4
PhaseOrder == [][PhaseRank(pc') = PhaseRank(pc) + 1 /\ pv' = pv]_vars

View == <<pv, pc>>
================================================================================
