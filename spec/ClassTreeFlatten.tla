------------------------- MODULE ClassTreeFlatten -------------------------
(* Property C05.  "Flattening never changes what later flattening produces."

   pymoca.tree.flatten(root, C) looks the class up in the parsed tree
   (ast.Class.find_class) and then builds the instance tree of C
   (tree.build_instance_tree / flatten_symbols).  Instance building REWRITES
   the objects it works on:
     * a component symbol whose type is a class gets  sym.type := <instance>,
       sym.class_modification := None   (tree.py build_instance_tree), and
       sym.type := <str>  for connectors  (tree.py flatten_symbols);
     * a dotted modification  extends B(c.x(nominal = 2))  is shortened by one
       name per instance level  (arg.value.component := component.child[0]).
   Base classes and component types are always looked up with copy=True, so
   the only objects that can be shared with the parsed tree are those of the
   REQUESTED class itself; whether they are shared is decided by the lookup
   in flatten():  find_class(..., copy = CopyOnLookup).

   The spec keeps the parsed library as a constant graph and, as the only
   mutable part of the source tree, the set `touched` of source objects that
   have been rewritten.  A request reads every object of every class it
   reaches (bases, component types, transitively - copies made by
   find_class(copy=True) carry the rewritten state along).  The result of a
   request is a function of the class alone exactly if it read no rewritten
   object: `seen = {}`.

   CopyOnLookup = TRUE  is the intended behaviour (the property holds),
   CopyOnLookup = FALSE is what the pinned tree does (TLC finds the shortest
   distinguishing histories: repeat of a class with a connector / dotted
   extends-modification, class used by an earlier one through extends or as a
   component type, ...).                                                      *)
EXTENDS Integers, Sequences, FiniteSets, TLC, Json

CONSTANTS CopyOnLookup,    \* TRUE: flatten() works on a copy of the requested class
          SympyCopies,     \* TRUE: sympy/xml generate deep-copy the tree first (as the code does)
          LibIds,          \* library shapes explored (subset of 1..NLibs)
          Backends,        \* subset of {"flatten","casadi","sympy","xml"}
          MaxReq           \* history length bound

VARIABLES lib,       \* chosen library shape
          touched,   \* source objects rewritten in place so far
          hist,      \* history variable: requests so far (only in the `closure` view)
          n,         \* number of requests so far
          last       \* history variable: last request and what it observed

vars == <<lib, touched, hist, n, last>>

-----------------------------------------------------------------------------
(* Library shapes.  A modification is [path, attr, val]: `path` leads from the
   place where it is written to the modified element, `attr` is the attribute
   ("value" = the unnamed binding).                                          *)
Mod(p, a, v)    == [path |-> p, attr |-> a, val |-> v]
Cmp(nm, ty, pre, mods) == [name |-> nm, type |-> ty, txt |-> "", pre |-> pre, mods |-> mods]
Ext(b, mods)    == [base |-> b, txt |-> "", mods |-> mods]
(* `type` / `base` is always the class that the name resolves to; `txt` is how it is WRITTEN where that differs
   (a name that goes through an import clause or is relative to the enclosing package) *)
CmpAs(nm, ty, tx, pre, mods) == [name |-> nm, type |-> ty, txt |-> tx, pre |-> pre, mods |-> mods]
ExtAs(b, tx, mods) == [base |-> b, txt |-> tx, mods |-> mods]
Ali(nm, a, v)   == [name |-> nm, attr |-> a, val |-> v]        \* nested  type nm = Real(a = v)
Cls(nm, k, exts, als, comps, eqs) ==
    [name |-> nm, kind |-> k, ext |-> exts, alias |-> als, comps |-> comps, eqs |-> eqs,
     repl |-> <<>>, crefs |-> <<>>, uses |-> {}, algs |-> <<>>, pkg |-> "", bad |-> FALSE]
(* further constructs: replaceable nested classes  replaceable model nm = def  (redeclared by a
   modification [path = <<nm>>, attr = "redeclare", val = target class]); constants read through a
   class path  var = cls.sym  (the referenced symbol is pulled into the flat model as "cls.sym");
   user functions called from equations (`uses`) and algorithm sections of functions           *)
Rpl(nm, d)      == [name |-> nm, def |-> d]
CRef(v, c, sy)  == [var |-> v, cls |-> c, sym |-> sy]
WithRepl(c, r)  == [c EXCEPT !.repl = r]
WithCRefs(c, r) == [c EXCEPT !.crefs = r]
WithUses(c, u)  == [c EXCEPT !.uses = u]
WithAlgs(c, a)  == [c EXCEPT !.algs = a]
InPkg(p, c)     == [c EXCEPT !.pkg = p, !.name = p \o "." \o @]      \* class c declared inside package p
Bad(c)          == [c EXCEPT !.bad = TRUE]                         \* flattening this class has to FAIL (also on a fresh parse)
Pkg(nm, imps)   == [name |-> nm, imports |-> imps]

NLibs == 11

LibName(i) == CASE i = 1 -> "conn" [] i = 2 -> "extmod" [] i = 3 -> "shadow"
                [] i = 4 -> "alias" [] i = 5 -> "chain" [] i = 6 -> "mixed"
                [] i = 7 -> "redecl" [] i = 8 -> "constref" [] i = 9 -> "func"
                [] i = 10 -> "imports" [] i = 11 -> "broken"

(* packages of a library with their import clauses (classes say with `pkg` where they live) *)
LibPkgs(i) == IF i = 10 THEN << Pkg("P1", <<>>), Pkg("P2", <<>>),
                                Pkg("M", <<"P1.*", "P2.*">>),               \* two unqualified imports
                                Pkg("M2", <<"Q = P1.A", "P2.B">>) >>        \* a renaming and a qualified import
              ELSE <<>>
(* names that are requested although no such class exists *)
Ghosts(i) == IF i = 11 THEN {"NoSuch"} ELSE {}

LibDef(i) ==
  CASE i = 1 ->   \* connectors: a connector-typed symbol is rewritten to a string
    << Cls("Port", "connector", <<>>, <<>>,
           <<Cmp("H", "Real", "", <<>>), Cmp("Q", "Real", "flow", <<>>)>>, <<>>),
       Cls("OnePort", "model", <<>>, <<>>, <<Cmp("HQ", "Port", "", <<>>)>>, <<>>),
       Cls("Store", "model", <<Ext("OnePort", <<>>)>>, <<>>,
           <<Cmp("V", "Real", "", <<Mod(<<>>, "nominal", 10)>>)>>, <<"der(V) = HQ.Q">>),
       Cls("Sys", "model", <<>>, <<>>,
           <<Cmp("a", "Store", "", <<>>), Cmp("b", "Store", "", <<Mod(<<"V">>, "nominal", 20)>>)>>,
           <<"connect(a.HQ, b.HQ)">>) >>
  [] i = 2 ->     \* dotted modification in an extends clause is shortened in place
    << Cls("B", "model", <<>>, <<>>, <<Cmp("x", "Real", "", <<>>)>>, <<>>),
       Cls("C", "model", <<Ext("B", <<>>)>>, <<>>, <<>>, <<>>),
       Cls("D", "model", <<>>, <<>>, <<Cmp("c", "C", "", <<>>)>>, <<>>),
       Cls("E", "model", <<Ext("D", <<Mod(<<"c", "x">>, "nominal", 2)>>)>>, <<>>, <<>>, <<>>),
       Cls("F", "model", <<>>, <<>>, <<Cmp("e", "E", "", <<Mod(<<"c", "x">>, "start", 3)>>)>>, <<>>) >>
  [] i = 3 ->     \* the shortened name hits another symbol: silently wrong result
    << Cls("B", "model", <<>>, <<>>, <<Cmp("x", "Real", "", <<>>)>>, <<>>),
       Cls("D", "model", <<>>, <<>>, <<Cmp("c", "B", "", <<>>), Cmp("x", "Real", "", <<>>)>>, <<>>),
       Cls("E", "model", <<Ext("D", <<Mod(<<"c", "x">>, "nominal", 2)>>)>>, <<>>, <<>>, <<>>),
       Cls("G", "model", <<>>, <<>>, <<Cmp("e", "E", "", <<>>)>>, <<>>) >>
  [] i = 4 ->     \* class modification of a nested type does not reach frozen instances
    << Cls("C1", "class", <<>>, <<Ali("V", "nominal", 1)>>,
           <<Cmp("v1", "V", "", <<>>), Cmp("v2", "V", "", <<Mod(<<>>, "start", 5)>>)>>, <<>>),
       Cls("C2", "class", <<Ext("C1", <<Mod(<<"V">>, "nominal", 1000)>>)>>, <<>>, <<>>, <<>>),
       Cls("C3", "model", <<>>, <<>>, <<Cmp("a", "C1", "", <<>>), Cmp("b", "C2", "", <<>>)>>, <<>>) >>
  [] i = 5 ->     \* value modifications through component, extends and dotted paths
    << Cls("Leaf", "model", <<>>, <<>>,
           <<Cmp("x", "Real", "", <<>>), Cmp("p", "Real", "parameter", <<Mod(<<>>, "value", 1)>>)>>,
           <<"x = p">>),
       Cls("Mid", "model", <<>>, <<>>,
           <<Cmp("l", "Leaf", "", <<Mod(<<"p">>, "value", 2)>>), Cmp("y", "Real", "", <<>>)>>,
           <<"y = l.x">>),
       Cls("Top", "model", <<Ext("Mid", <<Mod(<<"l", "p">>, "value", 3)>>)>>, <<>>,
           <<Cmp("z", "Real", "", <<>>)>>, <<"z = y">>),
       Cls("Wrap", "model", <<Ext("Mid", <<>>)>>, <<>>, <<>>, <<>>),
       Cls("Use", "model", <<>>, <<>>,
           <<Cmp("t", "Top", "", <<>>), Cmp("m", "Mid", "", <<Mod(<<"l", "p">>, "value", 4)>>)>>,
           <<>>) >>
  [] i = 6 ->     \* everything together: connector + dotted extends modification + parameters
    << Cls("Port", "connector", <<>>, <<>>,
           <<Cmp("H", "Real", "", <<>>), Cmp("Q", "Real", "flow", <<>>)>>, <<>>),
       Cls("OnePort", "model", <<>>, <<>>, <<Cmp("HQ", "Port", "", <<>>)>>, <<>>),
       Cls("Vol", "class", <<>>, <<>>,
           <<Cmp("V", "Real", "", <<Mod(<<>>, "min", 0), Mod(<<>>, "nominal", 100)>>)>>, <<>>),
       Cls("Stor", "model", <<Ext("OnePort", <<>>), Ext("Vol", <<>>)>>, <<>>, <<>>, <<"der(V) = HQ.Q">>),
       Cls("Lin", "model", <<Ext("Stor", <<Mod(<<"HQ", "H">>, "min", 1)>>)>>, <<>>,
           <<Cmp("A", "Real", "parameter", <<>>), Cmp("Hb", "Real", "parameter", <<>>)>>,
           <<"V = A * (HQ.H - Hb)">>),
       Cls("Main", "model", <<>>, <<>>,
           <<Cmp("e", "Lin", "", <<Mod(<<"Hb">>, "value", 2), Mod(<<"A">>, "value", 1000)>>)>>, <<>>) >>
  [] i = 7 ->     \* class redeclaration (component modification and extends clause); the class redeclared TO
                  \* has a class-typed component with a declaration modification
    << Cls("R", "model", <<>>, <<>>,
           <<Cmp("k", "Real", "parameter", <<Mod(<<>>, "value", 1)>>), Cmp("y", "Real", "", <<>>)>>, <<"y = k">>),
       Cls("S1", "model", <<>>, <<>>,
           <<Cmp("p", "Real", "parameter", <<Mod(<<>>, "value", 1)>>), Cmp("x", "Real", "", <<>>)>>, <<"x = p">>),
       Cls("S2", "model", <<>>, <<>>,
           <<Cmp("p", "Real", "parameter", <<Mod(<<>>, "value", 2)>>),
             Cmp("r", "R", "", <<Mod(<<"k">>, "value", 7)>>), Cmp("x", "Real", "", <<>>)>>, <<"x = (p + r.y)">>),
       WithRepl(Cls("A", "model", <<>>, <<>>, <<Cmp("s", "Sub", "", <<Mod(<<"p">>, "value", 5)>>)>>, <<>>),
                <<Rpl("Sub", "S1")>>),
       Cls("B", "model", <<>>, <<>>, <<Cmp("a", "A", "", <<Mod(<<"Sub">>, "redeclare", "S2")>>)>>, <<>>),
       Cls("C", "model", <<>>, <<>>, <<Cmp("s2", "S2", "", <<Mod(<<"p">>, "value", 3)>>)>>, <<>>),
       Cls("D", "model", <<Ext("A", <<Mod(<<"Sub">>, "redeclare", "S2")>>)>>, <<>>, <<>>, <<>>) >>
  [] i = 8 ->     \* a constant read through a class path, and modifications of that very symbol elsewhere
    << Cls("M1", "model", <<>>, <<>>,
           <<Cmp("f", "Real", "constant", <<Mod(<<>>, "value", 3)>>),
             Cmp("q", "Real", "parameter", <<Mod(<<>>, "value", 1)>>), Cmp("v", "Real", "", <<>>)>>, <<"v = (f * q)">>),
       WithCRefs(Cls("User", "model", <<>>, <<>>, <<Cmp("g", "Real", "", <<>>)>>, <<>>), <<CRef("g", "M1", "f")>>),
       Cls("N", "model", <<>>, <<>>,
           <<Cmp("m1", "M1", "", <<Mod(<<"f">>, "value", 4), Mod(<<"q">>, "value", 2)>>)>>, <<>>),
       Cls("N2", "model", <<Ext("M1", <<Mod(<<"f">>, "value", 5)>>)>>, <<>>, <<>>, <<>>),
       Cls("W", "model", <<>>, <<>>, <<Cmp("u", "User", "", <<>>), Cmp("m", "M1", "", <<Mod(<<"q">>, "value", 6)>>)>>, <<>>) >>
  [] i = 9 ->     \* a user function called from models, directly, through a component and through extends
    << WithAlgs(Cls("fn", "function", <<>>, <<>>,
                    <<Cmp("u", "Real", "input", <<>>), Cmp("v", "Real", "output", <<>>)>>, <<>>), <<"v := (2 * u)">>),
       WithUses(Cls("G", "model", <<>>, <<>>, <<Cmp("x", "Real", "", <<>>), Cmp("y", "Real", "", <<>>)>>,
                    <<"x = 1", "y = fn(x)">>), {"fn"}),
       WithUses(Cls("H", "model", <<>>, <<>>, <<Cmp("g", "G", "", <<>>), Cmp("z", "Real", "", <<>>)>>,
                    <<"z = fn(g.y)">>), {"fn"}),
       Cls("K", "model", <<Ext("G", <<>>)>>, <<>>, <<Cmp("w", "Real", "", <<Mod(<<>>, "start", 2)>>)>>, <<"w = y">>) >>
  [] i = 10 ->    \* classes found through import clauses of the enclosing package (the lookup caches what it found)
    << InPkg("P1", Cls("A", "model", <<>>, <<>>, <<Cmp("x", "Real", "", <<Mod(<<>>, "start", 1)>>)>>, <<>>)),
       InPkg("P1", Cls("A2", "model", <<>>, <<>>, <<Cmp("x2", "Real", "", <<>>)>>, <<>>)),
       InPkg("P2", Cls("B", "model", <<>>, <<>>, <<Cmp("y", "Real", "", <<Mod(<<>>, "nominal", 2)>>)>>, <<>>)),
       InPkg("M", Cls("U", "model", <<>>, <<>>,
                      <<CmpAs("a", "P1.A", "A", "", <<>>), CmpAs("b", "P2.B", "B", "", <<Mod(<<"y">>, "nominal", 3)>>)>>, <<>>)),
       InPkg("M", Cls("V", "model", <<ExtAs("M.U", "U", <<>>)>>, <<>>, <<Cmp("z", "Real", "", <<>>)>>, <<>>)),
       InPkg("M2", Cls("U2", "model", <<>>, <<>>,
                       <<CmpAs("q", "P1.A", "Q", "", <<>>), CmpAs("b", "P2.B", "B", "", <<>>)>>, <<>>)),
       InPkg("M2", Cls("W", "model", <<>>, <<>>, <<Cmp("u", "M.U", "", <<>>), CmpAs("a2", "P1.A2", "P1.A2", "", <<>>)>>, <<>>)) >>
  [] i = 11 ->    \* classes whose flattening FAILS (unknown component type, modification of a symbol that does not
                  \* exist), next to good ones; together with the ghost name: failing requests at every position
    << Cls("Good", "model", <<>>, <<>>, <<Cmp("x", "Real", "", <<Mod(<<>>, "start", 1)>>)>>, <<"x = 1">>),
       Cls("Good2", "model", <<>>, <<>>, <<Cmp("g", "Good", "", <<>>)>>, <<>>),
       Bad(Cls("BadType", "model", <<>>, <<>>, <<Cmp("m", "Missing", "", <<>>), Cmp("x", "Real", "", <<>>)>>, <<>>)),
       Bad(Cls("BadMod", "model", <<>>, <<>>, <<Cmp("g", "Good", "", <<Mod(<<"xx">>, "value", 3)>>)>>, <<>>)) >>

Range(s) == {s[k] : k \in DOMAIN s}
L == LibDef(lib)
ClassNames(i) == {c.name : c \in Range(LibDef(i))}
ClassOf(i, nm) == CHOOSE c \in Range(LibDef(i)) : c.name = nm
AliasNames(c) == {a.name : a \in Range(c.alias)}
ReplNames(c) == {r.name : r \in Range(c.repl)}
(* classes named by redeclare modifications written in class c *)
RedeclTargets(c) ==
    {m.val : m \in {x \in UNION ({Range(c.ext[k].mods) : k \in DOMAIN c.ext}
                                   \cup {Range(c.comps[k].mods) : k \in DOMAIN c.comps}) : x.attr = "redeclare"}}
IsClassType(i, ty) == ty \in ClassNames(i)

-----------------------------------------------------------------------------
(* Source objects and what an in-place flatten of class nm rewrites / a request reads *)
SymObj(nm, s)    == <<"sym", nm, s>>
ExtObj(nm, e, m) == <<"ext", nm, e, m>>

RECURSIVE Reach(_, _)
Reach(i, nm) ==    \* classes whose objects a request for nm reads (itself, bases, component types)
    LET c == ClassOf(i, nm) IN
    {nm} \cup UNION {Reach(i, c.ext[k].base) : k \in DOMAIN c.ext}
         \cup UNION {Reach(i, c.comps[k].type) : k \in {j \in DOMAIN c.comps : IsClassType(i, c.comps[j].type)}}
         \cup UNION {Reach(i, d) : d \in {r.def : r \in Range(c.repl)} \cup RedeclTargets(c)
                                          \cup {r.cls : r \in Range(c.crefs)} \cup c.uses}

OwnObjs(i, nm) ==
    LET c == ClassOf(i, nm) IN
    {SymObj(nm, c.comps[k].name) : k \in DOMAIN c.comps}
    \cup UNION {{ExtObj(nm, e, m) : m \in DOMAIN c.ext[e].mods} : e \in DOMAIN c.ext}

ReadObjs(i, nm) == UNION {OwnObjs(i, d) : d \in Reach(i, nm)}

(* in-place instance building of the REQUESTED class rewrites:
   - every own component whose type is not elementary (class or nested type alias)
   - every own extends-modification that is passed down through a component (dotted path) *)
Rewrites(i, nm) ==
    LET c == ClassOf(i, nm) IN
    {SymObj(nm, c.comps[k].name) : k \in {j \in DOMAIN c.comps : c.comps[j].type # "Real"}}
    \cup UNION {{ExtObj(nm, e, m) : m \in {j \in DOMAIN c.ext[e].mods : Len(c.ext[e].mods[j].path) >= 2}}
                 : e \in DOMAIN c.ext}

(* constant tables (TLC evaluates a zero-arity constant definition once) *)
Targets(i) == ClassNames(i) \cup Ghosts(i)          \* what can be requested
ReadTab == [i \in LibIds |-> [nm \in Targets(i) |-> IF nm \in ClassNames(i) THEN ReadObjs(i, nm) ELSE {}]]
RewTab  == [i \in LibIds |-> [nm \in Targets(i) |-> IF nm \in ClassNames(i) THEN Rewrites(i, nm) ELSE {}]]

RECURSIVE ReachesConnector(_, _)
ReachesConnector(i, ty) ==
    /\ IsClassType(i, ty)
    /\ LET c == ClassOf(i, ty) IN
       \/ c.kind = "connector"
       \/ \E k \in DOMAIN c.ext : ReachesConnector(i, c.ext[k].base)
       \/ \E k \in DOMAIN c.comps : ReachesConnector(i, c.comps[k].type)

(* which rewriting mechanisms a set of seen objects stands for (tags for the binding) *)
Mechs(i, seen) ==
    {"conn-str" : o \in {p \in seen : p[1] = "sym" /\
                         LET c == ClassOf(i, p[2]) IN
                         \E k \in DOMAIN c.comps : c.comps[k].name = p[3] /\ ReachesConnector(i, c.comps[k].type)}}
    \cup {"ext-strip" : o \in {p \in seen : p[1] = "ext"}}
    \cup {"frozen-inst" : o \in {p \in seen : p[1] = "sym" /\
                         LET c == ClassOf(i, p[2]) IN
                         \E k \in DOMAIN c.comps : c.comps[k].name = p[3] /\ ~ReachesConnector(i, c.comps[k].type)}}

-----------------------------------------------------------------------------
(* Reference semantics of flattening on the PRISTINE library (what a fresh
   parse gives): flat variables with the attributes set by modifications.
   Outer modifications win; an extends clause's modification is outer to the
   base class's own ones.                                                    *)
RECURSIVE Elems(_, _), EnvMods(_, _), Aliases(_, _), Repls(_, _), CRefs(_, _)
Elems(i, nm) ==
    LET c == ClassOf(i, nm)
        RECURSIVE B(_)
        B(k) == IF k > Len(c.ext) THEN <<>> ELSE Elems(i, c.ext[k].base) \o B(k + 1)
    IN  B(1) \o c.comps
EnvMods(i, nm) ==
    LET c == ClassOf(i, nm)
        RECURSIVE B(_)
        B(k) == IF k > Len(c.ext) THEN <<>> ELSE EnvMods(i, c.ext[k].base) \o c.ext[k].mods \o B(k + 1)
    IN  B(1)
Aliases(i, nm) ==
    LET c == ClassOf(i, nm)
        RECURSIVE B(_)
        B(k) == IF k > Len(c.ext) THEN <<>> ELSE Aliases(i, c.ext[k].base) \o B(k + 1)
    IN  B(1) \o c.alias
Repls(i, nm) ==
    LET c == ClassOf(i, nm)
        RECURSIVE B(_)
        B(k) == IF k > Len(c.ext) THEN <<>> ELSE Repls(i, c.ext[k].base) \o B(k + 1)
    IN  B(1) \o c.repl
CRefs(i, nm) ==
    LET c == ClassOf(i, nm)
        RECURSIVE B(_)
        B(k) == IF k > Len(c.ext) THEN <<>> ELSE CRefs(i, c.ext[k].base) \o B(k + 1)
    IN  B(1) \o c.crefs

NoAttrs == [a \in {} |-> 0]
RECURSIVE ApplyAttrs(_, _)
ApplyAttrs(f, ms) ==     \* later modification wins
    IF ms = <<>> THEN f
    ELSE LET m == Head(ms)
             g == [a \in DOMAIN f \cup {m.attr} |-> IF a = m.attr THEN m.val ELSE f[a]]
         IN  ApplyAttrs(g, Tail(ms))

Strip(ms, nm) == LET T(m) == m.path # <<>> /\ Head(m.path) = nm
                     sel == SelectSeq(ms, T)
                 IN  [k \in DOMAIN sel |-> [sel[k] EXCEPT !.path = Tail(@)]]

RECURSIVE Leaves(_, _, _, _)
Leaves(i, nm, outer, prefix) ==
    LET all == EnvMods(i, nm) \o outer
        als == Aliases(i, nm)
        es  == Elems(i, nm)
        rps == Repls(i, nm)
        Bound(r) ==          \* the class a replaceable name stands for: its default unless redeclared (outermost wins)
            LET T(m) == m.attr = "redeclare" /\ m.path = <<r.name>>
                rs == SelectSeq(all, T)
            IN  IF rs = <<>> THEN r.def ELSE rs[Len(rs)].val
        DeclAttrs(cn, sy) == LET cc == ClassOf(i, cn)
                                 k == CHOOSE j \in DOMAIN cc.comps : cc.comps[j].name = sy
                             IN  ApplyAttrs(NoAttrs, cc.comps[k].mods)
        Pulled == {[name |-> prefix \o r.cls \o "." \o r.sym, attrs |-> DeclAttrs(r.cls, r.sym)] : r \in Range(CRefs(i, nm))}
        AliasAttrs(a) ==     \* nested type's own attribute, then class modifications aimed at the type
            ApplyAttrs(ApplyAttrs(NoAttrs, <<Mod(<<>>, a.attr, a.val)>>), Strip(all, a.name))
        One(e) ==
            IF e.type = "Real"
            THEN {[name |-> prefix \o e.name, attrs |-> ApplyAttrs(ApplyAttrs(NoAttrs, e.mods), Strip(all, e.name))]}
            ELSE IF \E k \in DOMAIN als : als[k].name = e.type
            THEN LET a == als[CHOOSE k \in DOMAIN als : als[k].name = e.type]
                 IN  {[name |-> prefix \o e.name,
                       attrs |-> ApplyAttrs(ApplyAttrs(AliasAttrs(a), e.mods), Strip(all, e.name))]}
            ELSE IF \E k \in DOMAIN rps : rps[k].name = e.type
            THEN Leaves(i, Bound(rps[CHOOSE k \in DOMAIN rps : rps[k].name = e.type]),
                        e.mods \o Strip(all, e.name), prefix \o e.name \o ".")
            ELSE Leaves(i, e.type, e.mods \o Strip(all, e.name), prefix \o e.name \o ".")
    IN  UNION {One(es[k]) : k \in DOMAIN es} \cup Pulled

FlatOf(i, nm) == Leaves(i, nm, <<>>, "")

-----------------------------------------------------------------------------
Init == /\ lib \in LibIds
        /\ touched = {}
        /\ hist = <<>>
        /\ n = 0
        /\ last = [act |-> "init"]

InPlace(be) == IF be \in {"flatten", "casadi"} THEN ~CopyOnLookup ELSE ~SympyCopies /\ ~CopyOnLookup

Request(nm, be) ==
    LET seen == ReadTab[lib][nm] \cap touched IN
    /\ n < MaxReq
    /\ n' = n + 1
    /\ touched' = IF InPlace(be) THEN touched \cup RewTab[lib][nm] ELSE touched
    /\ hist' = Append(hist, [cls |-> nm, be |-> be])
    /\ last' = [act |-> "request", cls |-> nm, be |-> be,
                seen |-> seen, mechs |-> Mechs(lib, seen)]
    /\ UNCHANGED lib

Next == \E nm \in Targets(lib), be \in Backends : Request(nm, be)

Spec == Init /\ [][Next]_vars

-----------------------------------------------------------------------------
(* The property *)
ResultIsFunctionOfClass == last.act = "request" => last.seen = {}
SourceUnchanged == [][touched' = touched]_vars

(* Declarative counterpart of the operational `touched` bookkeeping: a request
   observes a rewritten object  iff  an EARLIER in-place request wrote an
   object that this request reads (a read-after-write conflict).            *)
Conflict(k) ==
    \E j \in 1..(k - 1) :
        /\ InPlace(hist[j].be)
        /\ RewTab[lib][hist[j].cls] \cap ReadTab[lib][hist[k].cls] # {}
SeenIsConflict ==
    last.act = "request" => ((last.seen # {}) <=> Conflict(Len(hist)))

(* sanity of the library shapes: every referenced class exists, dotted paths
   resolve, the reference semantics gives each class a nonempty flat model  *)
ShapesOK ==
    \A i \in LibIds : \A c \in {d \in Range(LibDef(i)) : ~d.bad} :
        /\ \A k \in DOMAIN c.ext : IsClassType(i, c.ext[k].base)
        /\ c.pkg = "" \/ \E k \in DOMAIN LibPkgs(i) : LibPkgs(i)[k].name = c.pkg
        /\ \A k \in DOMAIN c.comps :
              \/ c.comps[k].type = "Real" \/ IsClassType(i, c.comps[k].type)
              \/ c.comps[k].type \in AliasNames(c) \/ c.comps[k].type \in ReplNames(c)
        /\ \A d \in {r.def : r \in Range(c.repl)} \cup RedeclTargets(c) \cup {r.cls : r \in Range(c.crefs)} \cup c.uses :
              IsClassType(i, d)
        /\ FlatOf(i, c.name) # {}
        /\ \A x, y \in FlatOf(i, c.name) : x.name = y.name => x = y

-----------------------------------------------------------------------------
View == <<lib, touched, n>>
ViewQuot == <<lib, touched>>                   \* quotient: history length hidden
ViewFull == <<lib, touched, hist, n>>
Log == PrintT(<<"TR", ToJson([src |-> [lib |-> lib, touched |-> touched],
                              act |-> last',
                              dst |-> [lib |-> lib', touched |-> touched']])>>)
(* the shapes are constant: checked once, not per state *)
ASSUME ShapesOK
(* the library shapes themselves, handed to the renderer (one line per shape) *)
ASSUME \A i \in LibIds :
    PrintT(<<"LIB", ToJson([id |-> i, name |-> LibName(i), classes |-> LibDef(i), pkgs |-> LibPkgs(i),
                            flat |-> [c \in {d.name : d \in {x \in Range(LibDef(i)) : ~x.bad}} |-> FlatOf(i, c)]])>>)
=============================================================================
