"""C22 - Delay durations are validated and delay arguments preserved.

Spec: spec/Delay.tla (+ SGRat.tla).  Oracle mode (binding C): TLC enumerates models with delay() calls whose
durations draw on every variable category (constant, parameter, fixed input, input, state, derivative,
algebraic, time), outside and inside for-loops, under four option sets, checks that the operational
(symbol-based) pipeline  generate -> simplify -> _post_checks -> delay_arguments_function  agrees with the
declarative (category-based) property, and prints the expected verdict and delay arguments.  Every program
is written to a scratch folder and compiled with pymoca.backends.casadi.api.transfer_model (no cache):

  * verdict          ValueError iff the spec rejects; no exception iff it accepts
  * delay-arguments  for accepted models Model.delay_arguments_function exists and returns, at the spec's
                     integer points, each delayed expression and its duration (per loop element)
"""
import json
import logging
import os
import shutil
import tempfile

from vf import tlc
from vf.core import MachineryError, exc_record
from vf.par import pmap

META = {
    "ready": True,
    "category": "model_checking",
    "technique": "TLA+ model of delay handling in the CasADi back end (Delay.tla: symbol-level generate / for-loop mapping / simplify "
                 "substitution / post-check / argument function versus the category-level statement of the property) model-checked "
                 "by TLC over a bounded family; every program compiled by transfer_model and compared",
    "text": "TLC checks for every program of the family (durations = every variable category alone, all sums of two categories, products, "
            "differences; one and two call sites; call sites inside a for-loop with durations that are scalar, the loop index, or indexed "
            "arrays, with and without other uses of the variables in the loop body; options default / replace_constant_values / "
            "replace_parameter_values / expand_vectors / detect_aliases with an alias pair in durations and expressions / cache=True with the "
            "request repeated / durations that are the result of another delay, nested or through an eliminated alias / delayed 2x3 matrix "
            "expressions with and without expand_vectors) that the symbol-based pipeline rejects exactly the models the category-based "
            "property rejects and that the delay arguments equal the values of expression and duration.  Each program is compiled by "
            "transfer_model(cache=False): ValueError iff rejected, otherwise delay_arguments_function is evaluated at 2 integer points "
            "and compared element by element.",
    "note": "Trusted: TLC, a 30-line Modelica renderer (fully parenthesised), the mapping of variable names to the argument vectors of "
            "delay_arguments_function. Durations and expressions use + - * only (division is broken in the pinned tree, see C11). "
            "For a model the spec rejects, any exception counts as rejection (a different exception type is recorded as drift). "
            "Nested delay() in a duration and delayMax are not in the family.",
    "design_ref": "DESIGN.md section 6, C22",
}

CLASS_TAGS = {"outside", "two", "loop", "mixed", "alias", "chain", "matrix", "matrix-delay", "opt-aliases", "opt-cache", "accept", "reject", "in-loop", "outside-loop", "loop-indexed-duration",
              "loop-expr-free-var", "paramvals-in-delay", "opt-default", "opt-constvals", "opt-paramvals", "opt-expand"}
OPTS = {"default": {}, "constvals": {"replace_constant_values": True}, "paramvals": {"replace_parameter_values": True},
        "expand": {"expand_vectors": True}, "aliases": {"detect_aliases": True}, "cache": {"cache": True}}


def rexpr(e):
    k = e["k"]
    if k == "ref":
        return e["n"]
    if k == "iref":
        return "%s[i]" % e["n"]
    if k == "mref":
        return e["n"]
    if k == "delay":
        return "delay(%s, %s)" % (rexpr(e["a"][0]), rexpr(e["a"][1]))
    if k == "idx":
        return "i"
    if k == "lit":
        return str(e["v"])
    if k == "time":
        return "time"
    if k == "der":
        return "der(x)"
    if k == "un":
        return "(-%s)" % rexpr(e["a"][0])
    if k == "bin":
        return "(%s %s %s)" % (rexpr(e["a"][0]), e["n"], rexpr(e["a"][1]))
    raise ValueError(k)


def render(prog):
    eqs = ["  der(x) = (-x);", "  a = (x + u);", "  xs[1] = x;", "  xs[2] = a;", "  b1 = b2;", "  b2 = (2 * a);"]
    targets = ["y", "z"]
    used = set()
    for s in prog["sites"]:
        call = "delay(%s, %s)" % (rexpr(s["expr"]), rexpr(s["dur"]))
        if s.get("mat"):
            eqs.append("  ym = %s;" % call)
            used.add("ym")
        elif s["loop"]:
            body = ["    zs[i] = (p * x);"] if s["body"] else []
            body.append("    ys[i] = %s;" % call)
            eqs.append("  for i in 1:2 loop\n%s\n  end for;" % "\n".join(body))
            used.add("ys")
            if s["body"]:
                used.add("zs")
        else:
            t = targets.pop(0)
            eqs.append("  %s = %s;" % (t, call))
            used.add(t)
    for t in ("y", "z"):
        if t not in used:
            eqs.append("  %s = 1;" % t)
    for t in ("ys", "zs"):
        if t not in used:
            eqs += ["  %s[1] = 1;" % t, "  %s[2] = 2;" % t]
    # the array parameter is declared only when used (load_model of a cached model with an array parameter fails in
    # variable_metadata - model-cache territory, C19 - and would hide what this check is about)
    uses_ps = '"ps"' in json.dumps(prog)
    mat = any(s.get("mat") for s in prog["sites"])
    if mat:
        eqs = eqs + ["  xm[1, 1] = x;", "  xm[1, 2] = a;", "  xm[1, 3] = 1;", "  xm[2, 1] = 2;", "  xm[2, 2] = (x + 1);", "  xm[2, 3] = (a + 1);"]
    return ("model M\n  constant Real c = 2;\n  parameter Real p = 3;\n" + ("  parameter Real ps[2] = {1, 2};\n" if uses_ps else "") +
            "  input Real uf(fixed = true);\n  input Real u;\n  Real x;\n  Real a;\n  Real y;\n  Real z;\n"
            "  Real xs[2];\n  Real ys[2];\n  Real zs[2];\n  Real b1;\n  Real b2;\n" + ("  Real xm[2, 3];\n  Real ym[2, 3];\n" if mat else "") + "equation\n%s\nend M;\n" % "\n".join(eqs))


def value_for(name, n, pt, shape=None):
    """values (list of n numbers, in the storage order of the symbol) of the model variable `name` at the spec's point;
    shape = (rows, columns) of the symbol"""
    if name.startswith("_pymoca_delay"):
        return [0.0] * n
    if name == "der(x)":
        return [float(pt["der"])]
    base, idx = name, None
    if "[" in name:
        base = name[:name.index("[")]
        idx = [int(t) for t in name[name.index("[") + 1:-1].split(",")]
    vals = pt["decl"].get(base, pt["val"].get(base))
    if vals is None:
        raise MachineryError("no value for model variable %s" % name)
    mshape = pt.get("shape", {}).get(base)            # matrices: the point lists the values row by row
    if idx is not None:
        if mshape and len(idx) == 2:
            return [float(vals[(idx[0] - 1) * mshape[1] + (idx[1] - 1)])]
        return [float(vals[idx[0] - 1])]
    if len(vals) != n:
        raise MachineryError("size of %s is %d, point has %d values" % (name, n, len(vals)))
    if mshape and shape and tuple(shape) == tuple(mshape):
        # a CasADi matrix symbol is stored column by column
        return [float(vals[i * mshape[1] + j]) for j in range(mshape[1]) for i in range(mshape[0])]
    return [float(v) for v in vals]


def delay_key(name):
    """'_pymoca_delay_3[2,1]' -> (3, (2, 1));  '_pymoca_delay_3' -> (3, None)"""
    base, idx = name, None
    if "[" in name:
        base = name[:name.index("[")]
        idx = tuple(int(t) for t in name[name.index("[") + 1:-1].split(","))
        if len(idx) == 1:
            idx = (idx[0], 1)
    if not base.startswith("_pymoca_delay_"):
        raise MachineryError("unexpected delay state name %s" % name)
    return int(base[len("_pymoca_delay_"):]), idx


def elements(dm, ca):
    """dense DM -> {(row, column): value}, 1-based; a row vector is read as a column vector"""
    dm = ca.densify(ca.DM(dm))
    r, c = dm.size1(), dm.size2()
    if r == 1 and c > 1:
        dm, r, c = dm.T, c, 1
    return {(i + 1, j + 1): float(dm[i, j]) for i in range(r) for j in range(c)}


def request(folder, opts, item):
    """one transfer_model request -> {"verdict", ["exc"], ["function", "args" | "fexc"]}"""
    import casadi as ca
    from pymoca.backends.casadi.api import transfer_model
    obs = {}
    try:
        model = transfer_model(folder, "M", dict(opts))
    except Exception as e:
        obs["exc"] = exc_record(e)
        obs["verdict"] = "reject" if isinstance(e, ValueError) and "Delay durations" in str(e) else "raised"
        return obs
    obs["verdict"] = "accept"
    try:
        f = model.delay_arguments_function
        lists = [model.states, model.der_states, model.alg_states, model.inputs, model.constants, model.parameters]
        sizes = [[(v.symbol.name(), v.symbol.size1() * v.symbol.size2(), (v.symbol.size1(), v.symbol.size2())) for v in L] for L in lists]
        names = list(model.delay_states)
        res = []
        for pt in item["points"]:
            args = [float(pt["time"])]
            for L in sizes:
                vec = []
                for name, n, shp in L:
                    vec += value_for(name, n, pt, shp)
                args.append(ca.DM(vec) if vec else ca.DM.zeros(0, 1))
            outs = f(*args)
            if not isinstance(outs, (list, tuple)):
                outs = [outs]
            if len(outs) % 2:
                obs["function"] = "odd number of outputs"
                return obs
            if len(outs) != 2 * len(names):
                obs["function"] = "%d outputs for %d delay states" % (len(outs), len(names))
                return obs
            pairs = []
            for k, name in enumerate(names):
                num, idx = delay_key(str(name))
                ex = elements(outs[2 * k], ca)
                du = elements(outs[2 * k + 1], ca)
                if len(du) == 1:
                    du = {key: list(du.values())[0] for key in ex}
                if set(du) != set(ex):
                    obs["function"] = "expression with elements %s, duration with %s" % (sorted(ex), sorted(du))
                    return obs
                for key in sorted(ex):
                    if idx is not None and key != (1, 1):
                        obs["function"] = "element name %s carries a non-scalar expression" % name
                        return obs
                    rc = idx if idx is not None else key
                    pairs.append([[num, rc[0], rc[1]], ex[key], du[key]])
            pairs.sort()
            res.append(pairs)
        obs["function"] = "built"
        obs["args"] = res
    except MachineryError:
        raise
    except Exception as e:
        obs["function"] = "error"
        obs["fexc"] = exc_record(e)
    return obs


def observe(item):
    """-> observation of the first request (+ "second": observation of the repeated request for the cache option set)"""
    logging.disable(logging.CRITICAL)
    prog = item["prog"]
    txt = render(prog)
    d = tempfile.mkdtemp(prefix="c22_")
    old = os.environ.get("XDG_CACHE_HOME")
    os.environ["XDG_CACHE_HOME"] = os.path.join(d, "cache")
    try:
        os.makedirs(os.path.join(d, "m"))
        with open(os.path.join(d, "m", "M.mo"), "w") as f:
            f.write(txt)
        opts = {"cache": False}
        opts.update(OPTS[prog["opt"]])
        obs = request(os.path.join(d, "m"), opts, item)
        obs["text"] = txt
        if prog["opt"] == "cache":
            obs["second"] = request(os.path.join(d, "m"), opts, item)
        return obs
    finally:
        if old is None:
            os.environ.pop("XDG_CACHE_HOME", None)
        else:
            os.environ["XDG_CACHE_HOME"] = old
        shutil.rmtree(d, ignore_errors=True)


def rat(q):
    return None if q == [0, 0] else q[0] / q[1]


def triples(args):
    """spec entries <<key, expression, duration>> per point -> sorted [[n, row, col], float, float]"""
    return [sorted([list(t[0]), rat(t[1]), rat(t[2])] for t in pt) for pt in args]


def judge(item, obs):
    recs, drift, compared = judge_request(item, obs, obs["text"], "")
    if "second" in obs:
        # the same request again (answered from the model cache when the first one stored the model)
        r2, d2, c2 = judge_request(item, obs["second"], obs["text"], "repeated request: ")
        for r in r2:
            r["tags"] = sorted(set(r["tags"]) | {"second-request"})
        recs += r2
        drift += [x for x in d2 if x not in drift]
        compared += ["second-request"]
    return recs, drift, compared


def judge_request(item, obs, text, prefix):
    exp, ab = item["expect"], item["asbuilt"]
    tags = sorted(set(item["tags"]) & CLASS_TAGS)
    recs, drift, compared = [], [], ["verdict"]
    # does the code behave as the as-built model says?
    ab_same = obs["verdict"] == ab["verdict"]
    if ab_same and obs["verdict"] == "raised":
        ab_same = obs["exc"]["exception_type"] == ab["raised"]
    if ab_same and obs["verdict"] == "accept":
        ab_same = (obs["function"] == "built") == (ab["function"] == "built")
        if ab_same and obs["function"] == "built":
            ab_same = triples(ab["args"]) == obs["args"]
    if not ab_same:
        drift.append("as-built model differs from the code")

    def rec(observable, detail, exc=None):
        recs.append({"observable": observable, "tags": tags + (["matches-asbuilt"] if ab_same else []),
                     "exception_type": exc, "detail": prefix + detail + "\n" + text})

    if exp["reject"]:
        if obs["verdict"] == "accept":
            rec("verdict", "transfer_model accepted a model whose delay duration depends on %s" % sorted(
                t[4:] for t in item["tags"] if t.startswith("dur:") and t[4:] in ("time", "state", "derivative", "algebraic", "input", "delayed value")))
        elif obs["verdict"] == "raised":
            drift.append("rejected model: exception other than the ValueError of the duration check")
        return recs, drift, compared
    if obs["verdict"] != "accept":
        rec("verdict", "transfer_model raised %s for a model whose delay durations depend only on constants, parameters and fixed inputs"
            % obs["exc"]["detail"], obs["exc"]["exception_type"])
        return recs, drift, compared
    compared.append("delay-arguments")
    if obs["function"] != "built":
        rec("delay-arguments", "delay_arguments_function of an accepted model: %s" % (obs.get("fexc", {}).get("detail") or obs["function"]),
            obs.get("fexc", {}).get("exception_type"))
        return recs, drift, compared
    want = triples(exp["args"])
    if want != obs["args"]:
        rec("delay-arguments", "delay_arguments_function returns [delay number, row, column], expression, duration = %s, the model's are %s" % (
            json.dumps(obs["args"]), json.dumps(want)))
    return recs, drift, compared


def work(item):
    obs = observe(item)
    recs, drift, compared = judge(item, obs)
    return {"recs": recs, "drift": drift, "compared": compared, "obs": obs}


def tlc_items(ctx, r, what):
    ctx.add_tlc(r, what)
    if r.violated:
        raise MachineryError("spec Delay violates %s under the intended switches:\n%s" % (r.violated, r.cex[:1500]))
    items = r.tr("PROG")
    if not items:
        raise MachineryError("no PROG lines")
    for it in items:
        if (it["pred"]["verdict"] == "reject") != it["expect"]["reject"] or (not it["expect"]["reject"] and it["pred"]["args"] != it["expect"]["args"]):
            raise MachineryError("intended prediction differs from the declarative expectation for a program")
    return items


def cached_items(tier="quick"):
    return tlc.run("Delay", "Delay_%s.cfg" % tier, workers=1, timeout=1500).tr("PROG")


def run(ctx):
    thorough = ctx.tier == "thorough"
    from concurrent.futures import ThreadPoolExecutor
    # as-built deviations of the for-loop handling (still in the code), the repaired replace_parameter_values deviation, and
    # two variants the code does NOT have (save before check, aliases not reaching durations): TLC must refute each
    sws = (("asbuilt_ownfree", "RejectsExactly"), ("asbuilt_durmap", "NoPlaceholderLeft"), ("asbuilt_pvals", "ArgumentsPreserved"),
           ("variant_savefirst", "CacheHoldsOnlyAccepted"), ("variant_aliasdur", "RejectsExactly"),
           ("variant_delayinputs", "RejectsExactly"), ("variant_expandorder", "ArgumentsPreserved"))
    with ThreadPoolExecutor(4) as ex:
        main = ex.submit(tlc.run, "Delay", "Delay_thorough.cfg" if thorough else "Delay_quick.cfg", workers=1, timeout=1500)
        futs = [(sw, inv, ex.submit(tlc.run, "Delay", "Delay_%s.cfg" % sw, workers=1)) for sw, inv in sws]
        cex = {}
        for sw, inv, f in futs:
            r = f.result()
            ctx.add_tlc(r, "%s: counterexample expected" % sw)
            if inv not in r.violated:
                raise MachineryError("as-built switch %s: TLC did not report a violation of %s (got %s)" % (sw, inv, r.violated))
            cex[sw] = r.violated
        items = tlc_items(ctx, main.result(), "intended switches, %s family: invariants + PROG lines" % ctx.tier)
    ctx.extra["asbuilt_counterexamples"] = cex
    results = pmap(work, items)
    by_tag, by_obs, ab_agree, verdicts, second = {}, {}, 0, {}, {}
    for it, out in zip(items, results):
        ctx.programs += 1
        for t in it["tags"]:
            by_tag[t] = by_tag.get(t, 0) + 1
        for c in out["compared"]:
            by_obs[c] = by_obs.get(c, 0) + 1
        key = "%s/%s" % ("reject" if it["expect"]["reject"] else "accept", out["obs"]["verdict"])
        verdicts[key] = verdicts.get(key, 0) + 1
        for dk in out["drift"]:
            ctx.note_drift(dk)
        if "as-built model differs from the code" not in out["drift"]:
            ab_agree += 1
        for rec in out["recs"]:
            ctx.violation(rec, {"item": it})
        if "second" in out["obs"]:
            k2 = "%s/%s" % (out["obs"]["verdict"], out["obs"]["second"]["verdict"])
            second[k2] = second.get(k2, 0) + 1
        if not out["recs"] and out["obs"].get("function") == "built" and "in-loop" in it["tags"]:
            ctx.sample({"modelica": out["obs"]["text"], "expected_pairs": it["expect"]["args"], "observed_pairs": out["obs"]["args"]}, limit=2)
        if not out["recs"] and it["expect"]["reject"]:
            ctx.sample({"modelica": out["obs"]["text"], "expected": "reject", "observed": out["obs"]["exc"]["detail"]}, limit=4)
    need = ["outside", "loop", "mixed", "alias", "chain", "matrix-delay", "dur:delayed value", "opt-aliases", "opt-cache", "accept", "reject", "loop-indexed-duration", "loop-expr-free-var", "paramvals-in-delay",
            "opt-default", "opt-constvals", "opt-paramvals", "opt-expand"] + ["dur:" + c for c in (
                "constant", "parameter", "fixed input", "input", "state", "derivative", "algebraic", "time")]
    for t in need:
        if not by_tag.get(t):
            raise MachineryError("vacuous: no program with tag %s" % t)
    if by_obs.get("delay-arguments", 0) < 50 or verdicts.get("reject/reject", 0) < 50:
        raise MachineryError("vacuous: delay arguments compared on %d programs, %d rejections confirmed" % (
            by_obs.get("delay-arguments", 0), verdicts.get("reject/reject", 0)))
    # binding self-test: corrupted expectations must be reported
    good_acc = [it for it, out in zip(items, results) if not out["recs"] and out["obs"].get("function") == "built"][:4]
    good_rej = [it for it, out in zip(items, results) if not out["recs"] and it["expect"]["reject"]][:4]
    caught = 0
    for it in good_acc:
        b = json.loads(json.dumps(it))
        b["expect"]["args"][0][0][2] = [b["expect"]["args"][0][0][2][0] + 1, 1]       # duration off by one
        b2 = json.loads(json.dumps(it))
        b2["expect"]["reject"] = True
        if any(r["observable"] == "delay-arguments" for r in work(b)["recs"]) and any(r["observable"] == "verdict" for r in work(b2)["recs"]):
            caught += 1
    for it in good_rej:
        b = json.loads(json.dumps(it))
        b["expect"]["reject"] = False
        b["expect"]["args"] = [[], []]
        if any(r["observable"] == "verdict" for r in work(b)["recs"]):
            caught += 1
    if caught < len(good_acc) + len(good_rej) or not good_acc or not good_rej:
        raise MachineryError("binding self-test: corrupted expectations not all reported (%d of %d)" % (caught, len(good_acc) + len(good_rej)))
    ctx.extra["programs_by_tag"] = by_tag
    ctx.extra["observable_compared_on_programs"] = by_obs
    ctx.extra["expected/observed_verdicts"] = verdicts
    ctx.extra["first/second_request_verdicts"] = second
    n_rej2 = sum(1 for it in items if it["prog"]["opt"] == "cache" and it["expect"]["reject"])
    n_acc2 = sum(1 for it in items if it["prog"]["opt"] == "cache" and not it["expect"]["reject"])
    if n_rej2 < 5 or n_acc2 < 3 or sum(second.values()) != n_rej2 + n_acc2:
        raise MachineryError("vacuous: repeated cached requests %s (%d rejecting, %d accepting programs)" % (second, n_rej2, n_acc2))
    ctx.extra["programs_where_code_equals_asbuilt_model"] = ab_agree
    ctx.extra["binding_selftest_corruptions_caught"] = caught
    ctx.assumptions += ["transfer_model is called with cache=False and the option set of the program; the parse cache lives in a scratch XDG_CACHE_HOME",
                        "delayed input symbols get the value 0 when the argument function is evaluated (no duration or expression of the family mentions them)"]
    return {"exhaustive": True, "explanation": "every program TLC enumerated for the family was compiled by transfer_model"}


def replay(ctx, sc):
    return work(sc["item"])["recs"]
