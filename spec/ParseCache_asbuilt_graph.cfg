\* as-built state graph (no properties): source of directed histories into raise edges
CONSTANTS GoodTexts = {"g1"} BadTexts = {"b1"} Versions = {"v1","v2"} MaxDay = 1 ExpChoices = {1,30}
  MaxOps = 1000000 InitedSkipsChecks = TRUE CatchesOnlyUnpickling = TRUE FaultsIncludeRemoval = FALSE
INIT Init
NEXT Next
VIEW View
ACTION_CONSTRAINT Log
INVARIANT TypeOK
INVARIANT NoneNeverStored
CHECK_DEADLOCK FALSE
