\* family "index" (quick bounds) with the AS-BUILT switches: the operational model behaves as the pinned code.
\* No property invariant is listed: each PROG line carries the TLC verdict (model.agrees) and the rows the
\* as-built model predicts; the harness replays the disagreeing programs on the code (they must fail there too)
\* and compares the predicted rows with the code's residual (model drift otherwise).
CONSTANTS Family = "index" Tier = "quick"
  DivMapped = TRUE SlicesRangeChecked = FALSE LoopIndexRangeChecked = FALSE PartialSubscriptIsRow = FALSE CallFirstOutput = FALSE StepRangeParsed = FALSE RangeStopExact = FALSE IfStmtSequential = FALSE ExploreOptions = FALSE
INIT Init
NEXT Next
INVARIANT WellTyped
CHECK_DEADLOCK FALSE
