"""C13 - Variable metadata reports the declared attributes.

Spec: spec/Attr.tla (EXTENDS Eval.tla).  Declarative: AttrOf = attribute expression evaluated at the parameter
values, broadcast over the shape, or the default.  Operational: the representation _ast_symbols_to_variables
stores (coercion rules), variable_metadata_function incl. the is-affine test and the A p + b rebuild (dual numbers).
TLC checks MetaAgrees / TypesKept / AffineSound for every program and prints the expected attribute values at the
points where they are defined.
Binding C: generate(); Variable.value/start/min/max/nominal/fixed (MX attributes evaluated through a Function of
the parameter symbols) and variable_metadata_function(p) at the same parameter vectors; python types.
"""
import math

from vf import evalrun, ir_eval
from vf.core import MachineryError, exc_record
from vf.par import pmap

META = {
    "ready": True,
    "category": "model_checking",
    "technique": "TLA+ spec (Attr.tla on top of the Eval.tla reference semantics): declarative attribute values vs. an operational model of attribute extraction, type coercion and the affine rebuild of variable_metadata_function, model-checked by TLC for a bounded family; expected values replayed against generator.generate() (oracle mode)",
    "text": "TLC enumerates one target variable (Real/Integer/Boolean; scalar, [2], [2,2]; algebraic, state, input, parameter, constant) with attribute modifications whose expressions are literals, negative literals, array literals, 'each' values, affine and non-affine expressions of the parameters p, q, n, w[2] (alone and several attributes together), checks that the model of the generator (python-number coercion, A p + b rebuild when every expression is affine, direct evaluation otherwise) yields the declared value at 4 exact rational parameter vectors, and prints the expected values; the real Variable attributes and variable_metadata_function are compared at those vectors, together with the Python types of Integer/Boolean variables.",
    "note": "Trusted: TLC, vf/ir_eval.py, the 60-line attribute reader below. 'fixed' of Real variables is stored as 0.0/1.0: compared by value. Attribute element <-> metadata row correspondence is checked through the model's own variable lists (CasADi column-major vec order). Not covered (generator raises or cannot build the metadata function): array literals whose elements mention parameters ({p, 2*p}), attribute expressions mentioning constants; attributes of String variables; declaration bindings of non-parameters (they become equations: C08).",
    "design_ref": "DESIGN.md section 6, C13",
}

SPECIAL = {(1, 0): math.inf, (-1, 0): -math.inf, (2, 0): math.nan}


def dec(q):
    q = tuple(q)
    if q[1] == 0:
        if q not in SPECIAL:
            raise MachineryError("undefined expected value reached the harness")
        return SPECIAL[q]
    return q[0] / q[1]


def colmajor_list(vals, dims):
    if len(dims) < 2:
        return list(vals)
    r, c = dims
    return [vals[i * c + j] for j in range(c) for i in range(r)]


def _eval_attr(val, psyms, pvec, numel):
    """Variable attribute -> list of floats in column-major order, length numel"""
    pm = ir_eval.pymoca()
    ca, np = pm["ca"], pm["np"]

    def ev(x):
        if isinstance(x, ca.MX):
            f = ca.Function("a", [psyms], [x])
            return [float(v) for v in np.array(f(pvec)).reshape(-1, order="F")]
        if isinstance(x, (list, tuple)):
            rows = [ev(e) for e in x]
            if rows and all(len(r) == 1 for r in rows):
                return [r[0] for r in rows]
            # nested list = matrix given row by row -> column-major
            return [rows[i][j] for j in range(len(rows[0])) for i in range(len(rows))]
        if isinstance(x, (ca.DM, np.ndarray)):
            return [float(v) for v in np.array(x).reshape(-1, order="F")]
        return [float(x)]
    out = ev(val)
    if len(out) == 1 and numel > 1:
        out = out * numel
    return out


def judge(item):
    pm = ir_eval.pymoca()
    ca, np = pm["ca"], pm["np"]
    prog = item["prog"]
    tags = sorted(item["tags"])

    def rec(obs, detail, exc=None, sig=""):
        r = {"observable": obs, "tags": tags, "exception_type": None, "detail": detail, "sigdetail": sig}
        if exc is not None:
            r.update(exc_record(exc))
            r["detail"] = detail + " | " + r["detail"]
        return r
    try:
        model = ir_eval.generate(prog)
    except MachineryError:
        raise
    except Exception as e:
        return [rec("generate-raises", "generate() raised", e)], "exc"
    byname = {}
    for g in ("states", "alg_states", "inputs", "parameters", "constants"):
        for v in getattr(model, g):
            byname[v.symbol.name()] = (g, v)
    comps = {c["name"]: c for c in prog["comps"]}
    recs = []
    # python types
    for name, ty in zip(item["names"], item["types"]):
        if name not in byname:
            return [rec("variable-missing", "variable %s is in none of the model's lists" % name)], "missing"
        v = byname[name][1]
        if v.python_type.__name__ != ty["pytype"]:
            recs.append(rec("python-type", "%s.python_type is %s, declared type needs %s" % (name, v.python_type.__name__, ty["pytype"]), sig="python_type"))
        for a, want in zip(item["attrs"], ty["attrs"]):
            if want != "any":
                got = type(getattr(v, a)).__name__
                if got != want:
                    recs.append(rec("python-type", "%s.%s has Python type %s (%r), expected %s" % (name, a, got, getattr(v, a), want), sig="attr-type:" + a))
    psyms = ca.veccat(*[p.symbol for p in model.parameters])
    try:
        fmeta = model.variable_metadata_function
        meta_exc = None
    except MachineryError:
        raise
    except Exception as e:
        fmeta, meta_exc = None, e
        recs.append(rec("metadata-function-raises", "variable_metadata_function cannot be built", e))
    groups = ["states", "alg_states", "inputs", "parameters", "constants"]
    for p in item["pts"]:
        env = p["env"]
        try:
            pvec = []
            for par in model.parameters:
                pvec += ir_eval.colmajor(env[par.symbol.name()])
        except KeyError as e:
            return recs + [rec("variable-missing", "model parameter %s is not a parameter of the program" % e)], "missing"
        pv = ca.DM(pvec) if pvec else ca.DM.zeros(0, 1)
        out = None
        if fmeta is not None:
            try:
                out = fmeta(pv)
                out = [np.array(o) for o in (out if isinstance(out, (list, tuple)) else [out])]
            except Exception as e:
                recs.append(rec("metadata-function-raises", "variable_metadata_function(p) failed", e))
                fmeta = None
        for name, exp_attrs in zip(item["names"], p["expect"]):
            g, v = byname[name]
            dims = comps[name]["dims"]
            numel = v.symbol.size1() * v.symbol.size2()
            row0 = 0
            for w in getattr(model, g):
                if w is v:
                    break
                row0 += w.symbol.size1() * w.symbol.size2()
            for ai, a in enumerate(item["attrs"]):
                want = colmajor_list([dec(q) for q in exp_attrs[ai]], dims)
                if len(want) != numel:
                    recs.append(rec("variable-shape", "%s has %d elements, declared %d" % (name, numel, len(want))))
                    continue
                # (A) the Variable object
                try:
                    got = _eval_attr(getattr(v, a), psyms, pv, numel)
                    ok = len(got) == numel and all(ir_eval.close(x, y) for x, y in zip(got, want))
                    det = "Variable %s.%s = %s at p=%s, declared value %s" % (name, a, got, pvec, want)
                except Exception as e:
                    ok, det = False, "Variable %s.%s = %r cannot be evaluated: %s" % (name, a, getattr(v, a), e)
                if not ok and not any(r["sigdetail"] == "var:" + a for r in recs):
                    recs.append(rec("variable-attribute", det, sig="var:" + a))
                # (B) the metadata function
                if out is not None:
                    m = out[groups.index(g)]
                    gotm = [float(m[row0 + k, ai]) for k in range(numel)] if m.shape[0] >= row0 + numel and m.shape[1] == 6 else None
                    if gotm is None or not all(ir_eval.close(x, y) for x, y in zip(gotm, want)):
                        if not any(r["sigdetail"] == "meta:" + a for r in recs):
                            recs.append(rec("metadata-function", "variable_metadata_function(p=%s): %s.%s rows = %s, declared value %s" % (
                                pvec, name, a, gotm, want), sig="meta:" + a))
    return recs, "ok"


def _work(item):
    return judge(item)


def run(ctx):
    ir_eval.pymoca()
    xdg = ir_eval.scratch_env()
    try:
        items, _ = evalrun.tlc_items(ctx, "Attr", "attr", ctx.tier, cfg="Attr_%s.cfg" % ctx.tier, shards=4)
        cov = {}
        status = {}
        evals = 0
        for it, (recs, st) in zip(items, pmap(_work, items)):
            ctx.programs += 1
            evals += len(it["pts"])
            status[st] = status.get(st, 0) + 1
            for t in it["tags"]:
                cov[t] = cov.get(t, 0) + 1
            for r in recs:
                ctx.violation(r, {"item": it})
        for t in ("affine", "nonaffine", "array-lit", "each-affine", "array-affine", "defaults", "type:Integer", "type:Boolean",
                  "cat:state", "cat:parameter", "cat:constant", "cat:input", "multi", "lit-neg"):
            if not cov.get(t):
                raise MachineryError("vacuous: no program with shape tag %s" % t)
        # binding self-test: a corrupted expected attribute value must be reported on both observation routes
        import copy
        probe = next((it for it in items if it["pts"] and "affine" in it["tags"] and not judge(it)[0]), None)
        if probe is None and not ctx.violations:
            raise MachineryError("binding self-test impossible: no program of the family conforms")
        if probe is not None:      # (on a tree with violations everywhere there may be nothing clean to corrupt)
            bad = copy.deepcopy(probe)
            ai = bad["attrs"].index("nominal")
            for pt in bad["pts"]:
                pt["expect"][-1][ai] = [[7, 1] for _ in pt["expect"][-1][ai]]
            obs = {r["observable"] for r in judge(bad)[0]}
            if not {"variable-attribute", "metadata-function"} <= obs:
                raise MachineryError("binding self-test failed: corrupted expected attribute accepted (%s)" % obs)
        for it in (items[0], items[len(items) // 2], items[-1]):
            ctx.sample({"modelica": ir_eval.render(it["prog"]), "model_is_affine": it["affine"],
                        "expected_at_first_point": dict(zip(it["names"], it["pts"][0]["expect"])) if it["pts"] else None,
                        "attribute_order": it["attrs"]})
        ctx.extra["per_tag_programs"] = cov
        ctx.extra["status"] = status
    finally:
        import shutil
        shutil.rmtree(xdg, ignore_errors=True)
    ctx.assumptions += ["'fixed' of Real variables may be stored as 0.0/1.0 (compared by value)",
                        "rows of variable_metadata_function are matched to variables through the model's own lists"]
    return {"evaluations": evals, "exhaustive": True}


def replay(ctx, sc):
    ir_eval.pymoca()
    recs, _st = judge(sc["item"])
    return recs
