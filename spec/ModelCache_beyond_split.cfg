\* OUTSIDE the premise of C20 (split): TLC is EXPECTED to violate ResultIsFresh - this is where an mtime based cache stops being safe
CONSTANTS K = 2
          Editable = {"M","L1"}
          Addable = {"A"}
          OptNames = {"O1","O4"}
          Modes = {"cache"}
          Versions = {1}
          Holds = {FALSE}
          MaxClock = 3
          LibFoldersInKey = TRUE
          Beyond = {"split"}
          OptionValuesCompared = TRUE
          FreshLibHandles = TRUE
INIT Init
NEXT Next
INVARIANT TypeOK
INVARIANT ClockInv
INVARIANT ResultIsFresh
CHECK_DEADLOCK FALSE
