CONSTANTS Family = "base" OptMode = "none" ConstValuesResolved = TRUE OldAliasSignStripped = TRUE PrintProg = TRUE PrintFin = TRUE
INIT Init
NEXT Next
VIEW View
ACTION_CONSTRAINT Log
INVARIANT TypeOK
INVARIANT SolutionPreserved
INVARIANT RecordedEliminationsHold
INVARIANT SelfContained
INVARIANT MetadataMerged
PROPERTY Balance
CHECK_DEADLOCK FALSE
