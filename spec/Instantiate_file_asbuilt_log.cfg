\* drawn parameter vectors, as-built predictions
CONSTANTS Family = "file" MaxDepth = 4 Wide = TRUE
 DottedAttrAsValue = TRUE InnerArgsLoseScope = TRUE ReRenameFlatRefs = TRUE AliasOfAliasDropsMods = TRUE InheritedTypeInDerivedScope = TRUE
INIT Init
NEXT Next
VIEW View
CHECK_DEADLOCK FALSE
PROPERTY PhaseOrder
INVARIANT DeclIgnoresSpelling
