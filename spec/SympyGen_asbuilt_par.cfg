\* as-built value of SympyParenthesises only: TLC is expected to report a counterexample to MeaningPreserved
CONSTANTS SympyParenthesises = FALSE
 SafeNames = TRUE
 ClassifiesDiscrete = TRUE
 PrintsValueExpressions = TRUE
          OneListPerVariable = TRUE
          Family = "cex"
INIT Init
NEXT Next
VIEW View
INVARIANT TypeOK
INVARIANT Injective
INVARIANT ClassificationMatches
INVARIANT ValidPython
INVARIANT Constructs
INVARIANT OneSymbolPerVariable
INVARIANT MeaningPreserved
CHECK_DEADLOCK FALSE
