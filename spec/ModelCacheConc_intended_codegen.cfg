\* C21 intended, codegen mode (fresh library names, rename into place, precise cleanup); safety + liveness; TLC must pass
CONSTANTS Procs = {"p1","p2"}
          DiffOpts = TRUE
          Codegen = TRUE
          N = 2
          NL = 2
          MaxCrashes = 1
          Inits = {"none","o1"}
          Sequential = FALSE
          AtomicWrite = TRUE
          CatchUnpickle = TRUE
          UniqueLibs = TRUE
          CatchLibError = TRUE
SPECIFICATION Spec
INVARIANT TypeOK
INVARIANT NoRaise
INVARIANT ReturnsCorrect
PROPERTY Recovers
CHECK_DEADLOCK FALSE
