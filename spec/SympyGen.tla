------------------------------ MODULE SympyGen ------------------------------
(* Property C24.  pymoca's SymPy back end (backends/sympy/generator.py).

   Oracle-mode specification.  A behaviour picks one flat Modelica model
   (`prog`) from a bounded family and then runs the generator's phases as
   named actions, mirroring SympyGenerator:

       ExitSymbols      exitSymbol / exitComponentRef : flat name -> Python identifier
       ExitExpressions  exitPrimary / exitExpression / exitEquation : token sequences
       ExitClass        exitClass : the six classification lists
       PyLoad           what Python makes of the emitted module: does it compile,
                        does the constructor run, which symbols exist, and what the
                        equation list evaluates to (a recursive-descent reader of
                        Python's expression grammar + exact rational evaluation)

   The PROPERTY side is declarative and does not look at tokens or identifiers:
   residual = Eval(lhs) - Eval(rhs) on the Modelica tree, classification by
   C.5 of DESIGN.md, one distinct symbol per flat variable, module valid.
   TLC checks "operational = declarative" for every program of the family under
   the *intended* switches; with the *as-built* switches (what the pinned code
   does) TLC produces counterexamples.  Every program is also sent to the real
   generator by vf/checks/C24.py and compared with `expect`.                  *)
EXTENDS Integers, Sequences, FiniteSets, TLC, Json, IOUtils, SGRat

CONSTANTS
    SympyParenthesises,      \* operands of unary/binary operators are printed in parentheses
    SafeNames,               \* flat name -> identifier is injective and cannot meet Python's own names
    ClassifiesDiscrete,      \* a `discrete` variable is listed (as a variable)
    PrintsValueExpressions,  \* parameter/constant values that are expressions are printed
    OneListPerVariable,      \* a variable with a variability and a causality prefix (parameter input ...) is listed once
    Family                   \* which program family Init draws from

VARIABLES prog, phase, sym, src, lists, py, last
vars == <<prog, phase, sym, src, lists, py, last>>

SW == [par |-> SympyParenthesises, safe |-> SafeNames, disc |-> ClassifiesDiscrete, valx |-> PrintsValueExpressions,
       one |-> OneListPerVariable]
(* Pinned: the switches as the originally pinned code behaved (shape tags are computed from them);
   AsBuilt: as the code behaves now - all five deviations have been repaired in /repo since *)
Pinned   == [par |-> FALSE, safe |-> FALSE, disc |-> FALSE, valx |-> FALSE, one |-> FALSE]
AsBuilt  == [par |-> TRUE,  safe |-> TRUE,  disc |-> TRUE,  valx |-> TRUE,  one |-> TRUE]
Intended == [par |-> TRUE,  safe |-> TRUE,  disc |-> TRUE,  valx |-> TRUE,  one |-> TRUE]

-----------------------------------------------------------------------------
(* ---- Modelica side: names, expressions, meaning ---- *)

(* A flat name is a sequence of dotted parts; each part is a sequence of segments
   separated by a double underscore; `us` trailing underscores follow the last
   segment.  `key` is the spelling (used by the renderer and as reference key). *)
N(key, parts, us) == [key |-> key, parts |-> parts, us |-> us]

NamePool == <<
    N("x1",     << <<"x1">> >>, 0),                 \*  1 plain
    N("a.b",    << <<"a">>, <<"b">> >>, 0),         \*  2 dotted
    N("a__b",   << <<"a", "b">> >>, 0),             \*  3 spelling of the mangled form of 2
    N("a.c",    << <<"a">>, <<"c">> >>, 0),         \*  4 dotted, no twin
    N("copy",   << <<"copy">> >>, 0),               \*  5 in the generator's BUILTINS list
    N("copy_",  << <<"copy">> >>, 1),               \*  6 spelling of the escaped form of 5
    N("psi",    << <<"psi">> >>, 0),                \*  7 in BUILTINS
    N("keys",   << <<"keys">> >>, 0),               \*  8 in BUILTINS, no twin
    N("abs",    << <<"abs">> >>, 0),                \*  9 Python builtin the generated code may call
    N("sin",    << <<"sin">> >>, 0),                \* 10 function the generated module imports
    N("print",  << <<"print">> >>, 0),              \* 11 Python builtin that is never called
    N("lambda", << <<"lambda">> >>, 0),             \* 12 Python keyword
    N("self",   << <<"self">> >>, 0),               \* 13 name used by the generated constructor
    N("mech",   << <<"mech">> >>, 0),               \* 14 name used by the generated constructor
    N("a.copy", << <<"a">>, <<"copy">> >>, 0),      \* 15 dotted, last part in BUILTINS
    N("a.b__c", << <<"a">>, <<"b", "c">> >>, 0),    \* 16 \
    N("a__b.c", << <<"a", "b">>, <<"c">> >>, 0)     \* 17 /  both mangle to a__b__c
>>

(* pre: none / parameter / constant / discrete / input / output;  caus: "" or a causality prefix that follows a
   variability prefix on the same declaration (parameter input, discrete output, ...) *)
V2(name, pre, val, caus) == [key |-> name.key, parts |-> name.parts, us |-> name.us, pre |-> pre, val |-> val, caus |-> caus]
V(name, pre, val) == V2(name, pre, val, "")
Plain(k) == N(k, << <<k>> >>, 0)

(* expression nodes, uniform shape [k, n, a, v] *)
E(k, n, a, v) == [k |-> k, n |-> n, a |-> a, v |-> v]
Ref(key)     == E("ref", key, <<>>, 0)
Lit(i)       == E("lit", "", <<>>, i)
TimeE        == E("time", "", <<>>, 0)
(* a Real literal given by its decimal spelling (long mantissa, large or tiny magnitude).  TLC's integers cannot hold
   it, so the meaning is taken with the literal as a PARAMETER `dec` of the environment: the programs of the family are
   affine in it (invariant DecAffine), hence the values at dec = 0 and dec = 1 determine the value for the real literal,
   value = r0 + (r1 - r0) * literal, which the binding forms with exact rationals *)
DecL(text)   == E("dec", text, <<>>, 0)
Der(key)     == E("der", "", <<Ref(key)>>, 0)
Un(o, x)     == E("un", o, <<x>>, 0)
Call(f, x)   == E("call", f, <<x>>, 0)
Bin(o, l, r) == E("bin", o, <<l, r>>, 0)
Hole         == E("hole", "", <<>>, 0)
Eqn(l, r)    == [l |-> l, r |-> r]

RECURSIVE Eval(_, _)
Eval(e, env) ==
    CASE e.k = "ref"  -> env.val[e.n]
      [] e.k = "lit"  -> FromInt(e.v)
      [] e.k = "time" -> env.t
      [] e.k = "dec"  -> env.dec
      [] e.k = "der"  -> env.der[e.a[1].n]
      [] e.k = "un"   -> IF e.n = "-" THEN RNeg(Eval(e.a[1], env)) ELSE Eval(e.a[1], env)
      [] e.k = "call" -> Fun(e.n, Eval(e.a[1], env))
      [] e.k = "bin"  -> Arith(e.n, Eval(e.a[1], env), Eval(e.a[2], env))

Residual(eq, env) == RSub(Eval(eq.l, env), Eval(eq.r, env))

RECURSIVE HasDer(_, _)
HasDer(e, key) ==
    \/ e.k = "der" /\ e.a[1].n = key
    \/ \E i \in DOMAIN e.a : HasDer(e.a[i], key)
IsDerd(p, key) == \E q \in DOMAIN p.eqs : HasDer(p.eqs[q].l, key) \/ HasDer(p.eqs[q].r, key)

RECURSIVE Count(_, _)
Count(e, kinds) == (IF e.k \in kinds THEN 1 ELSE 0)
                   + (IF Len(e.a) >= 1 THEN Count(e.a[1], kinds) ELSE 0)
                   + (IF Len(e.a) >= 2 THEN Count(e.a[2], kinds) ELSE 0)
Uses(p, kinds) == \E q \in DOMAIN p.eqs : Count(p.eqs[q].l, kinds) + Count(p.eqs[q].r, kinds) > 0

(* evaluation points: k-th variable gets the k-th entry *)
PVal == << <<2, 3, -1, -2, 1, 3>>, <<-3, 2, 3, -1, -2, 1>>, <<3, -2, 2, 1, -1, -3>> >>
PDer == << <<-1, 2, 3, 1, -2, 2>>, <<2, -3, 1, 3, -1, -2>>, <<1, 3, -2, 2, 3, -1>> >>
PTime == <<1, 2, -2>>
NPoints == 3
Idx(p, key) == CHOOSE i \in DOMAIN p.vars : p.vars[i].key = key
Keys(p) == {p.vars[i].key : i \in DOMAIN p.vars}
EnvD(p, pt, dv) == [val |-> [k \in Keys(p) |-> FromInt(PVal[pt][Idx(p, k)])],
                    der |-> [k \in Keys(p) |-> FromInt(PDer[pt][Idx(p, k)])],
                    t   |-> FromInt(PTime[pt]),
                    dec |-> dv]
Env(p, pt) == EnvD(p, pt, Zero)

-----------------------------------------------------------------------------
(* ---- declarative side of the property ---- *)

Cat(p, i) ==
    LET v == p.vars[i] IN
    IF v.pre = "constant" THEN "c"
    ELSE IF v.pre = "parameter" THEN "p"
    ELSE IF v.pre = "input" \/ v.caus = "input" THEN "u"
    ELSE IF IsDerd(p, v.key) THEN "x"
    ELSE "v"

SelKeys(p, Test(_)) ==
    LET idx == SelectSeq([i \in DOMAIN p.vars |-> i], Test) IN [j \in DOMAIN idx |-> p.vars[idx[j]].key]

ExpectLists(p) ==
    [x |-> SelKeys(p, LAMBDA i : Cat(p, i) = "x"),
     v |-> SelKeys(p, LAMBDA i : Cat(p, i) = "v"),
     p |-> SelKeys(p, LAMBDA i : Cat(p, i) = "p"),
     c |-> SelKeys(p, LAMBDA i : Cat(p, i) = "c"),
     u |-> SelKeys(p, LAMBDA i : Cat(p, i) = "u"),
     y |-> SelKeys(p, LAMBDA i : (p.vars[i].pre = "output" \/ p.vars[i].caus = "output") /\ Cat(p, i) \in {"x", "v"})]

ExpectResD(p, dv) == [pt \in 1..NPoints |-> [q \in DOMAIN p.eqs |-> Residual(p.eqs[q], EnvD(p, pt, dv))]]
ExpectRes(p) == ExpectResD(p, Zero)

Expect(p) == [valid |-> TRUE, runs |-> TRUE, nsym |-> Len(p.vars), lists |-> ExpectLists(p), res |-> ExpectRes(p),
              res1 |-> ExpectResD(p, One)]

-----------------------------------------------------------------------------
(* ---- operational side, phase 1: identifiers (exitSymbol / exitComponentRef) ---- *)

(* the generator's BUILTINS: dir(__builtins__) evaluated inside an imported module is dir(dict) *)
BuiltinNames == {"clear", "copy", "fromkeys", "get", "items", "keys", "pop", "popitem",
                 "setdefault", "update", "values", "psi"}
PyFunNames   == {"sin", "cos", "tan", "abs"}      \* callable in the generated module
PyKeywords   == {"lambda", "pass", "is", "def", "del", "global", "try", "with", "yield", "raise", "None", "True", "False"}
ScopeNames   == {"self", "mech", "sympy"}         \* used by the generated constructor itself

RECURSIVE Flat(_)
Flat(parts) == IF parts = <<>> THEN <<>> ELSE Head(parts) \o Flat(Tail(parts))

(* identifier: structured; ns = "py" lives in Python's ordinary namespace, "m" in a reserved one *)
Id(parts, us, ns) == [parts |-> parts, us |-> us, ns |-> ns]
NoId == Id(<<>>, 0, "")
SimpleName(id) == IF id.ns = "py" /\ Len(id.parts) = 1 /\ Len(id.parts[1]) = 1 /\ id.us = 0 THEN id.parts[1][1] ELSE ""
FunId(f) == Id(<< <<f>> >>, 0, "py")

RECURSIVE Escape(_)
Escape(id) == IF SimpleName(id) \in BuiltinNames THEN Escape([id EXCEPT !.us = @ + 1]) ELSE id

PyName(v, sw) ==
    IF sw.safe THEN Id(v.parts, v.us, "m")
    ELSE Escape(Id(<<Flat(v.parts)>>, v.us, "py"))      \* "." -> "__", then "_" while in BUILTINS

Symbols(p, sw) == [k \in Keys(p) |-> PyName(p.vars[Idx(p, k)], sw)]

-----------------------------------------------------------------------------
(* ---- phase 2: token sequences (exitExpression / exitPrimary / exitEquation) ---- *)

T(t, s, v, id) == [t |-> t, s |-> s, v |-> v, id |-> id]
LP == T("lp", "(", 0, NoId)
RP == T("rp", ")", 0, NoId)
DiffT == T("diff", ".diff(self.t)", 0, NoId)
SelfT == T("selft", "self.t", 0, NoId)
OpT(o) == T("op", o, 0, NoId)
NumT(i) == T("num", "", i, NoId)
DecT(text) == T("dec", text, 0, NoId)
IdT(id) == T("id", "", 0, id)

W(ts, par) == IF par THEN <<LP>> \o ts \o <<RP>> ELSE ts

RECURSIVE Src(_, _, _)
Src(e, sy, par) ==
    CASE e.k = "ref"  -> <<IdT(sy[e.n])>>
      [] e.k = "lit"  -> <<NumT(e.v)>>
      [] e.k = "time" -> <<SelfT>>
      [] e.k = "dec"  -> <<DecT(e.n)>>
      [] e.k = "der"  -> <<LP>> \o Src(e.a[1], sy, par) \o <<RP, DiffT>>
      [] e.k = "un"   -> <<OpT(e.n)>> \o W(Src(e.a[1], sy, par), par)
      [] e.k = "call" -> <<IdT(FunId(e.n)), LP>> \o Src(e.a[1], sy, par) \o <<RP>>
      [] e.k = "bin"  -> W(Src(e.a[1], sy, par), par)
                         \o <<OpT(IF e.n = "^" THEN "**" ELSE e.n)>>
                         \o W(Src(e.a[2], sy, par), par)

EqSrc(eq, sy, par) == Src(eq.l, sy, par) \o <<OpT("-"), LP>> \o Src(eq.r, sy, par) \o <<RP>>

Sources(p, sy, sw) == [q \in DOMAIN p.eqs |-> EqSrc(p.eqs[q], sy, sw.par)]

-----------------------------------------------------------------------------
(* ---- phase 3: classification lists (exitClass) ---- *)

Prefixes(p, i) ==
    (IF p.vars[i].pre = "none" THEN <<>> ELSE <<p.vars[i].pre>>)
    \o (IF p.vars[i].caus = "" THEN <<>> ELSE <<p.vars[i].caus>>)
    \o (IF IsDerd(p, p.vars[i].key) THEN <<"state">> ELSE <<>>)     \* tree.annotate_states
InSeq(x, s) == \E j \in DOMAIN s : s[j] = x

Classify(p, sw) ==
    LET n == Len(p.vars)
        all == [i \in 1..n |-> i]
        has0(i, pf) == InSeq(pf, Prefixes(p, i))
        (* as built every prefix of the prefix list appends to its list; intended: constant > parameter > input win *)
        has(i, pf) == has0(i, pf) /\ (sw.one =>
                         CASE pf = "parameter" -> ~has0(i, "constant")
                           [] pf = "input" -> ~has0(i, "constant") /\ ~has0(i, "parameter")
                           [] pf \in {"output", "state"} -> ~has0(i, "constant") /\ ~has0(i, "parameter") /\ ~has0(i, "input")
                           [] OTHER -> TRUE)
        unpref(i) == \/ Len(Prefixes(p, i)) = 0
                     \/ sw.disc /\ \A j \in DOMAIN Prefixes(p, i) : Prefixes(p, i)[j] \in {"discrete", "flow"}
        states == SelectSeq(all, LAMBDA i : has(i, "state"))
        outs   == SelectSeq(all, LAMBDA i : has(i, "output"))
        vars0  == SelectSeq(all, LAMBDA i : unpref(i))
        vars1  == vars0 \o SelectSeq(outs, LAMBDA i : ~InSeq(i, states))
        keys(s) == [j \in DOMAIN s |-> p.vars[s[j]].key]
    IN  [x |-> keys(states),
         v |-> keys(vars1),
         p |-> keys(SelectSeq(all, LAMBDA i : has(i, "parameter"))),
         c |-> keys(SelectSeq(all, LAMBDA i : has(i, "constant"))),
         u |-> keys(SelectSeq(all, LAMBDA i : has(i, "input"))),
         y |-> keys(outs)]

Range(s) == {s[j] : j \in DOMAIN s}
ListedKeys(ls) == Range(ls.x) \cup Range(ls.v) \cup Range(ls.p) \cup Range(ls.c) \cup Range(ls.u)
(* order in which the constructor binds local names: states, variables, constants, parameters, inputs *)
BindOrder(ls) == ls.x \o ls.v \o ls.c \o ls.p \o ls.u

-----------------------------------------------------------------------------
(* ---- phase 4: Python's view of the module ---- *)

P(k, n, a, v, id) == [k |-> k, n |-> n, a |-> a, v |-> v, id |-> id]
NoE == P("bad", "", <<>>, 0, NoId)
Ok(e, i) == [ok |-> TRUE, e |-> e, i |-> i]
Bad == [ok |-> FALSE, e |-> NoE, i |-> 0]
At(ts, i, t) == i <= Len(ts) /\ ts[i].t = t
IsOp(ts, i, S) == i <= Len(ts) /\ ts[i].t = "op" /\ ts[i].s \in S

(* Python expression grammar (the part the generator can emit):
     expr    := term   { ("+"|"-") term }
     term    := factor { ("*"|"/") factor }
     factor  := ("+"|"-") factor | power
     power   := postfix [ "**" factor ]
     postfix := atom { ".diff(self.t)" | "(" expr ")" }
     atom    := identifier | number | self.t | "(" expr ")"                  *)
RECURSIVE PExpr(_, _), PExprTail(_, _, _), PTerm(_, _), PTermTail(_, _, _), PFactor(_, _),
          PPower(_, _), PPostfix(_, _), PPostTail(_, _, _), PAtom(_, _)

PAtom(ts, i) ==
    IF i > Len(ts) THEN Bad
    ELSE CASE ts[i].t = "num"   -> Ok(P("lit", "", <<>>, ts[i].v, NoId), i + 1)
           [] ts[i].t = "selft" -> Ok(P("time", "", <<>>, 0, NoId), i + 1)
           [] ts[i].t = "dec"   -> Ok(P("dec", ts[i].s, <<>>, 0, NoId), i + 1)
           [] ts[i].t = "id"    -> Ok(P("pyid", "", <<>>, 0, ts[i].id), i + 1)
           [] ts[i].t = "lp"    -> LET r == PExpr(ts, i + 1) IN
                                   IF r.ok /\ At(ts, r.i, "rp") THEN Ok(r.e, r.i + 1) ELSE Bad
           [] OTHER -> Bad

PPostTail(ts, acc, i) ==
    IF At(ts, i, "diff") THEN PPostTail(ts, P("diff", "", <<acc>>, 0, NoId), i + 1)
    ELSE IF At(ts, i, "lp") THEN
        LET r == PExpr(ts, i + 1) IN
        IF r.ok /\ At(ts, r.i, "rp") THEN PPostTail(ts, P("call", "", <<acc, r.e>>, 0, NoId), r.i + 1) ELSE Bad
    ELSE Ok(acc, i)

PPostfix(ts, i) == LET a == PAtom(ts, i) IN IF a.ok THEN PPostTail(ts, a.e, a.i) ELSE Bad

PPower(ts, i) ==
    LET b == PPostfix(ts, i) IN
    IF b.ok /\ IsOp(ts, b.i, {"**"}) THEN
        LET f == PFactor(ts, b.i + 1) IN
        IF f.ok THEN Ok(P("bin", "^", <<b.e, f.e>>, 0, NoId), f.i) ELSE Bad
    ELSE b

PFactor(ts, i) ==
    IF IsOp(ts, i, {"+", "-"}) THEN
        LET f == PFactor(ts, i + 1) IN
        IF f.ok THEN Ok(P("un", ts[i].s, <<f.e>>, 0, NoId), f.i) ELSE Bad
    ELSE PPower(ts, i)

PTermTail(ts, acc, i) ==
    IF IsOp(ts, i, {"*", "/"}) THEN
        LET f == PFactor(ts, i + 1) IN
        IF f.ok THEN PTermTail(ts, P("bin", ts[i].s, <<acc, f.e>>, 0, NoId), f.i) ELSE Bad
    ELSE Ok(acc, i)
PTerm(ts, i) == LET f == PFactor(ts, i) IN IF f.ok THEN PTermTail(ts, f.e, f.i) ELSE Bad

PExprTail(ts, acc, i) ==
    IF IsOp(ts, i, {"+", "-"}) THEN
        LET f == PTerm(ts, i + 1) IN
        IF f.ok THEN PExprTail(ts, P("bin", ts[i].s, <<acc, f.e>>, 0, NoId), f.i) ELSE Bad
    ELSE Ok(acc, i)
PExpr(ts, i) == LET f == PTerm(ts, i) IN IF f.ok THEN PExprTail(ts, f.e, f.i) ELSE Bad

PyRead(ts) == LET r == PExpr(ts, 1) IN IF r.ok /\ r.i = Len(ts) + 1 THEN r.e ELSE NoE

(* penv: val / der : identifier -> rational for the identifiers bound by the constructor *)
RECURSIVE PyEval(_, _)
PyEval(e, penv) ==
    CASE e.k = "lit"  -> FromInt(e.v)
      [] e.k = "time" -> penv.t
      [] e.k = "dec"  -> penv.dec
      [] e.k = "pyid" -> IF e.id \in DOMAIN penv.val THEN penv.val[e.id] ELSE Err
      [] e.k = "diff" -> IF e.a[1].k = "pyid" /\ e.a[1].id \in DOMAIN penv.der THEN penv.der[e.a[1].id] ELSE Err
      [] e.k = "un"   -> IF e.n = "-" THEN RNeg(PyEval(e.a[1], penv)) ELSE PyEval(e.a[1], penv)
      [] e.k = "bin"  -> Arith(e.n, PyEval(e.a[1], penv), PyEval(e.a[2], penv))
      [] e.k = "call" -> IF e.a[1].k = "pyid" /\ SimpleName(e.a[1].id) \in PyFunNames /\ e.a[1].id \notin DOMAIN penv.val
                         THEN Fun(SimpleName(e.a[1].id), PyEval(e.a[2], penv)) ELSE Err
      [] OTHER -> Err

(* the variable a bound identifier stands for: the last one bound under that name *)
LastBound(p, sy, ls, id) ==
    LET bo == BindOrder(ls)
        j  == CHOOSE j \in DOMAIN bo : sy[bo[j]] = id /\ \A k \in DOMAIN bo : sy[bo[k]] = id => k <= j
    IN  bo[j]

Load(p, sy, sr, ls, sw) ==
    LET listed == ListedKeys(ls)
        bound  == {sy[k] : k \in listed}
        idsIn(ts) == {ts[i].id : i \in {j \in DOMAIN ts : ts[j].t = "id"}}
        used   == bound \cup UNION {idsIn(sr[q]) : q \in DOMAIN sr}
        trees  == [q \in DOMAIN sr |-> PyRead(sr[q])]
        valuePrinted(k) == LET v == p.vars[Idx(p, k)] IN
                           v.pre \in {"parameter", "constant"} => (sw.valx \/ v.val \in {"none", "lit"})
        valid  == /\ \A id \in used : SimpleName(id) \notin PyKeywords
                  /\ \A q \in DOMAIN sr : trees[q] # NoE
                  /\ \A k \in listed : valuePrinted(k)
        tokOk(ts, i) == ts[i].t = "id" =>
                          IF At(ts, i + 1, "lp")
                          THEN SimpleName(ts[i].id) \in PyFunNames /\ ts[i].id \notin bound     \* a call
                          ELSE ts[i].id \in bound                                             \* a plain name
        runs   == /\ valid
                  /\ \A id \in bound : SimpleName(id) \notin ScopeNames
                  /\ \A q \in DOMAIN sr : \A i \in DOMAIN sr[q] : tokOk(sr[q], i)
        plain(k) == InSeq(k, ls.p) \/ InSeq(k, ls.c)       \* sympy.symbols: not a function of t, derivative 0
        \* identity of a sympy symbol: its name and its kind (sympy.symbols for p, c; dynamicsymbols for x, v, u)
        symobjs == {<<sy[k], TRUE>> : k \in Range(ls.p) \cup Range(ls.c)}
                   \cup {<<sy[k], FALSE>> : k \in Range(ls.x) \cup Range(ls.v) \cup Range(ls.u)}
        penv(pt, dv) == LET e == Env(p, pt) IN
                    [val |-> [id \in bound |-> e.val[LastBound(p, sy, ls, id)]],
                     der |-> [id \in bound |-> IF plain(LastBound(p, sy, ls, id)) THEN Zero ELSE e.der[LastBound(p, sy, ls, id)]],
                     t   |-> e.t, dec |-> dv]
        resD(dv) == [pt \in 1..NPoints |-> [q \in DOMAIN sr |-> IF runs THEN PyEval(trees[q], penv(pt, dv)) ELSE Err]]
    IN  [valid |-> valid, runs |-> runs, nsym |-> Cardinality(symobjs), lists |-> ls,
         res |-> resD(Zero), res1 |-> resD(One)]

(* the whole generator + Python as one function of the switches (used for tags and the as-built prediction) *)
Pred(p, sw) ==
    LET sy == Symbols(p, sw) sr == Sources(p, sy, sw) ls == Classify(p, sw) IN Load(p, sy, sr, ls, sw)

-----------------------------------------------------------------------------
(* ---- shape tags: which class of case a program is (computed from the as-built definitions) ---- *)

SameLists(a, b) == /\ Range(a.x) = Range(b.x) /\ Range(a.v) = Range(b.v) /\ Range(a.p) = Range(b.p)
                   /\ Range(a.c) = Range(b.c) /\ Range(a.u) = Range(b.u) /\ Range(a.y) = Range(b.y)
                   /\ Len(a.x) = Len(b.x) /\ Len(a.v) = Len(b.v) /\ Len(a.p) = Len(b.p)
                   /\ Len(a.c) = Len(b.c) /\ Len(a.u) = Len(b.u) /\ Len(a.y) = Len(b.y)

RECURSIVE Called(_)
Called(e) == (IF e.k = "call" THEN {e.n} ELSE {}) \cup UNION {Called(e.a[i]) : i \in DOMAIN e.a}

(* a call whose argument mentions no variable: a computer algebra system may fold it using the real function's
   value (e.g. the sign of tan(2)); such programs are checked here but not replayed *)
RECURSIVE Closed(_), HasClosedCall(_)
Closed(e) == e.k \notin {"ref", "der", "time"} /\ \A i \in DOMAIN e.a : Closed(e.a[i])
HasClosedCall(e) == (e.k = "call" /\ e.n # "abs" /\ Closed(e.a[1])) \/ \E i \in DOMAIN e.a : HasClosedCall(e.a[i])

Tags(p) ==
    LET syA == Symbols(p, Pinned)
        syI == Symbols(p, Intended)
        ids == {syA[k] : k \in Keys(p)}
        parenNeeded == \E q \in DOMAIN p.eqs :
                          PyRead(EqSrc(p.eqs[q], syI, FALSE)) # PyRead(EqSrc(p.eqs[q], syI, TRUE))
        calls == UNION {Called(p.eqs[q].l) \cup Called(p.eqs[q].r) : q \in DOMAIN p.eqs}
    IN  {p.fam}
        \cup (IF parenNeeded THEN {"paren-needed"} ELSE {"paren-free"})
        \cup (IF Cardinality(ids) < Len(p.vars) THEN {"collide"} ELSE {})
        \cup (IF \E id \in ids : SimpleName(id) \in PyKeywords THEN {"keyword"} ELSE {})
        \cup (IF \E id \in ids : SimpleName(id) \in ScopeNames THEN {"scope"} ELSE {})
        \cup (IF \E id \in ids : SimpleName(id) \in calls THEN {"shadow-call"} ELSE {})
        \cup (IF \E i \in DOMAIN p.vars : p.vars[i].pre = "discrete" THEN {"discrete"} ELSE {})
        \cup (IF \E i \in DOMAIN p.vars : p.vars[i].caus # "" THEN {"two-prefixes"} ELSE {})
        \cup (IF \E i \in DOMAIN p.vars : p.vars[i].caus # "" /\ p.vars[i].pre \in {"parameter", "constant"} THEN {"param-causality"} ELSE {})
        \cup (IF \E i \in DOMAIN p.vars : p.vars[i].pre \in {"parameter", "constant"} /\ p.vars[i].val \in {"neg", "expr"}
              THEN {"valexpr"} ELSE {})
        \cup (IF \E q \in DOMAIN p.eqs : HasClosedCall(p.eqs[q].l) \/ HasClosedCall(p.eqs[q].r) THEN {"closed-call"} ELSE {})
        \cup (IF Uses(p, {"call"}) THEN {"has-call"} ELSE {})
        \cup (IF Uses(p, {"der"}) THEN {"has-der"} ELSE {})
        \cup (IF Uses(p, {"time"}) THEN {"has-time"} ELSE {})
        \cup (IF Uses(p, {"dec"}) THEN {"decimal-literal"} ELSE {})
        \cup (IF \E i \in DOMAIN p.vars : Len(p.vars[i].parts) > 1 THEN {"dotted"} ELSE {})

-----------------------------------------------------------------------------
(* ---- program families (derived here, not in the harness) ---- *)

BinOps == {"+", "-", "*", "/", "^"}
UnS(S)       == {Un("-", x) : x \in S}
CallS(F, S)  == {Call(f, x) : f \in F, x \in S}
BinS(S1, S2) == {Bin(o, l, r) : o \in BinOps, l \in S1, r \in S2}

S0 == {Hole}
S1(F) == S0 \cup UnS(S0) \cup CallS(F, S0) \cup BinS(S0, S0)
S2(F) == S0 \cup UnS(S1(F)) \cup CallS(F, S1(F)) \cup BinS(S1(F), S1(F))
(* depth 3, but every binary node has a leaf child *)
K2(F) == S0 \cup UnS(S1(F)) \cup CallS(F, S1(F)) \cup BinS(S1(F), S0) \cup BinS(S0, S1(F))
K3(F) == S0 \cup UnS(K2(F)) \cup CallS(F, K2(F)) \cup BinS(K2(F), S0) \cup BinS(S0, K2(F))

(* fill the holes of a shape left to right from a palette of leaves *)
RECURSIVE Fill(_, _, _)
Fill(e, pal, i) ==
    IF e.k = "hole" THEN [e |-> pal[((i - 1) % Len(pal)) + 1], i |-> i + 1]
    ELSE IF Len(e.a) = 0 THEN [e |-> e, i |-> i]
    ELSE IF Len(e.a) = 1 THEN LET r == Fill(e.a[1], pal, i) IN [e |-> [e EXCEPT !.a = <<r.e>>], i |-> r.i]
    ELSE LET r1 == Fill(e.a[1], pal, i)
             r2 == Fill(e.a[2], pal, r1.i)
         IN  [e |-> [e EXCEPT !.a = <<r1.e, r2.e>>], i |-> r2.i]

FourVars == <<V(Plain("x"), "none", "none"), V(Plain("y"), "none", "none"),
              V(Plain("z"), "none", "none"), V(Plain("w"), "none", "none")>>
PalA == <<Ref("x"), Ref("y"), Ref("z"), Ref("w")>>
PalB == <<Der("x"), TimeE, Lit(2), Ref("y")>>
PalC == <<Lit(2), Ref("x"), Lit(3), Ref("y")>>        \* two literals: literal / literal is Python true division

Prog(fam, vs, eqs) == [fam |-> fam, vars |-> vs, eqs |-> eqs]

PrecProgs(shapes, pal, fam) == {Prog(fam, FourVars, <<Eqn(Ref("w"), Fill(s, pal, 1).e)>>) : s \in shapes}
(* the left-hand side is printed without parentheses as well *)
LhsProgs == {Prog("lhs", FourVars, <<Eqn(Fill(s, PalA, 1).e, r)>>) : s \in S1({}), r \in {Ref("w"), Bin("-", Ref("z"), Ref("w"))}}
            \cup {Prog("lhs", FourVars, <<Eqn(Der("x"), Fill(s, <<Ref("y"), Der("x"), Ref("x")>>, 1).e)>>) : s \in S1({"sin"})}

(* long / large / tiny decimal literals, additive, multiplicative (also on both sides, so that a tiny literal is not
   absorbed by the other terms) and as a divisor's numerator *)
DecTexts == {"3.14159265358979", "101325.25", "6.62607015e-34", "8.8541878128e-12", "1.0000000000001", "299792458.0",
             "0.000123456789012", "1e-05", "6.02214076e+23"}
DecProgs == {Prog("declit", FourVars, <<q>>) : q \in UNION {
                {Eqn(Ref("w"), DecL(t)), Eqn(Ref("w"), Bin("+", Ref("x"), DecL(t))), Eqn(Ref("w"), Bin("*", DecL(t), Ref("x"))),
                 Eqn(Ref("w"), Bin("/", Bin("-", Ref("x"), DecL(t)), Ref("y"))), Eqn(Ref("w"), Bin("*", Un("-", DecL(t)), Ref("z"))),
                 Eqn(Bin("*", DecL(t), Ref("w")), Bin("*", DecL(t), Ref("x")))} : t \in DecTexts}}

(* names: two pool names + one plain variable q; the call variant decides whether a function is applied *)
NameEqs(a, b, f) ==
    <<Eqn(Ref(a), Bin("-", Bin("*", Lit(2), Ref(b)), Ref("q"))),
      Eqn(Ref(b), Bin("+", Ref("q"), Lit(1)))>>
    \o (IF f = "" THEN <<>> ELSE <<Eqn(Ref("q"), Bin("+", Call(f, Ref(a)), Ref(b)))>>)
(* a plain name that is also the head of a dotted name cannot be declared next to it *)
Clash(a, b) == Len(a.parts) = 1 /\ Len(b.parts) > 1 /\ a.us = 0 /\ a.parts[1] = b.parts[1]
NameProgs(pairs0, funs) ==
    LET pairs == {pr \in pairs0 : ~Clash(NamePool[pr[1]], NamePool[pr[2]]) /\ ~Clash(NamePool[pr[2]], NamePool[pr[1]])} IN
    {Prog("names", <<V(NamePool[pr[1]], "none", "none"), V(NamePool[pr[2]], "none", "none"), V(Plain("q"), "none", "none")>>,
          NameEqs(NamePool[pr[1]].key, NamePool[pr[2]].key, f)) : pr \in pairs, f \in funs}
AllPairs == {pr \in (DOMAIN NamePool) \X (DOMAIN NamePool) : pr[1] # pr[2]}
HalfPairs == {pr \in AllPairs : pr[1] < pr[2]}
(* a dotted parameter next to the spelling of its mangled form, as a state *)
NameExtra == {Prog("names", <<V(NamePool[2], "parameter", "lit"), V(NamePool[3], "none", "none"), V(Plain("q"), "none", "none")>>,
                   <<Eqn(Der(NamePool[3].key), Bin("-", Ref(NamePool[2].key), Ref("q"))), Eqn(Ref("q"), Lit(1))>>)}

(* classification: every variable option; equations make each variable referenced *)
Options == << <<"none", FALSE, "none">>, <<"none", TRUE, "none">>, <<"output", FALSE, "none">>, <<"output", TRUE, "none">>,
              <<"discrete", FALSE, "none">>, <<"parameter", FALSE, "lit">>, <<"constant", FALSE, "lit">>,
              <<"input", FALSE, "none">>, <<"parameter", FALSE, "neg">>, <<"parameter", FALSE, "expr">>,
              <<"constant", FALSE, "neg">>, <<"parameter", FALSE, "none">> >>
(* variability + causality on one declaration: <<pre, caus>> *)
TwoPrefixes == {<<"parameter", "input">>, <<"constant", "input">>, <<"parameter", "output">>, <<"constant", "output">>,
                <<"discrete", "input">>, <<"discrete", "output">>}
(* one such variable next to each single-prefix option *)
Class2Progs ==
    {LET t == tp o == Options[oi]
         v1 == V2(Plain("v1"), t[1], IF t[1] \in {"parameter", "constant"} THEN "lit" ELSE "none", t[2])
         v2 == V(Plain("v2"), o[1], o[3])
         e1 == IF t[1] = "discrete" /\ t[2] = "output" THEN <<Eqn(Ref("v1"), Bin("+", Ref("v2"), Lit(1)))>> ELSE <<>>
         e2 == IF o[1] \in {"none", "output", "discrete"}
               THEN <<Eqn(IF o[2] THEN Der("v2") ELSE Ref("v2"), Bin("+", Ref("v1"), Lit(2)))>> ELSE <<>>
     IN  Prog("class", <<v1, v2>>, e1 \o e2) : tp \in TwoPrefixes, oi \in DOMAIN Options}
VName(i) == <<"v1", "v2", "v3">>[i]
ClassProg(os) ==
    LET n == Len(os)
        vs == [i \in 1..n |-> V(Plain(VName(i)), Options[os[i]][1], Options[os[i]][3])]
        nxt(i) == VName((i % n) + 1)
        hasEq(i) == Options[os[i]][1] \in {"none", "output", "discrete"}
        eq(i) == Eqn(IF Options[os[i]][2] THEN Der(VName(i)) ELSE Ref(VName(i)), Bin("+", Ref(nxt(i)), Lit(i)))
        idx == SelectSeq([i \in 1..n |-> i], hasEq)
    IN  Prog("class", vs, [j \in DOMAIN idx |-> eq(idx[j])])
ClassProgs(n) == {ClassProg(os) : os \in [1..n -> DOMAIN Options]}

QuickF == {"sin", "abs"}
(* a few shapes with each callable function above and below an operator *)
CallShapes == CallS({"abs", "cos", "tan"}, S1({})) \cup UnS(CallS({"abs", "cos", "tan"}, S0))
              \cup BinS(CallS({"abs", "tan"}, S0), S0) \cup BinS(S0, CallS({"abs", "cos"}, S0))
(* pairs in which a function name is a variable name, plus two ordinary pairs *)
FunPairs == {pr \in HalfPairs : pr[1] \in {9, 10} \/ pr[2] \in {9, 10}} \cup {<<1, 2>>, <<2, 3>>}
AllF == {"sin", "cos", "tan", "abs"}

Programs ==
    CASE Family = "quick" ->
             PrecProgs(S2({"sin"}), PalA, "prec") \cup PrecProgs(S2({}), PalB, "prec")
             \cup PrecProgs(CallShapes, PalA, "prec") \cup PrecProgs(CallShapes, PalB, "prec")
             \cup PrecProgs(K2({}), PalC, "prec") \cup LhsProgs
             \cup NameProgs(HalfPairs, {""}) \cup NameProgs(FunPairs, {"sin", "abs"}) \cup NameExtra
             \cup ClassProgs(2) \cup Class2Progs \cup DecProgs
      [] Family = "thorough" ->
             PrecProgs(S2(AllF), PalA, "prec") \cup PrecProgs(S2(AllF), PalB, "prec")
             \cup PrecProgs(K3(QuickF), PalA, "prec") \cup PrecProgs(K3({}), PalB, "prec")
             \cup PrecProgs(S2({}), PalC, "prec") \cup LhsProgs
             \cup NameProgs(AllPairs, {"", "sin", "abs"}) \cup NameExtra
             \cup ClassProgs(2) \cup ClassProgs(3) \cup Class2Progs \cup DecProgs
      [] Family = "cex" ->       \* small family on which the as-built switches must fail
             PrecProgs(K2({}), PalA, "prec") \cup NameProgs({<<2, 3>>, <<5, 6>>, <<1, 12>>, <<1, 13>>, <<1, 10>>}, {"", "sin"})
             \cup ClassProgs(1) \cup Class2Progs
      [] Family = "file" ->      \* programs drawn by the harness (deep random trees), same semantics
             LET f == JsonDeserialize(IOEnv.PROG_FILE) IN {f[i] : i \in DOMAIN f}

-----------------------------------------------------------------------------
(* ---- behaviour ---- *)

NoLists == [x |-> <<>>, v |-> <<>>, p |-> <<>>, c |-> <<>>, u |-> <<>>, y |-> <<>>]
NoPy == [valid |-> FALSE, runs |-> FALSE, nsym |-> 0, lists |-> NoLists, res |-> <<>>, res1 |-> <<>>]

Init == /\ prog \in Programs
        /\ phase = "start"
        /\ sym = <<>> /\ src = <<>> /\ lists = NoLists /\ py = NoPy
        /\ last = [act |-> "init"]

ExitSymbols ==
    /\ phase = "start"
    /\ sym' = Symbols(prog, SW)
    /\ phase' = "symbols"
    /\ last' = [act |-> "ExitSymbols"]
    /\ UNCHANGED <<prog, src, lists, py>>

ExitExpressions ==
    /\ phase = "symbols"
    /\ src' = Sources(prog, sym, SW)
    /\ phase' = "exprs"
    /\ last' = [act |-> "ExitExpressions"]
    /\ UNCHANGED <<prog, sym, lists, py>>

ExitClass ==
    /\ phase = "exprs"
    /\ lists' = Classify(prog, SW)
    /\ phase' = "class"
    /\ last' = [act |-> "ExitClass"]
    /\ UNCHANGED <<prog, sym, src, py>>

PyLoad ==
    /\ phase = "class"
    /\ py' = Load(prog, sym, src, lists, SW)
    /\ phase' = "loaded"
    /\ last' = [act |-> "PyLoad"]
    /\ UNCHANGED <<prog, sym, src, lists>>

Next == ExitSymbols \/ ExitExpressions \/ ExitClass \/ PyLoad
Spec == Init /\ [][Next]_vars

-----------------------------------------------------------------------------
(* ---- the property, as TLC-checked invariants ---- *)

(* distinct Modelica variables map to distinct Python symbols *)
Injective == phase # "start" => \A a, b \in Keys(prog) : a # b => sym[a] # sym[b]

(* the six lists are the flat model's classification *)
ClassificationMatches == phase \in {"class", "loaded"} => SameLists(lists, ExpectLists(prog))

(* the module is valid Python, and its constructor can be run to obtain the lists *)
ValidPython == phase = "loaded" => py.valid
Constructs  == phase = "loaded" => py.runs
OneSymbolPerVariable == phase = "loaded" => py.nsym = Len(prog.vars)

(* the equation list evaluates to lhs - rhs of the flat equations (wherever that is an exact rational) *)
MeaningPreserved ==
    phase = "loaded" =>
        \A pt \in 1..NPoints : \A q \in DOMAIN prog.eqs :
            /\ LET want == Residual(prog.eqs[q], Env(prog, pt)) IN want # Err => py.res[pt][q] = want
            /\ LET want == Residual(prog.eqs[q], EnvD(prog, pt, One)) IN want # Err => py.res1[pt][q] = want

(* the residuals are affine in the decimal literal: the value at dec = 2 is the one extrapolated from dec = 0 and 1 *)
DecAffine ==
    phase = "loaded" =>
        \A pt \in 1..NPoints : \A q \in DOMAIN prog.eqs :
            LET r0 == Residual(prog.eqs[q], EnvD(prog, pt, Zero))
                r1 == Residual(prog.eqs[q], EnvD(prog, pt, One))
                r2 == Residual(prog.eqs[q], EnvD(prog, pt, FromInt(2)))
                ex == RSub(RAdd(r1, r1), r0)
            IN  (Uses(prog, {"dec"}) /\ r0 # Err /\ r1 # Err /\ r2 # Err /\ ex # Err) => r2 = ex

(* printing with parentheses and reading back with Python's grammar returns the Modelica tree itself
   (a sanity theorem about the reader: under the intended switches nothing depends on precedence) *)
RECURSIVE SameTree(_, _, _)
SameTree(e, t, sy) ==
    CASE e.k = "ref"  -> t.k = "pyid" /\ t.id = sy[e.n]
      [] e.k = "lit"  -> t.k = "lit" /\ t.v = e.v
      [] e.k = "time" -> t.k = "time"
      [] e.k = "dec"  -> t.k = "dec" /\ t.n = e.n
      [] e.k = "der"  -> t.k = "diff" /\ SameTree(e.a[1], t.a[1], sy)
      [] e.k = "un"   -> t.k = "un" /\ t.n = e.n /\ SameTree(e.a[1], t.a[1], sy)
      [] e.k = "call" -> t.k = "call" /\ t.a[1].k = "pyid" /\ t.a[1].id = FunId(e.n) /\ SameTree(e.a[1], t.a[2], sy)
      [] e.k = "bin"  -> t.k = "bin" /\ t.n = e.n /\ SameTree(e.a[1], t.a[1], sy) /\ SameTree(e.a[2], t.a[2], sy)
ReaderRoundTrip ==
    (phase = "loaded" /\ SW.par) =>
        \A q \in DOMAIN prog.eqs :
            LET t == PyRead(src[q]) IN
            t.k = "bin" /\ t.n = "-" /\ SameTree(prog.eqs[q].l, t.a[1], sym) /\ SameTree(prog.eqs[q].r, t.a[2], sym)

TypeOK == phase \in {"start", "symbols", "exprs", "class", "loaded"}

-----------------------------------------------------------------------------
(* ---- output for the binding: one PROG line per program, on the last phase transition ---- *)

SetToSeq(S) == LET RECURSIVE f(_) f(R) == IF R = {} THEN <<>> ELSE LET x == CHOOSE x \in R : TRUE IN <<x>> \o f(R \ {x}) IN f(S)

View == <<prog, phase, sym, src, lists, py>>
Log ==
    IF last'.act = "PyLoad"
    THEN PrintT(<<"PROG", ToJson([prog |-> prog, tags |-> SetToSeq(Tags(prog)), expect |-> Expect(prog),
                                  points |-> [pt \in 1..NPoints |-> Env(prog, pt)],
                                  pred |-> py', asbuilt |-> Pred(prog, AsBuilt)])>>)
    ELSE TRUE
=============================================================================
