\* graph: two interleaved callers with the same options, cache mode, as the code is now (repaired)
CONSTANTS Procs = {"p1","p2"}
          DiffOpts = FALSE
          Codegen = FALSE
          N = 3
          NL = 4
          MaxCrashes = 0
          Inits = {"none","o1","trunc"}
          Sequential = FALSE
          AtomicWrite = TRUE
          CatchUnpickle = TRUE
          UniqueLibs = TRUE
          CatchLibError = TRUE
INIT Init
NEXT Next
ACTION_CONSTRAINT Log
CHECK_DEADLOCK FALSE
