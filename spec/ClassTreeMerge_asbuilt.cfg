\* as built (_extend keeps the placeholder): TLC is EXPECTED to violate PrefixConfluence
CONSTANTS MergeIntoPlaceholder = FALSE Shapes = {1,2,3,4,5,6}
INIT Init
NEXT Next
VIEW View
INVARIANT TypeOK
INVARIANT PrefixConfluence
CHECK_DEADLOCK FALSE
