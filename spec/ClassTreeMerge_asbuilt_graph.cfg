\* as built: the complete graph with what the as-built merge shows after every step (TR-log)
CONSTANTS MergeIntoPlaceholder = FALSE Shapes = {1,2,3,4,5,6}
INIT Init
NEXT Next
VIEW View
ACTION_CONSTRAINT Log
INVARIANT TypeOK
CHECK_DEADLOCK FALSE
