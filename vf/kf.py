#!/venv/bin/python
"""Edit /verif/known_findings.json under a file lock (several builders may work at once).

  kf.py add   '<json finding>'     # {"property","id","what","match":{...}}  (replaces an entry with the same id)
  kf.py fixed '<json>'             # {"property","commit","what"}
  kf.py rm    <finding id>
  kf.py list
The file is never written by a check at run time."""
import fcntl, json, os, sys
P = os.path.join(os.path.dirname(os.path.dirname(os.path.abspath(__file__))), "known_findings.json")
def main():
    cmd = sys.argv[1]
    with open(P + ".lock", "w") as lk:
        fcntl.flock(lk, fcntl.LOCK_EX)
        d = json.load(open(P)) if os.path.exists(P) else {"findings": [], "fixed": []}
        if cmd == "add":
            f = json.loads(sys.argv[2]); assert {"property", "id", "what", "match"} <= set(f)
            d["findings"] = [x for x in d["findings"] if x["id"] != f["id"]] + [f]
        elif cmd == "fixed":
            f = json.loads(sys.argv[2]); assert {"property", "commit", "what"} <= set(f)
            d["fixed"].append(f)
        elif cmd == "rm":
            d["findings"] = [x for x in d["findings"] if x["id"] != sys.argv[2]]
        elif cmd == "list":
            print(json.dumps(d, indent=1)); return
        d["findings"].sort(key=lambda x: (x["property"], x["id"]))
        json.dump(d, open(P + ".tmp", "w"), indent=1); os.replace(P + ".tmp", P)
main()
