\* connector layouts: several potential / flow variables in any order, input / output / parameter variables
CONSTANTS NComp = 2  MaxLen = 3  MaxSub = 1  WithLeaf = TRUE
          Layouts <- LayoutsRich
          AllowSelf = TRUE  Emit = TRUE
          FullLen = 2  NParts <- NPartsEnv  Part <- PartEnv
          ZeroIfNotConnectedAsInside = FALSE
INIT Init
NEXT Next
INVARIANT DictsAreComponents
INVARIANT RowsPure
INVARIANT SameSolutionsGeneric
INVARIANT SameSolutionsStructural
INVARIANT EquationCount
CHECK_DEADLOCK FALSE
