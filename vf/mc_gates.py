"""Gated execution of transfer_model for C21: module-attribute shims on
pymoca.backends.casadi.api (open / os / ca) and on distutils' linker call, a controller that lets
one thread at a time run from one file-system operation to the next, and crash injection.

Gate names are the pc values of spec/ModelCacheConc.tla:
    r_stat  r_open  r_read(k)  r_libs(i)  w_link_a(i)  w_link_b(i)  w_open  w_write(k)  w_close  w_cleanup
A thread blocked at gate g has NOT yet performed g.  Nothing here knows expected results.
"""
import os
import threading

from vf.core import MachineryError

TIMEOUT = 180


class SimulatedCrash(BaseException):
    """the process dies here (BaseException: no `except Exception` of the code under test sees it)"""


_tls = threading.local()


def current():
    return getattr(_tls, "agent", None)


class Agent:
    def __init__(self, ctl, name, fn, nchunks, chunk):
        self.ctl = ctl
        self.name = name
        self.fn = fn
        self.nchunks = nchunks      # chunks a writer splits the cache file into
        self.chunk = chunk          # chunk size in bytes (reader and writer agree on the grid)
        self.at = None              # gate the thread is blocked at: (name, k)
        self.finished = False
        self.outcome = None         # ("ok", value) | ("crashed", gate) | ("raised", exception)
        self.go = False
        self.crash = False
        self.counters = {}
        self.trace = []
        self.thread = threading.Thread(target=self._body, daemon=True)

    def _body(self):
        _tls.agent = self
        try:
            try:
                self.outcome = ("ok", self.fn())
            except SimulatedCrash:
                self.outcome = ("crashed", self.at)
            except BaseException as e:  # noqa - the observation we are after
                self.outcome = ("raised", e)
        finally:
            with self.ctl.cv:
                self.finished = True
                self.at = None
                self.ctl.cv.notify_all()

    def count(self, key):
        self.counters[key] = self.counters.get(key, 0) + 1
        return self.counters[key]

    def gate(self, name, k=0):
        """called from the agent's own thread"""
        ctl = self.ctl
        with ctl.cv:
            self.at = (name, k)
            self.trace.append((name, k))
            self.go = False
            ctl.cv.notify_all()
            if not ctl.cv.wait_for(lambda: self.go, TIMEOUT):
                raise SimulatedCrash()      # controller gone: unwind quietly
            if self.crash:
                raise SimulatedCrash()


class FreeAgent:
    """an agent without a controller: gates are passed without waiting; optional crash at one gate, and an
    optional cut of the linker output (`link_cut = (i, nbytes)`: the i-th link call dies after nbytes)"""

    def __init__(self, nchunks=1, chunk=1 << 30, crash_at=None, link_cut=None):
        self.nchunks = nchunks
        self.chunk = chunk
        self.crash_at = crash_at
        self.link_cut = link_cut
        self.counters = {}
        self.trace = []

    count = Agent.count

    def gate(self, name, k=0):
        self.trace.append((name, k))
        if self.crash_at == (name, k):
            raise SimulatedCrash()

    def run(self, fn):
        """-> ("ok", value) | ("crashed", gate) | exception propagates"""
        old = current()
        _tls.agent = self
        try:
            return ("ok", fn())
        except SimulatedCrash:
            return ("crashed", self.trace[-1:] or None)
        finally:
            _tls.agent = old


class Controller:
    def __init__(self):
        self.cv = threading.Condition()
        self.agents = {}

    def start(self, name, fn, nchunks, chunk):
        a = Agent(self, name, fn, nchunks, chunk)
        self.agents[name] = a
        with self.cv:
            a.thread.start()
            if not self.cv.wait_for(lambda: a.finished or a.at is not None, TIMEOUT):
                raise MachineryError("agent %s did not reach a gate" % name)
        return a

    def advance(self, name, crash=False):
        a = self.agents[name]
        with self.cv:
            if a.finished:
                return a
            a.crash = crash
            a.at = None
            a.go = True
            self.cv.notify_all()
            if not self.cv.wait_for(lambda: a.finished or a.at is not None, TIMEOUT):
                raise MachineryError("agent %s stuck after gate %s" % (name, a.trace[-1:]))
        return a

    def drain(self):
        """let every unfinished agent run to completion, one after the other"""
        for name in sorted(self.agents):
            a = self.agents[name]
            n = 0
            while not a.finished:
                self.advance(name)
                n += 1
                if n > 200:
                    raise MachineryError("agent %s does not terminate" % name)
        for a in self.agents.values():
            a.thread.join(TIMEOUT)


# ---------------------------------------------------------------------------------------------
# file wrappers
# ---------------------------------------------------------------------------------------------
def _is_cache_name(path):
    return ".pymoca_cache" in os.path.basename(str(path))


def _is_final_cache(path):
    return str(path).endswith(".pymoca_cache")


class GatedWriter:
    """open(path, 'wb'): truncation happens at gate w_open, the bytes go out in nchunks gated
    pwrite calls when the file is closed (a buffered writer whose flush points we control)."""

    def __init__(self, agent, path):
        self.agent = agent
        self.path = path
        self.buf = []
        self.closed = False
        agent.gate("w_open")
        self.fd = os.open(path, os.O_WRONLY | os.O_CREAT | os.O_TRUNC, 0o644)

    def write(self, b):
        self.buf.append(bytes(b))
        return len(b)

    def flush(self):
        pass

    def close(self):
        if self.closed:
            return
        self.closed = True
        try:
            data = b"".join(self.buf)
            size = self.agent.chunk
            n = max(self.agent.nchunks, -(-len(data) // size))
            for k in range(1, n + 1):
                self.agent.gate("w_write", k)
                part = data[(k - 1) * size:k * size]
                if part:
                    os.pwrite(self.fd, part, (k - 1) * size)
            if _is_final_cache(self.path):
                self.agent.gate("w_close")
        finally:
            os.close(self.fd)

    def __enter__(self):
        return self

    def __exit__(self, et, ev, tb):
        if et is not None and issubclass(et, SimulatedCrash):
            if not self.closed:
                self.closed = True
                os.close(self.fd)      # the process is gone: buffered data is lost
            return False
        self.close()
        return False


class GatedReader:
    """open(path, 'rb'): unbuffered reads on the chunk grid; entering a chunk for the first time is gate r_read(k)"""

    def __init__(self, agent, path):
        self.agent = agent
        agent.gate("r_open")
        self.fd = os.open(path, os.O_RDONLY)
        self.off = 0
        self.maxchunk = 0
        self.closed = False

    def _read_some(self, want):
        size = self.agent.chunk
        k = self.off // size + 1
        if k > self.maxchunk:
            self.maxchunk = k
            self.agent.gate("r_read", k)
        end = k * size
        data = os.pread(self.fd, min(want, end - self.off), self.off)
        self.off += len(data)
        return data

    def read(self, n=-1):
        out = []
        if n is None or n < 0:
            while True:
                d = self._read_some(1 << 20)
                if not d:
                    break
                out.append(d)
        else:
            left = n
            while left > 0:
                d = self._read_some(left)
                if not d:
                    break
                out.append(d)
                left -= len(d)
        return b"".join(out)

    def readline(self):
        out = []
        while True:
            d = self._read_some(1)
            if not d:
                break
            out.append(d)
            if d == b"\n":
                break
        return b"".join(out)

    def close(self):
        if not self.closed:
            self.closed = True
            os.close(self.fd)

    def __enter__(self):
        return self

    def __exit__(self, et, ev, tb):
        self.close()
        return False


def make_open(real_open):
    def gated_open(path, mode="r", *a, **kw):
        ag = current()
        if ag is not None and "b" in mode and _is_cache_name(path):
            if "w" in mode:
                return GatedWriter(ag, path)
            if "r" in mode and _is_final_cache(path):
                return GatedReader(ag, path)
        return real_open(path, mode, *a, **kw)
    return gated_open


class _PathProxy:
    def __init__(self, real):
        self._real = real

    def __getattr__(self, n):
        return getattr(self._real, n)

    def getmtime(self, path):
        ag = current()
        if ag is not None and _is_final_cache(path):
            ag.gate("r_stat")
        return self._real.getmtime(path)


class OsProxy:
    def __init__(self, real):
        self._real = real
        self.path = _PathProxy(real.path)

    def __getattr__(self, n):
        return getattr(self._real, n)

    def replace(self, src, dst, **kw):
        ag = current()
        if ag is not None and _is_final_cache(dst):
            ag.gate("w_close")
        return self._real.replace(src, dst, **kw)

    def remove(self, path, **kw):
        # removal of a shared library of an earlier save (cleanup after the cache file was replaced)
        ag = current()
        if ag is not None and str(path).endswith((".so", ".dll", ".dylib")) and ag.count("cleanup") == 1:
            ag.gate("w_cleanup")
        elif ag is not None and _is_final_cache(path):
            ag.gate("x_unlink")       # the code under test deletes the cache file itself (no such step in the spec)
        return self._real.remove(path, **kw)

    def unlink(self, path, **kw):
        return self.remove(path, **kw)

    def rename(self, src, dst, **kw):
        ag = current()
        if ag is not None and _is_final_cache(dst):
            ag.gate("w_close")
        return self._real.rename(src, dst, **kw)


class CaProxy:
    def __init__(self, real):
        self._real = real

    def __getattr__(self, n):
        return getattr(self._real, n)

    def external(self, *a, **kw):
        ag = current()
        if ag is not None:
            ag.gate("r_libs", ag.count("r_libs"))
        return self._real.external(*a, **kw)


class _CompilerProxy:
    """distutils compiler whose link() behaves like ld as far as other processes can see: the old output
    is unlinked, a new file appears and grows (gate w_link_b in the middle).  The bytes are the real linker's."""

    def __init__(self, real):
        self._real = real

    def __getattr__(self, n):
        return getattr(self._real, n)

    def link(self, target_desc, objects, output_filename, *a, **kw):
        ag = current()
        if ag is None:
            return self._real.link(target_desc, objects, output_filename, *a, **kw)
        i = ag.count("link")
        ag.gate("w_link_a", i)
        tmp = output_filename + ".vflink"
        self._real.link(target_desc, objects, tmp, *a, **kw)
        with open(tmp, "rb") as f:
            data = f.read()
        mode = os.stat(tmp).st_mode & 0o777
        os.remove(tmp)
        try:
            os.remove(output_filename)
        except FileNotFoundError:
            pass
        fd = os.open(output_filename, os.O_WRONLY | os.O_CREAT | os.O_EXCL, mode)
        try:
            cut = getattr(ag, "link_cut", None)
            if cut and cut[0] == i:
                os.write(fd, data[:max(0, min(len(data) - 1, cut[1] if cut[1] >= 0 else len(data) + cut[1]))])
                raise SimulatedCrash()
            half = len(data) // 2
            os.write(fd, data[:half])
            ag.gate("w_link_b", i)
            os.write(fd, data[half:])
        finally:
            os.close(fd)


class Shims:
    """context manager installing / removing every shim"""

    def __init__(self, api_module):
        self.api = api_module

    def __enter__(self):
        import builtins
        import distutils.ccompiler as cc
        a = self.api
        self.saved = (a.__dict__.get("open"), a.os, a.ca, cc.new_compiler)
        a.open = make_open(builtins.open)
        a.os = OsProxy(a.os)
        a.ca = CaProxy(a.ca)
        real_new = cc.new_compiler
        cc.new_compiler = lambda *x, **kw: _CompilerProxy(real_new(*x, **kw))
        self.cc = cc
        return self

    def __exit__(self, *exc):
        a = self.api
        op, o, c, nc = self.saved
        if op is None:
            a.__dict__.pop("open", None)
        else:
            a.open = op
        a.os = o
        a.ca = c
        self.cc.new_compiler = nc
        return False
