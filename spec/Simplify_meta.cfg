\* C16: alias classes with metadata (entries of META_FILE) x the option sets of OptMode "meta";
\* prints the programs (PROG) and every admissible final state (FIN: relation + merged attributes)
CONSTANTS Family = "meta" OptMode = "meta" ConstValuesResolved = TRUE OldAliasSignStripped = TRUE
          PrintProg = TRUE PrintFin = TRUE PrintCex = FALSE
INIT Init
NEXT Next
VIEW View
ACTION_CONSTRAINT Log
INVARIANT TypeOK
INVARIANT SolutionPreserved
INVARIANT RecordedEliminationsHold
INVARIANT SelfContained
INVARIANT MetadataMerged
PROPERTY Balance
CHECK_DEADLOCK FALSE
