\* mutation: outputs not restored - RoundTrip must FAIL
CONSTANTS XKinds = {"lit"}
          YKinds = {"none"}
          Aliases = {"none"}
          Delays = {"none"}
          Opts = {"base"}
          FKinds = {"none"}
          Typed = {FALSE}
          Strs = {FALSE}
          Outs = {TRUE}
          SwapDepClasses = FALSE
          ForgetOutputs = TRUE
          DurDepsOffByOne = FALSE
          ConstMXNotMX = FALSE
          TruthyOptions = FALSE
INIT Init
NEXT Next
INVARIANT RoundTrip
INVARIANT NoMXPickled
INVARIANT SwitchedIsFresh
CHECK_DEADLOCK FALSE
