"""Expression side of the front-end checks (C03; reused by C04 for attribute values).

* render: token list (from spec/ExprSyntax.tla) -> Modelica text, embedded in a class
* parse_checked_in / regenerate_parser: the real front end (pymoca.parser) resp. the same listener
  on a parser regenerated from the working tree's Modelica.g4
* evaluate: a small exact evaluator for the ast.* nodes the parser builds (Fractions / bools)

No expected values are computed here for the verdict: they come from TLC.  `evaluate` only interprets
what the real parser produced.
"""
import importlib.util
import os
import shutil
import subprocess
import sys
import tempfile
from fractions import Fraction

from vf.core import REPO, MachineryError

CHAR = {"SP": " ", "DQ": '"', "BS": "\\", "SQ": "'", "NL": "\n", "TAB": "\t", "QM": "?",
        "BEL": "\a", "BSP": "\b", "FF": "\f", "CR": "\r", "VT": "\v"}


def chars_to_text(names):
    return "".join(CHAR.get(c, c) for c in names)


# ---------------------------------------------------------------------------------------------
# evaluation of pymoca AST nodes


class Undefined(Exception):
    pass


class IllTyped(Exception):
    pass


class Unsupported(Exception):
    pass


def _num(x):
    if isinstance(x, bool) or not isinstance(x, Fraction):
        raise IllTyped("number expected, got %r" % (x,))
    return x


def _boo(x):
    if not isinstance(x, bool):
        raise IllTyped("Boolean expected, got %r" % (x,))
    return x


def _pow(x, y):
    _num(x), _num(y)
    if y.denominator != 1:
        raise Undefined("non-integer exponent")
    k = y.numerator
    if k < 0:
        if x == 0:
            raise Undefined("0 ^ negative")
        return Fraction(1) / (x ** (-k))
    return x ** k


def _div(x, y):
    _num(x), _num(y)
    if y == 0:
        raise Undefined("division by zero")
    return x / y


BINARY = {
    "+": lambda x, y: _num(x) + _num(y), ".+": lambda x, y: _num(x) + _num(y),
    "-": lambda x, y: _num(x) - _num(y), ".-": lambda x, y: _num(x) - _num(y),
    "*": lambda x, y: _num(x) * _num(y), ".*": lambda x, y: _num(x) * _num(y),
    "/": _div, "./": _div, "^": _pow, ".^": _pow,
    "<": lambda x, y: _num(x) < _num(y), "<=": lambda x, y: _num(x) <= _num(y),
    ">": lambda x, y: _num(x) > _num(y), ">=": lambda x, y: _num(x) >= _num(y),
    "==": lambda x, y: _num(x) == _num(y), "<>": lambda x, y: _num(x) != _num(y),
    "and": lambda x, y: _boo(x) and _boo(y), "or": lambda x, y: _boo(x) or _boo(y),
}
UNARY = {"-": lambda x: -_num(x), "+": lambda x: _num(x), "not": lambda x: not _boo(x)}


def _sign(x):
    _num(x)
    return Fraction((x > 0) - (x < 0))


def _tdiv(x, y):
    _num(x), _num(y)
    if y == 0:
        raise Undefined("div by zero")
    q = x / y
    n = abs(q.numerator) // q.denominator
    return Fraction(n if q >= 0 else -n)


CALLS = {
    ("div", 2): _tdiv,
    ("abs", 1): lambda x: abs(_num(x)),
    ("sign", 1): _sign,
    ("min", 2): lambda x, y: min(_num(x), _num(y)),
    ("max", 2): lambda x, y: max(_num(x), _num(y)),
}


def evaluate(node, env):
    """env = {"v": {name: value}, "d": {name: value of der(name)}}; values Fraction / bool."""
    from pymoca import ast
    if isinstance(node, ast.Primary):
        v = node.value
        if isinstance(v, bool):
            return v
        if isinstance(v, int):
            return Fraction(v)
        if isinstance(v, float):
            return Fraction(v)
        raise Unsupported("primary %r" % (v,))
    if isinstance(node, ast.ComponentRef):
        if node.child or node.indices != [[None]]:
            raise Unsupported("qualified / subscripted reference")
        if node.name not in env["v"]:
            raise Unsupported("unknown name %s" % node.name)
        return env["v"][node.name]
    if isinstance(node, ast.IfExpression):
        if len(node.expressions) != len(node.conditions) + 1:
            raise IllTyped("if-expression with %d conditions and %d branches" % (len(node.conditions), len(node.expressions)))
        for c, e in zip(node.conditions, node.expressions):
            if _boo(evaluate(c, env)):
                return evaluate(e, env)
        return evaluate(node.expressions[-1], env)
    if isinstance(node, ast.Expression):
        op = node.operator
        if isinstance(op, ast.ComponentRef):
            key = (op.name, len(node.operands))
            if op.child or key not in CALLS:
                raise Unsupported("call %s/%d" % key)
            return CALLS[key](*[evaluate(a, env) for a in node.operands])
        if op == "der":
            a = node.operands
            if len(a) != 1 or not isinstance(a[0], ast.ComponentRef) or a[0].child or a[0].name not in env["d"]:
                raise Unsupported("der of a non-variable")
            return env["d"][a[0].name]
        if len(node.operands) == 1 and op in UNARY:
            return UNARY[op](evaluate(node.operands[0], env))
        if len(node.operands) == 2 and op in BINARY:
            return BINARY[op](evaluate(node.operands[0], env), evaluate(node.operands[1], env))
        raise Unsupported("operator %r with %d operands" % (op, len(node.operands)))
    raise Unsupported("node %s" % type(node).__name__)


def observe(node, env):
    """value of the parsed tree as the spec encodes values: [0,n,d] / [1,b,1] / [2,0,0] undefined / [3,0,0] ill-typed;
    ["unsupported", text] if the parser built something the evaluator does not know."""
    try:
        v = evaluate(node, env)
    except Undefined:
        return [2, 0, 0]
    except IllTyped:
        return [3, 0, 0]
    except ZeroDivisionError:
        return [2, 0, 0]
    except Unsupported as e:
        return ["unsupported", str(e)]
    if isinstance(v, bool):
        return [1, 1 if v else 0, 1]
    return [0, v.numerator, v.denominator]


def env_from_spec(e):
    """spec environment (names -> value triples) -> evaluator environment"""
    def val(t):
        return bool(t[1]) if t[0] == 1 else Fraction(t[1], t[2])
    return {"v": {k: val(t) for k, t in e["v"].items()}, "d": {k: val(t) for k, t in e["d"].items()}}


# ---------------------------------------------------------------------------------------------
# embedding expressions into class text and getting them back out of the parsed tree

CONTEXTS = ("rhs", "decl", "arg", "ifcond")


def embed(texts, context="rhs", cls="M"):
    """one class holding all expressions (plus a final sentinel element carrying a string literal, so that a
    string token that runs past its closing quote cannot go unnoticed); returns the Modelica text"""
    lines = ["model %s" % cls]
    if context == "decl":
        lines += ["  parameter Real v%d = %s;" % (i, t) for i, t in enumerate(texts)]
        lines.append('  parameter String sentinel = "sentinel";')
    else:
        lines.append("equation")
        for i, t in enumerate(texts):
            if context == "rhs":
                lines.append("  v%d = %s;" % (i, t))
            elif context == "arg":
                lines.append("  v%d = fun(0, %s, 1);" % (i, t))
            elif context == "ifcond":
                lines.append("  if %s then v%d = 0; else v%d = 1; end if;" % (t, i, i))
            else:
                raise MachineryError("unknown context " + context)
        lines.append('  sentinel = "sentinel";')
    lines.append("end %s;" % cls)
    return "\n".join(lines) + "\n"


def extract(tree, n, context="rhs", cls="M"):
    """the n embedded expressions as the parser delivered them"""
    from pymoca import ast
    c = tree.classes[cls]
    if context == "decl":
        out = []
        for i in range(n):
            mod = c.symbols["v%d" % i].class_modification
            args = [a for a in mod.arguments if a.value.component.name == "value"]
            out.append(args[0].value.modifications[0])
        return out
    eqs = c.equations
    if len(eqs) != n + 1:
        raise ValueError("embedding: %d equations for %d expressions + sentinel" % (len(eqs), n))
    last = eqs[-1]
    if not (isinstance(last, ast.Equation) and isinstance(last.right, ast.Primary) and last.right.value == "sentinel"):
        raise ValueError("embedding: sentinel equation not found at the end")
    eqs = eqs[:-1]
    if context == "rhs":
        return [e.right for e in eqs]
    if context == "arg":
        return [e.right.operands[1] for e in eqs]
    if context == "ifcond":
        return [e.conditions[0] for e in eqs]
    raise MachineryError("unknown context " + context)


# ---------------------------------------------------------------------------------------------
# the real front end

def parse_checked_in(text):
    from pymoca import parser
    return parser.parse(text, bypass_cache=True)


# ANTLR's python runtime learns its prediction automata lazily, per process, and the first parses are ~50 times
# slower than later ones.  The automata live in class attributes of the generated parser, so a parent that has parsed a
# representative text BEFORE forking its workers hands them over warm.  (No expectation is involved: results are dropped.)
WARMUP_EXPRS = [
    "a + b * c - d / e ^ f", "( a .+ b ) .* ( c .- d ) ./ e .^ f", "- a ^ b + ( - c ) * d", "+ a - ( + b )",
    "a < b and c <= d or not e > f and g >= h", "a == b or c <> d", "not ( p and q ) or r and not s",
    "if p then a else b", "if a < b then c elseif p and q then d elseif not r then e else f + g",
    "( if p then a else b ) * ( if q then c else d )", "if if p then q else r then a else if s then b else c",
    "abs ( a - b ) + sign ( - c ) * min ( a , b * c ) - max ( ( a ) , d ) + div ( a , b ) + der ( e )",
    "( ( ( a ) ) + ( ( b ) * ( c ) ) )", "( a - ( b - ( c - d ) ) ) / ( ( e / f ) / g )", "( a ^ b ) ^ c + a ^ ( b ^ c )",
    "2 * 3 - 4 / 5 ^ 6", "1.5e3 + 0.25 - 2. * 1E-2 + 007", "true and false or not true", '"a string with \\"quotes\\" and \\\\ in it"',
    "9007199254740993 + 18446744073709551617", "a < - b + c", "not a < b", "p and not q or p and q",
]


def _warmup_pairs():
    """every pair of infix operators, bare and with parenthesised / prefixed / if / call operands"""
    ar = ["+", "-", "*", "/", "^", ".+", ".-", ".*", "./", ".^"]
    out = []
    for o1 in ar:
        for o2 in ar:
            if not ("^" in o1 and "^" in o2):          # a ^ b ^ c is not Modelica
                out.append("a %s b %s c" % (o1, o2))
            out.append("( a %s b ) %s ( - c )" % (o1, o2))
            out.append("abs ( a ) %s ( b %s ( if p then c else d ) )" % (o1, o2))
        for r in ("<", "<=", ">", ">=", "==", "<>"):
            out.append("a %s b %s c or not p" % (o1, r))
            out.append("if a %s b then - c %s d else max ( e , f )" % (r, o1))
    return out


def warm_up(parse, contexts=CONTEXTS):
    texts = WARMUP_EXPRS + _warmup_pairs()
    for cx in contexts:
        for i in range(0, len(texts), 40):
            quiet_parse(parse, embed(texts[i:i + 40], cx))


_REGEN = {}


def regenerate_parser(scratch):
    """Run the bundled ANTLR jar on the working tree's Modelica.g4 into `scratch` (caller removes it) and
    return parse(text) using the regenerated lexer/parser with pymoca's own ASTListener."""
    g4 = os.path.join(REPO, "src", "pymoca", "Modelica.g4")
    jars = [f for f in os.listdir(os.path.join(REPO, "antlr")) if f.endswith(".jar")]
    if not jars:
        raise MachineryError("no antlr jar under %s/antlr" % REPO)
    pkg = "regen_%d" % os.getpid()
    out = os.path.join(scratch, pkg)
    os.makedirs(out)
    shutil.copy(g4, os.path.join(scratch, "Modelica.g4"))
    cmd = ["java", "-Xmx500M", "-cp", os.path.join(REPO, "antlr", jars[0]), "org.antlr.v4.Tool", "Modelica.g4",
           "-o", out, "-visitor", "-Dlanguage=Python3"]
    p = subprocess.run(cmd, cwd=scratch, stdout=subprocess.PIPE, stderr=subprocess.STDOUT, text=True, timeout=300)
    if p.returncode != 0 or not os.path.exists(os.path.join(out, "ModelicaParser.py")):
        # a grammar that ANTLR rejects is a finding about the grammar, reported by the caller
        return None, p.stdout[-2000:]
    open(os.path.join(out, "__init__.py"), "w").close()
    sys.path.insert(0, scratch)
    try:
        lex = importlib.import_module(pkg + ".ModelicaLexer")
        par = importlib.import_module(pkg + ".ModelicaParser")
    finally:
        sys.path.remove(scratch)

    def parse(text):
        import antlr4
        from pymoca import parser as pp
        stream = antlr4.CommonTokenStream(lex.ModelicaLexer(antlr4.InputStream(text)))
        prs = par.ModelicaParser(stream)
        err = pp.ModelicaParserErrorListener()
        prs.addErrorListener(err)
        pt = prs.stored_definition()
        if err.error:
            return None
        listener = pp.ASTListener()
        antlr4.ParseTreeWalker().walk(listener, pt)
        return pp.file_to_tree(listener.file_node)

    # is generated/ in step with Modelica.g4?  compare the serialized automata, not the (re-formatted) source text
    same = {}
    try:
        from pymoca.generated import ModelicaLexer as cl, ModelicaParser as cp
        same["lexer_atn"] = list(cl.serializedATN()) == list(lex.serializedATN())
        same["parser_atn"] = list(cp.serializedATN()) == list(par.serializedATN())
    except Exception as e:  # pragma: no cover
        same["error"] = str(e)
    return parse, same


def quiet_parse(parse, text):
    """parse with ANTLR's console error output silenced; returns (tree or None, exception or None)"""
    import io
    import contextlib
    buf = io.StringIO()
    try:
        with contextlib.redirect_stderr(buf), contextlib.redirect_stdout(buf):
            return parse(text), None
    except MachineryError:
        raise
    except Exception as e:  # the code under test raised
        return None, e
