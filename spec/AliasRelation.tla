--------------------------- MODULE AliasRelation ---------------------------
(* Property C17.  Signed alias relation of pymoca's CasADi back end
   (backends/casadi/alias_relation.py), as an abstract data type under any
   history of add / remove / copy.

   A relation is a set of BLOCKS.  A block is a set of signed names <<n, s>>,
   s \in {1,-1}; singletons are implicit.  The relation is closed under
   negation: with block b it contains NegB(b).  This is exactly the "signed
   union-find closure of the added pairs minus the removed classes".

   The implementation's choice of canonical name is deliberately NOT modelled:
   the binding checks the property's requirement on it (same canonical name for
   the whole class, consistent sign) against whatever the code picked.        *)
EXTENDS Integers, Sequences, FiniteSets, TLC, Json

CONSTANTS Names,      \* universe of variable names
          MaxRel,     \* max number of live relations (original + copies)
          MaxOps      \* history length bound

VARIABLES rel,        \* sequence of relations: rel[i] is a set of blocks
          pairs,      \* history variable: per relation the set of added pairs, removed ones deleted
          ops,        \* number of operations so far
          last        \* history variable: last action (hidden by VIEW)

vars == <<rel, pairs, ops, last>>

Signed == Names \X {1, -1}
Neg(x) == <<x[1], -x[2]>>
NegB(b) == {Neg(y) : y \in b}

BlockOf(R, x) == IF \E b \in R : x \in b THEN CHOOSE b \in R : x \in b ELSE {x}

(* adding x ~ y must never relate a name to its own negation *)
Consistent(R, x, y) ==
    LET m == BlockOf(R, x) \cup BlockOf(R, y) IN m \cap NegB(m) = {}

AddTo(R, x, y) ==
    LET bx == BlockOf(R, x)
        by == BlockOf(R, y)
        m  == bx \cup by
    IN  IF y \in bx THEN R
        ELSE (R \ {bx, by, NegB(bx), NegB(by)}) \cup {m, NegB(m)}

Ids == DOMAIN rel

Init == /\ rel = <<{}>>
        /\ pairs = <<{}>>
        /\ ops = 0
        /\ last = [act |-> "init"]

Add(i, x, y) ==
    /\ Consistent(rel[i], x, y)
    /\ rel' = [rel EXCEPT ![i] = AddTo(rel[i], x, y)]
    /\ pairs' = [pairs EXCEPT ![i] = @ \cup {<<x, y>>}]
    /\ last' = [act |-> "add", r |-> i, x |-> x, y |-> y]

(* remove a whole class (and its mirror image) *)
Remove(i, b) ==
    /\ b \in rel[i]
    /\ rel' = [rel EXCEPT ![i] = @ \ {b, NegB(b)}]
    /\ pairs' = [pairs EXCEPT ![i] = {p \in @ : p[1] \notin (b \cup NegB(b))}]
    /\ last' = [act |-> "remove", r |-> i, block |-> b]

Copy(i) ==
    /\ Len(rel) < MaxRel
    /\ rel' = Append(rel, rel[i])
    /\ pairs' = Append(pairs, pairs[i])
    /\ last' = [act |-> "copy", r |-> i]

Next == /\ ops < MaxOps
        /\ ops' = ops + 1
        /\ \E i \in Ids : \/ \E x, y \in Signed : Add(i, x, y)
                          \/ \E b \in rel[i] : Remove(i, b)
                          \/ Copy(i)

Spec == Init /\ [][Next]_vars

-----------------------------------------------------------------------------
(* Property side, stated independently of AddTo: the relation is the least
   signed equivalence containing the surviving pairs.                        *)

RECURSIVE Reach(_, _)
Reach(E, S) ==   \* names reachable from the set S through pairs of E (undirected, negation-closed)
    LET step == S \cup {p[2] : p \in {q \in E : q[1] \in S}}
                  \cup {p[1] : p \in {q \in E : q[2] \in S}}
                  \cup {Neg(p[2]) : p \in {q \in E : Neg(q[1]) \in S}}
                  \cup {Neg(p[1]) : p \in {q \in E : Neg(q[2]) \in S}}
    IN  IF step = S THEN S ELSE Reach(E, step)

IsClosure == \A i \in Ids : \A x \in Signed :
                BlockOf(rel[i], x) = Reach(pairs[i], {x})

WellFormed == \A i \in Ids :
    /\ \A b \in rel[i] : /\ NegB(b) \in rel[i]
                         /\ b \cap NegB(b) = {}
                         /\ Cardinality(b) >= 2
    /\ \A b1, b2 \in rel[i] : b1 # b2 => b1 \cap b2 = {}

(* a copy evolves independently: an operation on relation i leaves every other one unchanged *)
CopyIndependent == [][\A j \in Ids : (last'.act \in {"add", "remove"} /\ last'.r # j) => rel'[j] = rel[j]]_vars

-----------------------------------------------------------------------------
View == <<rel, ops>>
ViewNoOps == rel
Log == PrintT(<<"TR", ToJson([src |-> [rel |-> rel], act |-> last', dst |-> [rel |-> rel']])>>)
=============================================================================
