\* C12: every loop / function program under all 8 (unroll_loops, inline_functions, expand_mx) option sets, INTENDED
\* switches; the invariants hold for every option set with the same declarative value.
CONSTANTS Family = "opt" Tier = "thorough"
  DivMapped = TRUE SlicesRangeChecked = TRUE LoopIndexRangeChecked = TRUE PartialSubscriptIsRow = TRUE CallFirstOutput = TRUE StepRangeParsed = TRUE RangeStopExact = TRUE IfStmtSequential = TRUE ExploreOptions = TRUE
INIT Init
NEXT Next
INVARIANT WellTyped
INVARIANT RejectsIffIndexBad
INVARIANT GenValueAgrees
CHECK_DEADLOCK FALSE
