"""Check context: verdict policy, known findings, replay files, evidence.

Verdict policy (DESIGN.md 2.3)
  * violation(record, scenario): an observable the property names differs  -> VIOLATION / KNOWN-FINDING
  * drift(kind): auxiliary spec state differs from the code                -> counted only
  * MachineryError / any unexpected harness exception                      -> exit 2
"""
import hashlib
import json
import os
import re
import sys
import time
import traceback

VERIF = os.path.dirname(os.path.dirname(os.path.abspath(__file__)))
REPO = os.environ.get("VERIF_REPO", "/repo")
GUARD = "PYMOCA_VERIF"


def setup_repo_path():
    """Import pymoca from the working tree of REPO with hooks enabled."""
    os.environ[GUARD] = "1"
    for p in (os.path.join(REPO, "src"), REPO):
        if p not in sys.path:
            sys.path.insert(0, p)


class MachineryError(Exception):
    pass


def jkey(x):
    return json.dumps(x, sort_keys=True, separators=(",", ":"), default=str)


def load_findings():
    path = os.path.join(VERIF, "known_findings.json")
    if not os.path.exists(path):
        return []
    with open(path) as f:
        return json.load(f).get("findings", [])


def finding_matches(f, prop, rec):
    if f.get("property") != prop:
        return False
    m = f.get("match", {})
    if "observable" in m and m["observable"] != rec.get("observable"):
        return False
    if "exception_type" in m and m["exception_type"] != rec.get("exception_type"):
        return False
    tags = set(rec.get("tags", []))
    if not set(m.get("tags_all", [])) <= tags:
        return False
    if m.get("tags_none") and set(m["tags_none"]) & tags:
        return False
    if "detail_regex" in m and not re.search(m["detail_regex"], str(rec.get("detail", "")), re.S):
        return False
    return True


class Ctx:
    def __init__(self, prop, tier="quick", seed=0, level="model_checking", write_evidence=True):
        self.prop = prop
        self.tier = tier
        self.seed = seed
        self.level = level
        self.t0 = time.time()
        self.findings = load_findings()
        self.violations = {}       # signature -> (record, replay path, count)
        self.known = {}            # finding id -> count
        self.drift = {}            # kind -> count
        self.samples = []
        self.states = 0
        self.transitions = 0
        self.traces = 0
        self.programs = 0
        self.tlc_cmds = []
        self.extra = {}
        self.assumptions = []
        # evidence is only ever written for runs against /repo itself
        self.write_evidence = write_evidence and os.path.realpath(REPO) == "/repo"
        self.max_print = 20

    # ---- TLC bookkeeping -------------------------------------------------
    def add_tlc(self, res, what=""):
        self.states += res.distinct
        self.transitions += res.generated
        self.tlc_cmds.append({"cmd": res.cmd, "distinct": res.distinct, "generated": res.generated,
                              "wall_s": round(res.wall, 2), "what": what,
                              "violated": res.violated, "deadlock": res.deadlock})

    # ---- verdicts --------------------------------------------------------
    def signature(self, rec):
        s = jkey([rec.get("observable"), sorted(rec.get("tags", [])), rec.get("exception_type"),
                  rec.get("sigdetail", "")])
        return hashlib.sha1(s.encode()).hexdigest()[:12]

    def violation(self, rec, scenario):
        """rec: {observable, tags, exception_type, detail, [sigdetail]}; scenario: JSON-able, enough to re-run."""
        for f in self.findings:
            if finding_matches(f, self.prop, rec):
                self.known[f["id"]] = self.known.get(f["id"], 0) + 1
                if self.known[f["id"]] == 1:
                    self.extra.setdefault("known_finding_examples", {})[f["id"]] = {"record": rec, "scenario": scenario}
                return "known"
        sig = self.signature(rec)
        if sig in self.violations:
            self.violations[sig][2] += 1
            return "violation"
        d = os.path.join(VERIF, "replays", self.prop)
        os.makedirs(d, exist_ok=True)
        path = os.path.join(d, sig + ".json")
        with open(path, "w") as f:
            json.dump({"property": self.prop, "seed": self.seed, "signature": sig, "record": rec,
                       "scenario": scenario}, f, indent=1, default=str)
        self.violations[sig] = [rec, path, 1]
        if len(self.violations) <= self.max_print:
            print("VIOLATION property=%s replay=%s" % (self.prop, path), flush=True)
            print("  what: %s | tags=%s | exc=%s | %s" % (rec.get("observable"), ",".join(rec.get("tags", [])),
                                                        rec.get("exception_type"), str(rec.get("detail"))[:300]),
                  flush=True)
        return "violation"

    def note_drift(self, kind, n=1):
        self.drift[kind] = self.drift.get(kind, 0) + n

    def sample(self, s, limit=5):
        if len(self.samples) < limit:
            self.samples.append(s)

    # ---- finish ----------------------------------------------------------
    def finish(self, *, evaluations=None, distinct_nontrivial=None, rule=None, exhaustive=None, explanation=None):
        for f in self.findings:
            if f["id"] in self.known:
                print("KNOWN-FINDING: property=%s %s [%s, %d occurrence(s) this run]" %
                      (self.prop, f["what"], f["id"], self.known[f["id"]]), flush=True)
        cov = {
            "states": self.states,
            "transitions": self.transitions,
            "traces_validated_against_impl": self.traces,
            "samples": self.samples or ["(none)"],
            "programs": self.programs,
            "drift": self.drift,
            "known_findings_hit": self.known,
            "tlc_runs": self.tlc_cmds,
        }
        if evaluations is not None:
            cov["evaluations"] = evaluations
        if distinct_nontrivial is not None:
            cov["distinct_nontrivial"] = distinct_nontrivial
        if rule is not None:
            cov["rule"] = rule
        if exhaustive is not None:
            cov["exhaustive"] = exhaustive
        if explanation is not None:
            cov["explanation"] = explanation
        cov.update(self.extra)
        # the schema's standard counters stay integers even if a check put details under the same key
        std = {"states": self.states, "transitions": self.transitions, "programs": self.programs,
               "traces_validated_against_impl": self.traces}
        for k, v in std.items():
            if not isinstance(cov.get(k), int) or isinstance(cov.get(k), bool):
                cov[k + "_detail"] = cov.get(k)
                cov[k] = v
        if cov["traces_validated_against_impl"] == 0 and cov["programs"] > 0:
            # oracle mode: every program is one behaviour of the spec (pick, phases, expected observable)
            # that was replayed into the implementation and compared
            cov["traces_validated_against_impl"] = cov["programs"]
            cov["traces_note"] = "oracle mode: one spec behaviour per program, each replayed into the implementation"
        ev = {
            "property_id": self.prop,
            "tier": self.tier,
            "seed": self.seed,
            "level": self.level,
            "coverage": cov,
            "assumptions": self.assumptions,
            "wall_s": round(time.time() - self.t0, 2),
            "violations": sum(v[2] for v in self.violations.values()),
        }
        if self.write_evidence:
            d = os.path.join(VERIF, "evidence")
            os.makedirs(d, exist_ok=True)
            tmp = os.path.join(d, ".%s.%d.tmp" % (self.prop, os.getpid()))
            with open(tmp, "w") as f:
                json.dump(ev, f, indent=1, default=str)
            os.replace(tmp, os.path.join(d, self.prop + ".json"))
        nv = len(self.violations)
        print("%s %s: tier=%s seed=%d states=%d transitions=%d traces/programs=%d/%d violations=%d(distinct %d) known=%s drift=%s wall=%.1fs" % (
            self.prop, "FAIL" if nv else "ok", self.tier, self.seed, self.states, self.transitions, self.traces,
            self.programs, ev["violations"], nv, dict(self.known), dict(self.drift), ev["wall_s"]), flush=True)
        return 1 if nv else 0


def exc_record(e):
    return {"exception_type": type(e).__name__, "detail": "%s: %s" % (type(e).__name__, str(e)[:500])}


def short_tb(e, n=6):
    return "".join(traceback.format_exception(type(e), e, e.__traceback__)[-n:])
