\* C20 intended (quick): option sets differing only in the value of a non-boolean option, both modes
CONSTANTS K = 2
          Editable = {"M"}
          Addable = {}
          OptNames = {"O1","O5","O6"}
          Modes = {"cache","codegen"}
          Versions = {1,2}
          Holds = {FALSE}
          MaxClock = 1000000
          LibFoldersInKey = TRUE
          Beyond = {}
          OptionValuesCompared = TRUE
          FreshLibHandles = TRUE
INIT Init
NEXT Next
VIEW View
INVARIANT TypeOK
INVARIANT ClockInv
INVARIANT ResultIsFresh
PROPERTY ResultIsFreshAct
INVARIANT HitImpliesFresh
PROPERTY EditInvalidates
PROPERTY TransferLeavesValidCache
PROPERTY HitIsReadOnly
CHECK_DEADLOCK FALSE
