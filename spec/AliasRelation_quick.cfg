\* exhaustive: 3 names, original + 1 copy, histories up to 6 operations; TR-log on
CONSTANTS Names = {"a","b","c"} MaxRel = 2 MaxOps = 6
INIT Init
NEXT Next
VIEW View
ACTION_CONSTRAINT Log
INVARIANT WellFormed
INVARIANT IsClosure
PROPERTY CopyIndependent
CHECK_DEADLOCK FALSE
