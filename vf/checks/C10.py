"""C10 - Generated CasADi model classifies every variable exactly once.

Spec: spec/Classify.tla, oracle mode (binding C).
  * a program = one or two variables (variability keyword x causality keyword x type x the way der() is applied:
    not / directly / der() nested inside an expression / der of an expression / inside the sub-component's own
    equations / only in an initial equation) declared in the top model or in a sub-component; TLC derives the
    library, runs Parse / Flatten / AnnotateStates / Classify (the if-elif chain of generator.exitClass) and checks
    them against the property's precedence list (constant > parameter > top-level input > differentiated > algebraic),
    partition, der_states = der(states) position by position, outputs, declaration order inside every list.
  * every program is rendered, compiled with pymoca.backends.casadi.generator.generate and the eight lists and
    Model.outputs are compared with the expected ones.
"""
import copy
import os
from concurrent.futures import ThreadPoolExecutor

from vf import tlc, par, ir_flat
from vf.core import MachineryError, exc_record, jkey

META = {
    "ready": True,
    "category": "model_checking",
    "technique": "TLA+ model of prefix parsing, flattening, StateAnnotator's in_der walk and the if/elif chain of the CasADi "
                 "generator's exitClass (Classify.tla), checked by TLC against the property's precedence list, partition, "
                 "state/derivative bijection, outputs and order clauses; used as oracle for generator.generate on every "
                 "program of the family",
    "text": "All 204 single-variable programs (4 variability keywords x 3 causality keywords x Real/Integer/Boolean/String x "
            "6 der() usages x top-level/nested) and all pairs over 16 core kinds (quick; every kind x core kind in thorough) "
            "are enumerated by TLC, which checks the chain against the declarative category, exactly-once membership, "
            "der_states[i] = der(states[i]), outputs = output-prefixed states and algebraics, and declaration order within a "
            "class instance; each program is compiled by pymoca and Model.states/der_states/alg_states/inputs/parameters/"
            "constants/string_parameters/string_constants/outputs must contain exactly the expected names, same-instance "
            "variables in declaration order.",
    "note": "Trusted: TLC, vf/ir_flat.py (printer, list reader). Order across different class instances and the position-by-"
            "position pairing of states and der_states are compared but only counted as drift (the statement does not fix "
            "them). Not covered: arrays, delay-generated inputs, aliases, functions, for/if equations.",
    "design_ref": "DESIGN.md section 5 (C10), Appendix C.5",
}

PROCS = min(16, os.cpu_count() or 4, int(os.environ.get("VERIF_PROCS", "16")))
LISTS = ("states", "alg_states", "inputs", "parameters", "constants", "string_parameters", "string_constants")


def run_spec(ctx, cfg, what, shards=None, expect_violation=False):
    shards = shards or max(1, min(PROCS, 4))

    def one(k):
        return tlc.run("Classify", cfg, workers=1, env={"NSHARDS": str(shards), "SHARD": str(k),
                                                                "JAVA_TOOL_OPTIONS": "-XX:ParallelGCThreads=2 -XX:CICompilerCount=2"}, deadlock=False, timeout=1500)

    with ThreadPoolExecutor(shards) as ex:
        results = list(ex.map(one, range(shards)))
    progs = []
    for k, r in enumerate(results):
        ctx.add_tlc(r, "%s [shard %d/%d]" % (what, k, shards))
        if r.violated and not expect_violation:
            raise MachineryError("spec Classify (%s) violates %s - spec defect\n%s" % (cfg, r.violated, r.cex[:3000]))
        progs += r.tr("PROG")
    return progs, results


def observe(lib, top):
    text = ir_flat.render_library(lib)
    try:
        from pymoca import parser
        from pymoca.backends.casadi import generator
        t = parser.parse(text, bypass_cache=True)
        if t is None:
            raise SyntaxError("pymoca.parser.parse returned None")
        model = generator.generate(t, top)
    except MachineryError:
        raise
    except Exception as e:
        return "exc", exc_record(e)
    return "ok", ir_flat.project_model(model)


def compare(exp, obs, groups):
    """-> (violations [(observable, detail)], drift kinds)"""
    bad, drift = [], []
    for l in LISTS:
        if sorted(exp[l]) != sorted(obs[l]):
            bad.append(("category-membership", "%s = %s expected %s" % (l, obs[l], exp[l])))
    allobs = [n for l in LISTS for n in obs[l]]
    dup = sorted({n for n in allobs if allobs.count(n) > 1})
    if dup:
        bad.append(("category-membership", "%s listed more than once" % dup))
    if sorted(obs["der_states"]) != sorted("der(%s)" % s for s in obs["states"]):
        bad.append(("state-derivative-bijection", "der_states %s for states %s" % (obs["der_states"], obs["states"])))
    elif obs["der_states"] != ["der(%s)" % s for s in obs["states"]]:
        drift.append("der_states-not-positionally-aligned")
    if sorted(exp["outputs"]) != sorted(obs["outputs"]):
        bad.append(("outputs", "outputs = %s expected %s" % (obs["outputs"], exp["outputs"])))
    for l in LISTS:
        for g in groups:
            sub = [n for n in obs[l] if n in g]
            want = [n for n in g if n in sub]
            if sub != want:
                bad.append(("declaration-order", "%s lists %s, declared in the order %s" % (l, sub, want)))
        if not bad and obs[l] != exp[l]:
            drift.append("cross-instance-order-differs")
    if not bad and obs["outputs"] != exp["outputs"]:
        drift.append("outputs-order-differs")       # outputs is not a category: its order is not fixed by the property
    return bad, drift


def check_prog(item):
    prog, asb = item
    kind, obs = observe(prog["lib"], prog["top"])
    res = {"kind": kind, "bad": [], "drift": [], "pred": False}
    if kind == "exc":
        res["exc"] = obs
        return res
    res["bad"], res["drift"] = compare(prog["expect"], obs, prog["groups"])
    if res["bad"] and asb is not None:
        res["pred"] = not compare(asb, obs, prog["groups"])[0]      # the as-built model predicts exactly this outcome
    res["obs"] = obs if res["bad"] else None
    return res


def records_for(prog, r):
    tags = sorted(prog["ctags"]) + ["asbuilt-predicted" if r["pred"] else "not-asbuilt-predicted"]
    shape = ",".join(sorted(prog["tags"]))
    if r["kind"] == "exc":
        rec = dict(r["exc"], observable="exception", tags=tags)
        rec["detail"] = "%s | shape %s" % (rec["detail"].replace("\n", " | ")[:300], shape)
        return [rec]
    out = []
    for obsname in sorted({b[0] for b in r["bad"]}):
        out.append({"observable": obsname, "tags": tags, "exception_type": None,
                    "detail": "%s | shape %s" % ("; ".join(b[1] for b in r["bad"] if b[0] == obsname)[:400], shape)})
    return out


def run(ctx):
    thorough = ctx.tier == "thorough"
    cfg = "Classify_thorough.cfg" if thorough else "Classify_quick.cfg"
    progs, _ = run_spec(ctx, cfg, "intended parser: chain = precedence list, exactly once, der bijection, outputs, order")
    if not progs:
        raise MachineryError("vacuous: no program printed")
    abp, _ = run_spec(ctx, "Classify_asbuilt_log_thorough.cfg" if thorough else "Classify_asbuilt_log_quick.cfg",
                      "as-built parser (glued two-keyword prefixes): predictions used to qualify failures")
    ab = {jkey(q["pv"]): q["expect"] for q in abp}
    items = [(p, ab.get(jkey(p["pv"]))) for p in progs]
    out = par.pmap(check_prog, items, PROCS)
    cover = {}
    for (p, _), r in zip(items, out):
        ctx.programs += 1
        for t in p["tags"]:
            cover[t] = cover.get(t, 0) + 1
        for rec in records_for(p, r):
            ctx.violation(rec, {"pv": p["pv"], "top": p["top"], "lib": p["lib"], "text": ir_flat.render_library(p["lib"]),
                                "expect": p["expect"], "groups": p["groups"], "tags": p["tags"], "ctags": p["ctags"],
                                "asbuilt": ab.get(jkey(p["pv"]))})
        for d in r["drift"]:
            ctx.note_drift(d)
        if r["kind"] == "ok" and not r["bad"] and len(p["pv"]["vs"]) == 2:
            ctx.sample({"text": ir_flat.render_library(p["lib"]), "expected": p["expect"]}, limit=4)
    need = ["level-top", "level-nested", "n1", "n2", "type-Real", "type-Integer", "type-Boolean", "type-String",
            "der-none", "der-direct", "der-inexpr", "der-ofexpr", "der-nested", "der-initial", "der-aftersub", "der-initafter",
            "cat-constant", "cat-parameter", "cat-input", "cat-state", "cat-alg", "two-keyword-prefix", "alias-type", "builtin-type"]
    # the combination nested component x input/output keyword x alias type must be present
    if not any(p["pv"]["level"] == "nested" and any(k["alias"] and k["io"] == io for k in p["pv"]["vs"]) for p in progs for io in ("input",)) \
            or not any(p["pv"]["level"] == "nested" and any(k["alias"] and k["io"] == "output" for k in p["pv"]["vs"]) for p in progs):
        raise MachineryError("vacuous: no nested input/output variable of alias type in the family")
    missing = [t for t in need if not cover.get(t)]
    if missing:
        raise MachineryError("vacuous: shapes never generated: %s" % missing)
    _, ab_res = run_spec(ctx, "Classify_asbuilt.cfg", "as-built parser: TLC is expected to report a violation", shards=1,
                         expect_violation=True)
    violated = sorted({v for r in ab_res for v in r.violated})
    if not violated:
        raise MachineryError("as-built configuration of Classify.tla no longer violates any invariant")
    # binding self-test
    p0 = copy.deepcopy(next(p for (p, _), r in zip(items, out) if r["kind"] == "ok" and not r["bad"] and p["expect"]["states"]
                            and len(p["pv"]["vs"]) == 2))
    q = copy.deepcopy(p0)
    q["expect"]["alg_states"] = q["expect"]["alg_states"] + [q["expect"]["states"][0]]
    q["expect"]["states"] = q["expect"]["states"][1:]
    r = check_prog((q, None))
    if r["kind"] != "ok" or not r["bad"]:
        raise MachineryError("binding self-test: corrupted expectation (state moved to alg_states) not noticed: %s" % (r,))
    q = copy.deepcopy(p0)
    q["groups"] = [list(reversed(g)) for g in q["groups"]]
    two_same = [l for l in LISTS if len([n for n in p0["expect"][l] if n in p0["groups"][0]]) == 2]
    if two_same and not check_prog((q, None))["bad"] and check_prog((q, None))["kind"] == "ok":
        raise MachineryError("binding self-test: reversed declaration order not noticed")
    ctx.traces += len(progs)
    ctx.extra["per_tag_coverage"] = dict(sorted(cover.items()))
    ctx.extra["asbuilt_violated_invariants"] = violated
    ctx.assumptions += ["list membership is compared as sets, same-instance variables by relative order; order across class "
                        "instances and positional alignment of der_states are drift only"]
    return {"exhaustive": True}


def replay(ctx, sc):
    r = check_prog(({"lib": sc["lib"], "top": sc["top"], "expect": sc["expect"], "groups": sc["groups"]}, sc.get("asbuilt")))
    return records_for({"tags": sc["tags"], "ctags": sc["ctags"]}, r)
