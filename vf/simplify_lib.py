"""Shared adapter for C14 / C15 / C16 (spec/Simplify.tla, spec/SimplifyTrace.tla).

Trusted base: the pretty-printer of the spec's program IR (fully parenthesised), the projection of a real
pymoca casadi Model to names/counts/values, exact integer linear algebra (rank by fraction-free
elimination on Python ints / Fractions).  No expected-value logic lives here: programs, solutions, tags,
the affinity flag and the merged metadata all come from TLC evaluating spec/Simplify.tla.
"""
import json
import logging
import math
import os
import tempfile
from fractions import Fraction

from vf import tlc
from vf.core import MachineryError, exc_record

MAIN9 = ["replace_parameter_expressions", "replace_constant_expressions", "eliminate_constant_assignments",
         "replace_parameter_values", "replace_constant_values", "eliminable_variable_expression",
         "factor_and_simplify_equations", "detect_aliases", "reduce_affine_expression"]
AUX = ["expand_mx", "expand_vectors", "resolve_parameter_values", "allow_derivative_aliases",
       "iterative_simplification"]
PASSES = ["expand_vectors_sx", "resolve_parameter_values", "replace_parameter_expressions",
          "replace_constant_expressions", "eliminate_constant_assignments", "replace_parameter_values",
          "replace_constant_values", "eliminable_variable_expression", "expand_vectors_mx",
          "factor_and_simplify_equations", "detect_aliases", "reduce_affine_expression", "expand_mx"]
VECTOR_NAMES = ["states_vector", "der_states_vector", "alg_states_vector", "inputs_vector"]
FAILURE_WARNINGS = ("exceeded maximum iteration limit",)
INF = 1000          # sentinel of the spec for an infinite bound
# which knob of a blueprint a pass works on (used to form the shape class of a violation)
PASS_KNOB = {"resolve_parameter_values": "par", "replace_parameter_expressions": "par",
             "replace_constant_expressions": "par", "replace_parameter_values": "par",
             "replace_constant_values": "par", "eliminate_constant_assignments": "cst",
             "eliminable_variable_expression": "elim", "detect_aliases": "ali",
             "factor_and_simplify_equations": "row", "reduce_affine_expression": "core"}


# ----------------------------------------------------------------------------------------------
# rendering (pure pretty printer)
def rx(e):
    k = e["k"]
    if k == "lit":
        return str(e["v"]) if e["v"] >= 0 else "(-%d)" % -e["v"]
    if k == "sym":
        return e["n"]
    if k == "neg":
        return "(-%s)" % rx(e["a"][0])
    op = {"add": "+", "sub": "-", "mul": "*"}[k]
    return "(%s %s %s)" % (rx(e["a"][0]), op, rx(e["a"][1]))


def _bound(v):
    if v >= INF:
        return None
    if v <= -INF:
        return None
    return v


def render(prog, name="M"):
    lines = ["model %s" % name]
    for v in prog["vars"]:
        cat = v["cat"]
        if cat == "D":
            continue
        at = v.get("attr") or {}
        mods = []
        if at:
            if -INF < at["min"]:
                mods.append("min = %s" % rx({"k": "lit", "v": at["min"]}))
            if at["max"] < INF:
                mods.append("max = %s" % rx({"k": "lit", "v": at["max"]}))
            if at["nom"] != 0:
                mods.append("nominal = %d" % at["nom"])
            if at["fixed"]:
                mods.append("fixed = true")
            if at["sset"]:
                mods.append("start = %s" % rx({"k": "lit", "v": at["start"]}))
        m = "(%s)" % ", ".join(mods) if mods else ""
        prefix = {"S": "", "A": "", "I": "input ", "P": "parameter ", "K": "constant "}[cat]
        val = ""
        if cat in "PK" and v["val"]["k"] != "nan":
            val = " = %s" % rx(v["val"])
        lines.append("  %sReal %s%s%s;" % (prefix, v["n"], m, val))
    lines.append("equation")
    for e in prog["eqs"]:
        lines.append("  %s = %s;" % (rx(e["l"]), rx(e["r"])))
    if prog["ieqs"]:
        lines.append("initial equation")
        for e in prog["ieqs"]:
            lines.append("  %s = %s;" % (rx(e["l"]), rx(e["r"])))
    lines.append("end %s;" % name)
    return "\n".join(lines) + "\n"


def real_options(opts):
    o = {}
    for k in MAIN9 + AUX:
        if k == "eliminable_variable_expression":
            o[k] = "e_.*" if k in opts else None
        else:
            o[k] = k in opts
    return o


# ----------------------------------------------------------------------------------------------
# exact linear algebra
def to_exact(x):
    if isinstance(x, float):
        if math.isnan(x) or math.isinf(x):
            raise ValueError("non-finite entry")
        r = round(x)
        if abs(x - r) < 1e-9:
            return Fraction(r)
        return Fraction(x).limit_denominator(10 ** 6)
    return Fraction(x)


def rank(rows):
    m = [[to_exact(x) for x in r] for r in rows]
    if not m:
        return 0
    rk, ncol = 0, len(m[0])
    for c in range(ncol):
        p = next((i for i in range(rk, len(m)) if m[i][c] != 0), None)
        if p is None:
            continue
        m[rk], m[p] = m[p], m[rk]
        for i in range(rk + 1, len(m)):
            if m[i][c] != 0:
                f = m[i][c] / m[rk][c]
                m[i] = [a - f * b for a, b in zip(m[i], m[rk])]
        rk += 1
        if rk == len(m):
            break
    return rk


# ----------------------------------------------------------------------------------------------
# projection of a real model
def sname(x):
    return [x[1:], -1] if x.startswith("-") else [x, 1]


def blocks_of(rel):
    """non-trivial signed classes of a real AliasRelation, as sorted lists of [name, sign]"""
    out = set()
    for a in list(rel._aliases.keys()):
        b = frozenset(rel.aliases(a))
        if len(b) > 1:
            out.add(b)
    return sorted(sorted(sname(x) for x in b) for b in out)


def snapshot(model):
    import casadi as ca
    names = lambda vs: [v.symbol.name() for v in vs]
    eqs = list(model.equations)
    ieqs = list(model.initial_equations)
    neq = sum(int(e.size1() * e.size2()) for e in eqs)
    syms = set()
    for lst in (eqs, ieqs):
        if lst:
            for s in ca.symvar(ca.veccat(*lst)):
                syms.add(s.name())
    return {"S": names(model.states), "D": names(model.der_states), "A": names(model.alg_states),
            "I": names(model.inputs), "P": names(model.parameters), "K": names(model.constants),
            "neq": neq, "nieq": sum(int(e.size1() * e.size2()) for e in ieqs), "syms": sorted(syms),
            "blocks": blocks_of(model.alias_relation)}


class _LogCatcher(logging.Handler):
    def __init__(self):
        super().__init__(level=logging.WARNING)
        self.msgs = []

    def emit(self, record):
        try:
            self.msgs.append(record.getMessage())
        except Exception:       # pragma: no cover
            self.msgs.append(str(record.msg))


def _num(x):
    """python number of a numeric attribute/value (float, int, DM, constant MX); None if symbolic"""
    import casadi as ca
    if isinstance(x, (int, float)):
        return float(x)
    if isinstance(x, ca.DM):
        return float(x) if x.numel() == 1 else None
    if isinstance(x, ca.MX):
        if x.is_constant() and x.numel() == 1:
            return float(x)
        return None
    try:
        return float(x)
    except Exception:
        return None


def _value_at(model, expr, env):
    """evaluate a (possibly symbolic) attribute expression over parameter/constant symbols at env"""
    import casadi as ca
    n = _num(expr)
    if n is not None:
        return n
    syms = ca.symvar(expr)
    vals = []
    for s in syms:
        if s.name() not in env:
            raise KeyError(s.name())
        vals.append(env[s.name()])
    f = ca.Function("v", syms, [expr])
    return float(f(*vals)) if syms else float(f())


def run_program(prog, opts, per_pass_eval=False, want_trace=True):
    """generate + simplify(options) on the real code.  Returns an observation dict (JSON-able)."""
    import casadi as ca
    from pymoca import parser
    from pymoca.backends.casadi import generator
    from pymoca.backends.casadi import model as cmodel
    from pymoca.backends.casadi.alias_relation import AliasRelation

    obs = {"failure": None, "warnings": [], "trace": None, "checks": {}, "final": None}
    sol = prog["sol"]
    txt = render(prog)
    logger = logging.getLogger("pymoca")
    catcher = _LogCatcher()
    old_level = logger.level
    try:
        tree = parser.parse(txt, bypass_cache=True)
        if tree is None:
            raise MachineryError("rendered program does not parse:\n" + txt)
        model = generator.generate(tree, "M", {})
    except MachineryError:
        raise
    except Exception as e:
        obs["failure"] = dict(exc_record(e), stage="generate")
        return obs
    before = snapshot(model)
    events = [dict(before, ev="begin", opts=sorted(opts))]
    perpass = []

    def hook(name, m):
        snap = snapshot(m)
        events.append(dict(snap, ev="pass", name=name))
        if per_pass_eval:
            perpass.append((name, evaluate(m, prog, snap)))

    orig_add = AliasRelation.add

    def add(self, a, b):
        orig_add(self, a, b)
        if self is model.alias_relation:
            events.append({"ev": "add", "x": sname(a), "y": sname(b), "blocks": blocks_of(self)})

    cmodel._VERIF_HOOK = hook
    AliasRelation.add = add
    logger.addHandler(catcher)
    logger.setLevel(logging.WARNING)
    try:
        model.simplify(real_options(opts))
    except MachineryError:
        raise
    except Exception as e:
        obs["failure"] = dict(exc_record(e), stage="simplify")
        events.append({"ev": "raise", "exc": type(e).__name__})
    finally:
        cmodel._VERIF_HOOK = None
        AliasRelation.add = orig_add
        logger.removeHandler(catcher)
        logger.setLevel(old_level)
    obs["warnings"] = catcher.msgs
    if want_trace:
        obs["trace"] = events
    if obs["failure"] is None:
        events.append({"ev": "end"})
        final = snapshot(model)
        obs["final"] = final
        obs["before"] = {k: before[k] for k in ("S", "D", "A", "I", "P", "K", "neq", "nieq")}
        obs["checks"] = evaluate(model, prog, final)
        obs["checks"]["balance_before"] = len(before["S"]) + len(before["A"]) - before["neq"]
        obs["checks"]["balance_after"] = len(final["S"]) + len(final["A"]) - final["neq"]
        obs["checks"]["attrs"] = attributes(model, sol)
        if per_pass_eval:
            obs["perpass"] = perpass
    return obs


def evaluate(model, prog, snap):
    """property observables of a (partly) simplified real model at the projected solution"""
    import casadi as ca
    sol = prog["sol"]
    out = {"residual_function": None, "initial_residual_function": None, "residual": None,
           "initial_residual": None, "rank": None, "n_unknowns": None, "n_eq": None,
           "alias_bad": [], "const_bad": [], "param_bad": [], "unprojectable": []}
    missing = [n for k in "SDAIP" for n in snap[k] if n not in sol]
    out["unprojectable"] = missing
    # eliminations recorded: alias signs
    for canonical, aliases in model.alias_relation:
        for a in aliases:
            n, s = sname(a)
            if n in sol and canonical in sol and sol[n] != s * sol[canonical]:
                out["alias_bad"].append([canonical, a, sol[canonical], sol[n]])
    # constants: the value the model records, and whether it is the value in the solution
    env = {n: float(sol[n]) for n in sol}
    cvals = []
    for v in model.constants:
        n = v.symbol.name()
        try:
            x = _value_at(model, ca.MX(v.value), env)
        except KeyError as e:
            out["const_bad"].append([n, "value refers to unknown symbol %s" % e])
            x = float(sol.get(n, 0))
        except Exception as e:
            out["const_bad"].append([n, "value cannot be evaluated: %s" % str(e)[:100]])
            x = float(sol.get(n, 0))
        if n in sol and not (isinstance(x, float) and math.isnan(x)) and x != sol[n]:
            out["const_bad"].append([n, x, sol[n]])
        if isinstance(x, float) and math.isnan(x):
            x = float(sol.get(n, 0))
        cvals.append(x)
    for v in model.parameters:
        n = v.symbol.name()
        try:
            x = _value_at(model, ca.MX(v.value), env)
        except Exception:
            continue
        if n in sol and not math.isnan(x) and x != sol[n]:
            out["param_bad"].append([n, x, sol[n]])
    if missing:
        return out
    vec = lambda names: ca.DM([float(sol[n]) for n in names]) if names else ca.DM.zeros(0, 1)
    args = [ca.DM(0.0), vec(snap["S"]), vec(snap["D"]), vec(snap["A"]), vec(snap["I"]),
            ca.DM(cvals) if cvals else ca.DM.zeros(0, 1), vec(snap["P"])]
    for key, attr in (("residual", "dae_residual_function"), ("initial_residual", "initial_residual_function")):
        try:
            f = getattr(model, attr)
            out[key + "_function"] = "ok"
        except Exception as e:
            out[key + "_function"] = "%s: %s" % (type(e).__name__, " ".join(str(e).split())[-240:])
            continue
        try:
            if f.n_out() == 0:
                out[key] = []
                r = None
            else:
                r = f(*args)
                out[key] = [float(x) for x in ca.vec(r).full().ravel()]
        except Exception as e:
            out[key + "_function"] = "call failed %s: %s" % (type(e).__name__, " ".join(str(e).split())[-240:])
            continue
        if key == "residual":
            out["n_eq"] = len(out[key])
            out["n_unknowns"] = len(snap["D"]) + len(snap["A"])
            if f.n_out() and out["n_unknowns"]:
                try:
                    ins = [ca.MX.sym("i%d" % i, f.size_in(i)) for i in range(f.n_in())]
                    res = ca.vec(f(*ins))
                    J = ca.Function("J", ins, [ca.jacobian(res, ca.vertcat(ins[2], ins[3]))])
                    jm = J(*args).full().tolist()
                    out["rank"] = rank(jm)
                except ValueError as e:
                    out["rank"] = "non-finite"
            else:
                out["rank"] = 0
    return out


def attributes(model, sol):
    """metadata of the variables that stand for an alias class (C16) + their metadata-function rows"""
    import casadi as ca
    out = {}
    try:
        f = model.variable_metadata_function
        pv = [float(sol.get(v.symbol.name(), 0)) for v in model.parameters]
        res = f(ca.DM(pv) if pv else ca.DM.zeros(0, 1))
        if not isinstance(res, (list, tuple)):
            res = [res]
        rows = {}
        for lst, block in zip([model.states, model.alg_states, model.inputs, model.parameters, model.constants], res):
            arr = block.full() if block.numel() else []
            for i, v in enumerate(lst):
                rows[v.symbol.name()] = [float(x) for x in arr[i]] if len(arr) > i else None
        fn_err = None
    except Exception as e:
        rows, fn_err = {}, "%s: %s" % (type(e).__name__, " ".join(str(e).split())[-200:])
    env = {n: float(sol[n]) for n in sol}
    from pymoca.backends.casadi.model import _DefaultValue
    for canonical, aliases in model.alias_relation:
        v = None
        for lst in (model.states, model.der_states, model.alg_states, model.inputs, model.parameters, model.constants):
            for x in lst:
                if x.symbol.name() == canonical:
                    v = x
        if v is None:
            out[canonical] = {"missing": True}
            continue
        rec = {"aliases": sorted(aliases), "sset": not isinstance(v.start, _DefaultValue)}
        for a in ("min", "max", "nominal", "fixed", "start"):
            try:
                rec[a] = _value_at(model, ca.MX(getattr(v, a)), env)
            except Exception as e:
                rec[a] = "error %s" % type(e).__name__
        rec["row"] = rows.get(canonical)
        out[canonical] = rec
    out["__metadata_function__"] = fn_err
    return out


# ----------------------------------------------------------------------------------------------
# TLC side
def tlc_programs(ctx, cfg, env=None, what="programs", workers=1):
    res = tlc.run("Simplify", cfg, workers=workers, env=env or {}, deadlock=False, timeout=3000,
                  spec_dir=os.environ.get("VERIF_SPEC_DIR", tlc.SPEC))
    ctx.add_tlc(res, what)
    if res.violated:
        raise MachineryError("spec Simplify violates %s under %s (a spec defect, not a pymoca verdict):\n%s" % (
            res.violated, cfg, res.cex[:3000]))
    return res


def write_json(obj, prefix):
    fd, path = tempfile.mkstemp(suffix=".json", prefix=prefix)
    with os.fdopen(fd, "w") as f:
        json.dump(obj, f)
    return path


def shape_tags(prog, pass_name=None):
    tags = list(prog.get("tags", []))
    if pass_name:
        knob = PASS_KNOB.get(pass_name)
        tags = [t for t in tags if knob and t.startswith(knob + ":")]
        tags.append("pass:" + pass_name)
    return sorted(tags)


def validate_traces(ctx, traces, what, batch=400):
    """binding B: one TLC run per batch of recorded traces; returns {index in traces: REJ record}"""
    rejected = {}
    for off in range(0, len(traces), batch):
        chunk = traces[off:off + batch]
        path = write_json(chunk, "simtr_")
        try:
            res = tlc.run("SimplifyTrace", "SimplifyTrace.cfg", workers=1, env={"TRACE_FILE": path},
                          deadlock=False, timeout=1800)
        finally:
            os.unlink(path)
        if ctx is not None:
            ctx.add_tlc(res, what)
        if res.violated:
            raise MachineryError("SimplifyTrace violates %s" % res.violated)
        done = res.tr("DONE")
        if not done or done[-1]["traces"] != len(chunk):
            raise MachineryError("SimplifyTrace did not reach the end of the batch (an event could not be "
                                 "explained or rejected): %s" % res.out[-1500:])
        for r in res.tr("REJ"):
            rejected[off + r["tid"] - 1] = r
        if sorted(done[-1]["rejected"]) != sorted(r["tid"] for r in res.tr("REJ")):
            raise MachineryError("REJ lines and DONE.rejected disagree")
    return rejected
