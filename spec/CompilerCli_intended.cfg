\* intended behaviour (all switches TRUE): TLC must pass
\* quick family: every invocation within 2 changes of a base call (no 3-change sample: SampleDev = 9 disables it; thorough has it)
CONSTANTS MaxDev = 2  SampleDev = 9  MaxPaths = 2  MaxModels = 2  MaxModelsRich = 2  MaxOpts = 2
          CliCountsTranslateFailures = TRUE  CliCatchesTranslateErrors = TRUE  CliCountsMissingModelFile = TRUE
          Emit = FALSE  NParts <- NPartsEnv  Part <- PartEnv
INIT Init
NEXT Next
INVARIANT StatusIsCount
INVARIANT NeverCrashes
INVARIANT NoWorkAfterUsageError
INVARIANT SumOfSingles
PROPERTY ErrorsMonotone
PROPERTY PerModelIndependent
CHECK_DEADLOCK FALSE
