\* intended behaviour (all switches TRUE): TLC must pass
\* thorough family A: path sets up to 3, up to 2 models; 3-change invocations: share C26_PART of C26_NPARTS (16)
CONSTANTS MaxDev = 2  SampleDev = 3  MaxPaths = 3  MaxModels = 2  MaxModelsRich = 2  MaxOpts = 2
          CliCountsTranslateFailures = TRUE  CliCatchesTranslateErrors = TRUE  CliCountsMissingModelFile = TRUE
          Emit = FALSE  NParts <- NPartsEnv  Part <- PartEnv
INIT Init
NEXT Next
INVARIANT StatusIsCount
INVARIANT NeverCrashes
INVARIANT NoWorkAfterUsageError
INVARIANT SumOfSingles
PROPERTY ErrorsMonotone
PROPERTY PerModelIndependent
CHECK_DEADLOCK FALSE
