\* C18 family (quick), AS-BUILT: a list-valued attribute of an array inside an array of components is indexed with
\* the whole index tuple (TypeError).  No invariant listed: PROG lines carry modelraises; the harness replays.
CONSTANTS Tier = "quick" NestedAttrByOwnDims = FALSE
INIT Init
NEXT Next
INVARIANT NamesAgree
INVARIANT RenamingFaithful
CHECK_DEADLOCK FALSE
