\* intended switches; all families incl. every grammatical type prefix; section interleavings up to 4 sections
CONSTANTS
  Switches <- Intended
  Families = {"clause", "prefixes", "sections", "struct", "structwide", "dup", "comments"}
  MaxSections = 4
INIT Init
NEXT Next
VIEW View
ACTION_CONSTRAINT Emit
INVARIANT OperationalIsDeclarative
INVARIANT NoSharedObjects
INVARIANT NoSharedSubLists
INVARIANT OrdersIncrease
INVARIANT HeapWellFormed
INVARIANT NamesUnique
PROPERTY CounterMonotone
PROPERTY TypesStable
CHECK_DEADLOCK FALSE
