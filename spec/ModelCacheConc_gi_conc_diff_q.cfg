\* graph (quick): two interleaved callers with different options, cache mode, 2 chunks, as the code is now (repaired)
CONSTANTS Procs = {"p1","p2"}
          DiffOpts = TRUE
          Codegen = FALSE
          N = 2
          NL = 4
          MaxCrashes = 0
          Inits = {"none","o1","trunc"}
          Sequential = FALSE
          AtomicWrite = TRUE
          CatchUnpickle = TRUE
          UniqueLibs = TRUE
          CatchLibError = TRUE
INIT Init
NEXT Next
ACTION_CONSTRAINT Log
CHECK_DEADLOCK FALSE
