\* intended switches, thorough family: TLC must pass; PROG lines feed the replay
CONSTANTS LoopDelayOwnFreeVars = TRUE LoopDurationMapped = TRUE ParamValuesReachDelays = TRUE
          ChecksBeforeSave = TRUE AliasesReachDurations = TRUE
          DelayInputsForbidden = TRUE ExpandKeepsElements = TRUE
          Family = "thorough"
INIT Init
NEXT Next
VIEW View
ACTION_CONSTRAINT Log
INVARIANT TypeOK
INVARIANT RejectsExactly
INVARIANT ArgumentsPreserved
INVARIANT NoPlaceholderLeft
INVARIANT CacheHoldsOnlyAccepted
INVARIANT SameAnswerTwice
CHECK_DEADLOCK FALSE
