\* C07 thorough: hierarchy family to depth 3, wider prefix / split domains, intended switches
CONSTANTS Family = "hier" MaxDepth = 3 Wide = TRUE
 DottedAttrAsValue = FALSE InnerArgsLoseScope = FALSE ReRenameFlatRefs = FALSE AliasOfAliasDropsMods = FALSE InheritedTypeInDerivedScope = FALSE
INIT Init
NEXT Next
VIEW View
CHECK_DEADLOCK FALSE
PROPERTY PhaseOrder
INVARIANT DeclIgnoresSpelling
INVARIANT OpEqualsDecl
INVARIANT SpellingInvariance
INVARIANT OneVariablePerLeaf
INVARIANT CanonicalAccepted
INVARIANT ModsArriveInOrder
INVARIANT NothingPending
