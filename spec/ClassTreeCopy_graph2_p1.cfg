\* intended state graph, quotient by the value state, 2 trees, packaged library, universe p1 (R.Inner n / E9 / remove+add, P.Comp m; live flatten of Q.D): every transition logged (TR)
CONSTANTS DeepCopyRebindsParents = TRUE CopyHookBoundToCopy = TRUE FlattenCopiesTop = FALSE
          Lib = "pkg" Universe = "p1" MaxTrees = 2 MaxOps = 1000000
INIT Init
NEXT Next
VIEW ViewVal
ACTION_CONSTRAINT Log
INVARIANT PointerSemanticsIsValueSemantics
CHECK_DEADLOCK FALSE
