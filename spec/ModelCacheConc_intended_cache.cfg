\* C21 intended, cache mode: two looping callers with different options, 3 chunks, 2 crashes, any initial disk state; safety + liveness; TLC must pass
CONSTANTS Procs = {"p1","p2"}
          DiffOpts = TRUE
          Codegen = FALSE
          N = 3
          NL = 2
          MaxCrashes = 2
          Inits = {"none","o1","trunc"}
          Sequential = FALSE
          AtomicWrite = TRUE
          CatchUnpickle = TRUE
          UniqueLibs = TRUE
          CatchLibError = TRUE
SPECIFICATION Spec
INVARIANT TypeOK
INVARIANT NoRaise
INVARIANT ReturnsCorrect
PROPERTY Recovers
CHECK_DEADLOCK FALSE
