\* C19 family B (quick): delays, options, typed variables, strings, outputs
CONSTANTS XKinds = {"pdep"}
          YKinds = {"lit"}
          Aliases = {"none","neg"}
          Delays = {"none","lit","par","par_lit","par_par2","sum"}
          Opts = {"base","aliases","rcv","ev","eva","evb","rpv"}
          FKinds = {"none","lit","pdep"}
          Typed = {TRUE}
          Strs = {TRUE}
          Outs = {TRUE}
          SwapDepClasses = FALSE
          ForgetOutputs = FALSE
          DurDepsOffByOne = FALSE
          ConstMXNotMX = FALSE
          TruthyOptions = FALSE
INIT Init
NEXT Next
INVARIANT RoundTrip
INVARIANT NoMXPickled
INVARIANT SwitchedIsFresh
CHECK_DEADLOCK FALSE
