\* intended behaviour, 2 good + 1 bad text, 2 versions (+dirty), days 0..1
CONSTANTS GoodTexts = {"g1","g2"} BadTexts = {"b1"} Versions = {"v1","v2"} MaxDay = 1 ExpChoices = {0,1,30}
  MaxOps = 1000000 InitedSkipsChecks = FALSE CatchesOnlyUnpickling = FALSE FaultsIncludeRemoval = FALSE
INIT Init
NEXT Next
VIEW View
INVARIANT TypeOK
PROPERTY ResultIsFresh
PROPERTY NeverRaises
INVARIANT NoneNeverStored
PROPERTY RowsOnlyLeaveWhenExpiredOrLost
CHECK_DEADLOCK FALSE
