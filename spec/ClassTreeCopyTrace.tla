------------------------ MODULE ClassTreeCopyTrace ------------------------
(* Evaluation of GIVEN histories with ClassTreeCopy (C06).

   The batch file (env TRACE_FILE) is a JSON array of histories; a history is
   a JSON array of actions as the spec itself logs them:
     {"act":"deepcopy","i":1}  {"act":"add_symbol","i":2,"c":"Leaf","s":"u"}
     {"act":"remove_equation","i":1,"c":"Leaf","e":"E1"}  {"act":"add_class","i":1,"c":"Leaf"} ...
   Every action must be enabled (by the value semantics); for every step TLC
   prints what the pointer semantics - with the switches of the cfg, i.e. the
   as-built ones - shows for every class of every tree (EV lines).  The check
   uses this to decide whether a deviation it observed on the real code is
   exactly the one the as-built model predicts.                              *)
EXTENDS ClassTreeCopy, IOUtils, TLCExt, SequencesExt

Batch == JsonDeserialize(IOEnv.TRACE_FILE)

VARIABLES tid, l
tvars == <<val, obj, roots, ops, hist, last, tid, l>>

TInit == Init /\ tid = 1 /\ l = 1

Ev == Batch[tid][l]
Is(a) == tid <= Len(Batch) /\ l <= Len(Batch[tid]) /\ Ev.act = a /\ l' = l + 1 /\ tid' = tid

TStep == \/ Is("deepcopy") /\ Ev.i \in Trees /\ DeepCopy(Ev.i)
         \/ Is("add_symbol") /\ Ev.i \in Trees /\ AddSymbol(Ev.i, Ev.c, Ev.s)
         \/ Is("remove_symbol") /\ Ev.i \in Trees /\ RemoveSymbol(Ev.i, Ev.c, Ev.s)
         \/ Is("add_equation") /\ Ev.i \in Trees /\ AddEquation(Ev.i, Ev.c, Ev.e)
         \/ Is("remove_equation") /\ Ev.i \in Trees /\ RemoveEquation(Ev.i, Ev.c, Ev.e)
         \/ Is("add_initial_equation") /\ Ev.i \in Trees /\ AddInitialEquation(Ev.i, Ev.c, Ev.e)
         \/ Is("remove_initial_equation") /\ Ev.i \in Trees /\ RemoveInitialEquation(Ev.i, Ev.c, Ev.e)
         \/ Is("add_class") /\ Ev.i \in Trees /\ AddClass(Ev.i, Ev.c)
         \/ Is("remove_class") /\ Ev.i \in Trees /\ RemoveClass(Ev.i, Ev.c)
         \/ Is("flatten") /\ Ev.i \in Trees /\ FlattenLive(Ev.i, Ev.c)

TNextTrace == /\ tid <= Len(Batch) /\ l = Len(Batch[tid]) + 1
              /\ tid' = tid + 1 /\ l' = 1
              /\ val' = <<PristineVal>>
              /\ obj' = InitObjs
              /\ roots' = <<1>> /\ ops' = 0 /\ hist' = <<>> /\ last' = [act |-> "init"]

TNext == TStep \/ TNextTrace

TView == <<val, obj, roots, tid, l>>
At == IF last'.act = "init" THEN TRUE
      ELSE PrintT(<<"EV", ToJson([tid |-> tid, l |-> l, act |-> last'.act, raises |-> last'.raises,
                                  expect |-> last'.expect, asbuilt |-> last'.asbuilt, parents |-> last'.parents])>>)
Accepted == TLCGet("stats").diameter = 1 + Len(Batch) + FoldSeq(LAMBDA t, acc : acc + Len(t), 0, Batch)
=============================================================================
