\* intended switches, quick family: TLC must pass; PROG lines feed the replay
CONSTANTS SympyParenthesises = TRUE SafeNames = TRUE ClassifiesDiscrete = TRUE PrintsValueExpressions = TRUE
          OneListPerVariable = TRUE
          Family = "quick"
INIT Init
NEXT Next
VIEW View
ACTION_CONSTRAINT Log
INVARIANT TypeOK
INVARIANT Injective
INVARIANT ClassificationMatches
INVARIANT ValidPython
INVARIANT Constructs
INVARIANT OneSymbolPerVariable
INVARIANT MeaningPreserved
INVARIANT DecAffine
INVARIANT ReaderRoundTrip
CHECK_DEADLOCK FALSE
