\* lists the programs of the blueprints drawn by the harness (env BP_FILE)
CONSTANTS Family = "file" OptMode = "none" ConstValuesResolved = TRUE OldAliasSignStripped = TRUE
          PrintProg = TRUE PrintFin = FALSE PrintCex = FALSE
INIT Init
NEXT Next
VIEW View
ACTION_CONSTRAINT Log
INVARIANT TypeOK
CHECK_DEADLOCK FALSE
