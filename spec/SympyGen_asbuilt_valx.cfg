\* as-built value of PrintsValueExpressions only: TLC is expected to report a counterexample to ValidPython
CONSTANTS SympyParenthesises = TRUE
 SafeNames = TRUE
 ClassifiesDiscrete = TRUE
 PrintsValueExpressions = FALSE
          OneListPerVariable = TRUE
          Family = "cex"
INIT Init
NEXT Next
VIEW View
INVARIANT TypeOK
INVARIANT Injective
INVARIANT ClassificationMatches
INVARIANT ValidPython
INVARIANT Constructs
INVARIANT OneSymbolPerVariable
INVARIANT MeaningPreserved
CHECK_DEADLOCK FALSE
