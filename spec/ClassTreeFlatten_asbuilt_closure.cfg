\* as built: the operational touched-set bookkeeping equals the declarative read-after-write conflict
CONSTANTS CopyOnLookup = FALSE SympyCopies = TRUE LibIds = {1,2,3,4,5,6,7,8,9,10,11} MaxReq = 3
          Backends = {"flatten","casadi","sympy","xml"}
INIT Init
NEXT Next
INVARIANT SeenIsConflict
CHECK_DEADLOCK FALSE
