\* as-built state graph up to equality of the rewritten-object set; every transition logged (TR)
CONSTANTS CopyOnLookup = FALSE SympyCopies = TRUE LibIds = {1,2,3,4,5,6,7,8,9,10,11} MaxReq = 1000000
          Backends = {"flatten","casadi","sympy","xml"}
INIT Init
NEXT Next
VIEW ViewQuot
ACTION_CONSTRAINT Log
CHECK_DEADLOCK FALSE
