"""C19 - Cached and code-generated models equal fresh compiles.

Spec: spec/ModelCacheRT.tla (oracle mode).  TLC enumerates a bounded family of programs (attribute
representation kinds x variable categories, aliases, delay-duration dependencies, typed variables, string
parameter, outputs, option sets), derives the abstract compiled model, runs Save and Load on it and checks
RoundTrip (Load(Save(m)) = m for every parameter value) and NoMXPickled; three mutated variants must fail.
Binding C: every program printed by TLC is rendered as Modelica text and sent through transfer_model twice
(miss, then hit) in cache mode, and in codegen mode for a directed subset; the loaded CachedModel is compared
with the fresh Model: names, order, shapes, python types, aliases, attribute values at 3 parameter vectors,
outputs, delay states, string parameters, alias relation, the four functions at 3 integer points and the
reconstructed delay arguments.  The dependency classification that save_model stored is compared with the
spec's prediction (drift only).
"""
import gc
import json
import os
import pickle
import shutil
import tempfile
from concurrent.futures import ThreadPoolExecutor

from vf import tlc, par
from vf import mc_common as mc
from vf.core import MachineryError, exc_record

META = {
    "ready": True,
    "category": "model_checking",
    "technique": "TLA+ reference model of save_model/load_model (ModelCacheRT.tla) checked by TLC for every program of a bounded family (oracle mode); every program rendered to Modelica and run through transfer_model (cache; codegen on a subset), loaded model compared with the fresh compile",
    "text": "TLC enumerates the program family (quick 240, thorough 4644 programs: 3 representation kinds for each of 4 attributes of a state and of an alias partner, 3 alias relations, 6 delay-duration dependency patterns, 6 option sets incl. two that differ only in the value of a non-boolean option, typed variables, string parameter, output), checks RoundTrip and NoMXPickled on the abstract Save/Load and prints each program with the predicted dependency classification; each program is compiled, cached and reloaded by the real transfer_model and the CachedModel is compared with the fresh Model on every observable the property names; a third call under the sibling option set must recompile (SwitchedIsFresh); codegen (shared libraries) is exercised on one program per feature class.",
    "note": "Trusted: TLC, the renderer (features -> Modelica text, no expected values), vf/mc_common.project/compare. Attribute values are compared at 3 integer parameter vectors and functions at 3 integer points (no floating-point accuracy claims). Not in the family: attributes depending on constants without replace_constant_values (the metadata function cannot be built - a Model limitation, not a cache one), array-valued parameter-dependent attributes, replace_parameter_values together with parameter-dependent delay durations.",
    "design_ref": "DESIGN.md section 6, C19",
}

OPTS = {"base": {}, "aliases": {"detect_aliases": True}, "rcv": {"replace_constant_values": True},
        "ev": {"expand_vectors": True},
        "rpv": {"replace_parameter_values": True},     # parameters substituted: fixed = bb becomes a CONSTANT MX
        # two option sets that differ only in the VALUE of a non-boolean option
        "eva": {"expand_mx": True, "eliminable_variable_expression": r"_a\w*"},
        "evb": {"expand_mx": True, "eliminable_variable_expression": r"_b\w*"}}
ATTRS = ["start", "min", "max", "nominal", "fixed"]
LIT = {"start": "1", "min": "-4", "max": "3", "nominal": "2", "fixed": "true"}
PDEP = {"start": "p", "min": "-p", "max": "2 * p", "nominal": "p + 1", "fixed": "bb"}
DUR = {"none": [], "lit": ["2"], "par": ["p"], "par_lit": ["p", "3"], "par_par2": ["p", "q"], "sum": ["p + q", "q + 1"]}


def procs():
    return max(1, min(8, int(os.environ.get("VERIF_PROCS", "8"))))


def _mods(kinds, names):
    out = []
    for kind, at in zip(kinds, names):
        if kind == "lit":
            out.append("%s = %s" % (at, LIT[at]))
        elif kind == "pdep":
            out.append("%s = %s" % (at, PDEP[at]))
    return "(" + ", ".join(out) + ")" if out else ""


def render(pr):
    """features -> Modelica text (no expected values here)"""
    xk = pr["xk"]
    xk = [xk[str(i)] for i in range(1, 5)] if isinstance(xk, dict) else list(xk)
    durs = DUR[pr["delay"]]
    L = ["model P", "  parameter Real p = 2;", "  parameter Real q(max = 2 * p) = 3;"]
    if pr["typed"]:
        L += ["  parameter Integer n = 4;", "  parameter Boolean bb = true;"]
    if pr["str"]:
        L += ['  parameter String s = "abc";']
    L += ["  constant Real c = 5;", "  input Real u(min = -p);"]
    L += ["  Real x%s;" % _mods(xk + [pr.get("xf", "none")], ATTRS)]
    L += ["  Real y%s;" % _mods([pr["yk"]] * 3, ATTRS[1:4])]
    if pr["typed"]:
        L += ["  Integer k;", "  Boolean f;"]
    L += ["  Real v[2];", "  Real _a1;", "  Real _b1;"]
    if pr["out"]:
        L += ["  output Real o;"]
    for i in range(len(durs)):
        L += ["  Real d%d;" % (i + 1)]
    L += ["equation", "  der(x) = -p * x + u + c;"]
    L += ["  y = %s;" % {"none": "2 * x + 1", "pos": "x", "neg": "-x"}[pr["alias"]]]
    if pr["typed"]:
        L += ["  k = 2 * n;", "  f = not bb;"]
    L += ["  v[1] = x + 1;", "  v[2] = 2 * x;", "  _a1 = 2 * x;", "  _b1 = 3 * x;"]
    if pr["out"]:
        L += ["  o = x + 3 * y;"]
    for i, d in enumerate(durs):
        L += ["  d%d = delay(%s, %s);" % (i + 1, "x" if i == 0 else "3 * x", d)]
    L += ["end P;", ""]
    return "\n".join(L)


def run_program(job):
    """job = {"prog", "tags", "expect", "modes"} -> {"records": [...], "drift": {...}, "compile_failed": str|None}"""
    a = mc.api()
    pr = job["prog"]
    text = render(pr)
    root = tempfile.mkdtemp(prefix="vfc19_")
    scratch = os.environ.get("VF_MC_SCRATCH")
    os.environ["XDG_CACHE_HOME"] = os.path.join(scratch, "xdg_%d" % os.getpid()) if scratch else os.path.join(root, "xdg")
    os.makedirs(os.environ["XDG_CACHE_HOME"], exist_ok=True)
    recs, drift = [], {}
    old = os.getcwd()
    try:
        for mode in job["modes"]:
            folder = os.path.join(root, mode)
            os.makedirs(folder)
            cwd = os.path.join(root, mode + "_cwd")
            os.makedirs(cwd)
            with open(os.path.join(folder, "P.mo"), "w") as f:
                f.write(text)
            os.utime(os.path.join(folder, "P.mo"), (mc.BASE, mc.BASE))
            opts = dict(OPTS[pr["opt"]])
            opts[mode] = True
            os.chdir(cwd)
            # class of the failing case = mode + option set; the other features go into the detail text
            tags = sorted([mode] + [t for t in job["tags"] if t.split(":")[0] == "opt"])
            feat = " ".join(sorted(t for t in job["tags"] if t.split(":")[0] in ("alias", "delay", "x", "y")))
            try:
                fresh = a.transfer_model(folder, "P", dict(opts))
            except Exception as e:
                # does the model compile at all without the cache?
                try:
                    o2 = a._merge_default_options(dict(opts))
                    o2["cache"] = o2["codegen"] = False
                    a._compile_model(folder, "P", o2)
                    compiles = True
                except Exception:
                    compiles = False
                # a program that cannot be compiled or saved never yields a cached model: the property says
                # nothing about it -> family calibration (machinery), not a violation
                return {"records": [], "drift": {}, "compile_failed": "%s%s: %s" % (
                    "" if not compiles else "compiles but cannot be saved - ", type(e).__name__, str(e)[:200])}
            if type(fresh).__name__ != "Model":
                raise MachineryError("first transfer did not compile")
            try:
                ref = mc.project(fresh)
            except Exception as e:
                raise MachineryError("cannot observe the fresh model of %s: %r" % (json.dumps(pr), e))
            try:
                cached = a.transfer_model(folder, "P", dict(opts))
            except Exception as e:
                r = exc_record(e)
                r.update(observable="exception-on-load", tags=tags)
                r["detail"] = "second transfer_model raised " + r["detail"]
                recs.append(r)
                continue
            if type(cached).__name__ != "CachedModel":
                recs.append({"observable": "cache-not-used", "tags": tags, "exception_type": None,
                             "detail": "second transfer_model with unchanged sources and options recompiled"})
                continue
            try:
                got = mc.project(cached)
            except Exception as e:
                r = exc_record(e)
                r.update(observable="unusable-model", tags=tags)
                r["detail"] = "the cached model cannot be evaluated: " + r["detail"]
                recs.append(r)
                continue
            bad, dr = mc.compare(ref, got)
            for d in dr:
                drift[d[0]] = drift.get(d[0], 0) + 1
            if bad:
                obs = sorted({b[0] for b in bad})
                recs.append({"observable": "+".join(obs), "tags": tags, "exception_type": None,
                             "detail": "[%s] cached (%s) model differs from the fresh compile: %s" % (feat, mode, "; ".join(b[1] for b in bad[:3]))[:800]})
            # drift: the stored dependency classification against the spec's prediction
            if mode == "cache":
                with open(os.path.join(folder, "P.pymoca_cache"), "rb") as f:
                    db = pickle.load(f)
                for ent in job["expect"]["dep"]:
                    names = [d["name"] for d in db.get(ent["cat"], [])]
                    if ent["name"] not in names:
                        drift["variable-list"] = drift.get("variable-list", 0) + 1
                        continue
                    row = db[ent["cat"] + "__metadata_dependent"][names.index(ent["name"])]
                    # CASADI_ATTRIBUTES = value, min, max, start, fixed, nominal
                    real = {"start": int(row[3]), "min": int(row[1]), "max": int(row[2]), "nominal": int(row[5]), "fixed": int(row[4])}
                    for j, at in enumerate(ATTRS[:len(ent["dep"])]):
                        if ent["sure"][j] and real[at] != ent["dep"][j]:
                            drift["dep-class:%s" % at] = drift.get("dep-class:%s" % at, 0) + 1
                want = [sorted(x) for x in job["expect"]["durdeps"]]
                if want and "__delay_duration_dependent" in db:
                    syms = ["time"] + [d["name"] for k in ("states", "der_states", "alg_states", "inputs", "constants", "parameters") for d in db[k]]
                    real = [sorted(syms[i] for i in deps) for deps in db["__delay_duration_dependent"]]
                    if real != want:
                        drift["duration-deps"] = drift.get("duration-deps", 0) + 1
            # third call: the sibling option set (differs only in the value of a non-boolean option).
            # The cache was made for other options: the result must be the compile under the NEW options.
            sib = job.get("sibling")
            if sib and sib != pr["opt"]:
                opts2 = dict(OPTS[sib])
                opts2[mode] = True
                try:
                    m3 = a.transfer_model(folder, "P", dict(opts2))
                    o3 = a._merge_default_options(dict(opts2))
                    if o3["cache"]:
                        o3["expand_mx"] = True
                    ref3 = mc.project(a._compile_model(folder, "P", o3))
                    bad3, _ = mc.compare(ref3, mc.project(m3))
                    if bad3:
                        recs.append({"observable": "switched-options:" + "+".join(sorted({b[0] for b in bad3})),
                                     "tags": sorted([mode, "opt:%s->%s" % (pr["opt"], sib)]), "exception_type": None,
                                     "detail": "[%s] after caching under %s, transfer_model under %s returned a %s that differs from a fresh compile: %s" % (
                                         feat, pr["opt"], sib, type(m3).__name__, "; ".join(b[1] for b in bad3[:2]))[:800]})
                    del m3
                except MachineryError:
                    raise
                except Exception as e:
                    r = exc_record(e)
                    r.update(observable="switched-options:exception", tags=sorted([mode, "opt:%s->%s" % (pr["opt"], sib)]))
                    recs.append(r)
            # codegen only: the source is edited and the model compiled, saved and loaded again IN THIS PROCESS while
            # the model loaded before is still alive (its shared libraries stay mapped).  The newly loaded model
            # must compute with the new libraries (ModelCache.tla: `held`, FreshLibHandles).
            if mode == "codegen":
                try:
                    src = os.path.join(folder, "P.mo")
                    with open(src, "w") as f:
                        f.write(text.replace("der(x) = -p * x + u + c;", "der(x) = -3 * p * x + 2 * u + c;"))
                    os.utime(src, (mc.BASE + 10, mc.BASE + 10))
                    os.utime(os.path.join(folder, "P.pymoca_cache"), (mc.BASE + 5, mc.BASE + 5))
                    fresh2 = a.transfer_model(folder, "P", dict(opts))
                    cached2 = a.transfer_model(folder, "P", dict(opts))
                    if type(fresh2).__name__ != "Model" or type(cached2).__name__ != "CachedModel":
                        raise MachineryError("edit/recompile/reload step did not go miss, hit: %s %s" % (type(fresh2).__name__, type(cached2).__name__))
                    bad4, _ = mc.compare(mc.project(fresh2), mc.project(cached2))
                    if bad4:
                        recs.append({"observable": "reload-with-live-model:" + "+".join(sorted({b[0] for b in bad4})),
                                     "tags": tags, "exception_type": None,
                                     "detail": "[%s] after an edit, recompile and save in the same process (an earlier CachedModel still alive) the newly loaded model differs from the fresh compile: %s" % (
                                         feat, "; ".join(b[1] for b in bad4[:2]))[:800]})
                    del fresh2, cached2
                except MachineryError:
                    raise
                except Exception as e:
                    r = exc_record(e)
                    r.update(observable="reload-with-live-model:exception", tags=tags)
                    recs.append(r)
            del fresh, cached
            gc.collect()
    finally:
        os.chdir(old)
        shutil.rmtree(root, ignore_errors=True)
    return {"records": recs, "drift": drift, "compile_failed": None}


def _tlc(job):
    cfg = job
    return cfg, tlc.run("ModelCacheRT", "ModelCacheRT_%s.cfg" % cfg, workers=1, timeout=1500)


def run(ctx):
    thorough = ctx.tier == "thorough"
    fam = ["attrs_thorough", "delays_thorough"] if thorough else ["attrs_quick", "delays_quick"]
    muts = ["mut_swap", "mut_outputs", "mut_durdeps", "mut_truthy", "mut_constmx"]
    with ThreadPoolExecutor(4) as ex:
        results = dict(ex.map(_tlc, fam + muts))
    programs = []
    for c in fam:
        r = results[c]
        ctx.add_tlc(r, "program family %s: RoundTrip, NoMXPickled on the abstract Save/Load" % c)
        if r.violated:
            raise MachineryError("spec ModelCacheRT (%s) violates %s - spec bug" % (c, r.violated))
        programs += r.tr("PROG")
    for c in muts:
        r = results[c]
        ctx.add_tlc(r, "mutated Save/Load (%s): RoundTrip must fail" % c)
        want = "SwitchedIsFresh" if c == "mut_truthy" else "RoundTrip"
        if want not in r.violated and not (c == "mut_constmx" and "NoMXPickled" in r.violated):
            raise MachineryError("mutated spec %s satisfies %s: the invariant is vacuous" % (c, want))
    if not programs:
        raise MachineryError("TLC printed no program")
    # codegen on one program per feature class (thorough: ~25, quick: 3)
    seen, jobs = set(), []
    for pg in programs:
        key = tuple(t for t in sorted(pg["tags"]) if t.split(":")[0] in ("opt", "alias", "delay"))
        modes = ["cache"]
        klass = (key if thorough else tuple(t for t in key if t.startswith("delay")))
        if klass not in seen and (thorough or len(seen) < 3) and len(seen) < 28:
            seen.add(klass)
            modes = ["cache", "codegen"]
        jobs.append({"prog": pg["prog"], "tags": pg["tags"], "expect": pg["expect"], "modes": modes,
                     "sibling": pg.get("sibling")})
    jobs.sort(key=lambda j: -len(j["modes"]))
    scratch = tempfile.mkdtemp(prefix="vfc19s_")
    os.environ["VF_MC_SCRATCH"] = scratch
    try:
        outs = par.pmap(run_program, jobs, procs(), chunksize=1 if len(jobs) < 400 else 8)
    finally:
        shutil.rmtree(scratch, ignore_errors=True)
        os.environ.pop("VF_MC_SCRATCH", None)
    failed = {}
    n_codegen = 0
    for job, out in zip(jobs, outs):
        if out["compile_failed"]:
            key = " ".join(sorted(t for t in job["tags"] if t.split(":")[0] in ("opt", "alias", "delay")))
            failed.setdefault(key, out["compile_failed"])
            continue
        ctx.programs += 1
        n_codegen += len(job["modes"]) - 1
        for kx, v in out["drift"].items():
            ctx.note_drift(kx, v)
        for rec in out["records"]:
            ctx.violation(rec, {"prog": job["prog"], "tags": job["tags"], "expect": job["expect"], "sibling": job.get("sibling"),
                                "modes": [m for m in job["modes"] if m in rec["tags"]] or job["modes"]})
    if failed:
        raise MachineryError("programs of the family do not compile even without the cache (calibrate the family): %s" % json.dumps(failed)[:1500])
    for job in jobs[:3]:
        ctx.sample({"features": job["prog"], "modes": job["modes"], "text": render(job["prog"])}, limit=3)
    # binding self-test: a deliberately different model must be reported by the comparison
    _selftest()
    ctx.extra["codegen_programs"] = n_codegen
    ctx.extra["family_sizes"] = {c: len(results[c].tr("PROG")) for c in fam}
    ctx.assumptions += ["the reference is the Model returned by the first (compiling) transfer_model call with the same options",
                        "attribute values compared at 3 integer parameter vectors, functions at 3 integer points, tolerance 1e-9"]
    return {"exhaustive": True}


def _selftest():
    a = mc.api()
    root = tempfile.mkdtemp(prefix="vfc19t_")
    try:
        pr = {"xk": ["pdep", "lit", "pdep", "lit"], "yk": "lit", "alias": "none", "delay": "par", "opt": "base",
              "typed": False, "str": False, "out": True}
        with open(os.path.join(root, "P.mo"), "w") as f:
            f.write(render(pr))
        m1 = a._compile_model(root, "P", a._merge_default_options({}))
        ref = mc.project(m1)
        m1.states[0].max = 7.0          # what a wrong reconstruction of an attribute would look like
        m1.outputs = []
        bad, _ = mc.compare(ref, mc.project(m1))
        kinds = {b[0] for b in bad}
        if not {"attribute", "outputs"} <= kinds:
            raise MachineryError("binding self-test failed: perturbed model not distinguished (%s)" % kinds)
    finally:
        shutil.rmtree(root, ignore_errors=True)


def replay(ctx, sc):
    out = run_program(sc)
    if out["compile_failed"]:
        raise MachineryError("program does not compile: %s" % out["compile_failed"])
    return out["records"]
