\* C18 family (quick), INTENDED switch: expansion never raises, names / attribute elements / renaming agree
CONSTANTS Tier = "quick" NestedAttrByOwnDims = TRUE
INIT Init
NEXT Next
INVARIANT NoRaise
INVARIANT NamesAgree
INVARIANT AttrsAgree
INVARIANT RenamingFaithful
CHECK_DEADLOCK FALSE
