"""Library IR (as printed by spec/Instantiate.tla and spec/Classify.tla) -> Modelica text, and
pymoca flat class / CasADi model -> observation in the same vocabulary.

Trusted base of C07 / C08 / C10.  Pure printer + pure reader: there is no expected-value logic
in this file; every expected observable comes from TLC evaluating the spec.

IR (JSON as produced by TLC's ToJson; optional things are sequences of length 0 or 1)
  class : {name, kind, ext:[{base:[names], mods:[arg]}], comps:[comp], eqs:[eq], ieqs:[eq], nested:[class],
           short:bool}                     (short = true: short class definition  "type T = Real(min=0)" from ext[0])
  comp  : {name, type:[names], prefixes:[str], dims:[int], mods:[arg], val:[] | [expr]}
  arg   : {name:[names], sub:[arg], val:[] | [expr]}           ("a.x.start = e", "a(x(start = e))", "a.x(start = e)")
  expr  : {k:"lit", v:int} | {k:"bool", v:bool} | {k:"str", v:str} | {k:"ref", p:[names], ix:[int]} |
          {k:"bin", op:str, a:[e,e]} | {k:"neg", a:[e]} | {k:"der", a:[e]} | {k:"call", f:str, a:[e..]}
  eq    : {l:expr, r:expr}
Expressions are always printed fully parenthesised (BUILD_GUIDE verdict policy).
"""

# ----------------------------------------------------------------------------------------------
# printer


def expr_str(e):
    """canonical, fully parenthesised text of an IR expression; also valid Modelica"""
    k = e["k"]
    if k == "lit":
        v = e["v"]
        return "(%d)" % v if v < 0 else "%d" % v
    if k == "bool":
        return "true" if e["v"] else "false"
    if k == "str":
        return '"%s"' % e["v"]
    if k == "ref":
        s = ".".join(e["p"])
        ix = e.get("ix") or []
        if ix:
            s += "[" + ",".join(str(i) for i in ix) + "]"
        return s
    if k == "bin":
        return "(%s %s %s)" % (expr_str(e["a"][0]), e["op"], expr_str(e["a"][1]))
    if k == "neg":
        return "(-%s)" % expr_str(e["a"][0])
    if k == "der":
        return "der(%s)" % expr_str(e["a"][0])
    if k == "call":
        return "%s(%s)" % (e["f"], ", ".join(expr_str(x) for x in e["a"]))
    raise ValueError("unknown expression kind %r" % (k,))


def arg_str(a):
    s = ".".join(a["name"])
    if a.get("sub"):
        s += "(" + ", ".join(arg_str(x) for x in a["sub"]) + ")"
    if a.get("val"):
        s += " = " + expr_str(a["val"][0])
    return s


def mods_str(mods):
    return "(" + ", ".join(arg_str(a) for a in mods) + ")" if mods else ""


def comp_str(c):
    s = " ".join(list(c.get("prefixes") or []) + [".".join(c["type"])]) + " " + c["name"]
    if c.get("dims"):
        s += "[" + ",".join(str(d) for d in c["dims"]) + "]"
    s += mods_str(c.get("mods") or [])
    if c.get("val"):
        s += " = " + expr_str(c["val"][0])
    return s + ";"


def class_lines(c, ind=""):
    kind = c.get("kind", "model")
    if c.get("short"):
        sh = c["ext"][0]
        return ["%s%s %s = %s%s;" % (ind, kind, c["name"], ".".join(sh["base"]), mods_str(sh.get("mods") or []))]
    out = ["%s%s %s" % (ind, kind, c["name"])]
    for x in c.get("ext") or []:
        out.append("%s  extends %s%s;" % (ind, ".".join(x["base"]), mods_str(x.get("mods") or [])))
    for n in c.get("nested") or []:
        out += class_lines(n, ind + "  ")
    for k in c.get("comps") or []:
        out.append(ind + "  " + comp_str(k))
    if c.get("ieqs"):
        out.append(ind + "initial equation")
        for e in c["ieqs"]:
            out.append("%s  %s = %s;" % (ind, expr_str(e["l"]), expr_str(e["r"])))
    if c.get("eqs"):
        out.append(ind + "equation")
        for e in c["eqs"]:
            out.append("%s  %s = %s;" % (ind, expr_str(e["l"]), expr_str(e["r"])))
    out.append("%send %s;" % (ind, c["name"]))
    return out


def render_library(lib):
    out = []
    for c in lib:
        out += class_lines(c)
    return "\n".join(out) + "\n"


# ----------------------------------------------------------------------------------------------
# reader: pymoca ast -> canonical text


def ast_str(x):
    """canonical fully parenthesised text of a pymoca ast expression (same vocabulary as expr_str)"""
    from pymoca import ast
    if isinstance(x, ast.Primary):
        v = x.value
        if v is None:
            return "<none>"
        if isinstance(v, bool):
            return "true" if v else "false"
        if isinstance(v, str):
            return '"%s"' % v
        if isinstance(v, float) and v == int(v):
            v = int(v)
        return "(%s)" % v if (isinstance(v, (int, float)) and v < 0) else "%s" % v
    if isinstance(x, ast.ComponentRef):
        parts = []
        ix = []
        c = x
        while True:
            parts.append(c.name)
            for arr in c.indices:
                for i in arr:
                    if i is not None:
                        ix.append(ast_str(i).strip("()") if isinstance(i, ast.Primary) else ast_str(i))
            if not c.child:
                break
            c = c.child[0]
        # a reference that flattening left with children is NOT a flat name: mark it
        s = ("?" if len(parts) > 1 else "") + ".".join(parts)
        if ix:
            s += "[" + ",".join(ix) + "]"
        return s
    if isinstance(x, ast.Symbol):
        return x.name
    if isinstance(x, ast.Expression):
        op = x.operator
        if isinstance(op, ast.ComponentRef):
            op = ".".join(op.to_tuple())
        n = len(x.operands)
        if op == "der":
            return "der(%s)" % ", ".join(ast_str(o) for o in x.operands)
        if n == 2 and not op[0].isalpha():
            return "(%s %s %s)" % (ast_str(x.operands[0]), op, ast_str(x.operands[1]))
        if n == 1 and op in ("-", "+"):
            if op == "-" and isinstance(x.operands[0], ast.Primary) and isinstance(x.operands[0].value, (int, float)) \
                    and not isinstance(x.operands[0].value, bool):
                return "(-%s)" % ast_str(x.operands[0])
            return "(%s%s)" % (op, ast_str(x.operands[0]))
        return "%s(%s)" % (op, ", ".join(ast_str(o) for o in x.operands))
    if isinstance(x, ast.Array):
        return "{" + ", ".join(ast_str(v) for v in x.values) + "}"
    if isinstance(x, ast.IfExpression):
        return "if(" + ";".join(ast_str(c) for c in x.conditions) + "|" + ";".join(ast_str(c) for c in x.expressions) + ")"
    if isinstance(x, ast.Slice):
        return "%s:%s:%s" % (ast_str(x.start), ast_str(x.step), ast_str(x.stop))
    if isinstance(x, list):
        return "[" + ", ".join(ast_str(v) for v in x) + "]"
    return "<%s>" % type(x).__name__


def eq_str(e):
    from pymoca import ast
    if isinstance(e, ast.Equation):
        return "%s = %s" % (ast_str(e.left), ast_str(e.right))
    if isinstance(e, ast.ConnectClause):
        return "connect(%s, %s)" % (ast_str(e.left), ast_str(e.right))
    return "<%s>" % type(e).__name__


def ir_eq_str(e):
    return "%s = %s" % (expr_str(e["l"]), expr_str(e["r"]))


_DEFAULT_NONE = ("value", "min", "max", "start", "nominal", "unit", "quantity", "displayUnit")


def project_symbol(s):
    from pymoca import ast
    t = s.type
    tname = ".".join(t.to_tuple()) if isinstance(t, ast.ComponentRef) else "<%s>" % type(t).__name__
    dims = []
    for arr in s.dimensions:
        for d in arr:
            if d is None or (isinstance(d, ast.Primary) and d.value is None):
                continue
            dims.append(ast_str(d))
    attrs = {}
    for a in _DEFAULT_NONE:
        v = getattr(s, a)
        if not (isinstance(v, ast.Primary) and v.value is None):
            attrs[a] = ast_str(v)
    v = s.fixed
    if not (isinstance(v, ast.Primary) and v.value is False):
        attrs["fixed"] = ast_str(v)
    pend = []
    if s.class_modification is not None and s.class_modification.arguments:
        for arg in s.class_modification.arguments:
            try:
                pend.append(".".join(arg.value.component.to_tuple()))
            except Exception:
                pend.append("?")
    return {"name": s.name, "type": tname, "prefixes": [p for p in s.prefixes if p != "state"], "dims": dims,
            "attrs": attrs, "pending": pend, "state": "state" in s.prefixes}


def project_flat(flat_class):
    """flat ast.Class -> {"syms": [...in dictionary order...], "eqs": [text], "ieqs": [text]}"""
    syms = []
    for key, s in flat_class.symbols.items():
        d = project_symbol(s)
        if key != s.name:
            d["key"] = key
        syms.append(d)
    return {"syms": syms,
            "eqs": [eq_str(e) for e in flat_class.equations],
            "ieqs": [eq_str(e) for e in flat_class.initial_equations]}


def expected_flat(exp):
    """spec-side expected flat class (IR) -> same shape as project_flat (texts)"""
    syms = []
    for s in exp["syms"]:
        attrs = s.get("attrs") or {}
        if isinstance(attrs, list):   # ToJson prints the empty function as []
            attrs = {}
        at = {a: expr_str(v) for a, v in attrs.items()}
        if at.get("fixed") == "false":      # fixed = false is the default: not observable on the flat symbol
            del at["fixed"]
        syms.append({"name": s["name"], "type": s["type"], "prefixes": list(s["prefixes"]),
                     "dims": [str(d) for d in s["dims"]], "attrs": at})
    return {"syms": syms, "eqs": [ir_eq_str(e) for e in exp["eqs"]], "ieqs": [ir_eq_str(e) for e in exp["ieqs"]]}


def flatten_text(text, class_name, stages=None):
    """parse + tree.flatten; returns flat ast.Class.  `stages` (dict) receives the projection after every stage."""
    from pymoca import parser, tree, ast
    t = parser.parse(text, bypass_cache=True)     # never touches ~/.cache
    if t is None:
        raise SyntaxError("pymoca.parser.parse returned None")
    old = tree._VERIF_HOOK
    if stages is not None:
        def hook(stage, fc):
            stages[stage] = project_flat(fc)
        tree._VERIF_HOOK = hook
    try:
        root = tree.flatten(t, ast.ComponentRef.from_string(class_name))
    finally:
        tree._VERIF_HOOK = old
    return root.classes[class_name]


# ----------------------------------------------------------------------------------------------
# CasADi model -> category lists (C10)

CATEGORIES = ("states", "der_states", "alg_states", "inputs", "parameters", "constants",
              "string_parameters", "string_constants")


def project_model(model):
    out = {}
    for cat in CATEGORIES:
        names = []
        for v in getattr(model, cat):
            names.append(v.symbol.name() if hasattr(v, "symbol") and hasattr(v.symbol, "name") else str(getattr(v, "name", v)))
        out[cat] = names
    out["outputs"] = list(model.outputs)
    return out
