"""C04 - Parsed class structure reflects the source declarations.

Spec: spec/ClassDecl.tla.  Class declarations are data; the ANTLR listener is modelled as the callback
machine it is, on a heap with object identities (the declarators of a clause first share one type /
prefixes / dimensions object, then get copies); the declarative side reads the expected content off the
data.  TLC checks operational = declarative, no shared mutable objects, strictly increasing order numbers,
duplicate rejection, heap well-formedness for every program of the families and prints each program with
the expected content (intended switches) and the content the as-built switches give.

Binding (B): the real listener is run with a recording subclass; its callback walk (callback name, order
counter, class-stack depth, in-extends flag, current-symbol flag after every modelled callback) is compared
step by step with the behaviour TLC walked for the same class (difference = model drift).
Binding (C, oracle mode): each class is rendered (vf/render_class.py), parsed by pymoca.parser.parse
(cache bypassed), projected and compared field by field with TLC's expectation; aliasing is observed by
object identity AND by mutating one symbol's prefixes / type / dimensions and re-projecting all others.
"""
import copy
import json
import os
from concurrent.futures import ThreadPoolExecutor

from vf import tlc, par, ir_expr, render_class
from vf.core import MachineryError, exc_record

META = {
    "ready": True,
    "category": "model_checking",
    "technique": "TLA+ spec (ClassDecl.tla: class declarations as data, the parser listener as a callback machine on a heap with object identities, declarative projection) model-checked by TLC; every program rendered, parsed by the real front end, projected and compared incl. aliasing by identity and by mutation (oracle mode)",
    "text": "TLC walks the listener callbacks (EnterClassDefinition ... ExitClassDefinition, 18 actions) for every class text of four families (one/two component clauses with 1-3 declarators x 8 prefix combinations x clause/declarator dimensions x modifications x comments; all interleavings of up to 3 (thorough 4) public/protected/equation/initial equation/algorithm/initial algorithm sections; nested classes, extends, four import forms in each kind of section; duplicates and near-duplicates) and checks that the heap it builds equals the declared content, that no two symbols share a type/prefixes/dimensions object or sub-list, that order numbers strictly increase and duplicates are rejected; every program is parsed by pymoca and name, type, prefixes, dimensions, visibility, order, comment, modifications, equations/statements per section, nested classes, extends and imports are compared with TLC's expectation; object sharing is tested by identity and by mutation; the real listener is additionally run with a recording subclass and its callback sequence (name, order counter, class-stack depth, in-extends flag, current-symbol flag after each of the 19 modelled callbacks) must equal the behaviour TLC walked, step by step.",
    "note": "Trusted: TLC, the pretty-printer and reader vf/render_class.py. The unnamed leading section may be labelled private or public (the property does not name it). Not covered: final/inner/outer/replaceable/redeclare, conditional components, each/final in modifications, nested modifications, enumerations, short class definitions, external clauses, annotations. Values in modifications and subscripts are literals or names (expression syntax is C03's job).",
    "design_ref": "DESIGN.md section 4, C04",
}

# the program features a mismatch on an observable can depend on (only these go into the record's tags)
RELEVANT = {
    "component.prefixes": {"multi-keyword-prefix"},
    "component.dims": {"clause-and-declarator-dims"},
    "component.comment": {"comment-concatenation"},
    "component.visibility": {"repeated-public", "repeated-protected"},
    "imports": {"import-list-3"},
    "aliasing": {"multi-declarator"},
    "duplicate-accepted": {"duplicate"},
}

ACTIONS = ["EnterClassDefinition", "ExitClassSpecBase", "EnterElementList", "ExitElementList", "EnterComponentClause", "EnterComponentDeclaration",
           "EnterDeclaration", "EnterElementModification", "ExitDeclaration", "ExitComponentDeclaration", "ExitComponentClause",
           "EnterExtendsClause", "ExitExtendsClause", "ExitImportClause", "ExitEquationSection", "ExitAlgorithmSection",
           "ExitComposition", "ExitClassSpec", "ExitClassDefinition"]


# listener method -> action of ClassDecl.tla
CALLBACK = {
    "enterClass_definition": "EnterClassDefinition", "enterElement_list": "EnterElementList", "exitElement_list": "ExitElementList",
    "enterComponent_clause": "EnterComponentClause", "enterComponent_declaration": "EnterComponentDeclaration",
    "enterDeclaration": "EnterDeclaration", "enterElement_modification": "EnterElementModification",
    "exitDeclaration": "ExitDeclaration", "exitComponent_declaration": "ExitComponentDeclaration",
    "exitComponent_clause": "ExitComponentClause", "enterExtends_clause": "EnterExtendsClause",
    "exitExtends_clause": "ExitExtendsClause", "exitImport_clause": "ExitImportClause",
    "exitEquation_section": "ExitEquationSection", "exitAlgorithm_section": "ExitAlgorithmSection",
    "exitComposition": "ExitComposition", "exitClass_spec_comp": "ExitClassSpec", "exitClass_spec_base": "ExitClassSpecBase",
    "exitClass_definition": "ExitClassDefinition",
}


def traced_walk(text):
    """binding B: run the REAL listener over the text and record, after each callback the spec models, the
    cheap scalar state the spec's history variable `hist` holds.  Returns the recorded trace (None if the
    text does not get as far as the walk)."""
    import antlr4
    from pymoca import parser as pp
    from pymoca.generated.ModelicaLexer import ModelicaLexer
    from pymoca.generated.ModelicaParser import ModelicaParser
    rec = []

    def wrap(meth, name):
        base = getattr(pp.ASTListener, meth)

        def f(self, ctx):
            raised = True
            try:
                base(self, ctx)
                raised = False
            finally:
                rec.append({"e": name, "symcount": self.sym_count, "depth": len(self.class_nodes),
                            "inext": bool(self.in_extends_clause), "sym": self.symbol_node is not None, "err": raised})
        return f
    tracer = type("Tracer", (pp.ASTListener,), {m: wrap(m, n) for m, n in CALLBACK.items()})

    def go(t):
        stream = antlr4.CommonTokenStream(ModelicaLexer(antlr4.InputStream(t)))
        prs = ModelicaParser(stream)
        err = pp.ModelicaParserErrorListener()
        prs.addErrorListener(err)
        pt = prs.stored_definition()
        if err.error:
            return None
        antlr4.ParseTreeWalker().walk(tracer(), pt)
        return True
    ok, exc = ir_expr.quiet_parse(go, text)
    if ok is None and exc is None:
        return None
    return rec


def trace_agrees(model_hist, rec):
    """the model's walk and the recorded walk, callback by callback, up to the callback that raised"""
    if rec is None:
        return False, "no walk recorded"
    for i, want in enumerate(model_hist):
        if i >= len(rec):
            return False, "recorded walk ends after %d callbacks, model continues with %s" % (len(rec), want["e"])
        if rec[i] != want:
            return False, "callback %d: model %s, recorded %s" % (i + 1, json.dumps(want, sort_keys=True), json.dumps(rec[i], sort_keys=True))
        if want["err"]:
            return (len(rec) == i + 1), "walk continues after the exception"
    if len(rec) != len(model_hist):
        return False, "recorded walk has %d callbacks, model %d" % (len(rec), len(model_hist))
    return True, ""


# parsed (and walked with the recording listener) once in the parent before the workers are forked, so that they inherit
# ANTLR's lazily learnt prediction automata instead of each learning them again; the result is dropped
WARMUP = """model M "doc \\"q\\""
  import A.B; import R = A.C; import P.Q.*; import L.{n1, n2, n3};
  extends Base; extends Lib.Base2(p = 2, q = 3);
  parameter input Real[3] a[2](start = 1, min = k) = 5 "c1" + "c2", b, c[n] "d";
  flow Lib.T f, g(nominal = 2);
  type T2 = Lib.U(min = 0, max = 9);
  model In "inner" parameter Real w[2] = 2; equation e91 = 91; public Real t; initial equation e92 = 92; end In;
public
  Real x1, y1;
protected
  discrete Integer u = 8;
equation
  e11 = 11; e12 = 12;
initial equation
  e21 = 21;
algorithm
  s31 := 31;
initial algorithm
  s41 := 41;
public
  constant output Real z "\\"";
end M;
"""


def rel_tags(tags, obs):
    return [t for t in tags if t.startswith("family:") or t in RELEVANT.get(obs, ())]


def parse(text):
    return ir_expr.quiet_parse(ir_expr.parse_checked_in, text)


# ---------------------------------------------------------------------------------------------
def classify(field, want, got, comp, cls_decl):
    """a short, stable description of HOW a field differs (used in the detail text, and therefore by
    the narrow known-finding patterns)"""
    if field == "prefixes" and len(want) >= 2 and got == ["".join(want)]:
        return "keywords fused into one word"
    if field == "dims" and comp is not None and comp.get("_cdims") and comp.get("_ddims") and got == comp["_cdims"]:
        return "declarator subscripts dropped, clause subscripts only"
    if field == "vis" and want in ("public", "protected") and got == "private" and comp is not None and comp.get("_not_last_of_kind"):
        return "symbol of a %s section that is not the last %s section is private" % (want, want)
    if field == "comment" and comp is not None and len(comp.get("_comment_pieces", [])) >= 2 and got == '"+"'.join(comp["_comment_pieces"]):
        return "concatenated comment keeps the inner quotes and plus signs"
    return "differs"


def annotate(decl, expect):
    """attach to each expected component the facts of its declaration that classify() needs (from the program data only)"""
    secs = [s for s in decl["sections"] if s["k"] == "elems"]
    last_of = {}
    for i, s in enumerate(secs):
        last_of[s["vis"]] = i
    comps = iter(expect["comps"])
    nested = iter(expect["classes"])
    for i, s in enumerate(secs):
        for el in s["elems"]:
            if el["k"] == "clause":
                for d in el["decls"]:
                    c = next(comps)
                    c["_cdims"] = el["cdims"]
                    c["_ddims"] = d["ddims"]
                    c["_comment_pieces"] = d["comment"]
                    c["_not_last_of_kind"] = last_of[s["vis"]] != i
            elif el["k"] == "class":
                annotate(el["c"], next(nested))
            elif el["k"] == "short":
                next(nested)


def vis_ok(want, got):
    return got in ("private", "public") if want == "first" else got == want


def compare_class(want, got, path, out):
    """out: list of (observable, detail, drift?)"""
    def bad(obs, field, w, g, comp=None, how=None):
        out.append((obs, "%s: %s: %s expected %s, got %s" % (how or classify(field, w, g, comp, None), path, field, json.dumps(w), json.dumps(g))))
    if want["name"] != got["name"]:
        bad("class.name", "name", want["name"], got["name"])
    if got["comment"] not in render_class.comment_readings(want["comment"]):
        bad("class.comment", "comment", want["comment"], got["comment"])
    wn = [c["name"] for c in want["comps"]]
    gn = [c["name"] for c in got["comps"]]
    if wn != gn or got["keys"] != gn:
        bad("components", "component names in declaration order", wn, gn if wn != gn else got["keys"])
    else:
        for w, g in zip(want["comps"], got["comps"]):
            p = "%s.%s" % (path, w["name"])
            for f in ("type", "prefixes", "dims", "comment", "mods"):
                if (g[f] not in render_class.comment_readings(w[f])) if f == "comment" else (w[f] != g[f]):
                    shown = sorted(set(render_class.comment_readings(w[f]))) if f == "comment" and "~" in w[f] else w[f]
                    out.append(("component." + f, "%s: %s: %s expected %s, got %s" % (classify(f, w[f], g[f], w, None), p, f, json.dumps(shown), json.dumps(g[f]))))
            if not vis_ok(w["vis"], g["vis"]):
                out.append(("component.visibility", "%s: %s: declared in a %s section, got %s" % (classify("vis", w["vis"], g["vis"], w, None), p,
                                                                                                 "leading unnamed" if w["vis"] == "first" else w["vis"], g["vis"])))
    for f, label in (("eqs", "equations"), ("ieqs", "initial equations"), ("stmts", "statements"), ("istmts", "initial statements")):
        if want[f] != got[f]:
            bad("sections." + label.replace(" ", "_"), label + " in source order", want[f], got[f])
    we = [{"base": e["base"], "mods": e["mods"]} for e in want["extends"]]
    ge = [{"base": e["base"], "mods": e["mods"]} for e in got["extends"]]
    if we != ge:
        bad("extends", "extends clauses", we, ge)
    else:
        for w, g in zip(want["extends"], got["extends"]):
            if not vis_ok(w["vis"], g["vis"]):
                out.append(("drift:extends.visibility", "%s: extends %s declared in a %s section has visibility %s" % (path, ".".join(w["base"]), w["vis"], g["vis"])))
    if want["imports"] != got["imports"]:
        wk = [i["key"] for i in want["imports"]]
        gk = [i["key"] for i in got["imports"]]
        how = "import list names fused" if any("," in k for k in gk) else "differs"
        bad("imports", "imports", want["imports"], got["imports"], how=how)
    wc = [c["name"] for c in want["classes"]]
    gc = [c["name"] for c in got["classes"]]
    if wc != gc or got["class_keys"] != gc:
        bad("nested_classes", "nested class names", wc, gc if wc != gc else got["class_keys"])
    else:
        for w, g in zip(want["classes"], got["classes"]):
            compare_class(w, g, "%s.%s" % (path, w["name"]), out)


def strip_private(x):
    if isinstance(x, dict):
        return {k: strip_private(v) for k, v in x.items() if not k.startswith("_")}
    if isinstance(x, list):
        return [strip_private(v) for v in x]
    return x


def aliasing(text):
    """object sharing between symbols: by identity and by mutation.  Works on its own parse of the text."""
    tree, exc = parse(text)
    if exc is not None or tree is None:
        return [], []
    top = list(tree.classes.values())[0]
    syms = render_class.all_symbols(top)
    hard, soft = [], []
    for i in range(len(syms)):
        for j in range(i + 1, len(syms)):
            (na, a), (nb, b) = syms[i], syms[j]
            for f in ("type", "prefixes", "dimensions"):
                if getattr(a, f) is getattr(b, f):
                    hard.append("%s and %s hold the same %s object" % (na, nb, f))
            if any(x is y for x in (a.dimensions or []) for y in (b.dimensions or []) if isinstance(x, list)):
                soft.append("%s and %s share a dimension sub-list" % (na, nb))
    # mutation: change one symbol's objects in place, every other symbol must read as before
    from pymoca import ast
    for i, (na, a) in enumerate(syms):
        before = [render_class.project_symbol(s) for _, s in syms]
        try:
            a.prefixes.append("MUTATED")
            a.type.name = "MUTATED"
            a.dimensions.append([ast.Primary(value=77)])
        except Exception as e:  # an immutable / unexpected representation: nothing can leak through it
            soft.append("cannot mutate %s: %s" % (na, e))
            continue
        after = [render_class.project_symbol(s) for _, s in syms]
        for j, (nb, _) in enumerate(syms):
            if j != i and before[j] != after[j]:
                fields = [f for f in before[j] if before[j][f] != after[j][f]]
                hard.append("changing %s of %s in place changes %s" % ("/".join(fields), na, nb))
        if before[i] == after[i]:
            raise MachineryError("mutation of %s is not visible in its own projection" % na)
        # second level
        before = after
        try:
            if a.dimensions and isinstance(a.dimensions[0], list):
                a.dimensions[0].append(ast.Primary(value=88))
        except Exception:
            continue
        after = [render_class.project_symbol(s) for _, s in syms]
        for j, (nb, _) in enumerate(syms):
            if j != i and before[j] != after[j]:
                soft.append("appending to a dimension sub-list of %s changes %s" % (na, nb))
    return sorted(set(hard)), sorted(set(soft))


def check_program(p):
    """returns {"records": [...], "drift": [...], "agree": "intended"|"asbuilt"|"neither"|..., "real": projection}"""
    text = render_class.render(p["class"])
    tags = sorted(p["tags"])
    recs, drift = [], []
    tree, exc = parse(text)
    expect = copy.deepcopy(p["expect"])
    res = {"records": recs, "drift": drift, "text": text}
    ok, why = trace_agrees(p["trace"], traced_walk(text))
    res["trace_ok"] = ok
    if not ok:
        drift.append("recorded callback walk differs from the model's walk")
        res["trace_why"] = why
    if expect["rejected"]:
        if exc is None and tree is not None:
            recs.append({"observable": "duplicate-accepted", "tags": rel_tags(tags, "duplicate-accepted"), "exception_type": None,
                         "detail": "a component is declared twice in one class but parse() returned a tree"})
        res["agree"] = "intended" if not recs else "neither"
        return res
    if exc is not None or tree is None:
        r = exc_record(exc) if exc is not None else {"exception_type": None, "detail": "parse() returned None (syntax error reported)"}
        r.update(observable="rejected-valid-class", tags=rel_tags(tags, ""))
        recs.append(r)
        res["agree"] = "neither"
        return res
    if list(tree.classes.keys()) != [p["class"]["name"]]:
        recs.append({"observable": "class.name", "tags": rel_tags(tags, ""), "exception_type": None,
                     "detail": "top-level classes %s, expected [%s]" % (list(tree.classes.keys()), p["class"]["name"])})
        res["agree"] = "neither"
        return res
    top = tree.classes[p["class"]["name"]]
    try:
        got = render_class.project(top)
        ords = render_class.orders(top)
    except Exception as e:
        r = exc_record(e)
        r.update(observable="unreadable-tree", tags=rel_tags(tags, ""), detail="the parsed class cannot be projected: " + r["detail"])
        recs.append(r)
        res["agree"] = "neither"
        return res
    annotate(p["class"], expect["class"])
    diffs = []
    compare_class(expect["class"], got, p["class"]["name"], diffs)
    for cname, o in ords.items():
        if any(not isinstance(x, int) for x in o) or any(o[i] >= o[i + 1] for i in range(len(o) - 1)):
            diffs.append(("component.order", "differs: %s: order numbers %s are not strictly increasing in declaration order" % (cname, o)))
    hard, soft = aliasing(text)
    for h in hard:
        diffs.append(("aliasing", "differs: " + h))
    for s in soft:
        drift.append("dimension sub-lists shared between declarators of one clause")
    seen = set()
    for obs, detail in diffs:
        if obs.startswith("drift:"):
            drift.append(obs[6:])
            continue
        how = detail.split(":", 1)[0]
        if (obs, how) in seen:
            continue
        seen.add((obs, how))
        recs.append({"observable": obs, "tags": rel_tags(tags, obs), "exception_type": None, "detail": detail, "sigdetail": how})
    # which model does the code agree with?
    def same(model):
        if model["rejected"]:
            return False
        d = []
        w = copy.deepcopy(model["class"])
        _first_as_private(w)
        compare_class(w, got, "", d)
        return not [x for x in d if not x[0].startswith("drift:")] and \
            bool(model["sharedTop"]) == bool(hard) and model["ordersIncrease"] == ("component.order" not in [x[0] for x in diffs])
    res["agree"] = "intended" if not recs else ("asbuilt" if same(p["asbuilt"]) else "neither")
    if p["model"]["orders"] != ords.get(p["class"]["name"]):
        drift.append("order numbers differ from the model's counter")
    return res


def _first_as_private(c):
    for x in c["comps"] + c["extends"]:
        if x["vis"] == "first":
            x["vis"] = "private"
    for k in c["classes"]:
        _first_as_private(k)


def _job(p):
    r = check_program(p)
    return {"records": r["records"], "drift": r["drift"], "agree": r["agree"], "trace_ok": r["trace_ok"], "trace_why": r.get("trace_why")}


# ---------------------------------------------------------------------------------------------
def run(ctx):
    thorough = ctx.tier == "thorough"
    procs = min(16, os.cpu_count() or 4, int(os.environ.get("VERIF_PROCS", "16")))
    cfg = "ClassDecl_thorough.cfg" if thorough else "ClassDecl_quick.cfg"
    tree, exc = parse(WARMUP)
    if exc is None and tree is not None:
        traced_walk(WARMUP)
    par.start(procs)      # fork the workers while the parent is still small (and already warm)
    # the TLC runs are independent of each other: families split over two runs in the quick tier, the as-built run alongside
    cfgs = [cfg] if thorough else [cfg, "ClassDecl_quick2.cfg"]
    with ThreadPoolExecutor(len(cfgs) + 1) as ex:
        futs = [ex.submit(tlc.run, "ClassDecl", c, workers=1, coverage=False, timeout=3000) for c in cfgs]
        fa = ex.submit(tlc.run, "ClassDecl", "ClassDecl_asbuilt.cfg", workers=1, timeout=1200)
        runs = [f.result() for f in futs]
        ra = fa.result()
    progs = []
    for c, r in zip(cfgs, runs):
        ctx.add_tlc(r, "listener machine = declared content, no shared objects, orders, duplicates (intended switches, %s)" % c)
        if r.violated or r.deadlock:
            raise MachineryError("spec ClassDecl (%s) violates its own properties: %s\n%s" % (c, r.violated, r.cex[:2000]))
        ps = r.tr("PROG")
        if not ps:
            raise MachineryError("TLC printed no program (%s)" % c)
        if r.distinct != sum(p["nevents"] for p in ps) + 2 * len(ps):
            raise MachineryError("TLC explored %d states for %s, expected %d callbacks + 2 per program" % (
                r.distinct, c, sum(p["nevents"] for p in ps)))
        progs += ps
    nev = sum(p["nevents"] for p in progs)
    # as-built switches: TLC itself must find that the model of the pinned code violates the property
    ctx.add_tlc(ra, "as-built switches (TLC is expected to report a violated invariant)")
    asbuilt_violates = bool(ra.violated)

    # vacuity: every callback of the machine occurs, every family / feature is present
    feats = {t for p in progs for t in p["tags"]}
    need = {"family:clause", "family:sections", "family:struct", "family:dup", "family:comments", "multi-keyword-prefix", "clause-and-declarator-dims",
            "multi-declarator", "repeated-public", "repeated-protected", "comment-concatenation", "import-list-3", "duplicate"}
    if not need <= feats:
        raise MachineryError("vacuous corpus: missing features %s" % sorted(need - feats))
    per_action = {}
    for p in progs:
        for k, v in p["callbacks"].items():
            per_action[k] = per_action.get(k, 0) + v
    missing = [a for a in ACTIONS if not per_action.get(a)]
    if missing:
        raise MachineryError("vacuous: listener callbacks never walked by TLC: %s" % missing)
    selftest(progs)

    results = par.pmap(_job, progs, procs)
    agree = {"intended": 0, "asbuilt": 0, "neither": 0}
    per_obs = {}
    for p, res in zip(progs, results):
        agree[res["agree"]] += 1
        if res["trace_ok"]:
            ctx.traces += 1
        elif "first_trace_difference" not in ctx.extra:
            ctx.extra["first_trace_difference"] = {"text": render_class.render(p["class"]), "why": res["trace_why"]}
        for d in set(res["drift"]):
            ctx.note_drift(d)
        for rec in res["records"]:
            per_obs[rec["observable"]] = per_obs.get(rec["observable"], 0) + 1
            ctx.violation(rec, {"program": p, "text": render_class.render(p["class"])})
        if res["agree"] == "neither" and res["records"]:
            ctx.note_drift("code is neither the intended nor the as-built model on a program")
    ctx.programs += len(progs)
    for p in [q for q in progs if q["family"] == "clause" and "clause-dims" in q["tags"]][:1] + \
            [q for q in progs if q["family"] == "sections" and len(q["class"]["sections"]) == 4][:1] + \
            [q for q in progs if q["family"] == "struct" and q["expect"]["class"]["classes"]][:1] + \
            [q for q in progs if q["family"] == "dup"][:1]:
        ctx.sample({"text": render_class.render(p["class"]), "expected": p["expect"], "callbacks": p["nevents"]})
    ctx.extra["programs_per_family"] = {f: sum(1 for p in progs if p["family"] == f) for f in sorted({p["family"] for p in progs})}
    ctx.extra["programs_per_feature"] = {f: sum(1 for p in progs if f in p["tags"]) for f in sorted(feats)}
    ctx.extra["code_agrees_with"] = agree
    ctx.extra["mismatches_per_observable"] = per_obs
    ctx.extra["callbacks_walked_by_tlc"] = nev
    ctx.extra["per_action_coverage"] = per_action
    ctx.extra["asbuilt_model_violates_property_in_tlc"] = {"violated": ra.violated, "ok": asbuilt_violates}
    if not asbuilt_violates:
        ctx.note_drift("as-built switches no longer violate the property in TLC")
    ctx.assumptions += ["the unnamed leading section may be labelled private or public",
                        "a comment containing escaped quotes may be stored as written (backslash-quote) or resolved (quote); in the spec's comment texts ~ stands for an escaped quote",
                        "visibility of extends clauses and sharing of dimension SUB-lists are recorded as drift, not as violations (the property names neither)",
                        "modification and subscript values are integer literals or simple names"]
    return {"exhaustive": True, "evaluations": len(progs),
            "explanation": "complete TLC enumeration of the class-text families; every program parsed and compared"}


def selftest(progs):
    """binding self-test: a perturbed expectation / a perturbed observation must be flagged, an unperturbed one not"""
    p = next(q for q in progs if q["family"] == "sections" and not q["expect"]["rejected"] and len(q["expect"]["class"]["comps"]) >= 2
             and q["expect"]["class"]["eqs"] and "repeated-public" not in q["tags"] and "repeated-protected" not in q["tags"])
    if check_program(p)["records"]:
        return      # the unchanged tree already deviates on this program; nothing to learn from perturbing it
    q = copy.deepcopy(p)
    q["expect"]["class"]["comps"][0]["vis"] = "protected" if q["expect"]["class"]["comps"][0]["vis"] != "protected" else "public"
    q2 = copy.deepcopy(p)
    q2["expect"]["class"]["eqs"] = list(reversed(q2["expect"]["class"]["eqs"])) + [5]
    q3 = copy.deepcopy(p)
    q3["expect"] = {"rejected": True}
    for x, what in ((q, "visibility"), (q2, "equation order"), (q3, "rejection")):
        if not check_program(x)["records"]:
            raise MachineryError("binding self-test: corrupted %s expectation was not flagged" % what)
    # the recorded walk of the real listener must be rejected when one logged field is corrupted
    rec = traced_walk(render_class.render(p["class"]))
    if trace_agrees(p["trace"], rec)[0]:
        bad = copy.deepcopy(p["trace"])
        k = next(i for i, h in enumerate(bad) if h["e"] == "EnterComponentDeclaration")
        bad[k]["symcount"] += 1
        bad2 = copy.deepcopy(p["trace"])
        bad2[k], bad2[k + 1] = bad2[k + 1], bad2[k]
        if trace_agrees(bad, rec)[0] or trace_agrees(bad2, rec)[0] or trace_agrees(p["trace"][:-1], rec)[0]:
            raise MachineryError("binding self-test: a corrupted callback trace was accepted")


def replay(ctx, sc):
    res = check_program(sc["program"])
    return res["records"]
