\* graph: file added in a sub-folder of the model folder, expand_vectors option
CONSTANTS K = 2
          Editable = {"M","S"}
          Addable = {"S"}
          OptNames = {"O1","O3"}
          Modes = {"cache"}
          Versions = {1}
          Holds = {FALSE}
          MaxClock = 1000000
          LibFoldersInKey = TRUE
          Beyond = {}
          OptionValuesCompared = TRUE
          FreshLibHandles = TRUE
INIT Init
NEXT Next
VIEW View
ACTION_CONSTRAINT Log
CHECK_DEADLOCK FALSE
