\* thorough tier: every tree with exactly 4 operator nodes over one operator per precedence level, minimal printing only
CONSTANTS
  FullOps <- OpsNone
  MaxFull = 0
  RepOps <- OpsRep
  MaxRep = 4
  Variants = {"elseif"}
  Literals = FALSE
  Fuel = 4
  BrkLimit = 12
  RedUpTo = 0
INIT Init
NEXT Next
ACTION_CONSTRAINT Emit
INVARIANT RoundTrip
INVARIANT ValuePreserved
INVARIANT ReadIsABracketing
INVARIANT PrintInjective
INVARIANT WellTyped
INVARIANT Distinguished
INVARIANT LiteralValue
INVARIANT ValuesWellFormed
CHECK_DEADLOCK FALSE
