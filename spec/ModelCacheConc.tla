---------------------------- MODULE ModelCacheConc ----------------------------
(* Property C21: an interrupted or in-progress write of the CasADi model cache
   never breaks later loads (src/pymoca/backends/casadi/api.py: save_model
   217-291, load_model 322-360, transfer_model 513-520).

   Every process runs transfer_model over and over on the same model folder.
   A call is a READER (load_model) that on a miss turns into a WRITER
   (_compile_model is local; then the shared libraries in codegen mode, then
   the cache file).  A process may CRASH at any point and leave whatever it
   had written so far.  The steps are the points where the code touches the
   shared file system; a process' pc names the operation it is ABOUT to do:

     r_stat              os.path.getmtime(cache file)  (absent -> miss)
     r_open              open(cache file, "rb")
     r_read              read the next chunk of the file (N chunks make a complete pickle)
     r_libs              ca.external(...) of the next shared library (codegen)
     w_link_a, w_link_b  the linker unlinks/creates the library, then completes it (codegen)
     w_open              open(cache file, "wb")   - truncates in place as built
     w_write             write the next chunk (own file offset; holes if someone truncated meanwhile)
     w_close             close                    - (intended: os.replace(tmp, cache file))
     w_cleanup           (intended, codegen) remove the libraries the replaced cache file pointed to

   File content.  A complete cache file is N equal cells; a cell carries the
   CONTENT it belongs to: [o |-> option set it was compiled for, b |-> the
   library bundle its paths point to].  Two processes with the same options
   write identical cells, so a mixture of their chunks still unpickles; cells of
   different content (or holes, or fewer than N cells) do not.

   As-built switches (all TRUE = intended, all FALSE = the pinned code)
     AtomicWrite          cache file written to a temp name and renamed into place
     CatchUnpickle        EOFError / UnpicklingError / ... of pickle.load turned into a cache miss
     UniqueLibs           every save writes its libraries under fresh names (and renames them into place)
     CatchLibError        failure of ca.external turned into a cache miss                       *)
EXTENDS Integers, Sequences, FiniteSets, TLC, Json

CONSTANTS Procs,          \* e.g. {"p1","p2"}
          DiffOpts,       \* TRUE: p2 calls with option set "o2", everybody else with "o1"
          Codegen,        \* TRUE: codegen mode (shared libraries), FALSE: cache mode (pickled functions)
          N,              \* chunks of the cache file
          NL,             \* number of shared libraries
          MaxCrashes,
          Inits,          \* allowed initial disk states, subset of {"none","o1","trunc"}
          Sequential,     \* TRUE: one call at a time (crash-point histories); FALSE: calls interleave
          AtomicWrite, CatchUnpickle, UniqueLibs, CatchLibError

VARIABLES exists,   \* cache file exists
          cells,    \* its content: sequence of cells (content records or holes)
          libs,     \* bundle -> library index -> [st |-> "absent"|"partial"|"ok", o |-> option set]
          loc,      \* per process: pc and the locals of the running call
          gen,      \* per process: the library-bundle name its current/last save uses (a fresh name per save if UniqueLibs)
          crashes, last
vars == <<exists, cells, libs, loc, gen, crashes, last>>

OptOf(p) == IF DiffOpts /\ p = "p2" THEN "o2" ELSE "o1"
LibIds == 1..NL
NoB == 0 - 1
(* bundle names.  As built there is one fixed set of library paths (bundle 0).  With UniqueLibs every save
   takes a FRESH name; a finite pool is enough because a name that nothing refers to any more (not the
   cache file, not a reader that has unpickled it, not a pending cleanup, not a running writer) is as
   good as new - files left under it by a crashed writer are litter nobody looks at. *)
Bundles == IF UniqueLibs THEN 0..(3 * Cardinality(Procs) + 1) ELSE {0}
MyBundle(p) == IF UniqueLibs THEN gen[p] ELSE 0
Content(p) == [o |-> OptOf(p), b |-> IF Codegen THEN MyBundle(p) ELSE NoB]
Absent == [st |-> "absent", o |-> "-"]
NoLibs == [b \in Bundles |-> [i \in LibIds |-> Absent]]
Hole == [o |-> "hole", b |-> NoB]

Complete(cs) == Len(cs) = N /\ \A i \in 1..N : cs[i] = cs[1] /\ cs[i].o # "hole"

(* locals of a call:  rd = chunks read so far, fdc = content of the inode opened by r_open,
   snap = unpickled content, lo = libraries loaded so far, wk = next chunk/library to write,
   tmp = content of the private temp file (AtomicWrite) *)
Idle == [pc |-> "idle", rd |-> <<>>, fdc |-> <<>>, snap |-> Hole, lo |-> <<>>, wk |-> 0, tmp |-> <<>>, old |-> NoB]
Writing(p) == loc[p].pc \in {"w_link_a", "w_link_b", "w_open", "w_write", "w_close", "w_cleanup"}
Referenced == {cells[i].b : i \in 1..Len(cells)} \cup {loc[p].snap.b : p \in Procs} \cup {loc[p].old : p \in Procs}
              \cup {gen[p] : p \in {q \in Procs : Writing(q)}}
              \cup UNION {{loc[p].fdc[i].b : i \in 1..Len(loc[p].fdc)} : p \in Procs}
pc(p) == loc[p].pc

InitDisk(k) ==
    IF k = "none" THEN exists = FALSE /\ cells = <<>> /\ libs = NoLibs
    ELSE IF k = "trunc" THEN exists = TRUE /\ cells = <<[o |-> "o1", b |-> NoB]>> /\ libs = NoLibs   \* left behind by an older crash
    ELSE LET b0 == 0
             c0 == [o |-> "o1", b |-> IF Codegen THEN b0 ELSE NoB]
         IN  /\ exists = TRUE /\ cells = [i \in 1..N |-> c0]
             /\ libs = IF Codegen THEN [NoLibs EXCEPT ![b0] = [i \in LibIds |-> [st |-> "ok", o |-> "o1"]]] ELSE NoLibs

Init == /\ \E k \in Inits : InitDisk(k)
        /\ loc = [p \in Procs |-> Idle]
        /\ gen = [p \in Procs |-> 0]
        /\ crashes = 0
        /\ last = [ev |-> "init"]

-----------------------------------------------------------------------------
Set(p, r) == loc' = [loc EXCEPT ![p] = r]
Ev(p, name, more) == last' = [ev |-> name, p |-> p] @@ more

(* the call ends: result handed to the caller *)
Finish(p, kind, vars_o, funs_o) ==
    /\ Set(p, Idle)
    /\ last' = [ev |-> "finish", p |-> p, kind |-> kind, want |-> OptOf(p), vars |-> vars_o, funs |-> funs_o]

(* a miss: compile locally (no shared state), then start writing *)
BecomeWriter(p, why) ==
    /\ Set(p, [Idle EXCEPT !.pc = IF Codegen THEN "w_link_a" ELSE "w_open", !.wk = 1])
    /\ gen' = [gen EXCEPT ![p] = IF UniqueLibs /\ Codegen THEN CHOOSE b \in Bundles : b \notin Referenced ELSE gen[p]]
    /\ Ev(p, "miss", [why |-> why])

Start(p) ==
    /\ pc(p) = "idle"
    /\ Sequential => \A q \in Procs : pc(q) = "idle"
    /\ Set(p, [Idle EXCEPT !.pc = "r_stat"])
    /\ Ev(p, "start", [opts |-> OptOf(p)])
    /\ UNCHANGED <<exists, cells, libs, gen, crashes>>

RStat(p) ==
    /\ pc(p) = "r_stat"
    /\ IF exists
       THEN Set(p, [Idle EXCEPT !.pc = "r_open"]) /\ Ev(p, "r_stat", [found |-> TRUE]) /\ UNCHANGED gen
       ELSE BecomeWriter(p, "no-file")
    /\ UNCHANGED <<exists, cells, libs, crashes>>

ROpen(p) ==
    /\ pc(p) = "r_open"
    /\ Set(p, [Idle EXCEPT !.pc = "r_read", !.fdc = IF AtomicWrite THEN cells ELSE <<>>])  \* intended: the inode opened now never changes again
    /\ Ev(p, "r_open", [len |-> Len(cells)])
    /\ UNCHANGED <<exists, cells, libs, gen, crashes>>

Visible(p) == IF AtomicWrite THEN loc[p].fdc ELSE cells

(* read chunk Len(rd)+1; after the last chunk pickle.load returns (or fails), then version/options are checked *)
RRead(p) ==
    /\ pc(p) = "r_read"
    /\ LET k    == Len(loc[p].rd) + 1
           src  == Visible(p)
           eof  == k > Len(src)
           got  == IF eof THEN loc[p].rd ELSE Append(loc[p].rd, src[k])
           done == eof \/ Len(got) = N \/ got[Len(got)].o = "hole"     \* a run of zero bytes stops the unpickler at once
           ok   == ~eof /\ Complete(got)
       IN  IF ~done
           THEN Set(p, [loc[p] EXCEPT !.rd = got]) /\ Ev(p, "r_read", [k |-> k]) /\ UNCHANGED gen
           ELSE IF ok
                THEN IF got[1].o # OptOf(p)
                     THEN BecomeWriter(p, "options-differ")
                     ELSE IF Codegen
                          THEN /\ Set(p, [Idle EXCEPT !.pc = "r_libs", !.snap = got[1]])
                               /\ Ev(p, "r_read", [k |-> k]) /\ UNCHANGED gen
                          ELSE Finish(p, "hit", got[1].o, <<got[1].o>>) /\ UNCHANGED gen
                ELSE IF CatchUnpickle
                     THEN BecomeWriter(p, IF eof THEN "truncated" ELSE "garbled")
                     ELSE Finish(p, "raised", IF eof THEN "truncated" ELSE "garbled", <<>>) /\ UNCHANGED gen
    /\ UNCHANGED <<exists, cells, libs, crashes>>

(* ca.external of library Len(lo)+1 of the bundle the cache file points to *)
RLibs(p) ==
    /\ pc(p) = "r_libs"
    /\ LET i  == Len(loc[p].lo) + 1
           l  == libs[loc[p].snap.b][i]
       IN  IF l.st = "ok"
           THEN IF i = NL
                THEN Finish(p, "hit", loc[p].snap.o, Append(loc[p].lo, l.o)) /\ UNCHANGED gen
                ELSE Set(p, [loc[p] EXCEPT !.lo = Append(@, l.o)]) /\ Ev(p, "r_libs", [i |-> i]) /\ UNCHANGED gen
           ELSE IF CatchLibError
                THEN BecomeWriter(p, "library-unloadable")
                ELSE Finish(p, "raised", IF l.st = "absent" THEN "library-missing" ELSE "library-partial", <<>>) /\ UNCHANGED gen
    /\ UNCHANGED <<exists, cells, libs, crashes>>

-----------------------------------------------------------------------------
(* writer *)
WLinkA(p) ==     \* as built: ld unlinks the old library and starts writing the new one under the same name
    /\ pc(p) = "w_link_a"
    /\ LET i == loc[p].wk
       IN  IF UniqueLibs
           THEN /\ libs' = [libs EXCEPT ![MyBundle(p)] =                                   \* linked elsewhere, renamed into a fresh name
                              [j \in LibIds |-> IF j = i THEN [st |-> "ok", o |-> OptOf(p)] ELSE IF i = 1 THEN Absent ELSE @[j]]]
                /\ Set(p, IF i = NL THEN [loc[p] EXCEPT !.pc = "w_open", !.wk = 1] ELSE [loc[p] EXCEPT !.wk = i + 1])
           ELSE /\ libs' = [libs EXCEPT ![MyBundle(p)][i] = [st |-> "partial", o |-> OptOf(p)]]
                /\ Set(p, [loc[p] EXCEPT !.pc = "w_link_b"])
    /\ Ev(p, "w_link_a", [i |-> loc[p].wk])
    /\ UNCHANGED <<exists, cells, gen, crashes>>

WLinkB(p) ==
    /\ pc(p) = "w_link_b"
    /\ LET i == loc[p].wk
       IN  /\ libs' = [libs EXCEPT ![MyBundle(p)][i] = [st |-> "ok", o |-> OptOf(p)]]
           /\ Set(p, IF i = NL THEN [loc[p] EXCEPT !.pc = "w_open", !.wk = 1]
                               ELSE [loc[p] EXCEPT !.pc = "w_link_a", !.wk = i + 1])
    /\ Ev(p, "w_link_b", [i |-> loc[p].wk])
    /\ UNCHANGED <<exists, cells, gen, crashes>>

WOpen(p) ==
    /\ pc(p) = "w_open"
    /\ Set(p, [loc[p] EXCEPT !.pc = "w_write", !.wk = 1, !.tmp = <<>>])
    /\ IF AtomicWrite
       THEN UNCHANGED <<exists, cells>>
       ELSE exists' = TRUE /\ cells' = <<>>             \* open(..., "wb") truncates the live file
    /\ Ev(p, "w_open", <<>>)
    /\ UNCHANGED <<libs, gen, crashes>>

Pad(cs, k) == [i \in 1..(IF Len(cs) >= k THEN Len(cs) ELSE k) |-> IF i <= Len(cs) THEN cs[i] ELSE Hole]

WWrite(p) ==
    /\ pc(p) = "w_write"
    /\ LET k == loc[p].wk
           l1 == IF AtomicWrite THEN [loc[p] EXCEPT !.tmp = Append(@, Content(p))] ELSE loc[p]
       IN  /\ IF AtomicWrite THEN UNCHANGED cells
              ELSE cells' = [Pad(cells, k) EXCEPT ![k] = Content(p)]
           /\ Set(p, IF k = N THEN [l1 EXCEPT !.pc = "w_close"] ELSE [l1 EXCEPT !.wk = k + 1])
           /\ Ev(p, "w_write", [k |-> k])
    /\ UNCHANGED <<exists, libs, gen, crashes>>

WClose(p) ==
    /\ pc(p) = "w_close"
    /\ IF AtomicWrite
       THEN exists' = TRUE /\ cells' = loc[p].tmp                           \* os.replace(tmp, cache file)
       ELSE UNCHANGED <<exists, cells>>
    /\ LET old == IF exists /\ Complete(cells) /\ cells[1].b # MyBundle(p) THEN cells[1].b ELSE NoB
       IN  IF AtomicWrite /\ UniqueLibs /\ Codegen /\ old # NoB
           THEN /\ Set(p, [Idle EXCEPT !.pc = "w_cleanup", !.old = old])   \* remember which libraries the replaced cache file pointed to
                /\ Ev(p, "w_close", <<>>)
           ELSE Finish(p, "miss", OptOf(p), <<OptOf(p)>>)
    /\ UNCHANGED <<libs, gen, crashes>>

WCleanup(p) ==   \* remove the libraries that the cache file we replaced pointed to
    /\ pc(p) = "w_cleanup"
    /\ libs' = [b \in Bundles |-> IF b = loc[p].old THEN [i \in LibIds |-> Absent] ELSE libs[b]]
    /\ Finish(p, "miss", OptOf(p), <<OptOf(p)>>)
    /\ UNCHANGED <<exists, cells, gen, crashes>>

(* the process dies wherever it is; whatever it wrote stays; a new process takes its place *)
Crash(p) ==
    /\ pc(p) # "idle"
    /\ crashes < MaxCrashes
    /\ crashes' = crashes + 1
    /\ Set(p, Idle)
    /\ Ev(p, "crash", [at |-> pc(p), k |-> loc[p].wk])
    /\ UNCHANGED <<exists, cells, libs, gen>>

Step(p) == Start(p) \/ RStat(p) \/ ROpen(p) \/ RRead(p) \/ RLibs(p)
           \/ WLinkA(p) \/ WLinkB(p) \/ WOpen(p) \/ WWrite(p) \/ WClose(p) \/ WCleanup(p)
Next == \E p \in Procs : Step(p) \/ Crash(p)

Fair == \A p \in Procs : WF_vars(Step(p))
Spec == Init /\ [][Next]_vars /\ Fair

-----------------------------------------------------------------------------
(* C21 *)
NoRaise == last.ev = "finish" => last.kind # "raised"
ReturnsCorrect == (last.ev = "finish" /\ last.kind \in {"hit", "miss"}) =>
                     /\ last.vars = last.want
                     /\ \A i \in DOMAIN last.funs : last.funs[i] = last.want

(* a complete, loadable cache *)
Intact == /\ exists /\ Complete(cells)
          /\ Codegen => \A i \in LibIds : LET l == libs[cells[1].b][i] IN l.st = "ok" /\ l.o = cells[1].o
(* whatever was interrupted, some later call leaves a valid cache behind, again and again *)
Recovers == []<>Intact

TypeOK == /\ exists \in BOOLEAN
          /\ Len(cells) <= N
          /\ \A p \in Procs : pc(p) \in {"idle", "r_stat", "r_open", "r_read", "r_libs", "w_link_a", "w_link_b",
                                        "w_open", "w_write", "w_close", "w_cleanup"}
          /\ crashes \in 0..MaxCrashes

-----------------------------------------------------------------------------
PJ == [exists |-> exists, cells |-> cells, libs |-> [b \in Bundles |-> libs[b]], loc |-> loc, gen |-> gen, crashes |-> crashes]
Log == PrintT(<<"TR", ToJson([src |-> PJ, act |-> last', dst |-> PJ'])>>)
=============================================================================
