\* intended state graph, quotient by the value state, 2 trees, edit universe u1 (Leaf u, Mid v, Leaf E1, class Leaf): every transition logged (TR)
CONSTANTS DeepCopyRebindsParents = TRUE CopyHookBoundToCopy = TRUE FlattenCopiesTop = FALSE
          Lib = "flat" Universe = "u1" MaxTrees = 2 MaxOps = 1000000
INIT Init
NEXT Next
VIEW ViewVal
ACTION_CONSTRAINT Log
INVARIANT PointerSemanticsIsValueSemantics
CHECK_DEADLOCK FALSE
