\* graph (thorough): cache and codegen on one cache file, held handles
CONSTANTS K = 2
          Editable = {"M"}
          Addable = {}
          OptNames = {"O1"}
          Modes = {"cache","codegen"}
          Versions = {1}
          Holds = {TRUE,FALSE}
          MaxClock = 1000000
          LibFoldersInKey = TRUE
          Beyond = {}
          OptionValuesCompared = TRUE
          FreshLibHandles = TRUE
INIT Init
NEXT Next
VIEW View
ACTION_CONSTRAINT Log
CHECK_DEADLOCK FALSE
