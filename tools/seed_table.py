#!/venv/bin/python
"""Markdown table of the independently seeded changes under /verif/seeded/ and which checks caught them."""
import glob, json, os, re
rows = []
for d in sorted(glob.glob("/verif/seeded/*/")):
    m = json.load(open(os.path.join(d, "meta.json")))
    notes = open(os.path.join(d, "notes.txt")).read() if os.path.exists(os.path.join(d, "notes.txt")) else ""
    first = next((l.strip() for l in notes.splitlines() if l.strip() and not set(l.strip()) <= set("=-")), "")
    first = re.sub(r"\s+", " ", first)[:140]
    res = []
    word = {1: "caught", 0: "MISSED", 2: "machinery"}
    for c, r in sorted(m.get("checks", {}).items()):
        seq = [h["exit"] for h in m.get("history", []) if h["check"] == c] or [r["exit"]]
        comp = [seq[0]] + [b for a, b in zip(seq, seq[1:]) if a != b]
        res.append("%s: %s" % (c, " -> ".join(word.get(x, str(x)) for x in comp)))
    rows.append((m["seed"], m.get("breaks"), "yes" if m.get("confirmed") else "NO", "; ".join(res), first))
print("| seed | property | confirmed (demo fails with / passes without, baseline passes) | checks (last run) | what (first line of the author's notes) |")
print("|---|---|---|---|---|")
for r in rows:
    print("| %s | %s | %s | %s | %s |" % r)
