\* as-built switches (pinned tree): PROG log with the expected (declarative) and the as-built status
\* family: every invocation within 2 changes of the plain one, plus the share C26_PART/C26_NPARTS of those with 3 changes
CONSTANTS MaxDev = 2  SampleDev = 3  MaxPaths = 2  MaxModels = 2  MaxModelsRich = 2  MaxOpts = 2
          CliCountsTranslateFailures = FALSE  CliCatchesTranslateErrors = FALSE  CliCountsMissingModelFile = FALSE
          Emit = TRUE  NParts <- NPartsEnv  Part <- PartEnv
INIT Init
NEXT Next
INVARIANT DeviationsExplainAll
ACTION_CONSTRAINT Log
INVARIANT NoWorkAfterUsageError
PROPERTY ErrorsMonotone
CHECK_DEADLOCK FALSE
