\* as built (find_class(copy=False) in flatten): TLC is EXPECTED to violate ResultIsFunctionOfClass
CONSTANTS CopyOnLookup = FALSE SympyCopies = TRUE LibIds = {1,2,3,4,5,6,7,8,9,10,11} MaxReq = 3
          Backends = {"flatten","casadi","sympy","xml"}
INIT Init
NEXT Next
INVARIANT ResultIsFunctionOfClass
CHECK_DEADLOCK FALSE
