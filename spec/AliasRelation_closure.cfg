\* full state incl. the pair history: the operational AddTo/Remove equals the declarative closure
CONSTANTS Names = {"a","b","c"} MaxRel = 2 MaxOps = 4
INIT Init
NEXT Next
INVARIANT WellFormed
INVARIANT IsClosure
PROPERTY CopyIndependent
CHECK_DEADLOCK FALSE
