-------------------------------- MODULE Delay --------------------------------
(* Property C22.  delay() in pymoca's CasADi back end:
     generator.py  exitExpression (delay)  - one input symbol _pymoca_delay_k per call site and a
                                             DelayArgument(expr, duration)
                   exitForEquation         - a delay inside a for-loop is mapped over the loop values
     model.py      simplify passes         - substitutions reach (or do not reach) the delay arguments
                   _post_checks            - durations may not depend on time, states, derivatives,
                                             algebraic variables or non-fixed inputs  -> ValueError
                   delay_arguments_function
     api.py        transfer_model          - generate, simplify, _post_checks

   Oracle-mode specification.  The OPERATIONAL side works like the code, on SYMBOLS: a delay argument
   is a pair of trees; inside a loop the trees mention placeholder symbols (the loop index and
   `a[i]`), exitForEquation maps them over the loop values, simplification substitutes values, the
   post-check intersects the symbols of the durations with the forbidden symbols, the argument function
   can only be built if every remaining symbol is one of its inputs.
   The DECLARATIVE side works on the source model: the categories (C.5 of DESIGN.md) of the variables a
   duration mentions decide accept / reject, and the delay arguments are the values of the delayed
   expression and the duration (per loop iteration).  TLC checks operational = declarative for every
   program of the family under the intended switches.                                            *)
EXTENDS Integers, Sequences, FiniteSets, TLC, Json, IOUtils, SGRat

CONSTANTS
    LoopDelayOwnFreeVars,     \* a delayed expression in a loop may mention variables the rest of the loop body does not
    LoopDurationMapped,       \* a duration in a loop that mentions the index / an indexed variable is mapped like the expression
    ParamValuesReachDelays,   \* replace_parameter_values also substitutes into the delay arguments
    ChecksBeforeSave,         \* transfer_model runs _post_checks before the model is written to the cache (TRUE in the code)
    AliasesReachDurations,    \* alias elimination rewrites delay durations as well as delayed expressions (TRUE in the code)
    DelayInputsForbidden,     \* the input symbols created for delayed values count as non-fixed inputs (TRUE in the code)
    ExpandKeepsElements,      \* expand_vectors pairs each element name with the element of that index (TRUE in the code)
    Family

VARIABLES prog, phase, dargs, raised, params, consts, out, last,
          req,       \* number of the transfer_model request (option set "cache": the model is requested twice)
          cached,    \* the cache file holds this model: <<>> or <<delay arguments>>
          first,     \* outcome of the first request
          algs       \* algebraic variables left after simplification
vars == <<prog, phase, dargs, raised, params, consts, out, last, req, cached, first, algs>>

SW == [ownfree |-> LoopDelayOwnFreeVars, durmap |-> LoopDurationMapped, pvals |-> ParamValuesReachDelays,
       chk |-> ChecksBeforeSave, aldur |-> AliasesReachDurations, dinp |-> DelayInputsForbidden, elem |-> ExpandKeepsElements]
(* the code as it is now: the for-loop handling still deviates; replace_parameter_values has been repaired in /repo *)
AsBuilt == [ownfree |-> FALSE, durmap |-> FALSE, pvals |-> TRUE, chk |-> TRUE, aldur |-> TRUE, dinp |-> TRUE, elem |-> TRUE]

-----------------------------------------------------------------------------
(* ---- the fixed variable universe of the family ---- *)
(* name -> category (C.5): c constant, p / ps parameters, uf fixed input, u input, x state, a / xs / y / z / ys / zs algebraic *)
Category == [c |-> "constant", p |-> "parameter", ps |-> "parameter", uf |-> "fixed input", u |-> "input",
             x |-> "state", a |-> "algebraic", xs |-> "algebraic", y |-> "algebraic", z |-> "algebraic",
             ys |-> "algebraic", zs |-> "algebraic", b1 |-> "algebraic", b2 |-> "algebraic",
             xm |-> "algebraic", ym |-> "algebraic"]
(* the model contains  b1 = b2  (an alias pair for detect_aliases) and  b2 = 2 * a *)
AllAlgs == {"a", "xs", "y", "z", "ys", "zs", "b1", "b2", "xm", "ym"}
(* xm, ym are 2 x 3 matrices; values are listed row by row *)
MatRows == 2
MatCols == 3
Arrays == {"ps", "xs", "ys", "zs"}
LoopValues == <<1, 2>>
(* "delayed value": the result of another delay() - it varies with time like the signal it delays; in the model it is
   an input symbol that is not fixed *)
Forbidden == {"time", "state", "derivative", "algebraic", "input", "delayed value"}
(* declared values of constants and parameters (also their values at every evaluation point) *)
DeclValue == [c |-> <<2>>, p |-> <<3>>, ps |-> <<1, 2>>]

E(k, n, a, v) == [k |-> k, n |-> n, a |-> a, v |-> v]
Ref(n)     == E("ref", n, <<>>, 0)          \* scalar variable
IRef(n)    == E("iref", n, <<>>, 0)         \* n[i] with the loop index i
Elem(n, j) == E("elem", n, <<>>, j)         \* n[j], j a number
Idx        == E("idx", "", <<>>, 0)         \* the loop index itself
Lit(i)     == E("lit", "", <<>>, i)
TimeE      == E("time", "", <<>>, 0)
DerX       == E("der", "x", <<>>, 0)
Neg(e)     == E("un", "-", <<e>>, 0)
Bin(o, l, r) == E("bin", o, <<l, r>>, 0)
MRef(n)    == E("mref", n, <<>>, 0)         \* a whole matrix variable (element-wise meaning)
DelayE(x, d) == E("delay", "", <<x, d>>, 0)  \* a nested delay() call
DSym       == E("dsym", "", <<>>, 0)        \* the input symbol of some delay (after alias elimination of y = delay(..))

(* delay call site: in a loop or not; `body` = the loop also contains  zs[i] = p * x  *)
Site(loop, expr, dur, body) == [loop |-> loop, expr |-> expr, dur |-> dur, body |-> body, mat |-> FALSE]
(* ym = delay(expr over the matrix xm, dur): one delayed value per matrix element *)
MatSite(expr, dur) == [loop |-> FALSE, expr |-> expr, dur |-> dur, body |-> FALSE, mat |-> TRUE]
Prog(fam, sites, opt) == [fam |-> fam, sites |-> sites, opt |-> opt]

-----------------------------------------------------------------------------
(* ---- declarative side ---- *)
RECURSIVE Cats(_)
Cats(e) ==
    CASE e.k \in {"ref", "iref", "elem", "mref"} -> {Category[e.n]}
      [] e.k \in {"delay", "dsym"} -> {"delayed value"}
      [] e.k = "time" -> {"time"}
      [] e.k = "der"  -> {"derivative"}
      [] e.k \in {"lit", "idx"} -> {}
      [] OTHER -> UNION {Cats(e.a[i]) : i \in DOMAIN e.a}

DeclReject(p) == \E s \in DOMAIN p.sites : Cats(p.sites[s].dur) \cap Forbidden # {}

(* evaluation points: integer values of the variables that are not constants / parameters *)
NPoints == 2
PointVal == << [uf |-> <<2>>, u |-> <<-1>>, x |-> <<3>>, a |-> <<-2>>, xs |-> <<2, -3>>, y |-> <<1>>, z |-> <<1>>, ys |-> <<1, 1>>, zs |-> <<1, 1>>,
                b1 |-> <<-4>>, b2 |-> <<-4>>, xm |-> <<1, 2, 3, 4, 5, 6>>, ym |-> <<0, 0, 0, 0, 0, 0>>],
               [uf |-> <<-3>>, u |-> <<2>>, x |-> <<-1>>, a |-> <<3>>, xs |-> <<-2, 1>>, y |-> <<2>>, z |-> <<-1>>, ys |-> <<0, 2>>, zs |-> <<3, 1>>,
                b1 |-> <<6>>, b2 |-> <<6>>, xm |-> <<-1, 3, -2, 5, 4, -6>>, ym |-> <<0, 0, 0, 0, 0, 0>>] >>
PointTime == <<2, -1>>
PointDer == <<-2, 3>>
ValueOf(n, pt) == IF n \in DOMAIN DeclValue THEN DeclValue[n] ELSE PointVal[pt][n]

RECURSIVE Eval(_, _, _)
Eval(e, pt, i) ==        \* i: value of the loop index (0 outside loops)
    CASE e.k = "ref"  -> FromInt(ValueOf(e.n, pt)[1])
      [] e.k = "iref" -> FromInt(ValueOf(e.n, pt)[i])
      [] e.k = "elem" -> FromInt(ValueOf(e.n, pt)[e.v])
      [] e.k = "mref" -> FromInt(ValueOf(e.n, pt)[i])       \* i: position of the element, row by row
      [] e.k \in {"delay", "dsym"} -> Err                   \* never evaluated: such models are rejected
      [] e.k = "idx"  -> FromInt(i)
      [] e.k = "lit"  -> FromInt(e.v)
      [] e.k = "time" -> FromInt(PointTime[pt])
      [] e.k = "der"  -> FromInt(PointDer[pt])
      [] e.k = "un"   -> RNeg(Eval(e.a[1], pt, i))
      [] e.k = "bin"  -> Arith(e.n, Eval(e.a[1], pt, i), Eval(e.a[2], pt, i))

(* the delay arguments of a site: one (expression value, duration value) pair per element; a call in a loop
   whose arguments do not vary with the index is one delay *)
RECURSIVE Varying(_)
Varying(e) == e.k \in {"iref", "idx"} \/ \E i \in DOMAIN e.a : Varying(e.a[i])
Varies(s) == s.loop /\ (Varying(s.expr) \/ Varying(s.dur))
(* an entry is <<key, expression value, duration value>>; key = <<number of the delay, row, column>> identifies the
   delayed signal (_pymoca_delay_N, element [row, column]) the pair belongs to *)
MatKey(n, k) == <<n, ((k - 1) \div MatCols) + 1, ((k - 1) % MatCols) + 1>>
SitePairs(s, n, pt) ==
    IF s.mat THEN [k \in 1..(MatRows * MatCols) |-> <<MatKey(n, k), Eval(s.expr, pt, k), Eval(s.dur, pt, 0)>>]
    ELSE IF Varies(s) THEN [j \in DOMAIN LoopValues |-> <<<<n, j, 1>>, Eval(s.expr, pt, LoopValues[j]), Eval(s.dur, pt, LoopValues[j])>>]
    ELSE << <<<<n, 1, 1>>, Eval(s.expr, pt, 0), Eval(s.dur, pt, 0)>> >>
RECURSIVE Concat(_)
Concat(ss) == IF ss = <<>> THEN <<>> ELSE Head(ss) \o Concat(Tail(ss))
DeclArgs(p, pt) == Concat([s \in DOMAIN p.sites |-> SitePairs(p.sites[s], s - 1, pt)])

Expect(p) == [reject |-> DeclReject(p),
              args |-> IF DeclReject(p) THEN <<>> ELSE [pt \in 1..NPoints |-> DeclArgs(p, pt)]]

-----------------------------------------------------------------------------
(* ---- operational side ---- *)
(* symbols of a tree: scalars and whole arrays by name, placeholders "n[i]" and "i" inside a loop body *)
RECURSIVE Syms(_)
Syms(e) ==
    CASE e.k \in {"ref", "elem", "mref"} -> {e.n}
      [] e.k \in {"delay", "dsym"} -> {"_pymoca_delay"}
      [] e.k = "iref" -> {"[i]" \o e.n}
      [] e.k = "idx"  -> {"i"}
      [] e.k = "time" -> {"time"}
      [] e.k = "der"  -> {"der(x)"}
      [] e.k = "lit"  -> {}
      [] OTHER -> UNION {Syms(e.a[i]) : i \in DOMAIN e.a}
IsPlaceholder(s) == s = "i" \/ s \in {"[i]" \o n : n \in Arrays}
ScalarSyms(e) == {s \in Syms(e) : ~IsPlaceholder(s)}

(* map a loop-body tree to iteration j: placeholders become element references / numbers *)
RECURSIVE At(_, _)
At(e, j) ==
    CASE e.k = "iref" -> Elem(e.n, j)
      [] e.k = "idx"  -> Lit(j)
      [] e.k \in {"un", "bin"} -> [e EXCEPT !.a = [i \in DOMAIN e.a |-> At(e.a[i], j)]]
      [] OTHER -> e
(* substitute declared values for the given names *)
RECURSIVE Subst(_, _)
Subst(e, names) ==
    CASE e.k = "ref" /\ e.n \in names -> Lit(DeclValue[e.n][1])
      [] e.k = "elem" /\ e.n \in names -> Lit(DeclValue[e.n][e.v])
      [] e.k \in {"un", "bin"} -> [e EXCEPT !.a = [i \in DOMAIN e.a |-> Subst(e.a[i], names)]]
      [] OTHER -> e

(* detect_aliases: b2 is an alias of b1 and is eliminated (which of the two survives is the implementation's choice;
   the verdict and the values do not depend on it): every occurrence is rewritten to the survivor *)
RECURSIVE Alias(_)
Alias(e) ==
    CASE e.k = "ref" /\ e.n = "b2" -> Ref("b1")
      [] e.k = "ref" /\ e.n = "y" -> DSym          \* y = delay(..) makes y an alias of the delay's input symbol
      [] e.k \in {"un", "bin"} -> [e EXCEPT !.a = [i \in DOMAIN e.a |-> Alias(e.a[i])]]
      [] OTHER -> e

(* a delay argument after generation: expression per element, duration(s), and `hidden`: symbols the
   mapped expression depends on only structurally (the map call over the loop takes the free variables of the
   whole loop body as arguments, whether the delayed expression uses them or not) *)
DArg(exprs, durs, hidden) == [exprs |-> exprs, durs |-> durs, hidden |-> hidden, mat |-> FALSE]
(* matrix element k (row by row) of a matrix expression *)
RECURSIVE AtElem(_, _)
AtElem(e, k) ==
    CASE e.k = "mref" -> Elem(e.n, k)
      [] e.k \in {"un", "bin"} -> [e EXCEPT !.a = [i \in DOMAIN e.a |-> AtElem(e.a[i], k)]]
      [] OTHER -> e

(* symbols of the rest of the loop body (free variables of the mapped loop function) *)
BodyFree(s) == IF s.body THEN {"p", "x"} ELSE {}

(* exitExpression + exitForEquation for one site; returns [raise, darg] *)
GenSite(s, sw) ==
    IF s.mat THEN [raise |-> "", darg |-> [DArg([k \in 1..(MatRows * MatCols) |-> AtElem(s.expr, k)], <<s.dur>>, {}) EXCEPT !.mat = TRUE]]
    ELSE IF ~s.loop THEN [raise |-> "", darg |-> DArg(<<s.expr>>, <<s.dur>>, {})]
    ELSE IF ~(Varying(s.expr) \/ (sw.durmap /\ Varying(s.dur)))
         THEN [raise |-> "", darg |-> DArg(<<s.expr>>, <<s.dur>>, {})]       \* not registered with the loop: stays scalar
    ELSE IF ~sw.ownfree /\ ~(ScalarSyms(s.expr) \subseteq BodyFree(s))
         THEN [raise |-> "AssertionError", darg |-> DArg(<<>>, <<>>, {})]
    ELSE [raise |-> "",
          darg |-> DArg([j \in DOMAIN LoopValues |-> At(s.expr, LoopValues[j])],
                        IF sw.durmap /\ Varying(s.dur)
                        THEN [j \in DOMAIN LoopValues |-> At(s.dur, LoopValues[j])]
                        ELSE <<s.dur>>,
                        BodyFree(s))]

(* simplification passes that touch the delay arguments, by option set *)
SubstArg(d, names) == [d EXCEPT !.exprs = [i \in DOMAIN d.exprs |-> Subst(d.exprs[i], names)],
                                !.durs = [i \in DOMAIN d.durs |-> Subst(d.durs[i], names)], !.hidden = d.hidden \ names]
AliasArg(d, sw) == [d EXCEPT !.exprs = [i \in DOMAIN d.exprs |-> Alias(d.exprs[i])],
                             !.durs = IF sw.aldur THEN [i \in DOMAIN d.durs |-> Alias(d.durs[i])] ELSE d.durs]
(* expand_vectors: the delayed matrix becomes one scalar delay per element, named row by row ([1,1], [1,2], ...); the
   element of that index is taken from the expression (not the k-th one in the matrix's column-major storage order) *)
ColMajor(k) == LET j == ((k - 1) \div MatRows) + 1 i == ((k - 1) % MatRows) + 1 IN (i - 1) * MatCols + j
ExpandArg(d, sw) == IF d.mat /\ ~sw.elem THEN [d EXCEPT !.exprs = [k \in DOMAIN d.exprs |-> d.exprs[ColMajor(k)]]] ELSE d
SimplifyArgs(ds, opt, sw) ==
    CASE opt = "constvals" -> [i \in DOMAIN ds |-> SubstArg(ds[i], {"c"})]
      [] opt = "aliases" -> [i \in DOMAIN ds |-> AliasArg(ds[i], sw)]
      [] opt = "expand" -> [i \in DOMAIN ds |-> ExpandArg(ds[i], sw)]
      [] opt = "paramvals" -> IF sw.pvals THEN [i \in DOMAIN ds |-> SubstArg(ds[i], {"p", "ps"})] ELSE ds
      [] OTHER -> ds
RemainingParams(opt) == IF opt = "paramvals" THEN {} ELSE {"p", "ps"}
RemainingConsts(opt) == IF opt = "constvals" THEN {} ELSE {"c"}
RemainingAlgs(opt) == IF opt = "aliases" THEN AllAlgs \ {"b2", "y", "z"} ELSE AllAlgs

(* _post_checks: symbols a duration may not depend on *)
ForbiddenSyms(al, sw) == {"time", "der(x)", "x", "u"} \cup al
                          \cup (IF sw.dinp THEN {"_pymoca_delay"} ELSE {})     \* delayed symbols are inputs that are not fixed
DurSyms(ds) == UNION {UNION {Syms(ds[i].durs[j]) : j \in DOMAIN ds[i].durs} : i \in DOMAIN ds}
ArgSyms(ds) == DurSyms(ds) \cup UNION {UNION {Syms(ds[i].exprs[j]) : j \in DOMAIN ds[i].exprs} : i \in DOMAIN ds}
               \cup UNION {ds[i].hidden : i \in DOMAIN ds}
FunctionInputs(ps, cs, al) == {"time", "der(x)", "x", "u", "uf", "_pymoca_delay"} \cup al \cup ps \cup cs

(* delay_arguments_function evaluated at a point: one pair per element, durations broadcast *)
ArgPairs(d, n, pt) == [j \in DOMAIN d.exprs |->
                         <<IF d.mat THEN MatKey(n, j) ELSE <<n, j, 1>>,
                           Eval(d.exprs[j], pt, 0), Eval(d.durs[IF Len(d.durs) = 1 THEN 1 ELSE j], pt, 0)>>]
OpArgs(ds, pt) == Concat([i \in DOMAIN ds |-> ArgPairs(ds[i], i - 1, pt)])

NoOut == [verdict |-> "", function |-> "", args |-> <<>>]
NoFirst == [verdict |-> "", function |-> "", args |-> <<>>, raised |-> ""]

-----------------------------------------------------------------------------
(* ---- program families ---- *)
Atoms == {Ref("c"), Ref("p"), Ref("uf"), Ref("u"), Ref("x"), DerX, Ref("a"), TimeE, Lit(1)}
Expr1 == Bin("*", Ref("x"), Ref("p"))
Expr2 == Bin("+", Bin("*", Ref("x"), Ref("p")), Ref("a"))
PairDurs == {Bin("+", d1, d2) : d1, d2 \in Atoms}
OtherDurs == {Bin("*", Lit(2), d) : d \in Atoms} \cup {Bin("*", d1, d2) : d1 \in {Ref("p"), Ref("c"), Ref("uf")}, d2 \in Atoms}
             \cup {Neg(d) : d \in {Ref("p"), Ref("x")}} \cup {Bin("-", Ref("p"), d) : d \in Atoms}
LoopExprs == {IRef("xs"), Bin("*", IRef("xs"), Lit(2)), Bin("*", IRef("xs"), Ref("p")), Bin("+", IRef("xs"), Ref("x")), Ref("x")}
LoopDurs == Atoms \cup {IRef("ps"), Bin("*", Idx, Ref("p")), IRef("xs"), Bin("+", Ref("p"), Ref("uf")), Idx, Bin("+", IRef("ps"), Ref("u"))}

Outside(durs, exprs, opt) == {Prog("outside", <<Site(FALSE, e, d, FALSE)>>, opt) : d \in durs, e \in exprs}
TwoSites(opt) == {Prog("two", <<Site(FALSE, Expr1, d1, FALSE), Site(FALSE, Ref("a"), d2, FALSE)>>, opt) : d1, d2 \in Atoms}
Loops(opt) == {Prog("loop", <<Site(TRUE, e, d, b)>>, opt) : e \in LoopExprs, d \in LoopDurs, b \in BOOLEAN}
Mixed(opt) == {Prog("mixed", <<Site(FALSE, Expr2, d1, FALSE), Site(TRUE, IRef("xs"), d2, FALSE)>>, opt) :
                  d1 \in {Ref("p"), Bin("+", Ref("p"), Ref("uf")), Ref("c"), Ref("x")}, d2 \in {Ref("c"), Ref("p"), Ref("uf"), Ref("a"), IRef("ps")}}
Opts == {"constvals", "paramvals", "expand"}
(* alias elimination: durations and expressions on either member of the alias pair *)
AliasProgs == {Prog("alias", <<Site(FALSE, e, d, FALSE)>>, o) :
                  e \in {Expr1, Bin("*", Ref("b2"), Ref("p")), Bin("+", Ref("b1"), Ref("x"))},
                  d \in {Ref("b1"), Ref("b2"), Bin("+", Ref("b2"), Ref("p")), Ref("p"), Bin("+", Ref("p"), Ref("uf"))},
                  o \in {"aliases", "default"}}
(* a duration that is the result of another delay: nested, and through the algebraic variable the first delay defines
   (which alias elimination rewrites to that delay's input symbol) *)
ChainProgs == {Prog("chain", <<Site(FALSE, Expr1, d, FALSE), Site(FALSE, Ref("a"), d2, FALSE)>>, o) :
                  d \in {Ref("p"), Ref("c"), Ref("uf")}, d2 \in {Ref("y"), Bin("+", Ref("y"), Ref("p"))}, o \in {"aliases", "default", "expand"}}
              \cup {Prog("chain", <<Site(FALSE, Expr1, DelayE(Ref("x"), d), FALSE)>>, o) :
                  d \in {Ref("p"), Ref("c"), Lit(1)}, o \in {"default", "aliases", "constvals"}}
              \cup {Prog("chain", <<Site(FALSE, Expr1, Bin("+", Ref("p"), DelayE(Ref("a"), Ref("uf"))), FALSE)>>, "default")}
(* a delayed matrix expression: element-distinct values, with and without expand_vectors *)
MatProgs == {Prog("matrix", <<MatSite(e, d)>>, o) :
                e \in {MRef("xm"), Bin("*", Lit(3), MRef("xm")), Bin("+", MRef("xm"), MRef("xm"))},
                d \in {Ref("p"), Ref("c"), Bin("+", Ref("p"), Ref("uf")), Ref("x")}, o \in {"default", "expand", "constvals"}}
            \cup {Prog("matrix", <<Site(FALSE, Expr1, Ref("p"), FALSE), MatSite(Bin("*", MRef("xm"), Ref("p")), Ref("uf"))>>, o) : o \in {"default", "expand"}}
(* the model cache: the same request twice *)
CacheProgs == Outside(Atoms, {Expr1}, "cache")
              \cup {Prog("mixed", <<Site(FALSE, Expr2, d1, FALSE), Site(TRUE, IRef("xs"), d2, FALSE)>>, "cache") :
                       d1 \in {Ref("p"), Bin("+", Ref("p"), Ref("uf")), Ref("x")}, d2 \in {Ref("c"), Ref("p"), Ref("uf"), Ref("a")}}

Programs ==
    CASE Family = "quick" ->
            Outside(Atoms \cup PairDurs, {Expr1}, "default") \cup Outside(Atoms, {Expr2}, "default")
            \cup Loops("default") \cup Mixed("default")
            \cup UNION {Outside(Atoms, {Expr2}, o) \cup Mixed(o) : o \in Opts}
            \cup AliasProgs \cup CacheProgs \cup ChainProgs \cup MatProgs
      [] Family = "thorough" ->
            Outside(Atoms \cup PairDurs \cup OtherDurs, {Expr1, Expr2}, "default") \cup TwoSites("default")
            \cup Loops("default") \cup Mixed("default")
            \cup UNION {Outside(Atoms \cup PairDurs, {Expr2}, o) \cup Mixed(o) \cup Loops(o) \cup TwoSites(o) : o \in Opts}
            \cup AliasProgs \cup CacheProgs \cup Outside(PairDurs, {Expr2}, "cache") \cup ChainProgs \cup MatProgs
      [] Family = "cex" ->
            Outside(Atoms, {Expr1}, "default") \cup Loops("default") \cup Outside({Ref("p")}, {Expr1}, "paramvals")
            \cup AliasProgs \cup Outside(Atoms, {Expr1}, "cache") \cup ChainProgs \cup MatProgs

-----------------------------------------------------------------------------
(* ---- behaviour: the phases of transfer_model ---- *)
Init == /\ prog \in Programs
        /\ phase = "generate"
        /\ dargs = <<>> /\ raised = ""
        /\ params = {"p", "ps"} /\ consts = {"c"}
        /\ out = NoOut
        /\ req = 1 /\ cached = <<>> /\ first = NoFirst /\ algs = AllAlgs
        /\ last = [act |-> "init"]

(* generator.generate: every delay site in order *)
Generate ==
    /\ phase = "generate"
    /\ LET gs == [s \in DOMAIN prog.sites |-> GenSite(prog.sites[s], SW)]
           bad == {s \in DOMAIN gs : gs[s].raise # ""}
       IN  IF bad # {}
           THEN /\ raised' = gs[CHOOSE s \in bad : \A t \in bad : s <= t].raise
                /\ phase' = "done" /\ out' = [NoOut EXCEPT !.verdict = "raised"]
                /\ UNCHANGED dargs
           ELSE /\ dargs' = [s \in DOMAIN gs |-> gs[s].darg]
                /\ phase' = "simplify"
                /\ UNCHANGED <<raised, out>>
    /\ last' = [act |-> "Generate"]
    /\ UNCHANGED <<prog, params, consts, req, cached, first, algs>>

Simplify ==
    /\ phase = "simplify"
    /\ dargs' = SimplifyArgs(dargs, prog.opt, SW)
    /\ params' = RemainingParams(prog.opt)
    /\ consts' = RemainingConsts(prog.opt)
    /\ algs' = RemainingAlgs(prog.opt)
    /\ phase' = IF prog.opt = "cache" /\ ~SW.chk THEN "save" ELSE "postcheck"
    /\ last' = [act |-> "Simplify"]
    /\ UNCHANGED <<prog, raised, out, req, cached, first>>

PostChecks ==
    /\ phase = "postcheck"
    /\ IF DurSyms(dargs) \cap ForbiddenSyms(algs, SW) # {}
       THEN /\ raised' = "ValueError" /\ phase' = "done" /\ out' = [NoOut EXCEPT !.verdict = "reject"]
       ELSE /\ phase' = (IF prog.opt = "cache" /\ SW.chk /\ cached = <<>> THEN "save" ELSE "function")
            /\ out' = [NoOut EXCEPT !.verdict = "accept"] /\ UNCHANGED raised
    /\ last' = [act |-> "PostChecks"]
    /\ UNCHANGED <<prog, dargs, params, consts, req, cached, first, algs>>

(* api.save_model: the compiled model goes to the cache file *)
SaveModel ==
    /\ phase = "save"
    /\ cached' = <<dargs>>
    /\ phase' = IF SW.chk THEN "function" ELSE "postcheck"
    /\ last' = [act |-> "SaveModel"]
    /\ UNCHANGED <<prog, dargs, raised, params, consts, out, req, first, algs>>

(* the same request again: api.load_model answers from the cache file when there is one, otherwise everything is redone *)
SecondRequest ==
    /\ phase = "done" /\ prog.opt = "cache" /\ req = 1
    /\ req' = 2
    /\ first' = [verdict |-> out.verdict, function |-> out.function, args |-> out.args, raised |-> raised]
    /\ raised' = ""
    /\ IF cached # <<>>
       THEN /\ dargs' = cached[1] /\ phase' = "function" /\ out' = [NoOut EXCEPT !.verdict = "accept"]
       ELSE /\ dargs' = <<>> /\ phase' = "generate" /\ out' = NoOut
    /\ last' = [act |-> "SecondRequest"]
    /\ UNCHANGED <<prog, params, consts, cached, algs>>

DelayArgumentsFunction ==
    /\ phase = "function"
    /\ IF ArgSyms(dargs) \subseteq FunctionInputs(params, consts, algs)
       THEN out' = [out EXCEPT !.function = "built", !.args = [pt \in 1..NPoints |-> OpArgs(dargs, pt)]]
       ELSE out' = [out EXCEPT !.function = "free symbols"]
    /\ phase' = "done"
    /\ last' = [act |-> "DelayArgumentsFunction"]
    /\ UNCHANGED <<prog, dargs, raised, params, consts, req, cached, first, algs>>

Next == Generate \/ Simplify \/ PostChecks \/ SaveModel \/ DelayArgumentsFunction \/ SecondRequest
Spec == Init /\ [][Next]_vars

-----------------------------------------------------------------------------
(* ---- the property ---- *)
(* rejects exactly the models whose durations draw on a forbidden category - and by the ValueError of the post-check *)
RejectsExactly == phase = "done" => /\ (out.verdict = "reject") = DeclReject(prog)
                                     /\ out.verdict \in {"reject", "accept"}
                                     /\ (raised # "" => raised = "ValueError" /\ out.verdict = "reject")
(* for accepted models the argument function exists and returns each delayed expression and its duration *)
ArgumentsPreserved == (phase = "done" /\ ~DeclReject(prog)) =>
                         /\ out.function = "built"
                         /\ out.args = [pt \in 1..NPoints |-> DeclArgs(prog, pt)]
(* the check of the operational side never sees a loop placeholder: after generation durations are closed *)
NoPlaceholderLeft == phase \in {"simplify", "postcheck", "function"} => \A s \in ArgSyms(dargs) : ~IsPlaceholder(s)
(* the cache never holds a model the duration check rejects, and asking again gives the same answer *)
CacheHoldsOnlyAccepted == cached # <<>> => ~DeclReject(prog)
SameAnswerTwice == (phase = "done" /\ req = 2) => (out.verdict = first.verdict /\ out.args = first.args)
TypeOK == phase \in {"generate", "simplify", "postcheck", "save", "function", "done"}

-----------------------------------------------------------------------------
(* the whole pipeline as a function of the switches (as-built prediction for the binding) *)
Pred(p, sw) ==
    LET gs == [s \in DOMAIN p.sites |-> GenSite(p.sites[s], sw)]
        bad == {s \in DOMAIN gs : gs[s].raise # ""}
    IN  IF bad # {} THEN [verdict |-> "raised", function |-> "", args |-> <<>>, raised |-> "AssertionError"]
        ELSE LET ds == SimplifyArgs([s \in DOMAIN gs |-> gs[s].darg], p.opt, sw) IN
             IF DurSyms(ds) \cap ForbiddenSyms(RemainingAlgs(p.opt), sw) # {}
             THEN [verdict |-> "reject", function |-> "", args |-> <<>>, raised |-> "ValueError"]
             ELSE IF ArgSyms(ds) \subseteq FunctionInputs(RemainingParams(p.opt), RemainingConsts(p.opt), RemainingAlgs(p.opt))
                  THEN [verdict |-> "accept", function |-> "built", args |-> [pt \in 1..NPoints |-> OpArgs(ds, pt)], raised |-> ""]
                  ELSE [verdict |-> "accept", function |-> "free symbols", args |-> <<>>, raised |-> ""]

Tags(p) ==
    {p.fam, "opt-" \o p.opt}
    \cup (IF DeclReject(p) THEN {"reject"} ELSE {"accept"})
    \cup UNION {{"dur:" \o cname : cname \in Cats(p.sites[s].dur)} : s \in DOMAIN p.sites}
    \cup (IF \E s \in DOMAIN p.sites : p.sites[s].loop THEN {"in-loop"} ELSE {"outside-loop"})
    \cup (IF \E s \in DOMAIN p.sites : p.sites[s].mat THEN {"matrix-delay"} ELSE {})
    \cup (IF \E s \in DOMAIN p.sites : p.sites[s].loop /\ Varying(p.sites[s].dur) THEN {"loop-indexed-duration"} ELSE {})
    \cup (IF \E s \in DOMAIN p.sites : GenSite(p.sites[s], AsBuilt).raise # "" THEN {"loop-expr-free-var"} ELSE {})
    \cup (IF p.opt = "paramvals" /\ (\A s \in DOMAIN p.sites : GenSite(p.sites[s], AsBuilt).raise = "")
             /\ {"p", "ps"} \cap ArgSyms([s \in DOMAIN p.sites |-> GenSite(p.sites[s], AsBuilt).darg]) # {}
          THEN {"paramvals-in-delay"} ELSE {})

SetToSeq(S) == LET RECURSIVE f(_) f(R) == IF R = {} THEN <<>> ELSE LET x == CHOOSE x \in R : TRUE IN <<x>> \o f(R \ {x}) IN f(S)
PointOf(pt) == [val |-> PointVal[pt], time |-> PointTime[pt], der |-> PointDer[pt], decl |-> DeclValue,
                shape |-> [xm |-> <<MatRows, MatCols>>, ym |-> <<MatRows, MatCols>>]]

View == <<prog, phase, dargs, raised, params, consts, out, req, cached, first, algs>>
Log ==
    IF phase' = "done" /\ (prog.opt # "cache" \/ req' = 2)
    THEN PrintT(<<"PROG", ToJson([prog |-> prog, tags |-> SetToSeq(Tags(prog)), expect |-> Expect(prog),
                                  points |-> [pt \in 1..NPoints |-> PointOf(pt)],
                                  pred |-> [verdict |-> out'.verdict, function |-> out'.function, args |-> out'.args, raised |-> raised'],
                                  first |-> first',
                                  asbuilt |-> Pred(prog, AsBuilt)])>>)
    ELSE TRUE
=============================================================================
