\* regression: only the truthiness of option values is compared - TLC is EXPECTED to violate ResultIsFresh
CONSTANTS K = 2
          Editable = {"M"}
          Addable = {}
          OptNames = {"O1","O5","O6"}
          Modes = {"cache","codegen"}
          Versions = {1,2}
          Holds = {FALSE}
          MaxClock = 1000000
          LibFoldersInKey = TRUE
          Beyond = {}
          OptionValuesCompared = FALSE
          FreshLibHandles = TRUE
INIT Init
NEXT Next
VIEW View
INVARIANT TypeOK
INVARIANT ClockInv
INVARIANT ResultIsFresh
PROPERTY ResultIsFreshAct
CHECK_DEADLOCK FALSE
