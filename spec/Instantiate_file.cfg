\* parameter vectors drawn by the harness (IOEnv.PV_FILE), intended switches, every invariant
CONSTANTS Family = "file" MaxDepth = 4 Wide = TRUE
 DottedAttrAsValue = FALSE InnerArgsLoseScope = FALSE ReRenameFlatRefs = FALSE AliasOfAliasDropsMods = FALSE InheritedTypeInDerivedScope = FALSE
INIT Init
NEXT Next
VIEW View
CHECK_DEADLOCK FALSE
PROPERTY PhaseOrder
INVARIANT DeclIgnoresSpelling
INVARIANT OpEqualsDecl
INVARIANT SpellingInvariance
INVARIANT OneVariablePerLeaf
INVARIANT CanonicalAccepted
INVARIANT ModsArriveInOrder
INVARIANT NothingPending
