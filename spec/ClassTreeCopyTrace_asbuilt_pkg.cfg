\* evaluate given histories with the as-built switches (pinned tree: flatten works in place)
CONSTANTS DeepCopyRebindsParents = FALSE CopyHookBoundToCopy = FALSE FlattenCopiesTop = FALSE
          Lib = "pkg" Universe = "pfull" MaxTrees = 4 MaxOps = 1000000
INIT TInit
NEXT TNext
VIEW TView
ACTION_CONSTRAINT At
POSTCONDITION Accepted
CHECK_DEADLOCK FALSE
