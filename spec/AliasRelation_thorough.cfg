CONSTANTS Names = {"a","b","c","d"} MaxRel = 2 MaxOps = 1000
INIT Init
NEXT Next
VIEW ViewNoOps
ACTION_CONSTRAINT Log
INVARIANT WellFormed
CHECK_DEADLOCK FALSE
