\* mutation: MX_DEPENDENT and MX_INDEPENDENT exchanged - RoundTrip must FAIL
CONSTANTS XKinds = {"lit","pdep"}
          YKinds = {"none"}
          Aliases = {"none"}
          Delays = {"none"}
          Opts = {"base"}
          FKinds = {"none"}
          Typed = {FALSE}
          Strs = {FALSE}
          Outs = {TRUE}
          SwapDepClasses = TRUE
          ForgetOutputs = FALSE
          DurDepsOffByOne = FALSE
          ConstMXNotMX = FALSE
          TruthyOptions = FALSE
INIT Init
NEXT Next
INVARIANT RoundTrip
INVARIANT NoMXPickled
INVARIANT SwitchedIsFresh
CHECK_DEADLOCK FALSE
