\* C21 as built: EXPECTED to violate Recovers (a truncated cache file is never repaired)
CONSTANTS Procs = {"p1"}
          DiffOpts = FALSE
          Codegen = FALSE
          N = 3
          NL = 2
          MaxCrashes = 1
          Inits = {"none"}
          Sequential = FALSE
          AtomicWrite = FALSE
          CatchUnpickle = FALSE
          UniqueLibs = FALSE
          CatchLibError = FALSE
SPECIFICATION Spec
PROPERTY Recovers
CHECK_DEADLOCK FALSE
