----------------------------- MODULE VectorExpand -----------------------------
(* Property C18: with expand_vectors every array variable becomes scalar
   variables named with 1-based Modelica indices, each carrying the matching
   element of the array's attributes; the expanded residual is the unexpanded
   one under that renaming; outputs and delay states are renamed alike.

   Declarative side
     a flat variable has a dotted path a.b.c and one dimension list per path
     level (Model._expand_vectors calls this the "modelica shape");
       Tuples(fv)            all index tuples over the concatenated dimensions, in
                             Modelica (row-major) order
       ScalarName(fv, idx)   a[i].b.c[j,k]   (inside der( ) for derivatives)
       AttrElem(fv, a, idx)  the element of attribute a that belongs to idx: the
                             attribute is declared for the LAST path level (own
                             dimensions), so the trailing indices select it;
                             a scalar / "each" value belongs to every element
     every list of the model (states, der_states, alg_states, inputs, parameters,
     constants) keeps its order, every array replaced by its scalars in Tuples order;
     outputs likewise.
   Operational side (model.py:280-460): per variable group and variable
     SplitName      regex: leading "der(" prefix, trailing ")" postfix, split on "."
     FormatName     one "[{},..]" group per path level that has dimensions
     np.ndindex     iteration over the concatenated shape
     PickAttr       python list: val = val[i] for EVERY index of the tuple (as built);
                    DM / MX: value[ind]; scalar: as is
     ValueMatrix    reshape(vertcat(scalars), reversed(symbol.shape)).T  -- the matrix that is
                    substituted for the array symbol in equations, delay arguments, metadata
   Invariants: NamesAgree, AttrsAgree (incl. "expansion does not raise"), RenamingFaithful
   (element (i, j) of ValueMatrix is the scalar whose name carries the Modelica index of that
   element), OutputsAgree.
   As-built switch NestedAttrByOwnDims (FALSE = as built: a list-valued attribute of an array
   inside an array of components is indexed with the whole tuple -> TypeError).             *)
EXTENDS Eval, Json, SequencesExt, IOUtils

CONSTANTS Tier, NestedAttrByOwnDims

ATTRS == <<"value", "min", "max", "start", "fixed", "nominal">>
NaN  == <<2, 0>>
PInf == <<1, 0>>
NInf == <<-1, 0>>
Default(a) == CASE a = "value" -> NaN [] a = "start" -> Zero [] a = "min" -> NInf [] a = "max" -> PInf
                [] a = "nominal" -> Zero [] a = "fixed" -> Zero

-----------------------------------------------------------------------------
(* programs: Prog of Eval.tla plus component classes;  a component whose type names a class is an
   (array of) component instance(s); flattening gives one flat variable per leaf *)
Class(name, comps, eqs) == [name |-> name, comps |-> comps, eqs |-> eqs]
XProg(classes, comps, eqs, ieqs) == [name |-> "M", classes |-> classes, comps |-> comps, eqs |-> eqs, ieqs |-> ieqs, funcs |-> <<>>]
IsClass(P, ty) == \E i \in DOMAIN P.classes : P.classes[i].name = ty
ClassNamed(P, ty) == P.classes[CHOOSE i \in DOMAIN P.classes : P.classes[i].name = ty]

(* sibs: the components of the class the variable is declared in (name, dims) - the names its attribute expressions may
   mention besides literals; for a top-level variable the top-level components *)
FV(parts, shapes, c, sibs) == [parts |-> parts, shapes |-> shapes, type |-> c.type, prefix |-> c.prefix, mods |-> c.mods, sibs |-> sibs]
SibsOf(comps) == [i \in DOMAIN comps |-> [name |-> comps[i].name, dims |-> comps[i].dims]]
FlatVars(P) == Flatten([i \in DOMAIN P.comps |->
    LET c == P.comps[i] IN
    IF IsClass(P, c.type)
    THEN LET cl == ClassNamed(P, c.type) IN [j \in DOMAIN cl.comps |-> FV(<<c.name, cl.comps[j].name>>, <<c.dims, cl.comps[j].dims>>, cl.comps[j], SibsOf(cl.comps))]
    ELSE <<FV(<<c.name>>, <<c.dims>>, c, <<>>)>>])

RECURSIVE JoinDot(_)
JoinDot(parts) == IF Len(parts) = 1 THEN parts[1] ELSE parts[1] \o "." \o JoinDot(Tail(parts))
FlatName(fv) == JoinDot(fv.parts)
AllDims(fv) == Flatten(fv.shapes)
OwnDims(fv) == fv.shapes[Len(fv.shapes)]
IsArray(fv) == AllDims(fv) # <<>>

(* states: the flat variables x for which der(x) occurs; here: marked by the family through the set StateNames *)
CatOf(fv, states) == CASE fv.prefix = "constant" -> "constants" [] fv.prefix = "parameter" -> "parameters"
                       [] fv.prefix = "input" -> "inputs" [] FlatName(fv) \in states -> "states" [] OTHER -> "alg_states"

-----------------------------------------------------------------------------
(* declarative *)
RECURSIVE TuplesOf(_)
TuplesOf(dims) == IF dims = <<>> THEN << <<>> >>
                  ELSE LET rest == TuplesOf(Tail(dims))
                       IN  Flatten([i \in 1..Head(dims) |-> [j \in DOMAIN rest |-> <<i>> \o rest[j]]])
Tuples(fv) == TuplesOf(AllDims(fv))

Digits == <<"0", "1", "2", "3", "4", "5", "6", "7", "8", "9">>
Str(i) == IF i < 10 THEN Digits[i + 1] ELSE Digits[(i \div 10) + 1] \o Digits[(i % 10) + 1]
RECURSIVE CommaList(_)
CommaList(ix) == IF Len(ix) = 1 THEN Str(ix[1]) ELSE Str(ix[1]) \o "," \o CommaList(Tail(ix))

RECURSIVE NameFrom(_, _, _)
NameFrom(parts, shapes, idx) ==       \* a[i].b.c[j,k]
    LET n    == Len(shapes[1])
        here == parts[1] \o (IF n = 0 THEN "" ELSE "[" \o CommaList(SubSeq(idx, 1, n)) \o "]")
    IN  IF Len(parts) = 1 THEN here ELSE here \o "." \o NameFrom(Tail(parts), Tail(shapes), SubSeq(idx, n + 1, Len(idx)))
ScalarName(fv, idx, isDer) == IF isDer THEN "der(" \o NameFrom(fv.parts, fv.shapes, idx) \o ")" ELSE NameFrom(fv.parts, fv.shapes, idx)
ScalarNames(fv, isDer) == LET tp == Tuples(fv) IN [k \in DOMAIN tp |-> ScalarName(fv, tp[k], isDer)]

(* row-major position of an own-dimension index tuple *)
PosIn(dims, ix) == IF Len(dims) = 0 THEN 1 ELSE IF Len(dims) = 1 THEN ix[1] ELSE (ix[1] - 1) * dims[2] + ix[2]
OwnIdx(fv, idx) == SubSeq(idx, Len(idx) - Len(OwnDims(fv)) + 1, Len(idx))

(* The attribute expression of a variable declared inside a component class is written in the scope of that class:
   a sibling name s means, for the instance with outer index o, the variable  outer[o].s .  InstEnv binds every sibling
   to the slice of the flat variable outer.s that belongs to that instance.                                        *)
IsNested(fv) == Len(fv.parts) = 2
OuterDims(fv) == fv.shapes[1]
InstEnv(fv, idx, env) ==
    IF ~IsNested(fv) THEN env
    ELSE LET opos == PosIn(OuterDims(fv), SubSeq(idx, 1, Len(OuterDims(fv))))
             names == {fv.sibs[i].name : i \in DOMAIN fv.sibs}
             dimsOf(n) == fv.sibs[CHOOSE i \in DOMAIN fv.sibs : fv.sibs[i].name = n].dims
         IN  [x \in (DOMAIN env) \cup names |->
                IF x \in names
                THEN LET ne == Numel(dimsOf(x)) IN V(dimsOf(x), [k \in 1..ne |-> env[fv.parts[1] \o "." \o x].d[(opos - 1) * ne + k]])
                ELSE env[x]]
AttrElem(fv, a, idx, cx) ==
    IF ~HasMod(fv, a) THEN Default(a)
    ELSE LET v == Val(ModOf(fv, a).e, [cx EXCEPT !.env = InstEnv(fv, idx, cx.env)])        \* scalar, or shaped like the own dimensions
         IN  IF IsErr(v) THEN Und ELSE IF IsScalar(v) THEN v.d[1] ELSE v.d[PosIn(OwnDims(fv), OwnIdx(fv, idx))]

(* what the generator stores: the expression over the FLAT symbols (sibling s renamed to outer.s), one matrix for all instances *)
RECURSIVE Qualify(_, _, _)
Qualify(e, prefix, names) ==
    IF e.k = "ref" /\ e.n \in names THEN [e EXCEPT !.n = prefix \o "." \o e.n]
    ELSE [e EXCEPT !.a = [i \in DOMAIN e.a |-> Qualify(e.a[i], prefix, names)]]
AttrValue(fv, a, cx) ==
    IF IsNested(fv) THEN Val(Qualify(ModOf(fv, a).e, fv.parts[1], {fv.sibs[i].name : i \in DOMAIN fv.sibs}), cx)
    ELSE Val(ModOf(fv, a).e, cx)

-----------------------------------------------------------------------------
(* operational: Model._expand_vectors for one variable *)
(* re.match(r"((?:der\()*|\b)(.*?)([\)]*|\b)$") on "der(a.x)" -> prefix "der(", name "a.x", postfix ")" *)
SplitName(fv, isDer) == [prefix |-> IF isDer THEN "der(" ELSE "", names |-> fv.parts, postfix |-> IF isDer THEN ")" ELSE ""]

RECURSIVE FormatFrom(_, _, _)
FormatFrom(names, shapes, idx) ==     \* component_name_format.format(*(i + 1 for i in ind)),  idx is the 0-based ndindex tuple
    LET n    == Len(shapes[1])
        here == names[1] \o (IF shapes[1] = <<>> THEN "" ELSE "[" \o CommaList([j \in 1..n |-> idx[j] + 1]) \o "]")
    IN  IF Len(names) = 1 THEN here ELSE here \o "." \o FormatFrom(Tail(names), Tail(shapes), SubSeq(idx, n + 1, Len(idx)))
NdIndex(fv) == LET tp == Tuples(fv) IN [k \in DOMAIN tp |-> [j \in DOMAIN tp[k] |-> tp[k][j] - 1]]     \* np.ndindex: C order, 0-based
OpName(fv, ind, isDer) == LET sp == SplitName(fv, isDer) IN sp.prefix \o FormatFrom(sp.names, fv.shapes, ind) \o sp.postfix

(* how the attribute is stored on the unexpanded Variable: "scalar" | "list" (python list, nested per own dims) | "mx" (matrix shaped like the symbol) *)
StoredKind(fv, a) == IF ~HasMod(fv, a) THEN "scalar"
                     ELSE LET e == ModOf(fv, a).e IN IF e.k = "arr" THEN "list" ELSE IF e.k = "lit" \/ (e.k = "un" /\ e.a[1].k = "lit") THEN "scalar" ELSE "mx"
(* python: val = value; for i in ind: val = val[i]   on a list nested Len(own dims) deep.  "raise" = TypeError *)
PickList(fv, a, ind, cx) ==
    LET v    == AttrValue(fv, a, cx)
        used == IF NestedAttrByOwnDims THEN SubSeq(ind, Len(ind) - Len(OwnDims(fv)) + 1, Len(ind)) ELSE ind
    IN  IF Len(used) > Len(OwnDims(fv)) THEN [st |-> "raise", v |-> Und]          \* 'int' object is not subscriptable
        ELSE [st |-> "ok", v |-> v.d[PosIn(OwnDims(fv), [j \in DOMAIN used |-> used[j] + 1])]]
(* MX / DM value[ind]: the attribute matrix is shaped like the whole symbol (own dims only for a top-level array) *)
PickMX(fv, a, ind, cx) ==
    LET v == AttrValue(fv, a, cx)
    IN  IF IsScalar(v) THEN [st |-> "ok", v |-> v.d[1]]                            \* np.prod(value.shape) == 1: assigned as is
        ELSE IF Len(ind) # Len(v.sh) THEN [st |-> "raise", v |-> Und]
        ELSE [st |-> "ok", v |-> v.d[PosIn(v.sh, [j \in DOMAIN ind |-> ind[j] + 1])]]
OpAttr(fv, a, ind, cx) ==
    CASE StoredKind(fv, a) = "scalar" -> [st |-> "ok", v |-> IF HasMod(fv, a) THEN AttrValue(fv, a, cx).d[1] ELSE Default(a)]
      [] StoredKind(fv, a) = "list"   -> PickList(fv, a, ind, cx)
      [] StoredKind(fv, a) = "mx"     -> PickMX(fv, a, ind, cx)

(* the symbol is an r x c MX (column-major); values.append(reshape(vertcat(expanded), reversed(shape)).T) *)
SymShape(fv) == LET d == AllDims(fv) IN IF Len(d) = 1 THEN <<d[1], 1>> ELSE <<d[1], d[2]>>
(* column-major element k (1-based) of the substituted matrix = which expanded scalar (position in ndindex order)? *)
ValueMatrixAt(fv, k) ==
    LET r == SymShape(fv)[1]
        c == SymShape(fv)[2]
        i == (k - 1) % r              \* row, col of the r x c result (column-major storage)
        j == (k - 1) \div r
        (* result = R.T with R = reshape(v, (c, r)) column-major: R[a, b] = v[b * c + a];  result[i, j] = R[j, i] = v[i * c + j] *)
    IN  i * c + j + 1

-----------------------------------------------------------------------------
(* family *)
I(i) == ILit(i)
L(n, d) == Lit(Q(n, d))
Rp == Ref("p")
Rw == Ref("w")
RW == Ref("W")
ParamsCtx == << Param("p", RI(2)), Comp("w", "Real", "parameter", <<2>>, <<Mod("value", Arr(<<L(3, 2), L(5, 2)>>))>>) >>
(* a parameter array W shaped like the array under test, with pairwise distinct (non-symmetric) declared elements *)
DistinctLits(dims) == IF Len(dims) = 1 THEN Arr([j \in 1..dims[1] |-> L(2 * j + 1, 2)])
                      ELSE Arr([i \in 1..dims[1] |-> Arr([j \in 1..dims[2] |-> L(2 * ((i - 1) * dims[2] + j) + 1 + (i - 1), 2)])])
(* wk: what kind of variable W is - attributes may refer to parameters, but just as well to input, algebraic (or
   state) arrays, which the expansion replaces by scalars too *)
WKinds == {"parameter", "input", "alg"}
ParamsFor(dims, wk) == ParamsCtx \o <<IF wk = "parameter" THEN Comp("W", "Real", "parameter", dims, <<Mod("value", DistinctLits(dims))>>)
                                       ELSE Comp("W", "Real", IF wk = "input" THEN "input" ELSE "", dims, <<>>)>>
LastIdx(dims) == [i \in DOMAIN dims |-> I(dims[i])]

ArrMods(dims) ==       \* attribute patterns for an array with own dimensions dims: [mods, tag]
    (IF dims = <<2>> THEN
        {<< <<Mod("start", Arr(<<I(1), I(2)>>))>>, "attr-array-lit">>,
         << <<Mod("max", Arr(<<L(7, 2), I(9)>>)), EachMod("min", Un("-", I(1)))>>, "attr-array-lit">>,
         << <<Mod("start", Arr(<<Bin("*", I(2), Rp), Bin("*", I(3), Rp)>>))>>, "attr-list-of-mx">>,
         << <<Mod("max", Bin("*", I(2), Rw))>>, "attr-array-mx">>,
         << <<Mod("nominal", Rw), Mod("start", Arr(<<I(4), I(5)>>))>>, "attr-array-mx">>}
     ELSE IF dims = <<3>> THEN
        {<< <<Mod("start", Arr(<<I(1), I(2), I(3)>>)), Mod("min", Arr(<<Un("-", I(1)), Un("-", I(2)), Un("-", I(3))>>))>>, "attr-array-lit">>}
     ELSE IF dims = <<2, 2>> THEN
        {<< <<Mod("max", Arr(<<Arr(<<I(1), I(2)>>), Arr(<<I(3), I(4)>>)>>))>>, "attr-matrix-lit">>}
     ELSE IF dims = <<2, 3>> THEN
        {<< <<Mod("start", Arr(<<Arr(<<I(1), I(2), I(3)>>), Arr(<<I(4), I(5), I(6)>>)>>))>>, "attr-matrix-lit">>}
     ELSE IF dims = <<3, 2>> THEN
        {<< <<Mod("start", Arr(<<Arr(<<I(1), I(2)>>), Arr(<<I(3), I(4)>>), Arr(<<I(5), I(6)>>)>>))>>, "attr-matrix-lit">>}
     ELSE {})
    \cup {<< <<>>, "attr-none">>, << <<EachMod("min", Un("-", I(2))), EachMod("nominal", I(3))>>, "attr-each">>,
          << <<EachMod("max", Bin("+", Rp, I(1)))>>, "attr-each-mx">>,
          (* parameter-dependent (symbolic) attributes shaped like the array, for every shape *)
          << <<Mod("max", Bin("*", Rp, RW)), Mod("min", Un("-", RW))>>, IF Len(dims) = 1 THEN "attr-array-mx" ELSE "attr-matrix-mx">>,
          << <<Mod("nominal", RW), Mod("start", Bin("+", RW, Rp))>>, IF Len(dims) = 1 THEN "attr-array-mx" ELSE "attr-matrix-mx">>}

Shapes(tier) == IF tier = "quick" THEN {<<2>>, <<3>>, <<2, 3>>, <<2, 2>>} ELSE {<<1>>, <<2>>, <<3>>, <<2, 2>>, <<2, 3>>, <<3, 2>>}
Kinds == {"alg", "state", "input", "parameter", "output", "output-state"}
PrefixOfKind(kd) == CASE kd = "input" -> "input" [] kd = "parameter" -> "parameter" [] kd \in {"output", "output-state"} -> "output" [] OTHER -> ""
IsStateKind(kd) == kd \in {"state", "output-state"}

(* equations that use the array as a whole, element-wise and through slices, so that the renaming is observable *)
ArrEqs(dims, kd) ==
    LET a == Ref("a") b == Ref("b") IN
    (IF IsStateKind(kd) THEN <<Eq(Der(a), Bin("*", I(2), b))>> ELSE <<>>)
    \o (IF kd \in {"input", "parameter"} THEN <<Eq(b, Bin("*", I(3), a))>>
        ELSE IF Len(dims) = 1
        THEN <<Eq(a, Bin("+", b, Ref("x"))), Eq(Idx("b", <<I(dims[1])>>), Bin("*", Idx("a", <<I(1)>>), Ref("x")))>>
        ELSE <<Eq(Idx("a", <<I(1), Colon>>), Bin("*", I(2), Idx("b", <<I(dims[1]), Colon>>))),
               Eq(Idx("b", <<Colon, I(dims[2])>>), Idx("a", <<Colon, I(1)>>)),
               Eq(Idx("a", <<I(dims[1]), I(dims[2])>>), Ref("x"))>>)
    \o (IF Len(dims) = 1 THEN <<ForEq("i", I(1), I(dims[1]), <<Eq(Idx("c", <<Ref("i")>>), Bin("*", Ref("i"), Idx("a", <<Ref("i")>>)))>>)>> ELSE <<>>)

(* the scalar x has attributes that mention single ELEMENTS of the algebraic array b and of W *)
TopItem(dims, kd, mt, wk) ==
    [fam |-> "vexp",
     prog |-> XProg(<<>>, ParamsFor(dims, wk) \o <<Comp("x", "Real", "", <<>>, <<Mod("start", Idx("b", LastIdx(dims))), Mod("max", Bin("+", Idx("W", LastIdx(dims)), I(1)))>>),
                                                     Comp("a", "Real", PrefixOfKind(kd), dims, mt[1]), RealA("b", dims), RealA("c", dims)>>,
                    ArrEqs(dims, kd), IF IsStateKind(kd) THEN <<Eq(Ref("a"), Ref("b"))>> ELSE <<>>),
     states |-> IF IsStateKind(kd) THEN {"a"} ELSE {},
     extra |-> {"top", mt[2], "kind:" \o kd, "attr-ref:" \o wk, IF Len(dims) = 1 THEN "1-D" ELSE "2-D"}]

(* arrays inside (arrays of) components *)
(* the class has its own parameter array g (a list-valued "value" with distinct elements) that v's attributes may mention *)
SubClass(innerDims, mods) == Class("Sub", <<Comp("g", "Real", "parameter", innerDims, <<Mod("value", DistinctLits(innerDims))>>),
                                            Comp("v", "Real", "", innerDims, mods), Real("s"), Comp("k", "Integer", "", <<>>, <<Mod("max", I(7))>>)>>,
                                   <<Eq(Idx("v", <<I(1)>>), Bin("*", I(2), Ref("s")))>>)
NestedMods(innerDims) ==
    {m \in ArrMods(innerDims) : m[2] \in {"attr-array-lit", "attr-matrix-lit", "attr-none", "attr-each"}}
    \cup {<< <<Mod("max", Bin("*", I(2), Ref("g"))), Mod("min", Un("-", Ref("g")))>>, "attr-nested-mx">>,
          << <<Mod("start", Ref("g")), Mod("nominal", DistinctLits(innerDims))>>, "attr-nested-mx">>}
NestedItem(outerDims, innerDims, mt, st) ==
    [fam |-> "vexp",
     prog |-> XProg(<<SubClass(innerDims, mt[1])>>, ParamsCtx \o <<Comp("sub", "Sub", "", outerDims, <<>>), Real("x")>>,
                    IF st THEN <<Eq(Der(Ref("x")), I(1))>> ELSE <<>>, <<>>),
     states |-> IF st THEN {"x"} ELSE {},
     extra |-> {"nested", mt[2], IF outerDims = <<>> THEN "outer-scalar" ELSE "outer-array"}]

(* other types, delay of an array, several arrays in one list *)
MiscItems ==
    {[fam |-> "vexp", prog |-> XProg(<<>>, ParamsCtx \o <<Comp("k", "Integer", "", <<2>>, <<Mod("start", Arr(<<I(1), I(2)>>)), EachMod("max", I(5))>>),
                                                          Comp("f", "Boolean", "", <<2>>, <<Mod("start", Arr(<<BLit(TRUE), BLit(FALSE)>>))>>), Real("x")>>, <<>>, <<>>),
      states |-> {}, extra |-> {"top", "int-bool"}],
     [fam |-> "vexp", prog |-> XProg(<<>>, ParamsCtx \o <<RealA("a", <<2>>), RealA("b", <<2>>), Real("x")>>,
                                    <<Eq(Ref("b"), Call("delay", <<Ref("a"), L(1, 1)>>)), Eq(Ref("x"), Call("delay", <<Idx("a", <<I(2)>>), Rp>>))>>, <<>>),
      states |-> {}, extra |-> {"top", "delay"}],
     [fam |-> "vexp", prog |-> XProg(<<>>, ParamsCtx \o <<RealA("A", <<2, 3>>), RealA("B", <<2, 3>>), RealA("v", <<3>>), RealA("q", <<2>>), Real("x")>>,
                                    <<Eq(Ref("B"), Call("delay", <<Ref("A"), L(2, 1)>>)),                           \* a matrix
                                      Eq(Ref("v"), Call("delay", <<Idx("A", <<I(1), Colon>>), Rp>>)),               \* a row (1 x 3 expression)
                                      Eq(Ref("q"), Call("delay", <<Idx("A", <<Colon, I(2)>>), L(1, 2)>>)),          \* a column
                                      Eq(Ref("x"), Call("delay", <<Idx("A", <<I(2), I(3)>>), Rp>>))>>, <<>>),
      states |-> {}, extra |-> {"top", "delay", "delay-2-D"}],
     [fam |-> "vexp", prog |-> XProg(<<>>, ParamsCtx \o <<RealA("A", <<3, 2>>), RealA("B", <<3, 2>>), Real("x")>>,
                                    <<Eq(Ref("B"), Call("delay", <<Bin("*", I(2), Ref("A")), Rp>>))>>, <<>>),
      states |-> {}, extra |-> {"top", "delay", "delay-2-D"}],
     [fam |-> "vexp", prog |-> XProg(<<>>, ParamsCtx \o <<Comp("o1", "Real", "output", <<2>>, <<>>), Real("x"), Comp("o2", "Real", "output", <<>>, <<>>),
                                                          Comp("o3", "Real", "output", <<2, 2>>, <<>>), RealA("a", <<2>>)>>,
                                    <<Eq(Ref("o1"), Ref("a")), Eq(Der(Ref("o2")), Ref("x"))>>, <<>>),
      states |-> {"o2"}, extra |-> {"top", "outputs"}]}

Items(tier) ==
    UNION {{TopItem(d, kd, mt, "parameter") : kd \in Kinds, mt \in ArrMods(d)} : d \in Shapes(tier)}
    (* the attribute patterns that mention W, with W an input / algebraic array *)
    \cup UNION {{TopItem(d, kd, mt, wk) : kd \in {"alg", "state", "output"}, wk \in WKinds \ {"parameter"},
                                          mt \in {m \in ArrMods(d) : m[2] \in {"attr-array-mx", "attr-matrix-mx"}}} : d \in Shapes(tier)}
    (* arrays inside component instances: scalar instance and arrays of instances, square and NON-square nesting (sub[2].v[3], sub[3].v[2]);
       a 2-D array inside an array of instances would need 3 dimensions: MX cannot hold it (NotImplementedError without expansion) *)
    \cup UNION {{NestedItem(od[1], od[2], mt, st) : mt \in NestedMods(od[2]), st \in BOOLEAN} :
                  od \in {<< <<>>, <<2>> >>, << <<>>, <<2, 3>> >>, << <<2>>, <<2>> >>, << <<2>>, <<3>> >>, << <<3>>, <<2>> >>}}
    \cup MiscItems

(* keep the well-shaped ones: attribute values scalar or shaped like the own dimensions; parameters get no min/max of other parameters' arrays etc. *)
FlatProg(P) == LET fvs == FlatVars(P)
               IN  [P EXCEPT !.comps = [i \in DOMAIN fvs |-> Comp(FlatName(fvs[i]), fvs[i].type, fvs[i].prefix, AllDims(fvs[i]), <<>>)]]
(* attribute expressions only mention the top-level parameters p and w: evaluate them in that context *)
AttrCx(P, t) == Cx(P, EnvAt(FlatProg(P), t), NoLoc)
ShapeOK(it) == LET fvs == FlatVars(it.prog)
                   cx  == AttrCx(it.prog, 1)
               IN  \A i \in DOMAIN fvs : \A j \in DOMAIN ATTRS :
                      HasMod(fvs[i], ATTRS[j]) =>
                          LET v == AttrValue(fvs[i], ATTRS[j], cx) IN ~IsErr(v) /\ (IsScalar(v) \/ v.sh = OwnDims(fvs[i]) \/ v.sh = AllDims(fvs[i]))
(* a parameter's own attributes must not depend on other parameters through arrays it cannot have; inputs / parameters take no "value" *)
Family == {it \in Items(Tier) : ShapeOK(it)}

-----------------------------------------------------------------------------
(* machine: the loop of _expand_vectors over the variable groups *)
GROUPS == <<"states", "der_states", "alg_states", "inputs", "parameters", "constants">>

VARIABLES item,      \* the program
          gi,        \* number of variable groups expanded so far (99 = finished)
          expanded,  \* operational side: per group the expanded scalars [name, attrs per point]
          raised,    \* the expansion raised (TypeError)
          fvs,       \* the flat variables of the program
          cxs,       \* environment per point (parameter values, variable values)
          decl       \* declarative side: per group the expected scalars
vars == <<item, gi, expanded, raised, fvs, cxs, decl>>
P0 == item.prog
Pts == 1..NPts
NShards == IF "VF_NSHARDS" \in DOMAIN IOEnv THEN atoi(IOEnv.VF_NSHARDS) ELSE 1
ShardNo == IF "VF_SHARD" \in DOMAIN IOEnv THEN atoi(IOEnv.VF_SHARD) ELSE 0
Shard == IF NShards = 1 THEN Family
         ELSE LET its == SetToSeq(Family) IN {its[i] : i \in {j \in DOMAIN its : j % NShards = ShardNo}}

(* the variables of group g, in model order (declaration order within a group) *)
GroupVarsOf(fv_, states, g) == LET src == IF g = "der_states" THEN "states" ELSE g
                               IN  SelectSeq(fv_, LAMBDA fv : CatOf(fv, states) = src)
GroupVars(g) == GroupVarsOf(fvs, item.states, g)

OpExpandVar(fv, isDer) ==       \* list of [name, attrs: per point per attribute [st, v]]
    LET nd == NdIndex(fv) IN
    [k \in DOMAIN nd |->
        [name |-> OpName(fv, nd[k], isDer),
         attrs |-> IF isDer THEN <<>>
                   ELSE [t \in Pts |-> [j \in DOMAIN ATTRS |-> OpAttr(fv, ATTRS[j], nd[k], Cx(P0, cxs[t], NoLoc))]]]]
DeclExpandVar(fv, isDer, cx_) ==
    LET tp == Tuples(fv) IN
    [k \in DOMAIN tp |->
        [name |-> ScalarName(fv, tp[k], isDer),
         attrs |-> IF isDer THEN <<>>
                   ELSE [t \in Pts |-> [j \in DOMAIN ATTRS |-> [st |-> "ok", v |-> AttrElem(fv, ATTRS[j], tp[k], cx_[t])]]]]]

Init == /\ item \in Shard /\ gi = 0 /\ expanded = <<>> /\ raised = FALSE
        /\ fvs = FlatVars(item.prog)
        /\ cxs = LET fp == FlatProg(item.prog) IN [t \in Pts |-> EnvAt(fp, t)]
        /\ decl = LET f == FlatVars(item.prog)
                      fp == FlatProg(item.prog)
                      c == [t \in Pts |-> Cx(item.prog, EnvAt(fp, t), NoLoc)]
                  IN  [g \in DOMAIN GROUPS |->
                         LET gv == GroupVarsOf(f, item.states, GROUPS[g])
                         IN  Flatten([i \in DOMAIN gv |-> DeclExpandVar(gv[i], GROUPS[g] = "der_states", c)])]

ExpandGroup ==
    /\ gi < Len(GROUPS) /\ ~raised
    /\ LET g   == GROUPS[gi + 1]
           gv  == GroupVars(g)
           out == Flatten([i \in DOMAIN gv |-> OpExpandVar(gv[i], g = "der_states")])
       IN  /\ expanded' = Append(expanded, out)
           /\ raised' = LET o2 == expanded'[gi + 1]
                        IN  \E i \in DOMAIN o2 : o2[i].attrs # <<>> /\ \E t \in Pts : \E j \in DOMAIN ATTRS : o2[i].attrs[t][j].st = "raise"
    /\ gi' = gi + 1 /\ UNCHANGED <<item, fvs, cxs, decl>>

(* outputs: names of output-prefixed states and algebraic variables, each array replaced in place by its scalars *)
StatesThenAlg == GroupVars("states") \o GroupVars("alg_states")
DeclOutputs == LET sa == StatesThenAlg
               IN  Flatten([i \in DOMAIN sa |-> IF sa[i].prefix = "output" THEN ScalarNames(sa[i], FALSE) ELSE <<>>])

(* renaming map: flat array name -> scalar names in Modelica (row-major) order; also for derivatives *)
NameMap == [i \in DOMAIN fvs |-> [flat |-> FlatName(fvs[i]), dims |-> AllDims(fvs[i]),
                                   scalars |-> ScalarNames(fvs[i], FALSE), derscalars |-> ScalarNames(fvs[i], TRUE)]]

PtOK(t) == \A g \in DOMAIN GROUPS : \A i \in DOMAIN decl[g] :
              decl[g][i].attrs = <<>> \/ \A j \in DOMAIN ATTRS : decl[g][i].attrs[t][j].v # Und
GoodPts == SelectSeq(<<1, 2, 3, 4>>, PtOK)

Finish ==
    /\ (gi = Len(GROUPS) \/ raised) /\ gi # 99 /\ gi' = 99 /\ UNCHANGED <<item, expanded, raised, fvs, cxs, decl>>
    /\ LET gp == GoodPts IN
       PrintT(<<"PROG", ToJson([prog |-> P0, tags |-> {"fam:vexp"} \cup item.extra, attrs |-> ATTRS, groups |-> GROUPS,
                                expect |-> [g \in DOMAIN GROUPS |-> [i \in DOMAIN decl[g] |->
                                              [name |-> decl[g][i].name,
                                               attrs |-> IF decl[g][i].attrs = <<>> THEN <<>>
                                                         ELSE [k \in DOMAIN gp |-> [j \in DOMAIN ATTRS |-> decl[g][i].attrs[gp[k]][j].v]]]]],
                                outputs |-> DeclOutputs, namemap |-> NameMap, modelraises |-> raised,
                                pts |-> [k \in DOMAIN gp |-> [t |-> gp[k], env |-> cxs[gp[k]]]]])>>)
Next == ExpandGroup \/ Finish

-----------------------------------------------------------------------------
Done == gi = 99
NoRaise == Done => ~raised
NamesAgree == (Done /\ ~raised) => \A g \in DOMAIN GROUPS :
                 [i \in DOMAIN expanded[g] |-> expanded[g][i].name] = [i \in DOMAIN decl[g] |-> decl[g][i].name]
AttrsAgree == (Done /\ ~raised) => \A g \in DOMAIN GROUPS : \A i \in DOMAIN expanded[g] : \A t \in Pts :
                 (PtOK(t) /\ expanded[g][i].attrs # <<>>) => expanded[g][i].attrs[t] = decl[g][i].attrs[t]
(* element (row, col) of the matrix substituted for an array symbol is the scalar whose name carries the
   Modelica subscripts of exactly that element *)
RenamingFaithful == Done => \A i \in DOMAIN fvs :
    LET fv == fvs[i] IN
    (IsArray(fv) /\ Len(AllDims(fv)) <= 2) =>
        \A k \in 1..Numel(AllDims(fv)) :
            LET r == SymShape(fv)[1]
                row == ((k - 1) % r) + 1
                col == ((k - 1) \div r) + 1
                want == IF Len(AllDims(fv)) = 1 THEN <<row>> ELSE <<row, col>>
            IN  OpName(fv, NdIndex(fv)[ValueMatrixAt(fv, k)], FALSE) = ScalarName(fv, want, FALSE)
=============================================================================
