#!/bin/bash
# usage: run_all.sh <seed> [tier] [extra args e.g. --no-evidence]   runs every registered check sequentially
cd /verif
seed=${1:-0}; tier=${2:-quick}; shift 2
for c in $(/venv/bin/python -c "import json;print(' '.join(x['property_id'] for x in json.load(open('MANIFEST.json'))['checks']))"); do
  s=$(date +%s)
  out=$(VERIF_SEED=$seed ./check $c --tier $tier "$@" 2>&1); rc=$?
  e=$(( $(date +%s) - s ))
  echo "$c seed=$seed tier=$tier exit=$rc wall=${e}s :: $(echo "$out" | grep -c '^VIOLATION') violation lines, $(echo "$out" | grep -c '^KNOWN-FINDING') known"
  if [ $rc -ne 0 ]; then echo "$out" | tail -15; fi
done
