"""Shared driver of C07 / C08: run spec/Instantiate.tla in shards, replay every printed program
(in every spelling) through pymoca.tree.flatten and compare with the expected flat class.

No expected value is computed here: `expect` is what TLC evaluated from the declarative side of the
spec (and checked against the operational side); `op` is what the operational side gave under the
switches of the cfg that was run (used for the as-built cross-check only).
"""
import json
import os
import tempfile
from collections import Counter
from concurrent.futures import ThreadPoolExecutor

from vf import tlc, ir_flat, par
from vf.core import MachineryError, exc_record

PROCS = min(16, os.cpu_count() or 4, int(os.environ.get("VERIF_PROCS", "16")))


def run_spec(ctx, cfg, what, shards=None, env=None, timeout=1700, expect_violation=False, only=None):
    """run Instantiate.tla with `cfg` split over `shards` TLC processes (1 worker each); returns (programs, results).
    only = k: run only the first k shards (a 1/shards-sized sample each) instead of the whole family"""
    shards = shards or max(1, min(PROCS, 8))
    env = dict(env or {})
    todo = range(shards) if only is None else range(min(only, shards))

    def one(k):
        # several single-worker JVMs run side by side: keep each one's GC / JIT thread pools small
        e = dict(env, NSHARDS=str(shards), SHARD=str(k), JAVA_TOOL_OPTIONS="-XX:ParallelGCThreads=2 -XX:CICompilerCount=2")
        return tlc.run("Instantiate", cfg, workers=1, env=e, deadlock=False, timeout=timeout)

    with ThreadPoolExecutor(max(1, len(todo))) as ex:
        results = list(ex.map(one, todo))
    progs = []
    for k, r in zip(todo, results):
        ctx.add_tlc(r, "%s [shard %d/%d]" % (what, k, shards))
        if r.violated and not expect_violation:
            raise MachineryError("spec Instantiate (%s) violates %s - spec defect, not a pymoca verdict\n%s" % (
                cfg, r.violated, r.cex[:3000]))
        progs += r.tr("PROG")
    return progs, results


def run_file_family(ctx, cfg, pvs, what, shards=None, expect_violation=False):
    """feed drawn parameter vectors to the same spec through IOEnv.PV_FILE"""
    fd, path = tempfile.mkstemp(suffix=".json", prefix="inst_pv_")
    with os.fdopen(fd, "w") as f:
        json.dump(pvs, f)
    try:
        return run_spec(ctx, cfg, what, shards=shards, env={"PV_FILE": path}, expect_violation=expect_violation)
    finally:
        os.unlink(path)


# ----------------------------------------------------------------------------------------------
# one variant of one program against the real code


def observe(lib, top):
    """render + parse + flatten.  Returns ("ok", projection, text) or ("exc", record, text)"""
    text = ir_flat.render_library(lib)
    try:
        fc = ir_flat.flatten_text(text, top)
    except MachineryError:
        raise
    except Exception as e:       # the code under test rejected the program
        return "exc", exc_record(e), text
    return "ok", ir_flat.project_flat(fc), text


def _symmap(syms):
    return {s["name"]: s for s in syms}


def diff_flat(exp, obs, with_attrs):
    """list of (observable, detail) - only things C07 / C08 name.  exp/obs in project_flat shape."""
    out = []
    es, os_ = _symmap(exp["syms"]), _symmap(obs["syms"])
    if len(os_) != len(obs["syms"]):
        out.append(("flat-variable-set", "duplicate flat variable names %s" % [s["name"] for s in obs["syms"]]))
    if set(es) != set(os_):
        out.append(("flat-variable-set", "missing %s unexpected %s" % (sorted(set(es) - set(os_)), sorted(set(os_) - set(es)))))
    for n in sorted(set(es) & set(os_)):
        e, o = es[n], os_[n]
        if e["type"] != o["type"]:
            out.append(("flat-variable-type", "%s: type %s expected %s" % (n, o["type"], e["type"])))
        if sorted(e["prefixes"]) != sorted(o["prefixes"]):
            out.append(("flat-variable-prefixes", "%s: prefixes %s expected %s" % (n, o["prefixes"], e["prefixes"])))
        if list(e["dims"]) != list(o["dims"]):
            out.append(("flat-variable-dims", "%s: dimensions %s expected %s" % (n, o["dims"], e["dims"])))
        if with_attrs:
            keys = set(e["attrs"]) | set(o["attrs"])
            for a in sorted(keys):
                if e["attrs"].get(a) != o["attrs"].get(a):
                    out.append(("attribute", "%s.%s = %s expected %s" % (n, a, o["attrs"].get(a, "<default>"), e["attrs"].get(a, "<default>"))))
            if o.get("pending"):
                out.append(("attribute", "%s: modifications %s were never applied" % (n, o["pending"])))
    for sec, obsname in (("eqs", "flat-equations"), ("ieqs", "flat-initial-equations")):
        ce, co = Counter(exp[sec]), Counter(obs[sec])
        if ce != co:
            out.append((obsname, "missing %s unexpected %s" % (sorted((ce - co).elements()), sorted((co - ce).elements()))))
    return out


def attr_drift(exp, obs):
    """C07 does not name attribute values; differences there are reported as drift only"""
    es, os_ = _symmap(exp["syms"]), _symmap(obs["syms"])
    return sum(1 for n in set(es) & set(os_) if es[n]["attrs"] != os_[n]["attrs"])


def check_variant(item):
    """item = (prog, j, with_attrs).  Returns a small JSON-able verdict (runs in a forked worker)."""
    prog, j, with_attrs = item
    v = prog["variants"][j]
    kind, obs, text = observe(v["lib"], prog["top"])
    exp = ir_flat.expected_flat(prog["expect"])
    res = {"sp": v["sp"], "kind": kind, "pred_rej": bool(v["rej"]), "why": v.get("why", ""), "diffs": [], "drift": 0,
           "asbuilt_same": None}
    if kind == "exc":
        res["exc"] = obs
        return res
    res["diffs"] = diff_flat(exp, obs, with_attrs)
    if not with_attrs:
        res["drift"] = attr_drift(exp, obs)
    if not v["rej"]:
        res["asbuilt_same"] = not diff_flat(ir_flat.expected_flat(v["op"]), obs, True)
    res["obs"] = obs if (res["diffs"] or res["drift"]) else None
    return res


def evaluate(ctx, progs, with_attrs, asbuilt_cfg, canonical_only_exc=False):
    """check every variant of every program; for the programs with a failing variant ask the AS-BUILT configuration of
    the same spec what it predicts (file family).  Returns [(prog, j, verdict, asbuilt_prediction_or_None)]"""
    from vf.core import jkey
    items = [(p, j, with_attrs) for p in progs for j in range(len(p["variants"]))]
    out = par.pmap(check_variant, items, PROCS)
    failing = {}
    for (p, j, _), r in zip(items, out):
        sp = p["variants"][j]["sp"]
        if r["diffs"] or (r["kind"] == "exc" and (sp == "mixed" or not canonical_only_exc)):
            failing[jkey(p["pv"])] = p["pv"]
    ab = {}
    if failing:
        abp, _ = run_file_family(ctx, asbuilt_cfg, list(failing.values()),
                                 "as-built predictions for the %d programs with a failing variant" % len(failing))
        for q in abp:
            ab[jkey(q["pv"])] = {v["sp"]: {"rej": v["rej"], "op": v["op"]} for v in q["variants"]}
        if len(ab) != len(failing):
            raise MachineryError("as-built run returned %d of %d programs" % (len(ab), len(failing)))
    return [(p, j, r, ab.get(jkey(p["pv"]), {}).get(p["variants"][j]["sp"])) for (p, j, _), r in zip(items, out)]


def asbuilt_predicts(r, asbuilt):
    """does the as-built configuration of the spec predict exactly what the code did on this variant?"""
    if asbuilt is None:
        return False
    if r["kind"] == "exc":
        return bool(asbuilt["rej"])
    if asbuilt["rej"]:
        return False
    return not diff_flat(ir_flat.expected_flat(asbuilt["op"]), r["obs"], True)


def scenario_of(prog, j):
    v = prog["variants"][j]
    return {"pv": prog["pv"], "top": prog["top"], "tags": prog["tags"], "spelling": v["sp"], "ctags": v["ctags"],
            "lib": v["lib"], "text": ir_flat.render_library(v["lib"]), "expect": prog["expect"],
            "predicted_rejection": v["rej"]}


def replay_scenario(sc, with_attrs):
    """re-run ONE scenario (from a replay file) without TLC; returns verdict dict like check_variant"""
    prog = {"top": sc["top"], "expect": sc["expect"],
            "variants": [{"sp": sc["spelling"], "lib": sc["lib"], "rej": sc.get("predicted_rejection", False), "op": sc["expect"]}]}
    return check_variant((prog, 0, with_attrs))
