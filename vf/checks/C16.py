"""C16 - Alias elimination merges variable metadata soundly.

Spec: spec/Simplify.tla, metadata part (family "meta").  An entry = one alias class: what the chain hangs on
(state / algebraic / input / derivative), 1..4 alias links with sign, spelling and attachment point (the target or any earlier alias), written in a drawn order, and one
attribute record (min, max, nominal, fixed, start set?, start) per variable from small integer domains.  The
entries are drawn here from the seed (index vectors only); TLC derives the model, runs the pipeline with
detect_aliases (three option sets: plain MX, SX round trip, SX-per-equation detection), explores every
admissible outcome (which algebraic variable survives, whether a slow-path alias is seen, which explicit alias
start is met first) and checks the invariant MetadataMerged: the operational, one-alias-at-a-time merge of the
code equals the declarative Merged(c) - intersection of sign-adjusted bounds, max nominal, OR of fixed, own
start else the SET of sign-adjusted explicit alias starts.  Every final state is printed (FIN).
Binding C: render, generate(), simplify(options); the adapter reads which variable the real code kept for the
class, finds the spec outcome(s) with the same relation and survivor, and compares the survivor's min / max /
nominal / fixed / start and its row of variable_metadata_function with Merged(survivor).
"""
import json
import os
import random

from vf import par
from vf import simplify_lib as L
from vf.core import MachineryError

META = {
    "ready": True,
    "category": "model_checking",
    "technique": "TLA+ spec (Simplify.tla, metadata part): invariant MetadataMerged (operational merge of detect_aliases = declarative Merged(c)) model-checked by TLC over alias classes with attribute vectors; every class replayed on the real generate()+simplify(detect_aliases) and the surviving variable's attributes and metadata-function row compared with the spec's merged record",
    "text": "TLC derives one model per drawn alias class (state/algebraic/input/derivative target, 1-4 positive or negative alias links in six spellings attached to the target or any earlier alias, equations in every order, bounds in {-inf,-3..4,+inf}, nominal 0..3, fixed, start unset or in -2..2), runs the specified pipeline for three option sets and all admissible detection outcomes, checks that the pairwise merge of the code equals the declarative merge, and prints every final relation with the merged attributes; the real code is run on the same programs and the canonical variable's min, max, nominal, fixed, start and metadata-function row must equal the record of the spec outcome with the same survivor.",
    "note": "Trusted: TLC, the IR pretty-printer, reading attribute values (floats / DM / constant MX) and the metadata function at the parameter-free point. Attributes are integer literals (parameter-dependent attribute expressions are C13's subject). Which member survives and which explicit alias start is taken are not prescribed (set of admissible answers).",
    "design_ref": "DESIGN.md section 6, C16; Appendix C.6",
}

INF = L.INF
MINS = [-INF, -INF, -3, -1, 0, 1]
MAXS = [INF, INF, 4, 2, 1]
OPTSETS = [["allow_derivative_aliases", "detect_aliases"],
           ["allow_derivative_aliases", "detect_aliases", "expand_mx", "expand_vectors"],
           ["detect_aliases", "expand_vectors", "factor_and_simplify_equations"]]
_PROGS = {}


def draw_attr(rng):
    while True:
        mn, mx = rng.choice(MINS), rng.choice(MAXS)
        if mn <= mx:
            break
    sset = rng.random() < 0.5
    return {"min": mn, "max": mx, "nom": rng.choice([0, 0, 1, 2, 3]), "fixed": rng.random() < 0.3,
            "sset": sset, "start": rng.choice([-2, -1, 1, 2]) if sset else 0}


def entries(rng, n):
    """alias classes: target kind x chain length 1..4 x sign pattern are cycled through; the attachment point of
    every link (the target or ANY earlier alias: chains, stars, trees), its spelling and the ORDER in which the alias
    equations are written (a permutation: it decides which side of alias_relation.add a grown group is on) are drawn.
    Spellings 1, 2, 9 are matched by the fast path (two symvar orders), 3, 4, 6 mostly by substitute-and-test."""
    out = []
    shapes = []
    for ln in (1, 2, 3, 4):
        for tgt in "SAID":
            for signs in range(2 ** ln):
                shapes.append((tgt, ln, signs))
    k = 0
    while len(out) < n:
        tgt, ln, signs = shapes[(k * 7) % len(shapes)]
        k += 1
        links = []
        fast_only = rng.random() < 0.6
        for i in range(ln):
            f = rng.choice([1, 2, 9]) if fast_only else rng.choice([1, 1, 2, 9, 9, 3, 4, 6])
            links.append({"s": 1 if (signs >> i) & 1 else -1, "f": f, "to": rng.randint(0, i) if rng.random() < 0.8 else 0})
        perm = list(range(1, ln + 1))
        rng.shuffle(perm)
        nattr = ln + (0 if tgt == "D" else 1)
        out.append({"tgt": tgt, "links": links, "perm": perm, "attrs": [draw_attr(rng) for _ in range(nattr)]})
    return out


def _bound_eq(exp, obs):
    if exp >= INF:
        return obs == float("inf")
    if exp <= -INF:
        return obs == float("-inf")
    return obs == exp


def compare(exp, obs):
    """exp: attr record of the spec, obs: record read from the real canonical Variable -> list of attribute names"""
    bad = []
    if not _bound_eq(exp["min"], obs["min"]):
        bad.append("min")
    if not _bound_eq(exp["max"], obs["max"]):
        bad.append("max")
    if obs["nominal"] != exp["nom"]:
        bad.append("nominal")
    if isinstance(obs["fixed"], str) or bool(obs["fixed"]) != exp["fixed"]:
        bad.append("fixed")
    if exp["sset"]:
        if not obs["sset"] or obs["start"] != exp["start"]:
            bad.append("start")
    elif obs["sset"]:
        bad.append("start")
    row = obs.get("row")
    if row is not None:      # columns: value, min, max, start, fixed, nominal
        if not _bound_eq(exp["min"], row[1]) or not _bound_eq(exp["max"], row[2]) or row[5] != exp["nom"] \
                or bool(row[4]) != exp["fixed"] or row[3] != (exp["start"] if exp["sset"] else 0):
            bad.append("metadata-row")
    return bad


def norm_blocks(bs):
    return frozenset(frozenset((n, s) for n, s in b) for b in bs)


def _run(item):
    meta, opts = item
    prog = _PROGS[meta]
    obs = L.run_program(prog, set(opts), want_trace=False)
    if obs["failure"]:
        return {"meta": meta, "opts": opts, "failure": obs["failure"]}
    return {"meta": meta, "opts": opts, "failure": None, "blocks": obs["final"]["blocks"],
            "attrs": obs["checks"]["attrs"]}


def judge(prog, opts, r, fins):
    """-> (records, drift kind or None)"""
    if r["failure"]:
        return [], "reported-failure:" + r["failure"]["exception_type"]
    attrs = {k: v for k, v in r["attrs"].items() if not k.startswith("__")}
    oblocks = norm_blocks(r["blocks"])
    e = prog["entry"]
    tags = sorted({"tgt:" + e["tgt"], "len:%d" % len(e["links"])} |
                  {"ali:neg" if l["s"] < 0 else "ali:pos" for l in e["links"]})
    same_rel = [f for f in fins if norm_blocks(f["fin"]["rel"]) == oblocks]
    cands = [f for f in same_rel if set(f["attr"] or {}) == set(attrs)]
    if not same_rel and fins and len({norm_blocks(f["fin"]["rel"]) for f in fins}) == 1:
        # every admissible outcome of the spec has the SAME alias classes (no equation of this entry is left to the
        # substitute-and-test path), but the relation the code kept is a different one: the set of aliases whose
        # metadata was merged into the kept variable is not the set of its aliases
        want = sorted(sorted(map(list, b)) for b in norm_blocks(fins[0]["fin"]["rel"]))
        recs = [{"observable": "alias-class", "tags": tags, "exception_type": None,
                 "detail": "aliases merged into the kept variable(s): observed classes %s with kept %s; the only admissible "
                           "classes are %s | entry=%s opts=%s" % (json.dumps(r["blocks"]), json.dumps(attrs), json.dumps(want),
                                                            json.dumps(e), opts)}]
        # ... and the metadata of a kept variable that the spec also keeps must still be Merged over its true class
        for f in fins:
            if set(f["attr"] or {}) <= set(attrs):
                bad = sorted({a for c in f["attr"] if not attrs[c].get("missing") for a in compare(f["attr"][c], attrs[c])})
                recs += [{"observable": a, "tags": tags, "exception_type": None,
                          "detail": "attribute %s of the kept variable: observed %s, Merged over the true class = %s | entry=%s opts=%s" % (
                              a, json.dumps(attrs), json.dumps(f["attr"]), json.dumps(e), opts)} for a in bad]
                break
        return recs, None
    if not cands:
        return [], "partition-not-predicted"
    best = None
    for f in cands:
        bad = []
        for c, rec in attrs.items():
            if rec.get("missing"):
                bad.append("canonical-missing")
                continue
            bad += compare(f["attr"][c], rec)
        if best is None or len(bad) < len(best[0]):
            best = (bad, f)
        if not bad:
            return [], None
    bad, f = best
    recs = [{"observable": a, "tags": tags, "exception_type": None,
             "detail": "attribute %s of the kept variable: observed %s, Merged = %s | entry=%s opts=%s" % (
                 a, json.dumps(attrs), json.dumps(f["attr"]), json.dumps(e), opts)} for a in sorted(set(bad))]
    return recs, None


def spec_run(ctx, ents, what):
    path = L.write_json(ents, "simmeta_")
    try:
        res = L.tlc_programs(ctx, "Simplify_meta.cfg", env={"META_FILE": path}, what=what)
    finally:
        os.unlink(path)
    progs = {}
    for p in res.tr("PROG"):
        m = p["bp"]["meta"]
        progs[m] = dict(p, entry=ents[m - 1])
    fins = {}
    for f in res.tr("FIN"):
        fins.setdefault((f["bp"]["meta"], tuple(sorted(f["opts"]))), []).append(f)
    return progs, fins


def run(ctx):
    global _PROGS
    thorough = ctx.tier == "thorough"
    rng = random.Random(ctx.seed * 104729 + 16)
    n = int(os.environ.get("VERIF_C16_ENTRIES", "2000" if thorough else "220"))
    ents = entries(rng, n)
    progs, fins = {}, {}
    for off in range(0, n, 500):          # one TLC run per 500 entries keeps the output manageable
        chunk = ents[off:off + 500]
        p, f = spec_run(ctx, chunk, "metadata family: %d alias classes x 3 option sets (MetadataMerged; FIN lines)" % len(chunk))
        for m, v in p.items():
            progs[off + m] = v
        for (m, o), v in f.items():
            fins[(off + m, o)] = v
    if len(progs) != n:
        raise MachineryError("spec admitted %d of %d entries" % (len(progs), n))
    _PROGS = progs
    items = [(m, sorted(o)) for m in sorted(progs) for o in OPTSETS]
    procs = min(16, int(os.environ.get("VERIF_PROCS", "16")))
    results = par.pmap(_run, items, procs)
    tallies, cover = {}, {}
    for r in results:
        prog = progs[r["meta"]]
        ctx.programs += 1
        recs, drift = judge(prog, r["opts"], r, fins.get((r["meta"], tuple(sorted(r["opts"]))), []))
        if drift:
            if drift.startswith("reported-failure"):
                tallies[drift] = tallies.get(drift, 0) + 1
            else:
                ctx.note_drift(drift)
        else:
            tallies["compared"] = tallies.get("compared", 0) + 1
            ctx.traces += 1           # one pipeline behaviour of the spec replayed on the code and matched
            e = prog["entry"]
            key = "%s/len%d/%s" % (e["tgt"], len(e["links"]), "neg" if any(l["s"] < 0 for l in e["links"]) else "pos")
            cover[key] = cover.get(key, 0) + 1
        for rec in recs:
            ctx.violation(rec, {"entry": prog["entry"], "opts": r["opts"]})
        if not recs and not drift and len(ctx.samples) < 3 and len(prog["entry"]["links"]) > 1:
            ctx.sample({"entry": prog["entry"], "modelica": L.render(prog), "options": r["opts"],
                        "observed": {k: v for k, v in r["attrs"].items() if not k.startswith("__")}}, limit=3)
    ctx.extra["verdict_tally"] = tallies
    ctx.extra["compared_by_shape"] = cover
    if tallies.get("compared", 0) < 0.8 * len(items):
        raise MachineryError("vacuous: only %d of %d runs could be compared (drift %s)" % (
            tallies.get("compared", 0), len(items), ctx.drift))
    for tgt in "SAID":
        if not any(k.startswith(tgt + "/") and k.endswith("neg") for k in cover):
            raise MachineryError("vacuous: no negative alias class on target %s compared" % tgt)
    # binding self-test: a corrupted observation must be noticed
    r0 = next(r for r in results if not r["failure"] and any(not k.startswith("__") for k in r["attrs"]))
    bad = json.loads(json.dumps(r0))
    for k, v in bad["attrs"].items():
        if not k.startswith("__"):
            v["nominal"] = v["nominal"] + 1
    recs, drift = judge(progs[r0["meta"]], r0["opts"], bad, fins.get((r0["meta"], tuple(sorted(r0["opts"]))), []))
    if not recs:
        raise MachineryError("a corrupted nominal was not noticed - binding is vacuous")
    ctx.assumptions += ["attributes are integer literals from small domains; +-inf bounds are the defaults",
                        "which member of the class is kept and which explicit alias start is adopted are not prescribed"]
    return {"exhaustive": False}


def replay(ctx, sc):
    global _PROGS
    progs, fins = spec_run(ctx, [sc["entry"]], "replay of one alias class")
    _PROGS = progs
    r = _run((1, sorted(sc["opts"])))
    recs, drift = judge(progs[1], sc["opts"], r, fins.get((1, tuple(sorted(sc["opts"]))), []))
    if drift:
        print("replay: %s" % drift)
    return recs
