\* C10 quick: every single variable kind at both levels + all pairs of core kinds; intended parser
CONSTANTS Pairs = "core" GluedPrefixes = FALSE
INIT Init
NEXT Next
VIEW View
CHECK_DEADLOCK FALSE
PROPERTY PhaseOrder
INVARIANT ChainComputesCat
INVARIANT ExactlyOnce
INVARIANT DerBijection
INVARIANT OutputsRight
INVARIANT OrderKept
