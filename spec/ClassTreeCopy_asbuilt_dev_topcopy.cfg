\* as built: every shortest history after which the pointer semantics first deviates (DEV lines), depth <= 3
CONSTANTS DeepCopyRebindsParents = FALSE CopyHookBoundToCopy = FALSE FlattenCopiesTop = TRUE
          Lib = "flat" Universe = "full" MaxTrees = 3 MaxOps = 3
INIT Init
NEXT Next
ACTION_CONSTRAINT LogDev
CHECK_DEADLOCK FALSE
