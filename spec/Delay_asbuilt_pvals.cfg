\* as-built value of ParamValuesReachDelays only: TLC is expected to report a counterexample to ArgumentsPreserved
CONSTANTS LoopDelayOwnFreeVars = TRUE
          LoopDurationMapped = TRUE
          ParamValuesReachDelays = FALSE
          ChecksBeforeSave = TRUE AliasesReachDurations = TRUE
          DelayInputsForbidden = TRUE ExpandKeepsElements = TRUE
          Family = "cex"
INIT Init
NEXT Next
VIEW View
INVARIANT TypeOK
INVARIANT NoPlaceholderLeft
INVARIANT RejectsExactly
INVARIANT ArgumentsPreserved
CHECK_DEADLOCK FALSE
