\* as-built switches (pinned tree): PROG log with the expected (declarative) and the as-built status
\* thorough family A: path sets up to 3, up to 2 models; 3-change invocations: share C26_PART of C26_NPARTS (16)
CONSTANTS MaxDev = 2  SampleDev = 3  MaxPaths = 3  MaxModels = 2  MaxModelsRich = 2  MaxOpts = 2
          CliCountsTranslateFailures = FALSE  CliCatchesTranslateErrors = FALSE  CliCountsMissingModelFile = FALSE
          Emit = TRUE  NParts <- NPartsEnv  Part <- PartEnv
INIT Init
NEXT Next
INVARIANT DeviationsExplainAll
ACTION_CONSTRAINT Log
INVARIANT NoWorkAfterUsageError
PROPERTY ErrorsMonotone
CHECK_DEADLOCK FALSE
