-------------------------------- MODULE Rat --------------------------------
(* Exact rational arithmetic on TLC's 32-bit integers, used by the reference
   semantics of the CasADi back end (Eval.tla, VectorExpand.tla).

   A rational is a normalised pair <<num, den>> with den > 0, gcd = 1.
   Und == <<0, 0>> is "no value": division by zero, 0 ^ negative, a power with
   a non-integer exponent, or a magnitude beyond Big (overflow guard: with
   |num|, den <= Big = 30000 every intermediate product below stays < 2^31).
   Und is absorbing for every operation.  Programs / points whose expected
   value is Und are dropped from the corpus by the harness and counted.     *)
EXTENDS Integers, Sequences

Und == <<0, 0>>
IsUnd(q) == q[2] = 0
Big == 30000

IAbs(i) == IF i < 0 THEN -i ELSE i

RECURSIVE Gcd(_, _)
Gcd(a, b) == IF b = 0 THEN a ELSE Gcd(b, a % b)

Norm(n, d) ==
    IF d = 0 THEN Und
    ELSE LET s  == IF d < 0 THEN -1 ELSE 1
             g  == Gcd(IAbs(n), IAbs(d))
             nn == (s * n) \div g
             dd == (s * d) \div g
         IN  IF IAbs(nn) > Big \/ dd > Big THEN Und ELSE <<nn, dd>>

RI(i)  == <<i, 1>>
Q(n, d) == Norm(n, d)
Zero == <<0, 1>>
One  == <<1, 1>>
Bool(b) == IF b THEN One ELSE Zero

IsInt(q) == q[2] = 1
IsZero(q) == q[1] = 0 /\ q[2] # 0

RNeg(a) == IF IsUnd(a) THEN Und ELSE <<-a[1], a[2]>>
RAdd(a, b) == IF IsUnd(a) \/ IsUnd(b) THEN Und ELSE Norm(a[1] * b[2] + b[1] * a[2], a[2] * b[2])
RSub(a, b) == IF IsUnd(a) \/ IsUnd(b) THEN Und ELSE Norm(a[1] * b[2] - b[1] * a[2], a[2] * b[2])
RMul(a, b) == IF IsUnd(a) \/ IsUnd(b) THEN Und ELSE Norm(a[1] * b[1], a[2] * b[2])
RDiv(a, b) == IF IsUnd(a) \/ IsUnd(b) \/ b[1] = 0 THEN Und ELSE Norm(a[1] * b[2], a[2] * b[1])

RLt(a, b) == a[1] * b[2] < b[1] * a[2]
RLe(a, b) == a[1] * b[2] <= b[1] * a[2]
REq(a, b) == a = b

RAbs(a) == IF IsUnd(a) THEN Und ELSE <<IAbs(a[1]), a[2]>>
RMin(a, b) == IF IsUnd(a) \/ IsUnd(b) THEN Und ELSE IF RLe(a, b) THEN a ELSE b
RMax(a, b) == IF IsUnd(a) \/ IsUnd(b) THEN Und ELSE IF RLe(a, b) THEN b ELSE a
RFloor(a) == IF IsUnd(a) THEN Und ELSE RI(a[1] \div a[2])          \* \div rounds towards -infinity
RCeil(a)  == IF IsUnd(a) THEN Und ELSE RI(-((-a[1]) \div a[2]))
RSign(a)  == IF IsUnd(a) THEN Und ELSE RI(IF a[1] > 0 THEN 1 ELSE IF a[1] < 0 THEN -1 ELSE 0)

RECURSIVE RPowN(_, _)
RPowN(a, k) == IF k = 0 THEN One ELSE RMul(a, RPowN(a, k - 1))      \* k >= 0

(* a ^ b for integer b with |b| <= 4; 0 ^ 0 = 1 (as IEEE pow); everything else has no exact value here *)
RPow(a, b) ==
    IF IsUnd(a) \/ IsUnd(b) \/ ~IsInt(b) \/ IAbs(b[1]) > 4 THEN Und
    ELSE IF b[1] >= 0 THEN RPowN(a, b[1])
    ELSE IF a[1] = 0 THEN Und
    ELSE RDiv(One, RPowN(a, -b[1]))

(* sanity theorems, checked by TLC over a small grid (Eval_sanity.cfg) *)
RatGrid == {Norm(n, d) : n \in -4..4, d \in 1..3}
RatSane ==
    /\ \A a, b \in RatGrid : RAdd(a, b) = RAdd(b, a) /\ RSub(a, b) = RNeg(RSub(b, a))
                             /\ RMul(a, b) = RMul(b, a)
                             /\ (b[1] # 0 => RMul(RDiv(a, b), b) = a)
                             /\ (RLt(a, b) <=> ~RLe(b, a))
                             /\ RMin(a, b) = RNeg(RMax(RNeg(a), RNeg(b)))
    /\ \A a \in RatGrid : RLe(RFloor(a), a) /\ RLe(a, RCeil(a)) /\ RLt(RSub(a, One), RFloor(a))
                          /\ RPow(a, RI(2)) = RMul(a, a)
                          /\ (a[1] # 0 => RMul(RPow(a, RI(-1)), a) = One)
=============================================================================
