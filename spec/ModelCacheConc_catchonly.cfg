\* C21 half fixed (loader catches, write in place): safety holds; liveness EXPECTED to fail only through endless mutual truncation
CONSTANTS Procs = {"p1","p2"}
          DiffOpts = TRUE
          Codegen = FALSE
          N = 3
          NL = 2
          MaxCrashes = 1
          Inits = {"none","o1","trunc"}
          Sequential = FALSE
          AtomicWrite = FALSE
          CatchUnpickle = TRUE
          UniqueLibs = FALSE
          CatchLibError = TRUE
INIT Init
NEXT Next
INVARIANT TypeOK
INVARIANT NoRaise
INVARIANT ReturnsCorrect
CHECK_DEADLOCK FALSE
