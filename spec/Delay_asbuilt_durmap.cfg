\* as-built value of LoopDurationMapped only: TLC is expected to report a counterexample to NoPlaceholderLeft
CONSTANTS LoopDelayOwnFreeVars = TRUE
          LoopDurationMapped = FALSE
          ParamValuesReachDelays = TRUE
          ChecksBeforeSave = TRUE AliasesReachDurations = TRUE
          DelayInputsForbidden = TRUE ExpandKeepsElements = TRUE
          Family = "cex"
INIT Init
NEXT Next
VIEW View
INVARIANT TypeOK
INVARIANT NoPlaceholderLeft
INVARIANT RejectsExactly
INVARIANT ArgumentsPreserved
CHECK_DEADLOCK FALSE
