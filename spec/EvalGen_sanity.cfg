\* sanity theorems of the reference semantics on family "eqs": if-equation = if-expression of the residuals,
\* for-equation = its unrolling (plus the intended-switch invariants)
CONSTANTS Family = "eqs" Tier = "quick"
  DivMapped = TRUE SlicesRangeChecked = TRUE LoopIndexRangeChecked = TRUE PartialSubscriptIsRow = TRUE CallFirstOutput = TRUE StepRangeParsed = TRUE RangeStopExact = TRUE IfStmtSequential = TRUE ExploreOptions = FALSE
INIT Init
NEXT Next
INVARIANT WellTyped
INVARIANT SanityIfEq
INVARIANT SanityLoop
CHECK_DEADLOCK FALSE
