"""Program IR (as printed by spec/EvalGen.tla / VectorExpand.tla)  ->  Modelica text, and
projection of the resulting casadi Model back to IR-level observations.

Trusted base, no expected-value logic:
  render(prog)                fully parenthesised Modelica text of an IR program
  generate(prog, options)     parse + casadi generate (+ optional simplify) of the rendered text
  residuals(model, prog, env) dae / initial residual vectors at an environment printed by TLC
  variables(model)            names per category, in order
  metadata(model, pvals)      attributes of every variable, from the Variable objects and from
                              variable_metadata_function
Values printed by TLC are exact rationals [num, den]; arrays are {"sh": shape, "d": row-major list}.
"""
import logging
import math
import os
from fractions import Fraction

from vf.core import MachineryError

_pm = {}


def pymoca():
    """import pymoca lazily (after core.setup_repo_path put VERIF_REPO/src on sys.path)"""
    if not _pm:
        from vf import core
        core.setup_repo_path()
        import casadi as ca
        import numpy as np
        from pymoca import parser
        from pymoca.backends.casadi import generator
        logging.getLogger("pymoca").setLevel(logging.CRITICAL)
        _pm.update(ca=ca, np=np, parser=parser, generator=generator)
    return _pm


# --------------------------------------------------------------------------- rendering
def frac(v):
    return Fraction(v[0], v[1])


def _real_text(q):
    """exact decimal text of a rational whose denominator is 2^a 5^b"""
    d = q.denominator
    for p in (2, 5):
        while d % p == 0:
            d //= p
    if d != 1:
        raise MachineryError("literal %s has no finite decimal form" % q)
    neg = q < 0
    q = abs(q)
    ip = q.numerator // q.denominator
    rest = q - ip
    digits = ""
    while rest:
        rest *= 10
        digits += str(rest.numerator // rest.denominator)
        rest -= rest.numerator // rest.denominator
    s = "%d.%s" % (ip, digits or "0")
    return "-" + s if neg else s


def lit_text(e, bare=False):
    if e["n"] == "sci":                      # m e-p: a tiny literal, outside the exact arithmetic of the spec
        return "%de-%d" % (e["v"][0], e["v"][1])
    q = frac(e["v"])
    if e["n"] == "bool":
        return "true" if q != 0 else "false"
    if e["n"] == "int":
        if q.denominator != 1:
            raise MachineryError("integer literal with a fraction")
        s = str(q.numerator)
    else:
        s = _real_text(q)
    return s if (bare or q >= 0) else "(" + s + ")"


def expr(e, bare=False):
    k = e["k"]
    if k == "lit":
        return lit_text(e, bare)
    if k == "ref":
        if not e["a"]:
            return e["n"]
        return "%s[%s]" % (e["n"], ", ".join(sub(s) for s in e["a"]))
    if k == "der":
        return "der(%s)" % expr(e["a"][0])
    if k == "un":
        return "(%s %s)" % (e["n"], expr(e["a"][0])) if e["n"] == "not" else "(%s%s)" % (e["n"], expr(e["a"][0]))
    if k == "bin":
        return "(%s %s %s)" % (expr(e["a"][0]), e["n"], expr(e["a"][1]))
    if k == "call":
        return "%s(%s)" % (e["n"], ", ".join(expr(x, True) for x in e["a"]))
    if k == "if":
        p = e["a"]
        s = "(if %s then %s" % (expr(p[0]), expr(p[1]))
        i = 2
        while i < len(p) - 1:
            s += " elseif %s then %s" % (expr(p[i]), expr(p[i + 1]))
            i += 2
        return s + " else %s)" % expr(p[-1])
    if k == "arr":
        return "{%s}" % ", ".join(expr(x, True) for x in e["a"])
    if k == "tup":
        return "(%s)" % ", ".join(expr(x) for x in e["a"])
    raise MachineryError("cannot render expression node %r" % k)


def sub(s):
    if s["k"] == "colon":
        return ":"
    if s["k"] == "slice":
        return "%s:%s" % (expr(s["a"][0], True), expr(s["a"][1], True))
    return expr(s, True)


def stmts(lst, ind, asg):
    out = []
    for s in lst:
        k = s["k"]
        if k in ("eq", "asg"):
            out.append("%s%s %s %s;" % (ind, expr(s["a"][0]), asg, expr(s["a"][1], True)))
        elif k in ("ifeq", "ifst"):
            p = s["a"]
            i = 0
            while i < len(p) - 1:
                out.append("%s%s %s then" % (ind, "if" if i == 0 else "elseif", expr(p[i])))
                out += stmts(p[i + 1]["a"], ind + "  ", asg)
                i += 2
            out.append(ind + "else")
            out += stmts(p[-1]["a"], ind + "  ", asg)
            out.append(ind + "end if;")
        elif k in ("for", "forst"):
            a = s["a"]
            rng = "%s:%s" % (expr(a[0], True), expr(a[1], True)) if len(a) == 3 else \
                "%s:%s:%s" % (expr(a[0], True), expr(a[3], True), expr(a[1], True))
            out.append("%sfor %s in %s loop" % (ind, s["n"], rng))
            out += stmts(a[2]["a"], ind + "  ", asg)
            out.append(ind + "end for;")
        else:
            raise MachineryError("cannot render statement node %r" % k)
    return out


def component(c):
    mods = []
    binding = ""
    for m in c["mods"]:
        if m["attr"] == "value":
            binding = " = " + expr(m["e"], True)
        else:
            mods.append("%s%s = %s" % ("each " if m["each"] else "", m["attr"], expr(m["e"], True)))
    dims = "[%s]" % ", ".join(str(d) if isinstance(d, int) else expr(d, True) for d in c["dims"]) if c["dims"] else ""
    return "  %s%s %s%s%s%s;" % (c["prefix"] + " " if c["prefix"] else "", c["type"], c["name"], dims,
                                "(%s)" % ", ".join(mods) if mods else "", binding)


def render(prog):
    out = []
    for f in prog.get("funcs", []):
        out.append("function %s" % f["name"])
        out += ["  input Real %s;" % n for n in f["ins"]]
        out += ["  output Real %s;" % n for n in f["outs"]]
        if f["tmps"]:
            out.append("protected")
            out += ["  Real %s;" % n for n in f["tmps"]]
        out.append("algorithm")
        out += stmts(f["body"], "  ", ":=")
        out.append("end %s;" % f["name"])
    for cl in prog.get("classes", []):
        out.append("model %s" % cl["name"])
        out += [component(c) for c in cl["comps"]]
        out.append("equation")
        out += stmts(cl["eqs"], "  ", "=")
        out.append("end %s;" % cl["name"])
    out.append("model %s" % prog["name"])
    out += [component(c) for c in prog["comps"]]
    if prog.get("ieqs"):
        out.append("initial equation")
        out += stmts(prog["ieqs"], "  ", "=")
    out.append("equation")
    out += stmts(prog["eqs"], "  ", "=")
    out.append("end %s;" % prog["name"])
    return "\n".join(out) + "\n"


# --------------------------------------------------------------------------- running the real stage
def generate(prog, options=None, simplify=False, text=None):
    """returns the casadi Model; exceptions of pymoca propagate to the caller"""
    pm = pymoca()
    text = text if text is not None else render(prog)
    tree = pm["parser"].parse(text, bypass_cache=True)
    if tree is None:
        raise MachineryError("rendered program does not parse:\n" + text)
    model = pm["generator"].generate(tree, prog["name"], dict(options or {}))
    if simplify:
        model.simplify(dict(options or {}))
    return model


def colmajor(val):
    """TLC array value (row-major) -> list of floats in casadi's column-major order"""
    sh, d = val["sh"], [float(frac(x)) for x in val["d"]]
    if len(sh) < 2:
        return d
    r, c = sh
    return [d[i * c + j] for j in range(c) for i in range(r)]


GROUPS = ("states", "der_states", "alg_states", "inputs", "constants", "parameters")


def variables(model):
    return {g: [v.symbol.name() for v in getattr(model, g)] for g in GROUPS}


class UnknownVariable(Exception):
    pass


def fn_args(model, env):
    """argument list of the four output functions for an environment name -> TLC value"""
    ca = pymoca()["ca"]
    args = [ca.DM(colmajor(env["time"]))]
    for g in GROUPS:
        vec = []
        for v in getattr(model, g):
            name = v.symbol.name()
            if name not in env:
                raise UnknownVariable("model variable %s (%s) is not a variable of the program" % (name, g))
            vals = colmajor(env[name])
            if len(vals) != v.symbol.size1() * v.symbol.size2():
                raise UnknownVariable("model variable %s has %dx%d elements, the program declares %d" % (
                    name, v.symbol.size1(), v.symbol.size2(), len(vals)))
            vec += vals
        args.append(ca.DM(vec) if vec else ca.DM.zeros(0, 1))
    return args


def call_vec(f, args):
    """call a casadi Function with one (or no) output, return list of floats (column-major)"""
    np = pymoca()["np"]
    if f.n_out() == 0:
        return []
    out = f(*args)
    if isinstance(out, (list, tuple)):
        res = []
        for o in out:
            res += list(np.array(o).reshape(-1, order="F"))
        return [float(x) for x in res]
    return [float(x) for x in np.array(out).reshape(-1, order="F")]


def residuals(model, env):
    args = fn_args(model, env)
    return call_vec(model.dae_residual_function, args), call_vec(model.initial_residual_function, args)


def close(a, e, tol=1e-9):
    if math.isnan(a) or math.isnan(e):
        return math.isnan(a) and math.isnan(e)
    if math.isinf(a) or math.isinf(e):
        return a == e
    return abs(a - e) <= tol * max(1.0, abs(e))


ELEM = {"sin": math.sin, "cos": math.cos, "tan": math.tan, "asin": math.asin, "acos": math.acos, "atan": math.atan,
        "sinh": math.sinh, "cosh": math.cosh, "tanh": math.tanh, "exp": math.exp, "log": math.log,
        "log10": math.log10, "sqrt": math.sqrt}


def scratch_env():
    """make sure nothing is ever written to ~/.cache by a default-cache code path"""
    import tempfile
    d = tempfile.mkdtemp(prefix="vf_xdg_")
    os.environ["XDG_CACHE_HOME"] = d
    return d
