"""C07 - Hierarchical flattening instantiates every component once.

Spec: spec/Instantiate.tla (family "hier"), oracle mode (binding C).
  * TLC derives every library of the family from a parameter vector, runs the operational model
    (Lookup / ExpandInstance = flatten_extends + modification shifting / FlattenNode = flatten_symbols /
    ExpandConnectors / AddValueEquations) and checks it against the declarative LeafPaths / Type / Prefixes /
    FlatEqs of DESIGN Appendix C.1-C.2 (invariants OpEqualsDecl, OneVariablePerLeaf, ...).
  * every printed program is rendered (vf/ir_flat.py), flattened by pymoca.tree.flatten and the flat
    variable set / types / prefixes / dimensions / equation multisets are compared with the expected ones.
  * the as-built configuration (switches as the pinned code behaves) must make TLC report a violated
    invariant, and its predictions are cross-checked against the code (model drift if they differ).
"""
import copy
import random
from concurrent.futures import ThreadPoolExecutor

from vf import inst_run, par
from vf.core import MachineryError

META = {
    "ready": True,
    "category": "model_checking",
    "technique": "TLA+ reference semantics of pymoca's flattener (Instantiate.tla: operational actions mirroring "
                 "find_class / flatten_extends / build_instance_tree / flatten_symbols / component-reference renaming, "
                 "checked by TLC against the declarative leaf-path / renamed-equation definition) used as oracle for "
                 "tree.flatten on every library of a family derived in TLA+ from parameter vectors",
    "text": "For every class library of the bounded family (depth <= 3 quick / 4 thorough, one or two instances of the same "
            "class, extends of one base / a chain / two bases / a base that only carries the parameter, bases and component "
            "classes at library level, in an enclosing package, two packages up, in another package, nested in the using "
            "class or inherited as nested class, type aliases of Real/Integer/Boolean incl. alias of alias, 0-2 array "
            "dimensions, prefix sets on nested and top-level variables, equations and initial equations over own, inherited "
            "and sub-component variables, instance names repeated across levels) TLC checks operational = declarative flat "
            "class; tree.flatten is run on each and its flat variable names, types, prefixes, dimensions and equation "
            "multisets (all references renamed) must equal the expected ones.",
    "note": "Trusted: TLC, the printer/reader vf/ir_flat.py (~250 lines, no expected values). Not covered: arrays of "
            "components (C18), connectors/connect (C09), redeclare, imports, functions, diamond inheritance (pymoca keeps the "
            "shared base's equations twice; the property's wording does not decide that case), for/if equations. Attribute "
            "values are compared by C08, here a difference in them is only counted as drift.",
    "design_ref": "DESIGN.md section 5 (C07), Appendix C.1-C.2",
}

# programs on which the as-built configuration of the spec must violate an invariant (base class in another package)
ASBUILT_WITNESSES = [
    {"depth": 2, "fan": 1, "same": False, "wrap": 3, "nest": "lib", "split": ["none", "one"], "xtype": "Real", "xdims": 0,
     "xpre": "", "ypre": "", "ieq": False, "attr": "", "mods": [], "clash": False, "shadow": False, "skew": False, "twin": False},
]


def record_for(prog, j, r, asbuilt):
    v = prog["variants"][j]
    tags = sorted(v["ctags"]) + ["asbuilt-predicted" if inst_run.asbuilt_predicts(r, asbuilt) else "not-asbuilt-predicted"]
    if r["kind"] == "exc":
        rec = dict(r["exc"], observable="exception", tags=tags)
        rec["detail"] = "%s | shape %s" % (rec["detail"].replace("\n", " | ")[:300], ",".join(sorted(prog["tags"])))
        return [rec]
    if not r["diffs"]:
        return []
    kinds = sorted({d[0] for d in r["diffs"]})
    return [{"observable": "+".join(kinds), "tags": tags, "exception_type": None,
             "detail": "%s | shape %s" % ("; ".join(d[1] for d in r["diffs"][:4]), ",".join(sorted(prog["tags"])))}]


def evaluate(ctx, progs, cover):
    out = inst_run.evaluate(ctx, progs, False, "Instantiate_file_asbuilt_log.cfg")
    for p, j, r, a in out:
        ctx.programs += 1
        for t in p["tags"]:
            cover[t] = cover.get(t, 0) + 1
        for rec in record_for(p, j, r, a):
            sc = inst_run.scenario_of(p, j)
            sc["asbuilt"] = a
            ctx.violation(rec, sc)
        if r["drift"]:
            ctx.note_drift("attribute-value-differs(C08 territory)", r["drift"])
        if r["kind"] == "ok" and not r["diffs"]:
            ctx.sample({"top": p["top"], "tags": p["tags"], "text": inst_run.ir_flat.render_library(p["variants"][j]["lib"]),
                        "expected": inst_run.ir_flat.expected_flat(p["expect"])}, limit=3)
    return [(p, j, r) for p, j, r, a in out]


def draw_pvs(rng, n):
    """parameter vectors beyond the enumerated product (depth 4, two splits, every prefix); the spec's WellFormed
    filter drops the ill-formed ones, the library itself is derived in TLA+"""
    modes = ["none", "none", "one", "late", "chain", "multi"]
    pre = ["", "", "parameter", "constant", "discrete", "flow", "input", "output"]
    out = []
    for _ in range(n):
        d = rng.choice([2, 3, 3, 4, 4])
        split = [rng.choice(modes) for _ in range(d)]
        nest = rng.choice(["lib", "lib", "user", "userbase"])
        if nest == "userbase":
            split[1] = "late"
        wrap = rng.choice([0, 1, 2, 3])
        if wrap == 3 and split[-1] not in ("one", "chain"):
            split[-1] = rng.choice(["one", "chain"])
        out.append({"depth": d, "fan": rng.choice([1, 2]), "same": rng.random() < 0.4, "wrap": wrap, "nest": nest,
                    "split": split, "xtype": rng.choice(["Real", "Integer", "Boolean", "aR", "aI", "aB", "aaR"]),
                    "xdims": rng.choice([0, 0, 1, 2]), "xpre": rng.choice(pre), "ypre": rng.choice(pre),
                    "ieq": rng.random() < 0.5, "attr": "", "mods": [],
                    "clash": rng.random() < 0.3, "shadow": rng.random() < 0.3, "skew": rng.random() < 0.25, "twin": False})
    return out


def run(ctx):
    thorough = ctx.tier == "thorough"
    cover = {}
    cfg = "Instantiate_C07_thorough.cfg" if thorough else "Instantiate_C07_quick.cfg"

    def witness(k):
        return inst_run.run_file_family(ctx, "Instantiate_file_asbuilt.cfg", [ASBUILT_WITNESSES[k]],
                                        "as-built switches on witness program %d: TLC is expected to report a violation" % k,
                                        shards=1, expect_violation=True)[1]

    # the small side runs go on while the main family is enumerated
    side = ThreadPoolExecutor(len(ASBUILT_WITNESSES) + 1)
    wfut = [side.submit(witness, k) for k in range(len(ASBUILT_WITNESSES))]
    lfut = side.submit(inst_run.run_spec, ctx, "Instantiate_C07_asbuilt_log.cfg", "as-built predictions for the cross-check (%s)" % (
        "whole family" if thorough else "an eighth of the family"), 8, None, 1700, False, None if thorough else 1)
    progs, _ = inst_run.run_spec(ctx, cfg, "hier family, intended switches: operational = declarative, one variable per leaf")
    if not progs:
        raise MachineryError("vacuous: no program printed by %s" % cfg)
    out = evaluate(ctx, progs, cover)
    n_enum = len(progs)
    n_drawn = 0
    if thorough:
        rng = random.Random(ctx.seed * 7919 + 7)
        pvs = draw_pvs(rng, 6000)
        dprogs, _ = inst_run.run_file_family(ctx, "Instantiate_file.cfg", pvs, "drawn parameter vectors (depth <= 4), intended switches")
        n_drawn = len(dprogs)
        evaluate(ctx, dprogs, cover)
    # vacuity: every dimension of the family must have been exercised
    need = ["depth1", "depth2", "depth3", "fan2", "same", "wrap0", "wrap1", "wrap2", "wrap3", "nest-user", "nest-userbase",
            "xtype-aR", "xtype-aI", "xtype-aB", "xtype-aaR", "xtype-Integer", "xtype-Boolean", "xdims1", "xdims2",
            "xpre-input", "xpre-output", "xpre-parameter", "xpre-flow", "ypre-input", "ypre-output", "ieq", "clash", "shadow", "skew", "twin", "wrap4"] + \
           ["split%d-%s" % (i, m) for i in (1, 2, 3) for m in ("one", "late", "chain", "multi")]
    if thorough:
        need += ["depth4", "xpre-constant", "xpre-discrete"]
    missing = [t for t in need if not cover.get(t)]
    if missing:
        raise MachineryError("vacuous: family shapes never generated: %s" % missing)
    for io in ("input", "output"):      # prefix x alias type x nested level must be combined
        if not any(p["pv"]["depth"] >= 2 and p["pv"]["xpre"] == io and p["pv"]["xtype"] in ("aR", "aI", "aB", "aaR") for p in progs):
            raise MachineryError("vacuous: no nested %s variable of alias type in the family" % io)
    # as-built configuration (started at the beginning, collected here): TLC must find the violated invariant,
    # and its predictions must match the code
    violated = {}
    wres = [f.result() for f in wfut]
    for k, ab_res in enumerate(wres):
        v = sorted({x for r in ab_res for x in r.violated})
        if not v:
            raise MachineryError("as-built configuration of Instantiate.tla does not violate any invariant on witness %d "
                                 "(switches out of date?)" % k)
        violated["witness-%d" % k] = v
    lp, _ = lfut.result()
    side.shutdown()
    items = [(p, j, False) for p in lp for j in range(len(p["variants"]))]
    res = par.pmap(inst_run.check_variant, items, inst_run.PROCS)
    agree = differ = 0
    for (p, j, _), r in zip(items, res):
        v = p["variants"][j]
        same = (r["kind"] == "exc") == bool(v["rej"]) and (r["kind"] == "exc" or r["asbuilt_same"])
        if same:
            agree += 1
        else:
            differ += 1
            ctx.note_drift("as-built-model-differs-from-code")
    ctx.traces += agree + differ
    # binding self-test: a corrupted expectation must be noticed
    p0 = copy.deepcopy(next(p for p, j, r in out if r["kind"] == "ok" and not r["diffs"]
                            and len(p["expect"]["syms"]) > 2 and p["expect"]["eqs"]))
    for mut, what in ((lambda e: e["syms"].pop(), "variable removed"),
                      (lambda e: e["syms"][0].__setitem__("prefixes", ["flow"] if e["syms"][0]["prefixes"] != ["flow"] else []), "prefix changed"),
                      (lambda e: e["eqs"].pop(), "equation removed"),
                      (lambda e: e["eqs"][0]["l"].__setitem__("p", ["nosuch"]), "reference renamed")):
        q = copy.deepcopy(p0)
        mut(q["expect"])
        r = inst_run.check_variant((q, 0, False))
        if not r["diffs"]:
            raise MachineryError("binding self-test: corrupted expectation (%s) was not noticed" % what)
    ctx.extra["programs_enumerated"] = n_enum
    ctx.extra["programs_drawn"] = n_drawn
    ctx.extra["per_tag_coverage"] = dict(sorted(cover.items()))
    ctx.extra["asbuilt"] = {"violated_invariants": violated, "predictions_agreeing_with_code": agree, "differing": differ}
    ctx.assumptions += ["libraries are rendered with fully parenthesised expressions by vf/ir_flat.py",
                        "equation lists are compared as multisets per section, prefixes as sets",
                        "attribute values are not compared here (C08)"]
    return {"exhaustive": True}


def replay(ctx, sc):
    r = inst_run.replay_scenario(sc, False)
    prog = {"tags": sc["tags"], "variants": [{"ctags": sc["ctags"]}]}
    return record_for(prog, 0, r, sc.get("asbuilt"))
