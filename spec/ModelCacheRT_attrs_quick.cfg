\* C19 family A (quick): attribute representation kinds of x and y, aliases
CONSTANTS XKinds = {"lit","pdep"}
          YKinds = {"pdep"}
          Aliases = {"none","pos","neg"}
          Delays = {"none"}
          Opts = {"base","aliases"}
          Typed = {FALSE}
          Strs = {FALSE}
          Outs = {TRUE}
          SwapDepClasses = FALSE
          ForgetOutputs = FALSE
          DurDepsOffByOne = FALSE
          TruthyOptions = FALSE
INIT Init
NEXT Next
INVARIANT RoundTrip
INVARIANT NoMXPickled
INVARIANT SwitchedIsFresh
CHECK_DEADLOCK FALSE
