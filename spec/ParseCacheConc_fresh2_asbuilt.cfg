\* as-built (deferred BEGIN in the structure check): expected to violate NoDbError
CONSTANTS Procs = {1,2} SameText = TRUE InitModels = "absent" InitMeta = "absent" InitRows = {}
  TouchOnHit = TRUE SharedInited = FALSE LockedCountsAsCorrupt = FALSE AllowTimeout = FALSE DeferredSchemaTxn = TRUE
INIT Init
NEXT Next
VIEW View
ACTION_CONSTRAINT Log
INVARIANT NoDbError
INVARIANT AtMostOneWriter
INVARIANT DbIntactAtEnd
