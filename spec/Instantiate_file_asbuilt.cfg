\* parameter vectors from the harness, AS-BUILT switches, every invariant: TLC is EXPECTED to report a violation (directed counterexample)
CONSTANTS Family = "file" MaxDepth = 4 Wide = FALSE
 DottedAttrAsValue = TRUE InnerArgsLoseScope = TRUE ReRenameFlatRefs = TRUE AliasOfAliasDropsMods = TRUE InheritedTypeInDerivedScope = TRUE
INIT Init
NEXT Next
VIEW View
CHECK_DEADLOCK FALSE
PROPERTY PhaseOrder
INVARIANT DeclIgnoresSpelling
INVARIANT OpEqualsDecl
INVARIANT SpellingInvariance
INVARIANT OneVariablePerLeaf
INVARIANT CanonicalAccepted
INVARIANT ModsArriveInOrder
INVARIANT NothingPending
