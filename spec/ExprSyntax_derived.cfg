\* trees derived inside the spec from harness-drawn integer choice vectors (env CHOICES_FILE), nesting <= Fuel
CONSTANTS
  FullOps <- OpsNone
  MaxFull = 0
  RepOps <- OpsNone
  MaxRep = 0
  Variants = {"full", "red", "elseif"}
  Literals = FALSE
  Fuel = 4
  BrkLimit = 12
  RedUpTo = 4
INIT Init
NEXT Next
ACTION_CONSTRAINT Emit
INVARIANT RoundTrip
INVARIANT ValuePreserved
INVARIANT ReadIsABracketing
INVARIANT PrintInjective
INVARIANT WellTyped
INVARIANT Distinguished
INVARIANT LiteralValue
INVARIANT ValuesWellFormed
CHECK_DEADLOCK FALSE
