"""C03 - Parsed expressions follow Modelica precedence and literal values.

Spec: spec/ExprSyntax.tla.  TLC enumerates typed expression trees, prints each with minimal / redundant /
full parentheses from the precedence TABLE, reads the token string back with a reader written from the
grammar's LAYERED productions, checks round trip, value preservation, that the reading is one of the
bracketings of the token string and that no other bracketing prints the same, chooses a distinguishing
environment, and prints (tokens, expected value in six environments).  Literal forms (numbers as digit
sequences with fraction / exponent, strings with escapes, Booleans) are printed with their exact value.

Binding (C, oracle mode): every printed token string is embedded in a class, parsed by the real front end
(pymoca.parser.parse, cache bypassed) and the resulting ast nodes are evaluated by vf/ir_expr.py on exact
rationals; the value must equal TLC's in every environment where it is defined.  Thorough additionally
regenerates lexer+parser from the working tree's Modelica.g4 with the bundled ANTLR jar into scratch and
runs the same corpus through it with pymoca's own listener, and embeds the minimal printings in three more
syntactic positions (declaration value, call argument, if-equation condition).
"""
import json
import os
import random
import shutil
import tempfile
from concurrent.futures import ThreadPoolExecutor
from fractions import Fraction

from vf import tlc, par, ir_expr
from vf.core import MachineryError, exc_record

META = {
    "ready": True,
    "category": "model_checking",
    "technique": "TLA+ spec (ExprSyntax.tla: precedence table as data, table-driven printer, grammar-layer reference reader, all-bracketings reader, exact rational/Boolean semantics) model-checked by TLC; every printed token string parsed by the real front end and the AST evaluated exactly (oracle mode)",
    "text": "TLC checks on every typed expression tree of the bounded family (all trees with <=2 operators over the full operator set incl. element-wise forms, relations, not/and/or, if/elseif, builtin calls; 3 operators over one operator per precedence level; thorough: all trees with <=3 operators, 4 operators over representatives, random deeper trees) that the table-driven printing read back by the layered reference reader gives the same tree and values, that the reading is a bracketing of the token string and the only one with that printing, and picks a distinguishing environment; every token string (minimal, one redundant pair at each node, fully parenthesised, literal leaves, elseif spelling) is parsed by pymoca and evaluated in 6 environments against TLC's exact values; number/string/Boolean literal forms are compared by type and exact value.",
    "note": "Trusted: TLC, the token->text join and class embedding, the ~100-line evaluator vf/ir_expr.py (exact Fractions). Values are exact rationals; transcendental builtins, arrays, ranges, named arguments, `end` are outside the family. Undefined values (x/0, 0^-k, non-integer exponents, magnitudes beyond 30000) are dropped per environment and counted.",
    "design_ref": "DESIGN.md section 4, C03",
}

BATCH = 40
OPCLASSES_ROOT = {"or", "and", "not", "rel", "add", "sign", "mul", "pow", "if", "call"}

# state shared with forked workers
_G = {}


# ---------------------------------------------------------------------------------------------
def text_of(p):
    if p["kind"] == "expr":
        return " ".join(p["toks"])
    if p["kind"] == "str":
        return '"' + ir_expr.chars_to_text(p["chars"]) + '"'
    return ir_expr.chars_to_text(p["chars"])


def tags_of(p):
    if p["kind"] == "expr":
        return ["expr", "root=" + p["shape"][0], "pm=" + p["pm"]]
    if p["kind"] == "num":
        t = ["lit", "num", "int" if p["expect"]["int"] else "real"]
        if "." in p["chars"]:
            t.append("frac")
        if "e" in p["chars"] or "E" in p["chars"]:
            t.append("exp")
        return t
    if p["kind"] == "big":
        return ["lit", "num", "big", "int" if p["expect"]["int"] else "real"]
    if p["kind"] == "str":
        t = ["lit", "str"]
        if "BS" in p["chars"]:
            t.append("escape")
            if len(p["chars"]) - len(p["expect"]["chars"]) >= 2:
                t.append("escape-sequence")
        return t
    return ["lit", "bool"]


def judge(p, node, envs):
    """compare what the parser delivered for program p with TLC's expectation.
    returns (record or None, number of environments compared)"""
    from pymoca import ast
    tags = tags_of(p)
    if p["kind"] == "expr":
        n = 0
        for k, want in enumerate(p["vals"]):
            if want[0] not in (0, 1):
                continue
            n += 1
            got = ir_expr.observe(node, envs[k])
            if got != want:
                return {"observable": "value", "tags": tags, "exception_type": None,
                        "detail": "`%s` parsed to %r: value %s in environment %d, Modelica precedence gives %s" % (
                            text_of(p), node, got, k + 1, want)}, n
        return None, n
    want = p["expect"]
    if not isinstance(node, ast.Primary):
        return {"observable": "literal", "tags": tags, "exception_type": None,
                "detail": "literal `%s` parsed to %r, not a Primary" % (text_of(p), node)}, 1
    v = node.value
    if p["kind"] == "num":
        q = want["val"]
        if want["int"]:
            ok = type(v) is int and q[2] == 1 and v == q[1]
        else:
            ok = type(v) is float and v == q[1] / q[2]
        exp = "%s %d/%d" % ("Integer" if want["int"] else "Real", q[1], q[2])
    elif p["kind"] == "big":
        # digit strings from the spec; exact python integers / the correctly rounded double of the exact decimal
        mant = int("".join(want["mant"]))
        if want["int"]:
            ok = type(v) is int and want["scale"] == 0 and v == mant
            exp = "Integer %d" % mant
        else:
            exact = Fraction(mant) * Fraction(10) ** want["scale"]
            ok = type(v) is float and v == float(exact)
            exp = "Real %s (nearest double %r)" % (exact, float(exact))
    elif p["kind"] == "str":
        s = ir_expr.chars_to_text(want["chars"])
        ok = type(v) is str and v == s
        exp = "String %r" % s
    else:
        ok = type(v) is bool and v == bool(want["val"][1])
        exp = "Boolean %r" % bool(want["val"][1])
    if ok:
        return None, 1
    return {"observable": "literal", "tags": tags, "exception_type": None,
            "detail": "literal `%s` parsed to %s %r, exact value is %s" % (text_of(p), type(v).__name__, v, exp)}, 1


def run_batch(job):
    """job = (parser name, context, [programs]); returns list of (program index in batch, record) and counters"""
    pname, context, progs, envs_raw = job
    parse = _G["parsers"][pname]
    envs = [ir_expr.env_from_spec(e) for e in envs_raw]
    out = []
    evals = 0

    def one_by_one():
        nonlocal evals
        for i, p in enumerate(progs):
            tree, exc = ir_expr.quiet_parse(parse, ir_expr.embed([text_of(p)], context))
            if exc is not None or tree is None:
                r = exc_record(exc) if exc is not None else {"exception_type": None, "detail": "syntax error reported"}
                r.update(observable="parse", tags=tags_of(p))
                r["detail"] = "`%s` (%s): %s" % (text_of(p), context, r["detail"])
                out.append((i, r))
                continue
            try:
                node = ir_expr.extract(tree, 1, context)[0]
            except MachineryError:
                raise
            except Exception as e:
                r = exc_record(e)
                r.update(observable="parse", tags=tags_of(p), detail="`%s` (%s): parsed class has not the expected shape: %s" % (text_of(p), context, r["detail"]))
                out.append((i, r))
                continue
            rec, n = judge(p, node, envs)
            evals += n
            if rec:
                out.append((i, rec))

    tree, exc = ir_expr.quiet_parse(parse, ir_expr.embed([text_of(p) for p in progs], context))
    nodes = None
    if exc is None and tree is not None:
        try:
            nodes = ir_expr.extract(tree, len(progs), context)
        except Exception:
            nodes = None
    if nodes is None:
        one_by_one()
    else:
        for i, (p, node) in enumerate(zip(progs, nodes)):
            rec, n = judge(p, node, envs)
            evals += n
            if rec:
                out.append((i, rec))
    return out, evals


def scenario_of(p, pname, context, envs_raw):
    sc = {"program": p, "parser": pname, "context": context, "text": ir_expr.embed([text_of(p)], context)}
    if p["kind"] == "expr":
        sc["envs"] = envs_raw
    return sc


# ---------------------------------------------------------------------------------------------
def tlc_corpus(ctx, cfg, what, slices=1, env=None, procs=1, timeout=1500):
    """run TLC (optionally sliced over several processes, one worker each) and return (PROG list, ENV object)"""
    def one(i):
        e = dict(env or {})
        if slices > 1:
            e.update(SLICE_N=slices, SLICE_I=i)
        return tlc.run("ExprSyntax", cfg, workers=1, env=e, timeout=timeout)
    if slices == 1:
        results = [one(0)]
    else:
        with ThreadPoolExecutor(max(1, procs)) as ex:
            results = list(ex.map(one, range(slices)))
    progs, envobj = [], None
    for i, r in enumerate(results):
        ctx.add_tlc(r, "%s%s" % (what, " slice %d/%d" % (i, slices) if slices > 1 else ""))
        if r.violated or r.deadlock:
            raise MachineryError("spec ExprSyntax (%s) violates its own invariants: %s\n%s" % (cfg, r.violated, r.cex[:1500]))
        if not r.tr("ENV"):
            raise MachineryError("no ENV line from TLC")
        envobj = r.tr("ENV")[0]
        progs += r.tr("PROG")
        if r.distinct != 4 * len(r.tr("PROG")):
            raise MachineryError("TLC explored %d states but printed %d programs (expected 4 states per program)" % (r.distinct, len(r.tr("PROG"))))
    return progs, envobj


def compare_corpus(ctx, progs, pname, context, envs_raw, procs):
    jobs = [(pname, context, progs[i:i + BATCH], envs_raw) for i in range(0, len(progs), BATCH)]
    res = par.pmap(run_batch, jobs, procs)
    evals = 0
    nviol = 0
    for (pn, cx, batch, _), (bad, ev) in zip(jobs, res):
        evals += ev
        for i, rec in bad:
            if pname != "checked-in":
                rec["tags"] = rec["tags"] + ["regenerated-parser"]
            if context != "rhs":
                rec["tags"] = rec["tags"] + ["context=" + context]
            ctx.violation(rec, scenario_of(batch[i], pname, context, envs_raw))
            nviol += 1
    ctx.programs += len(progs)
    return evals, nviol


def selftest(envs):
    """binding self-test on hand-built ast nodes (independent of the parser under test): a perturbed expectation
    and a differently bracketed tree must both be flagged, the right tree with the right expectation must not"""
    from pymoca import ast

    def ref(n):
        return ast.ComponentRef(name=n)

    def sub(x, y):
        return ast.Expression(operator="-", operands=[x, y])
    p = {"kind": "expr", "toks": ["a", "-", "b", "-", "c"], "pm": "min", "shape": ["add", "add", "var"],
         "vals": [[0, -6, 1]] + [[2, 0, 0]] * 5}
    left = sub(sub(ref("a"), ref("b")), ref("c"))
    right = sub(ref("a"), sub(ref("b"), ref("c")))
    good, _ = judge(p, left, envs)
    bad1, _ = judge(dict(p, vals=[[0, -5, 1]] + [[2, 0, 0]] * 5), left, envs)
    bad2, _ = judge(p, right, envs)
    lit = {"kind": "num", "chars": ["2", "5", "e", "-", "1"], "expect": {"int": False, "val": [0, 5, 2]}}
    good2, _ = judge(lit, ast.Primary(value=2.5), envs)
    bad3, _ = judge(lit, ast.Primary(value=25), envs)
    bad4, _ = judge(dict(lit, expect={"int": True, "val": [0, 5, 2]}), ast.Primary(value=2.5), envs)
    big = {"kind": "big", "chars": list("9007199254740993"), "expect": {"int": True, "mant": list("9007199254740993"), "scale": 0}}
    good3, _ = judge(big, ast.Primary(value=9007199254740993), envs)
    bad5, _ = judge(big, ast.Primary(value=9007199254740992), envs)
    if good3 is not None or bad5 is None:
        raise MachineryError("binding self-test: big integer literals are not compared exactly")
    if good is not None or good2 is not None:
        raise MachineryError("binding self-test: a correct observation was flagged: %s %s (is environment 1 still a=2,b=3,c=5?)" % (good, good2))
    if bad1 is None or bad2 is None or bad3 is None or bad4 is None:
        raise MachineryError("binding self-test: a corrupted expectation / observation was not flagged - comparison is vacuous")


def run(ctx):
    thorough = ctx.tier == "thorough"
    procs = min(16, os.cpu_count() or 4, int(os.environ.get("VERIF_PROCS", "16")))
    scratch = tempfile.mkdtemp(prefix="c03_")
    try:
        return _run(ctx, thorough, procs, scratch)
    finally:
        shutil.rmtree(scratch, ignore_errors=True)


def _run(ctx, thorough, procs, scratch):
    rng = random.Random(ctx.seed * 7919 + 3)
    # harness-drawn choice vectors; the trees are derived from them inside the spec
    nvec = 3000 if thorough else 150
    choices = [[rng.randrange(0, 1000000) for _ in range(40)] for _ in range(nvec)]
    cfile = os.path.join(scratch, "choices.json")
    with open(cfile, "w") as f:
        json.dump(choices, f)

    # thorough: regenerate the parser from the working tree's grammar FIRST, then fork the workers (they inherit it,
    # and are forked from a still small parent), then run TLC
    _G["parsers"] = {"checked-in": ir_expr.parse_checked_in}
    regen_note = None
    grammar_rejected = None
    if thorough:
        regen, info = ir_expr.regenerate_parser(scratch)
        if regen is None:
            grammar_rejected = info
        else:
            _G["parsers"]["regenerated"] = regen
            regen_note = info
    for prs in _G["parsers"].values():
        ir_expr.warm_up(prs, ir_expr.CONTEXTS if thorough else ("rhs",))
    par.start(procs)       # fork before the corpora are loaded; the workers inherit the warmed-up parser automata

    import time
    t_start = time.time()
    corpora = []   # (name, programs)
    # the TLC runs are independent: start the derived-tree run alongside the enumerations
    with ThreadPoolExecutor(2) as bg:
        fut = bg.submit(tlc_corpus, ctx, "ExprSyntax_derived.cfg", "trees derived from %d harness-drawn choice vectors" % nvec,
                        1, {"CHOICES_FILE": cfile})
        if thorough:
            progs, envobj = tlc_corpus(ctx, "ExprSyntax_thorough.cfg", "all trees with <= 3 operators, every printing", slices=16,
                                       procs=max(1, min(8, procs // 2)), timeout=3000)
            corpora.append(("exhaustive<=3", progs))
            progs4, _ = tlc_corpus(ctx, "ExprSyntax_rep4.cfg", "trees with 4 operators over representative operators, minimal printing",
                                   slices=8, procs=max(1, min(8, procs // 2)), timeout=3000)
            corpora.append(("representative=4", progs4))
        else:
            progs, envobj = tlc_corpus(ctx, "ExprSyntax_quick.cfg", "all trees with <= 2 operators (full set) and 3 operators (representatives), every printing",
                                       slices=4, procs=4)
            corpora.append(("exhaustive<=2+rep3", progs))
        dprogs, _ = fut.result()
    corpora.append(("derived", dprogs))

    t_tlc = time.time()
    envs_raw = envobj["envs"]
    envs = [ir_expr.env_from_spec(e) for e in envs_raw]
    selftest(envs)

    if grammar_rejected is not None:
        ctx.violation({"observable": "grammar", "tags": ["regenerated-parser", "antlr-rejects-grammar"], "exception_type": None,
                       "detail": "ANTLR rejects src/pymoca/Modelica.g4: %s" % grammar_rejected}, {"parser": "regenerated", "program": None})
    elif regen_note is not None and not (regen_note.get("lexer_atn") and regen_note.get("parser_atn")):
        ctx.note_drift("generated/ differs from a fresh ANTLR run on Modelica.g4")
    allprogs = [p for _, ps in corpora for p in ps]
    # ---- vacuity -----------------------------------------------------------------------------
    roots = {p["shape"][0] for p in allprogs if p["kind"] == "expr"}
    pms = {p["pm"] for p in allprogs if p["kind"] == "expr"}
    kinds = {p["kind"] for p in allprogs}
    if not OPCLASSES_ROOT <= roots or not {"min", "red", "full", "lits", "mixed", "elseif"} <= pms or not {"num", "big", "str", "bool", "expr"} <= kinds:
        raise MachineryError("vacuous corpus: roots=%s printings=%s kinds=%s" % (sorted(roots), sorted(pms), sorted(kinds)))
    dropped = sum(1 for p in allprogs if p["kind"] == "expr" and all(v[0] not in (0, 1) for v in p["vals"]))
    brk = [p for p in allprogs if p["kind"] == "expr" and p["brk"]]
    degenerate = sum(1 for p in brk if p["denv"] == 0)

    evals = 0
    per = {}
    for name, ps in corpora:
        ev, nv = compare_corpus(ctx, ps, "checked-in", "rhs", envs_raw, procs)
        evals += ev
        per[name] = {"programs": len(ps), "mismatches": nv}
    if thorough:
        mins = [p for p in allprogs if p["kind"] != "expr" or p["pm"] in ("min", "elseif")]
        for cx in ("decl", "arg", "ifcond"):
            sub = [p for p in mins if not (cx == "ifcond" and p["kind"] == "str")]
            ev, nv = compare_corpus(ctx, sub, "checked-in", cx, envs_raw, procs)
            evals += ev
            per["context=" + cx] = {"programs": len(sub), "mismatches": nv}
        if "regenerated" in _G["parsers"]:
            # the grammar decides precedence, not the listener: the redundant-pair printings add nothing here
            sub = [p for p in allprogs if p["kind"] != "expr" or p["pm"] != "red"]
            ev, nv = compare_corpus(ctx, sub, "regenerated", "rhs", envs_raw, procs)
            evals += ev
            per["regenerated-parser"] = {"programs": len(sub), "mismatches": nv, "generated_automata_identical": regen_note}

    for p in [q for q in allprogs if q["kind"] == "expr" and q["pm"] == "min" and q["nalts"] > 3][:3] + \
            [q for q in allprogs if q["kind"] == "num" and not q["expect"]["int"]][:1] + \
            [q for q in allprogs if q["kind"] == "big"][:1] + \
            [q for q in allprogs if q["kind"] == "str" and "BS" in q["chars"]][:1]:
        ctx.sample({"text": text_of(p), "expected": p.get("vals", p.get("expect")), "distinguishing_env": p.get("denv"),
                    "other_bracketings": p.get("nalts")})
    ctx.extra["corpora"] = per
    ctx.extra["phase_seconds"] = {"regenerate+fork": round(t_start - ctx.t0, 1), "tlc": round(t_tlc - t_start, 1), "parse+compare": round(time.time() - t_tlc, 1)}
    ctx.extra["per_root_class"] = {r: sum(1 for p in allprogs if p["kind"] == "expr" and p["shape"][0] == r) for r in sorted(roots)}
    ctx.extra["per_printing"] = {m: sum(1 for p in allprogs if p["kind"] == "expr" and p["pm"] == m) for m in sorted(pms)}
    ctx.extra["literal_programs"] = {k: sum(1 for p in allprogs if p["kind"] == k) for k in ("num", "big", "str", "bool")}
    ctx.extra["dropped_undefined_everywhere"] = dropped
    ctx.extra["bracketing_analysis"] = {"programs": len(brk), "without_single_distinguishing_env": degenerate,
                                        "max_other_bracketings": max([p["nalts"] for p in brk] or [0])}
    ctx.extra["precedence_table"] = envobj["table"]
    ctx.assumptions += ["values are compared in the 6 environments of ExprSyntax.tla (exact rationals / Booleans); an environment in which the expression is undefined is skipped",
                        "tokens are separated by single blanks when rendered; lexing of adjacent tokens without blanks is not covered",
                        "the evaluator reads element-wise operators as their scalar counterparts"]
    return {"evaluations": evals, "exhaustive": True,
            "explanation": "complete TLC enumeration of the bounded tree family, every printed program parsed by pymoca"}


def replay(ctx, sc):
    scratch = tempfile.mkdtemp(prefix="c03r_")
    try:
        if sc.get("program") is None:
            regen, info = ir_expr.regenerate_parser(scratch)
            if regen is None:
                return [{"observable": "grammar", "tags": ["regenerated-parser", "antlr-rejects-grammar"], "exception_type": None,
                         "detail": "ANTLR rejects src/pymoca/Modelica.g4: %s" % info}]
            return []
        if sc["parser"] == "regenerated":
            regen, info = ir_expr.regenerate_parser(scratch)
            if regen is None:
                raise MachineryError("cannot regenerate the parser: %s" % info)
            _G["parsers"] = {"regenerated": regen}
        else:
            _G["parsers"] = {"checked-in": ir_expr.parse_checked_in}
        bad, _ = run_batch((sc["parser"], sc["context"], [sc["program"]], sc.get("envs", [])))
        recs = []
        for _, rec in bad:
            if sc["parser"] != "checked-in":
                rec["tags"] = rec["tags"] + ["regenerated-parser"]
            if sc["context"] != "rhs":
                rec["tags"] = rec["tags"] + ["context=" + sc["context"]]
            recs.append(rec)
        return recs
    finally:
        shutil.rmtree(scratch, ignore_errors=True)
