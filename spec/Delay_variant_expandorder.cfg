\* NOT how the code behaves: expand_vectors pairing the k-th element name with the k-th stored (column-major) element; TLC must refute ArgumentsPreserved
CONSTANTS LoopDelayOwnFreeVars = TRUE
          LoopDurationMapped = TRUE
          ParamValuesReachDelays = TRUE
          ChecksBeforeSave = TRUE AliasesReachDurations = TRUE
          DelayInputsForbidden = TRUE ExpandKeepsElements = FALSE
          Family = "cex"
INIT Init
NEXT Next
VIEW View
INVARIANT TypeOK
INVARIANT NoPlaceholderLeft
INVARIANT RejectsExactly
INVARIANT ArgumentsPreserved
INVARIANT CacheHoldsOnlyAccepted
INVARIANT SameAnswerTwice
CHECK_DEADLOCK FALSE
