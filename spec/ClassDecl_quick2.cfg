\* intended switches; second half of the quick families (run alongside ClassDecl_quick.cfg)
CONSTANTS
  Switches <- Intended
  Families = {"sections", "struct", "dup", "comments"}
  MaxSections = 3
INIT Init
NEXT Next
VIEW View
ACTION_CONSTRAINT Emit
INVARIANT OperationalIsDeclarative
INVARIANT NoSharedObjects
INVARIANT NoSharedSubLists
INVARIANT OrdersIncrease
INVARIANT HeapWellFormed
INVARIANT NamesUnique
PROPERTY CounterMonotone
PROPERTY TypesStable
CHECK_DEADLOCK FALSE
