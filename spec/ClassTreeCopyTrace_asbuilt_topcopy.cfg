\* evaluate given histories with the as-built switches (flatten copies the requested class, C05 fix)
CONSTANTS DeepCopyRebindsParents = FALSE CopyHookBoundToCopy = FALSE FlattenCopiesTop = TRUE
          Lib = "flat" Universe = "full" MaxTrees = 4 MaxOps = 1000000
INIT TInit
NEXT TNext
VIEW TView
ACTION_CONSTRAINT At
POSTCONDITION Accepted
CHECK_DEADLOCK FALSE
