\* C19 family A (thorough)
CONSTANTS XKinds = {"none","lit","pdep"}
          YKinds = {"none","lit","pdep"}
          Aliases = {"none","pos","neg"}
          Delays = {"none"}
          Opts = {"base","aliases","rpv"}
          FKinds = {"none","pdep"}
          Typed = {TRUE}
          Strs = {FALSE}
          Outs = {TRUE}
          SwapDepClasses = FALSE
          ForgetOutputs = FALSE
          DurDepsOffByOne = FALSE
          ConstMXNotMX = FALSE
          TruthyOptions = FALSE
INIT Init
NEXT Next
INVARIANT RoundTrip
INVARIANT NoMXPickled
INVARIANT SwitchedIsFresh
CHECK_DEADLOCK FALSE
