\* C07 as-built: switches as the pinned code behaves; TLC is EXPECTED to report a violated invariant
CONSTANTS Family = "hier" MaxDepth = 2 Wide = FALSE
 DottedAttrAsValue = TRUE InnerArgsLoseScope = TRUE ReRenameFlatRefs = TRUE AliasOfAliasDropsMods = TRUE InheritedTypeInDerivedScope = TRUE
INIT Init
NEXT Next
VIEW View
CHECK_DEADLOCK FALSE
PROPERTY PhaseOrder
INVARIANT DeclIgnoresSpelling
INVARIANT OpEqualsDecl
INVARIANT SpellingInvariance
INVARIANT OneVariablePerLeaf
INVARIANT CanonicalAccepted
INVARIANT ModsArriveInOrder
INVARIANT NothingPending
