\* C20 intended: all five files (sub-folder, two library folders, two addable files), mtime/visibility side; quotient by VIEW (mtimes only through 'newer than the cache')
CONSTANTS K = 2
          Editable = {"M","S","L1","A","L2"}
          Addable = {"A","S"}
          OptNames = {"O1","O4"}
          Modes = {"cache"}
          Versions = {1}
          Holds = {FALSE}
          MaxClock = 1000000
          LibFoldersInKey = TRUE
          Beyond = {}
          OptionValuesCompared = TRUE
          FreshLibHandles = TRUE
INIT Init
NEXT Next
VIEW View
INVARIANT TypeOK
INVARIANT ClockInv
INVARIANT ResultIsFresh
PROPERTY ResultIsFreshAct
INVARIANT HitImpliesFresh
PROPERTY EditInvalidates
PROPERTY TransferLeavesValidCache
PROPERTY HitIsReadOnly
CHECK_DEADLOCK FALSE
