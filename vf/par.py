"""Small helper: run a function over many items in forked worker processes.

The function runs in a child that has pymoca importable from VERIF_REPO; results must be
JSON-able / picklable.  Exceptions raised by the function itself are machinery failures
(adapters must catch exceptions of the code under test and return them as observations).
"""
import os
from concurrent.futures import ProcessPoolExecutor
import multiprocessing as mp


def pmap(fn, items, procs=None, chunksize=None):
    items = list(items)
    procs = procs or min(16, os.cpu_count() or 4, int(os.environ.get("VERIF_PROCS", "16")))
    if procs <= 1 or len(items) < 4:
        return [fn(x) for x in items]
    chunksize = chunksize or max(1, len(items) // (procs * 8))
    ctx = mp.get_context("fork")
    with ProcessPoolExecutor(max_workers=procs, mp_context=ctx) as ex:
        return list(ex.map(fn, items, chunksize=chunksize))
