\* C10 as-built predictions, invariants off (thorough family)
CONSTANTS Pairs = "wide" GluedPrefixes = TRUE
INIT Init
NEXT Next
VIEW View
CHECK_DEADLOCK FALSE
PROPERTY PhaseOrder
