------------------------------- MODULE SGRat -------------------------------
(* Exact rational arithmetic for the oracle-mode specs SympyGen / Delay
   (self-contained; deliberately independent of Rat.tla / Eval.tla).

   A rational is a normalised pair <<num, den>> with den > 0, gcd = 1.
   Err == <<0,0>> is "no exact value": division by zero, 0 to a negative
   power, a non-integer or too large exponent, or an intermediate result whose
   numerator / denominator leaves the window in which TLC's 32-bit integers
   cannot overflow.  Err is absorbing.  A program point whose expected value is
   Err is outside the exact oracle and is not compared (counted by the harness). *)
EXTENDS Integers, Sequences

Err == <<0, 0>>
Big == 30000            \* |num|, den <= Big  =>  products < 9e8, sums of two products < 2^31

IAbs(x) == IF x < 0 THEN -x ELSE x

RECURSIVE Gcd(_, _)
Gcd(a, b) == IF b = 0 THEN a ELSE Gcd(b, a % b)

Norm(n, d) ==
    IF d = 0 THEN Err
    ELSE LET g == Gcd(IAbs(n), IAbs(d))
             s == IF d < 0 THEN -1 ELSE 1
             r == <<s * (n \div g), s * (d \div g)>>
         IN  IF IAbs(r[1]) > Big \/ r[2] > Big THEN Err ELSE r

IsRat(q) == q # Err
FromInt(i) == <<i, 1>>
Zero == <<0, 1>>
One == <<1, 1>>

RAdd(p, q) == IF p = Err \/ q = Err THEN Err ELSE Norm(p[1] * q[2] + q[1] * p[2], p[2] * q[2])
RSub(p, q) == IF p = Err \/ q = Err THEN Err ELSE Norm(p[1] * q[2] - q[1] * p[2], p[2] * q[2])
RMul(p, q) == IF p = Err \/ q = Err THEN Err ELSE Norm(p[1] * q[1], p[2] * q[2])
RDiv(p, q) == IF p = Err \/ q = Err THEN Err ELSE IF q[1] = 0 THEN Err ELSE Norm(p[1] * q[2], p[2] * q[1])
RNeg(p)    == IF p = Err THEN Err ELSE <<-p[1], p[2]>>
RAbs(p)    == IF p = Err THEN Err ELSE <<IAbs(p[1]), p[2]>>
RLess(p, q) == p[1] * q[2] < q[1] * p[2]        \* only for p, q # Err

RECURSIVE RPowNat(_, _)
RPowNat(p, n) == IF n = 0 THEN One ELSE RMul(p, RPowNat(p, n - 1))

MaxExp == 12
(* p ^ q: only integer exponents of magnitude <= MaxExp have an exact value here (every multiplication is window-checked) *)
RPow(p, q) ==
    IF p = Err \/ q = Err THEN Err
    ELSE IF q[2] # 1 \/ IAbs(q[1]) > MaxExp THEN Err
    ELSE IF q[1] >= 0 THEN RPowNat(p, q[1])
    ELSE IF p[1] = 0 THEN Err
    ELSE RPowNat(RDiv(One, p), -q[1])

Arith(op, x, y) ==
    CASE op = "+" -> RAdd(x, y)
      [] op = "-" -> RSub(x, y)
      [] op = "*" -> RMul(x, y)
      [] op = "/" -> RDiv(x, y)
      [] op = "^" -> RPow(x, y)

(* Elementary functions have no rational values.  They are modelled as fixed
   rational SURROGATES that share with the real function exactly the facts a
   computer algebra system applies automatically (parity, value at 0), so that
   "the right function is applied to the right argument" is decided exactly:
       sin  ~  q / (3 + q^2)      odd,  0 at 0   (not q/(1+q^2): that one is invariant under q -> 1/q)
       cos  ~  1 / (1 + q^2)      even, 1 at 0
       tan  ~  q / (2 + q^2)      odd,  0 at 0
   The binding substitutes the same surrogates for the function applications
   that remain in the evaluated expressions.  abs is exact.                    *)
Fun(f, q) ==
    CASE f = "sin" -> RDiv(q, RAdd(FromInt(3), RMul(q, q)))
      [] f = "cos" -> RDiv(One, RAdd(One, RMul(q, q)))
      [] f = "tan" -> RDiv(q, RAdd(FromInt(2), RMul(q, q)))
      [] f = "abs" -> RAbs(q)
      [] OTHER -> Err
=============================================================================
