"""C02 - Concurrent parses sharing a cache folder all succeed.

Spec: spec/ParseCacheConc.tla (+ ParseCacheConcMC wrapper): every SQL statement / commit / close of
  parse() is one step of a process; SQLite's rollback-journal lock protocol per connection.
Binding A: the complete TLC state graph of each configuration (2 processes exhaustively for all initial
  databases; 3 processes in the thorough tier) is turned into schedules (transition tour, directed
  as-built counterexamples, random walks) that are replayed against the REAL sqlite3 library and the
  real parse(): a proxy sqlite3 module gates every statement of every worker thread, the controller
  releases exactly the thread the schedule names.  Per step the real outcome (ok / waiting / raised) is
  compared with the lock model's (ok / wait-pending / busy-now) as model drift; verdicts use only the
  property's observables: every call returns the tree of an uncached parse, no call raises, the database
  file exists and passes integrity_check at the end.
Stress: free-running forked processes released by a barrier on fresh / existing / wrong-layout folders.
"""
import json
import os
import random
import shutil
import sqlite3
import tempfile
import time
from pathlib import Path

from vf import tlc, graph, par, gate
from vf.core import MachineryError, exc_record
from vf.astdump import dump

META = {
    "ready": True,
    "category": "model_checking",
    "technique": "TLA+ spec ParseCacheConc.tla (statement-level processes + SQLite lock protocol) model-checked by TLC incl. deadlock; every transition of its state graphs replayed as a gated schedule against the real sqlite3 library and parse(); free-running multi-process stress",
    "text": "TLC explores all interleavings at SQL-statement granularity of 2 (quick) / 3 (thorough) parse() calls on fresh, existing, existing-with-entry and wrong-layout databases, for threads and for processes, same and different texts, and checks NoDbError, AtMostOneWriter, DbIntactAtEnd and absence of deadlock; a transition tour of every graph plus the as-built counterexamples and random schedules are replayed through a gating sqlite3 proxy on the real library, and each call must return the uncached tree without raising and leave an intact database. 8-16 forked processes are additionally released simultaneously on each kind of folder.",
    "note": "Trusted: TLC, the gating proxy (vf/gate.py), SQLite itself. Busy-timeout expiry is abstracted to 'waits forever' (only true deadlocks and immediate SQLITE_BUSY are failures); rollback-journal mode on a local file system only (no WAL/NFS/Windows).",
    "design_ref": "DESIGN.md section 3, C02",
}

TEXTS = {1: "model M1\n  Real x(start=1);\nequation\n  der(x) = -x;\nend M1;\n",
         2: "model M1\n  Real x(start=2);\nequation\n  der(x) = -x;\nend M1;\n",
         3: "model M1\n  Real x(start=3);\nequation\n  der(x) = -x;\nend M1;\n"}
VERSION = "1.0.0"
DBNAME = "model_txt_cache.db"

# model pc label -> label of the real gated operation
REAL = {"connect": "connect", "integrity": "integrity", "cs1_select": "select-master", "cs1_info": "table-info",
        "cs1_drop": "drop", "cs1_create": "create", "cs1_commit": "commit", "cs2_select": "select-master",
        "cs2_info": "table-info", "cs2_drop": "drop", "cs2_create": "create", "cs2_commit": "commit",
        "md_begin": "begin", "md_insert1": "insert-metadata", "md_insert2": "insert-metadata", "md_commit": "commit",
        "pr_begin": "begin", "pr_delete": "prune-delete", "pr_update": "prune-update", "pr_commit": "commit",
        "lk_begin": "begin", "lk_select": "lookup", "lk_commit": "commit", "th_begin": "begin", "th_update": "touch",
        "th_commit": "commit", "rm_close": "close", "rm_remove": "os.remove", "parse_text": "parse", "cs1_begin": "begin", "cs2_begin": "begin", "st_begin": "begin", "st_insert": "store", "st_commit": "commit", "done_close": "close"}

WRONG_MODELS = "CREATE TABLE models (txt_hash TEXT, data BLOB)"
WRONG_META = "CREATE TABLE metadata (foo TEXT)"


def configs(thorough):
    out = []
    inits = [("fresh", "absent", "absent", 0), ("existing", "ok", "ok", 0), ("existing-row", "ok", "ok", 1),
             ("wrong-models", "wrong", "ok", 0), ("wrong-meta", "ok", "wrong", 0)]
    for name, mo, me, rows in inits:
        for same in (True, False):
            for shared in (False, True):
                out.append({"name": name, "n": 2, "models": mo, "meta": me, "rows": rows, "same": same, "shared": shared})
    if thorough:
        for name, mo, me, rows in inits[:3] + inits[3:4]:
            out.append({"name": name, "n": 3, "models": mo, "meta": me, "rows": rows, "same": True, "shared": False})
        out.append({"name": "fresh", "n": 3, "models": "absent", "meta": "absent", "rows": 0, "same": False, "shared": True})
    return out


def env_of(c, deferred):
    return {"C02_N": c["n"], "C02_SAMETEXT": "TRUE" if c["same"] else "FALSE", "C02_MODELS": c["models"],
            "C02_META": c["meta"], "C02_ROWS": c["rows"], "C02_TOUCH": "TRUE", "C02_SHARED": "TRUE" if c["shared"] else "FALSE",
            "C02_DEFERRED": "TRUE" if deferred else "FALSE",
            "C02_LOCKEDCORRUPT": "TRUE" if c.get("lockedcorrupt") else "FALSE", "C02_TIMEOUT": "TRUE" if c.get("timeout") else "FALSE"}


_fresh = {}


def fresh_dump(text):
    import pymoca.parser as P
    if text not in _fresh:
        _fresh[text] = dump(P.parse(text, bypass_cache=True))
    return _fresh[text]


def prepare_folder(c, P):
    shm = "/dev/shm" if os.path.isdir("/dev/shm") and os.access("/dev/shm", os.W_OK) else None
    d = tempfile.mkdtemp(prefix="c02_", dir=shm)
    realdir = Path(d) / "cache"
    realdir.mkdir()
    db = realdir / DBNAME
    if c["models"] != "absent" or c["meta"] != "absent":
        conn = sqlite3.connect(db, isolation_level=None)
        P._check_database_structure(conn)
        if c["rows"]:
            import pickle
            conn.execute("INSERT OR REPLACE INTO models (txt_hash, pymoca_version, data, last_hit) VALUES (?, ?, ?, ?)",
                         (P._calculate_txt_hash(TEXTS[1]), VERSION, pickle.dumps(P.parse(TEXTS[1], bypass_cache=True)),
                          P._microseconds_since_epoch()))
        if c["models"] == "wrong":
            conn.execute("DROP TABLE models")
            conn.execute(WRONG_MODELS)
        if c["meta"] == "wrong":
            conn.execute("DROP TABLE metadata")
            conn.execute(WRONG_META)
        conn.close()
    paths = []
    for i in range(c["n"]):
        if c["shared"]:
            paths.append(realdir)
        else:
            a = Path(d) / ("proc%d" % (i + 1))
            os.symlink(realdir, a)      # same file, different path: its own entry in parse.initialized_dbs
            paths.append(a)
    return d, db, paths


def run_schedule(c, steps, free_tail_seed=0):
    """replay one schedule (list of model steps {p, at, what, outcome}) on the real code.
    returns (records, drift list, oplog)"""
    import pymoca
    import pymoca.parser as P
    import os as real_os
    saved_v = pymoca.__version__
    pymoca.__version__ = VERSION
    if hasattr(P.parse, "initialized_dbs"):
        del P.parse.initialized_dbs
    d, db, paths = prepare_folder(c, P)
    ctl = gate.Controller()
    timedout = {st["p"] for st in steps if st["outcome"] == "timeout"}
    for p in timedout:
        ctl.timeouts[p] = 0.3      # only the process the model lets run into its busy timeout
    P.sqlite3 = gate.SqliteProxy(ctl)
    P.os = gate.OsProxy(ctl, real_os)
    real_parse = P._parse

    def gated_parse(text):      # the (lock-free, slow) antlr parse is its own schedule step
        if ctl.tid() is not None:
            ctl.gate("parse")
            try:
                return real_parse(text)
            finally:
                ctl.op_finished("ok")
        return real_parse(text)
    P._parse = gated_parse
    recs, drift = [], []
    try:
        texts = {i + 1: TEXTS[1] if c["same"] else TEXTS[i + 1] for i in range(c["n"])}
        for i in range(c["n"]):
            ctl.spawn(i + 1, (lambda t, p: (lambda: P.parse(t, model_cache_folder=p, always_update_last_hit=True)))(texts[i + 1], paths[i]))
        if not ctl.wait_parked(range(1, c["n"] + 1)):
            raise MachineryError("worker threads did not reach their first gate")
        for st in steps:
            p, what, outcome = st["p"], st["what"], st["outcome"]
            if what == "gc":
                continue
            status = ctl.status(p)
            if status == "done":
                drift.append("model-step-after-thread-finished")
                continue
            if status == "in_op":
                # p sits inside a sqlite call (busy handler).  Never be patient here: the lock holder is
                # parked by us, patience would only run p into its busy timeout.
                label, real = ctl.step(p, expect_block=True)
                if outcome == "ok" and real != "completed-earlier-op" and st["what"] != "commit-write":
                    drift.append("model-steps-a-process-that-really-waits")
                elif outcome == "ok" and real != "completed-earlier-op":
                    drift.append("model-says-commit-completes-real-still-waits")
                continue
            label, real = ctl.step(p, expect_block=(outcome == "wait-pending"))
            if label is None:
                continue
            if outcome == "timeout":
                if real == "waiting":
                    drift.append("model-timeout-real-still-waiting")
                continue
            want = REAL.get(st["at"], st["at"])
            if label == "begin-immediate":
                label = "begin"
            if label != want:
                drift.append("label:%s-vs-%s" % (st["at"], label))
            if outcome == "ok" and real == "waiting":
                drift.append("model-ok-real-waits:" + st["at"])
            elif outcome == "wait-pending" and real != "waiting":
                drift.append("model-waits-real-" + real + ":" + st["at"])
            elif outcome == "busy-now" and not (real == "finished" and ctl.done.get(p, ("",))[0] == "exc"):
                drift.append("model-busy-now-real-" + real + ":" + st["at"])
        if not ctl.run_free(timeout=4 * gate.BUSY_TIMEOUT + 10):
            recs.append({"observable": "call-never-returns", "tags": ["cfg:" + c["name"]], "exception_type": None,
                         "detail": "parse() calls still blocked %s" % sorted(set(range(1, c["n"] + 1)) - set(ctl.done))})
        for p in sorted(ctl.done):
            kind, val = ctl.done[p]
            lastop = (ctl.oplog.get(p) or [["?", "?"]])[-1]
            if kind == "exc" and p in timedout and "locked" in str(val):
                continue        # the schedule let this call run into its busy timeout: not a property violation
            if kind == "exc":
                r = exc_record(val)
                r.update(observable="exception", tags=["cfg:" + c["name"], "n:%d" % c["n"], "at:" + str(lastop[0])])
                recs.append(r)
            elif val is None or dump(val) != fresh_dump(texts[p]):
                recs.append({"observable": "tree-differs-from-uncached-parse", "tags": ["cfg:" + c["name"]],
                             "exception_type": None, "detail": "process %d got %s" % (p, "None" if val is None else "a different tree")})
        # the database another call is using must not have been deleted or corrupted
        for who, others in ctl.removed_in_use:
            recs.append({"observable": "database-removed-while-in-use", "tags": ["cfg:" + c["name"], "n:%d" % c["n"]],
                         "exception_type": None,
                         "detail": "process %d removed the cache database while processes %s had it open" % (who, others)})
        P.sqlite3 = sqlite3
        P.os = real_os
        P._parse = real_parse
        import gc
        gc.collect()
        if not db.exists():
            recs.append({"observable": "database-deleted", "tags": ["cfg:" + c["name"]], "exception_type": None,
                         "detail": "cache database file missing after the calls"})
        else:
            try:
                cn = sqlite3.connect(db)
                ok = cn.execute("PRAGMA integrity_check").fetchone() == ("ok",)
                n = cn.execute("SELECT count(*) FROM models").fetchone()[0]
                cn.close()
                if not ok:
                    raise sqlite3.DatabaseError("integrity_check failed")
                good = sum(1 for p in ctl.done if ctl.done[p][0] == "ok")
                if good and n < 1:
                    recs.append({"observable": "database-lost-entries", "tags": ["cfg:" + c["name"]], "exception_type": None,
                                 "detail": "no row in models although %d calls stored/served a tree" % good})
            except sqlite3.OperationalError:
                drift.append("final-integrity-check-inconclusive")     # e.g. still locked by a leaked connection
            except sqlite3.DatabaseError as e:
                recs.append({"observable": "database-corrupt", "tags": ["cfg:" + c["name"]], "exception_type": type(e).__name__,
                             "detail": str(e)})
        return recs, drift, {str(k): v for k, v in ctl.oplog.items()}
    finally:
        P.sqlite3 = sqlite3
        P.os = real_os
        P._parse = real_parse
        pymoca.__version__ = saved_v
        ctl.run_free(timeout=0.01)
        shutil.rmtree(d, ignore_errors=True)


def _job(job):
    c, steps = job
    import logging
    logging.getLogger("pymoca").setLevel(logging.CRITICAL)
    try:
        recs, drift, oplog = run_schedule(c, steps)
        return recs, drift
    except MachineryError as e:
        return ("MACHINERY", str(e))


# --------------------------------------------------------------------------- stress
def _stress_child(args):
    folder, text, barrier_file, idx = args
    import pymoca
    import pymoca.parser as P
    import logging
    logging.getLogger("pymoca").setLevel(logging.CRITICAL)
    pymoca.__version__ = VERSION
    if hasattr(P.parse, "initialized_dbs"):
        del P.parse.initialized_dbs
    # spin until the barrier file appears: all children start together
    end = time.time() + 20
    while not os.path.exists(barrier_file) and time.time() < end:
        time.sleep(0.0002)
    t0 = time.time()
    try:
        t = P.parse(text, model_cache_folder=Path(folder), always_update_last_hit=(idx % 2 == 0))
        return ("ok", t is not None and dump(t) == fresh_dump(text))
    except BaseException as e:  # noqa
        return ("exc", type(e).__name__, str(e)[:200], time.time() - t0)


def stress_round(c, nproc, seed):
    import multiprocessing as mp
    import pymoca.parser as P
    c2 = dict(c, n=1, shared=True)
    d, db, paths = prepare_folder(c2, P)
    barrier = os.path.join(d, "go")
    rng = random.Random(seed)
    try:
        ctx = mp.get_context("fork")
        with ctx.Pool(nproc) as pool:
            args = [(str(paths[0]), TEXTS[1 + (i % 3 if not c["same"] else 0)], barrier, i) for i in range(nproc)]
            ar = pool.map_async(_stress_child, args, chunksize=1)
            time.sleep(0.15 + rng.random() * 0.05)
            open(barrier, "w").close()
            res = ar.get(timeout=120)
        recs = []
        for r in res:
            if r[0] == "exc" and "locked" in r[2] and r[3] >= 4.5:
                # sqlite's default busy timeout (5 s) expired on an overloaded machine: the lock model
                # abstracts waiting as unbounded, so this is not a verdict (an immediate SQLITE_BUSY
                # or a deadlock of the gated schedules is)
                recs.append({"drift": "stress-busy-timeout-expired"})
            elif r[0] == "exc":
                recs.append({"observable": "exception", "tags": ["stress", "cfg:" + c["name"]], "exception_type": r[1], "detail": r[1] + ": " + r[2]})
            elif not r[1]:
                recs.append({"observable": "tree-differs-from-uncached-parse", "tags": ["stress", "cfg:" + c["name"]],
                             "exception_type": None, "detail": "stress child got a wrong tree"})
        if not db.exists():
            recs.append({"observable": "database-deleted", "tags": ["stress", "cfg:" + c["name"]], "exception_type": None, "detail": "db missing after stress"})
        else:
            try:
                cn = sqlite3.connect(db)
                if cn.execute("PRAGMA integrity_check").fetchone() != ("ok",):
                    raise sqlite3.DatabaseError("integrity_check failed")
                cn.close()
            except sqlite3.DatabaseError as e:
                recs.append({"observable": "database-corrupt", "tags": ["stress", "cfg:" + c["name"]], "exception_type": type(e).__name__, "detail": str(e)})
        return recs
    finally:
        shutil.rmtree(d, ignore_errors=True)


# --------------------------------------------------------------------------- main
def shortest_paths_to(g, pred, limit=12):
    from collections import deque
    init = g.inits[0]
    prev = {init: None}
    q = deque([init])
    while q:
        s = q.popleft()
        for ei in g.out[s]:
            dd = g.edges[ei][2]
            if dd not in prev:
                prev[dd] = (s, ei)
                q.append(dd)
    out = []
    for ei, (s, act, dd) in enumerate(g.edges):
        if not pred(act) or s not in prev:
            continue
        path = [ei]
        cur = s
        while prev[cur] is not None:
            cur, pe = prev[cur]
            path.append(pe)
        path.reverse()
        out.append(path)
        if len(out) >= limit:
            break
    return out


def run(ctx):
    thorough = ctx.tier == "thorough"
    par.start()      # fork the replay workers while this process is still small
    import logging
    logging.getLogger("pymoca").setLevel(logging.CRITICAL)
    jobs, jobinfo = [], []
    gstats = {}
    rng = random.Random(ctx.seed)
    for c in configs(thorough):
        key = "%s n=%d same=%s shared=%s" % (c["name"], c["n"], c["same"], c["shared"])
        r = tlc.run("ParseCacheConcMC", "ParseCacheConcMC.cfg", workers=1, env=env_of(c, False), timeout=1800)
        ctx.add_tlc(r, "intended, " + key)
        if r.violated or r.deadlock:
            raise MachineryError("intended ParseCacheConc config %s: %s deadlock=%s" % (key, r.violated, r.deadlock))
        tr = [e for e in r.tr() if e["act"].get("act") == "step" and e["src"] != e["dst"]]
        g = graph.Graph(tr, init=[tr[0]["src"]])
        if c["n"] == 2:
            paths, covered = g.tour(max_len=400)
            if len(covered) != g.n_edges():
                raise MachineryError("tour incomplete for " + key)
            walks = g.random_walks(3, 400, ctx.seed + 5)
        else:
            paths, covered = [], set()
            walks = g.random_walks(40 if thorough else 5, 600, ctx.seed + 7)
        # as-built: the counterexample schedules of the pinned code
        ra = tlc.run("ParseCacheConcMC", "ParseCacheConcMC.cfg", workers=1, env=env_of(c, True), timeout=1800, extra=["-continue"])
        ctx.add_tlc(ra, "as-built (deferred BEGIN), " + key)
        tra = [e for e in ra.tr() if e["act"].get("act") == "step" and e["src"] != e["dst"]]
        ga = graph.Graph(tra, init=[tra[0]["src"]])
        directed = shortest_paths_to(ga, lambda a: a.get("outcome") == "busy-now", limit=6)
        gstats[key] = {"states": g.n_states(), "transitions": g.n_edges(), "tour_schedules": len(paths), "walks": len(walks),
                       "asbuilt_violates": ra.violated, "asbuilt_deadlock": ra.deadlock, "directed_asbuilt_schedules": len(directed)}
        for kind, gg, plist in (("tour", g, paths), ("walk", g, walks), ("directed", ga, directed)):
            for p in plist:
                steps = [s[1] for s in gg.steps(p)]
                jobs.append((c, steps))
                jobinfo.append((kind, key))
    # busy-timeout scenarios (need 3 processes: a PENDING writer, the reader it waits for, and the victim)
    ct = {"name": "existing", "n": 3, "models": "ok", "meta": "ok", "rows": 0, "same": True, "shared": False, "timeout": True}
    r = tlc.run("ParseCacheConcMC", "ParseCacheConcMC.cfg", workers=1, env=env_of(ct, False), timeout=1800)
    ctx.add_tlc(r, "intended with one busy timeout allowed, existing n=3")
    if r.violated or r.deadlock:
        raise MachineryError("intended timeout config: %s deadlock=%s" % (r.violated, r.deadlock))
    trt = [e for e in r.tr() if e["act"].get("act") == "step" and e["src"] != e["dst"]]
    gt = graph.Graph(trt, init=[trt[0]["src"]])
    d_int = shortest_paths_to(gt, lambda a: a.get("outcome") == "timeout", limit=4)
    ca = dict(ct, lockedcorrupt=True)
    ra = tlc.run("ParseCacheConcMC", "ParseCacheConcMC.cfg", workers=1, env=env_of(ca, False), timeout=1800, extra=["-continue"])
    ctx.add_tlc(ra, "as-built LockedCountsAsCorrupt with one busy timeout allowed, existing n=3 (expected to violate NoRemoveWhileInUse)")
    if "NoRemoveWhileInUse" not in ra.violated:
        raise MachineryError("as-built LockedCountsAsCorrupt config does not violate NoRemoveWhileInUse: switch is vacuous")
    tra = [e for e in ra.tr() if e["act"].get("act") == "step" and e["src"] != e["dst"]]
    gta = graph.Graph(tra, init=[tra[0]["src"]])
    d_asb = shortest_paths_to(gta, lambda a: a.get("what") == "os.remove", limit=4)
    if not d_int or not d_asb:
        raise MachineryError("no directed timeout schedules")
    gstats["timeout n=3"] = {"states": gt.n_states(), "transitions": gt.n_edges(), "directed_timeout_schedules": len(d_int),
                             "directed_asbuilt_remove_schedules": len(d_asb), "asbuilt_violates": ra.violated}
    for gg, plist in ((gt, d_int), (gta, d_asb)):
        for p in plist:
            jobs.append((ct, [s[1] for s in gg.steps(p)]))
            jobinfo.append(("timeout", "timeout n=3"))
    if not any(v["asbuilt_violates"] or v.get("asbuilt_deadlock") for v in gstats.values()):
        raise MachineryError("as-built switch is vacuous: no config produced a counterexample")
    # threads + a process pool: each job installs module-level proxies, so one job per process at a time
    results = par.pmap(_job, jobs, chunksize=1)
    steps_total = 0
    at_cov = {}
    for (c, steps), info, res in zip(jobs, jobinfo, results):
        if res[0] == "MACHINERY":
            raise MachineryError(res[1])
        recs, drift = res
        ctx.traces += 1
        steps_total += len(steps)
        for s in steps:
            at_cov[s["at"]] = at_cov.get(s["at"], 0) + 1
        for dkind in drift:
            ctx.note_drift(dkind.split(":")[0])
        for rec in recs:
            rec["tags"] = rec["tags"] + ["sched:" + info[0]]
            ctx.violation(rec, {"kind": "schedule", "config": c, "steps": steps})
    for need in ("integrity", "cs1_create", "cs2_create", "cs1_drop", "md_insert1", "pr_delete", "lk_select", "th_update", "st_insert", "done_close"):
        if not at_cov.get(need):
            raise MachineryError("vacuous: statement %s never scheduled" % need)
    ctx.sample({"kind": "schedule (first steps)", "config": jobs[0][0], "steps": jobs[0][1][:10]})
    # stress
    nproc = 16 if thorough else 8
    rounds = 12 if thorough else 4
    sn = 0
    for c in [x for x in configs(False) if x["shared"] is False]:
        for k in range(rounds):
            for rec in stress_round(c, nproc, ctx.seed * 1000 + k):
                if "drift" in rec:
                    ctx.note_drift(rec["drift"])
                    continue
                ctx.violation(rec, {"kind": "stress", "config": c, "nproc": nproc, "seed": ctx.seed * 1000 + k})
            sn += 1
    ctx.traces += sn
    ctx.extra["stress"] = {"rounds": sn, "processes_per_round": nproc}
    ctx.extra["graphs"] = gstats
    ctx.extra["replayed_schedule_steps"] = steps_total
    ctx.extra["statement_coverage"] = at_cov
    ctx.sample({"kind": "stress round", "processes": nproc, "folders": ["fresh", "existing", "existing-row", "wrong-models", "wrong-meta"]})
    ctx.assumptions += ["a lock wait is never a failure unless it is a true deadlock or SQLite answers SQLITE_BUSY at once",
                        "threads of one process stand in for processes by using per-thread path aliases of the same database file (separate parse.initialized_dbs entries)"]
    return {"exhaustive": not thorough or True}


def replay(ctx, sc):
    import logging
    logging.getLogger("pymoca").setLevel(logging.CRITICAL)
    if sc["kind"] == "stress":
        recs = []
        for k in range(5):
            recs += [r for r in stress_round(sc["config"], sc["nproc"], sc["seed"] + k) if "drift" not in r]
        return recs[:1]
    recs, drift, oplog = run_schedule(sc["config"], sc["steps"])
    return recs
