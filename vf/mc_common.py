"""Shared harness pieces for the CasADi model-cache checks (C19, C20, C21).

Trusted base (no expected-value logic):
  * Sandbox     real temp folders (model folder, two library folders), a logical clock for mtimes,
                option sets by name, transfer / fresh-compile calls with scratch XDG cache
  * project()   casadi Model / CachedModel -> JSON-able observation (everything C19 names)
  * compare()   two observations -> list of (observable, detail)
  * decode()    which content ids / options a model was compiled from (binding sanity + drift)
  * isolated()  run a function in a forked child (a truncated shared library can SIGBUS the process)
"""
import json
import math
import os
import pickle
import shutil
import signal
import sys
import tempfile
import traceback

BASE = 1_000_000_000          # epoch offset of the logical clock (seconds)

CATS = ["states", "der_states", "alg_states", "inputs", "constants", "parameters"]
FUNCS = ["dae_residual", "initial_residual", "variable_metadata", "delay_arguments"]

_api = None


def api():
    """pymoca.backends.casadi.api of the tree under test, with a quiet logger."""
    global _api
    if _api is None:
        import logging
        logging.getLogger("pymoca").setLevel(logging.CRITICAL)
        import pymoca
        import pymoca.backends.casadi.api as a
        # a dirty work tree makes parser.parse() bypass its sqlite cache; the parse cache is not under
        # test here, so give the parser a clean version string (api.__version__ is a separate binding)
        pymoca.__version__ = "0+verif.mc"
        _api = a
        _install_version_marker(a)
    return _api


def _install_version_marker(a):
    """A different pymoca version may compile the same sources differently - that is why the cache stores
    the version.  The harness changes versions by assigning api.__version__ = "verif-<n>"; to make the
    compiling version observable, the model compiled by version n > 1 gets nominal = n on its first state
    (a plain python attribute, so it travels through the cache file).  Version 1 is left untouched."""
    real = a._compile_model

    def compile_with_marker(model_folder, model_name, compiler_options):
        m = real(model_folder, model_name, compiler_options)
        v = str(a.__version__)
        if v.startswith("verif-") and v != "verif-1" and m.states:
            m.states[0].nominal = float(v.split("-")[1])
        return m
    a._compile_model = compile_with_marker


# ---------------------------------------------------------------------------------------------
# model family of the history checks: every file's content id is visible in the compiled model
# ---------------------------------------------------------------------------------------------
FOLDER = {"M": "model", "S": "model/sub", "L1": "lib1", "A": "lib1", "L2": "lib2"}
FNAME = {"M": "M.mo", "S": "S.mo", "L1": "L.mo", "A": "A.mo", "L2": "L.mo"}


def text_of(f, k):
    """Modelica text of file f with content id k (k >= 1).  Ranges are disjoint so a compiled
    model reveals every id:  M -> 100+k, L1/L2 -> 200+k (L2: 250+k), A -> 310+k (else 300), S -> 410+k (else 400)."""
    if f == "M":
        v = 100 + k
        return ("model M\n  parameter Real p = 2;\n  Real x(start = %d, max = %d * p);\n  Real y;\n  Real v[2];\n"
                "  Real _a1;\n  Real _b1;\n"
                "  Lib.Base b;\nequation\n  der(x) = %d * p - x;\n  y = x;\n  v[1] = x + 1;\n  v[2] = 2 * x;\n"
                "  _a1 = 2 * x;\n  _b1 = 3 * x;\nend M;\n" % (v, v, v))
    if f in ("L1", "L2"):
        v = (200 if f == "L1" else 250) + k
        return ("model T\n  Real z(start = 300);\nequation\n  z = 300;\nend T;\n"
                "model U\n  Real q(start = 400);\nequation\n  q = 400;\nend U;\n"
                "package Lib\n  model Base\n    T t;\n    U u;\n    Real w(start = %d);\n  equation\n    w = %d;\n  end Base;\nend Lib;\n" % (v, v))
    if f == "A":
        v = 310 + k
        return "package Lib\n  model T\n    Real z(start = %d);\n  equation\n    z = %d;\n  end T;\nend Lib;\n" % (v, v)
    if f == "S":
        v = 410 + k
        return "package Lib\n  model U\n    Real q(start = %d);\n  equation\n    q = %d;\n  end U;\nend Lib;\n" % (v, v)
    raise ValueError(f)


OPTS = {  # option-set names of spec/ModelCache.tla -> (compiler options, library folder)
    "O1": ({}, "lib1"),
    "O2": ({"detect_aliases": True}, "lib1"),
    "O3": ({"expand_vectors": True}, "lib1"),
    "O4": ({}, "lib2"),
    # two option sets that differ only in the VALUE of a non-boolean option (both values truthy)
    "O5": ({"expand_mx": True, "eliminable_variable_expression": r"_a\w*"}, "lib1"),
    "O6": ({"expand_mx": True, "eliminable_variable_expression": r"_b\w*"}, "lib1"),
}


class Sandbox:
    """Real folders driven by a logical clock."""

    def __init__(self, init_files=None):
        self.root = tempfile.mkdtemp(prefix="vfmc_")
        self.cwd = os.path.join(self.root, "cwd")
        for d in ("model", "lib1", "lib2", "xdg", "cwd"):
            os.makedirs(os.path.join(self.root, d))
        os.environ["XDG_CACHE_HOME"] = os.path.join(self.root, "xdg")
        self.clock = 0
        self.cache_stamp = None     # (mtime_ns, size, ino) of the cache file when last seen
        self.texts = {}
        for f, k in (init_files or {}).items():
            self.write(f, k, 0)

    # -- files ------------------------------------------------------------------------------
    def path(self, f):
        return os.path.join(self.root, FOLDER[f], FNAME[f])

    @property
    def model_folder(self):
        return os.path.join(self.root, "model")

    @property
    def cache_file(self):
        return os.path.join(self.model_folder, "M.pymoca_cache")

    def write(self, f, k, mt, text=None):
        p = self.path(f)
        os.makedirs(os.path.dirname(p), exist_ok=True)
        txt = text if text is not None else text_of(f, k)
        with open(p, "w") as fh:
            fh.write(txt)
        os.utime(p, (BASE + mt, BASE + mt))
        self.texts[f] = txt

    def edit(self, f, k):
        """rewrite / add file f; it gets a strictly later mtime than anything so far (the property's premise)"""
        self.clock += 1
        self.write(f, k, self.clock)

    def options(self, oname, mode):
        extra, lib = OPTS[oname]
        o = dict(extra)
        o["library_folders"] = [os.path.join(self.root, lib)]
        o[mode] = True
        return o

    # -- calls into the code under test -------------------------------------------------------
    def stamp_cache(self):
        """If the cache file was (re)written since we last looked, give it the logical time 'now'."""
        c = self.cache_file
        try:
            st = os.stat(c)
        except FileNotFoundError:
            self.cache_stamp = None
            return False
        cur = (st.st_mtime_ns, st.st_size, st.st_ino)
        if cur != self.cache_stamp:
            os.utime(c, (BASE + self.clock, BASE + self.clock))
            st = os.stat(c)
            self.cache_stamp = (st.st_mtime_ns, st.st_size, st.st_ino)
            return True
        return False

    def transfer(self, oname, mode, version=None):
        a = api()
        if version is not None:
            a.__version__ = version
        old = os.getcwd()
        os.chdir(self.cwd)       # codegen writes object files relative to the cwd
        try:
            m = a.transfer_model(self.model_folder, "M", self.options(oname, mode))
        finally:
            os.chdir(old)
            self.stamp_cache()
        return m

    def fresh(self, oname, mode):
        """compile the current sources with the current options, exactly as transfer_model normalises them"""
        a = api()
        o = a._merge_default_options(self.options(oname, mode))
        if o["cache"] and o["codegen"]:
            o["cache"] = False
        if o["cache"]:
            o["expand_mx"] = True
        return a._compile_model(self.model_folder, "M", o)

    def fresh_key(self, oname, mode):
        vis = sorted((f, t) for f, t in self.texts.items() if FOLDER[f] in ("model", "model/sub", OPTS[oname][1]))
        return json.dumps([vis, oname, mode])

    def close(self):
        shutil.rmtree(self.root, ignore_errors=True)


# ---------------------------------------------------------------------------------------------
# observation of a model
# ---------------------------------------------------------------------------------------------
def _num(x):
    x = float(x)
    if math.isnan(x):
        return "nan"
    if math.isinf(x):
        return "inf" if x > 0 else "-inf"
    return x


def _dm_list(dm):
    import numpy as np
    return [_num(v) for v in np.array(dm, dtype=float).ravel(order="F")]


def _points(n, npts):
    """npts integer vectors of length n (deterministic, non-zero, distinct entries)"""
    return [[((3 * j + 5 * pt + 1) % 7) - 3 or 4 for j in range(n)] for pt in range(npts)]


def _fill(fn, pt):
    import casadi as ca
    args = []
    for i in range(fn.n_in()):
        r, c = fn.size_in(i)
        vals = [(((2 * i + 3 * j + 5 * pt + 1) % 9) - 4 or 5) for j in range(r * c)]
        args.append(ca.reshape(ca.DM(vals), r, c) if r * c else ca.DM.zeros(r, c))
    return args


def _symbols(model):
    syms = [model.time]
    for cat in ["states", "der_states", "alg_states", "inputs", "constants", "parameters"]:
        syms += [v.symbol for v in getattr(model, cat)]
    return syms


def _eval_attr(value, psyms, pvecs):
    """('MX'|python type name, values at every parameter vector)"""
    import casadi as ca
    import numpy as np
    if isinstance(value, ca.MX):
        free = [s.name() for s in ca.symvar(value)]
        pn = {s.name() for s in psyms}
        if not set(free) <= pn:
            return ["MX", "depends-on:" + ",".join(sorted(set(free) - pn))]
        f = ca.Function("a", psyms, [value])
        return ["MX", [_dm_list(f(*[ca.DM(x) for x in pv])) if psyms else _dm_list(f()["o0"]) for pv in pvecs]]
    kind = type(value).__name__
    try:
        vals = [_num(v) for v in np.asarray(value, dtype=float).ravel(order="F")]
    except Exception:
        try:
            vals = _dm_list(ca.DM(value))
        except Exception:
            vals = repr(value)
    return [kind, [vals for _ in pvecs]]


def project(model, npts=3):
    """Everything C19 names, as plain JSON-able data."""
    import casadi as ca
    from pymoca.backends.casadi.model import CASADI_ATTRIBUTES
    out = {"class": type(model).__name__}
    psyms = [v.symbol for v in model.parameters]
    pvecs = []
    for pt in range(npts):
        pv = []
        for j, s in enumerate(psyms):
            n = s.size1() * s.size2()
            pv.append([(((3 * j + 5 * pt + k + 1) % 7) - 3 or 4) for k in range(n)])
        pvecs.append(pv)
    out["vars"] = {}
    out["attrs"] = {}
    for cat in CATS:
        out["vars"][cat] = [[v.symbol.name(), [v.symbol.size1(), v.symbol.size2()], v.python_type.__name__,
                             sorted(v.aliases)] for v in getattr(model, cat)]
        out["attrs"][cat] = [[_eval_attr(getattr(v, a), psyms, pvecs) for a in CASADI_ATTRIBUTES]
                             for v in getattr(model, cat)]
    out["outputs"] = list(model.outputs)
    out["delay_states"] = list(model.delay_states)
    out["string_parameters"] = [sorted(v.to_dict().items()) for v in model.string_parameters]
    out["string_constants"] = [sorted(v.to_dict().items()) for v in model.string_constants]
    ar = model.alias_relation
    classes = []
    for canon in ar.canonical_variables:
        classes.append(sorted(ar.aliases(canon)))
    out["alias"] = sorted(classes)
    out["alias_canonical"] = sorted(ar.canonical_variables)
    out["funcs"] = {}
    for fn in FUNCS:
        f = getattr(model, fn + "_function")
        sig = [[list(f.size_in(i)) for i in range(f.n_in())], [list(f.size_out(i)) for i in range(f.n_out())]]
        vals = []
        for pt in range(npts):
            res = f.call(_fill(f, pt))
            vals.append([_dm_list(r) for r in res])
        out["funcs"][fn] = {"sig": sig, "vals": vals}
    # reconstructed delay arguments (expr, duration), evaluated over all model symbols by position
    da = []
    if model.delay_arguments:
        syms = _symbols(model)
        for pt in range(npts):
            vals = [ca.DM([(((2 * i + 3 * k + 5 * pt + 1) % 9) - 4 or 5) for k in range(s.size1() * s.size2())]) for i, s in enumerate(syms)]
            row = []
            for d in model.delay_arguments:
                pair = []
                for e in (d.expr, d.duration):
                    e = e if isinstance(e, ca.MX) else ca.MX(ca.DM(e))
                    free = {s.name() for s in ca.symvar(e)} - {s.name() for s in syms}
                    if free:
                        pair.append("depends-on:" + ",".join(sorted(free)))
                    else:
                        pair.append(_dm_list(ca.Function("d", syms, [e]).call(vals)[0]))
                row.append(pair)
            da.append(row)
    out["delay_arguments"] = da
    # structural dependencies of the reconstructed durations (auxiliary: compared as drift only)
    deps = []
    for d in model.delay_arguments:
        e = d.duration
        deps.append(sorted(s.name() for s in ca.symvar(e)) if isinstance(e, ca.MX) else [])
    out["delay_duration_symbols"] = deps
    return out


def _close(a, b, tol=1e-9):
    if isinstance(a, str) or isinstance(b, str):
        return a == b
    if isinstance(a, list) and isinstance(b, list):
        return len(a) == len(b) and all(_close(x, y, tol) for x, y in zip(a, b))
    if isinstance(a, (int, float)) and isinstance(b, (int, float)):
        return abs(a - b) <= tol * max(1.0, abs(a), abs(b))
    return a == b


def compare(ref, got):
    """-> (violations, drifts): lists of (observable, detail).  ref = fresh compile, got = model under test."""
    bad, drift = [], []
    for cat in CATS:
        rn = [v[0] for v in ref["vars"][cat]]
        gn = [v[0] for v in got["vars"][cat]]
        if rn != gn:
            bad.append(("names", "%s: %s expected %s" % (cat, gn, rn)))
            continue
        for rv, gv, ra, ga in zip(ref["vars"][cat], got["vars"][cat], ref["attrs"][cat], got["attrs"][cat]):
            if rv[1] != gv[1]:
                bad.append(("shape", "%s %s: %s expected %s" % (cat, rv[0], gv[1], rv[1])))
            if rv[2] != gv[2]:
                bad.append(("python_type", "%s %s: %s expected %s" % (cat, rv[0], gv[2], rv[2])))
            if rv[3] != gv[3]:
                bad.append(("aliases", "%s %s: aliases %s expected %s" % (cat, rv[0], gv[3], rv[3])))
            from pymoca.backends.casadi.model import CASADI_ATTRIBUTES
            for an, x, y in zip(CASADI_ATTRIBUTES, ra, ga):
                if not _close(x[1], y[1]):
                    bad.append(("attribute", "%s %s.%s: %s expected %s" % (cat, rv[0], an, y[1], x[1])))
                elif x[0] != y[0]:
                    drift.append(("attr-repr", "%s %s.%s: %s vs %s" % (cat, rv[0], an, y[0], x[0])))
    for k in ("outputs", "delay_states", "string_parameters", "string_constants"):
        if ref[k] != got[k]:
            bad.append((k, "%s expected %s" % (got[k], ref[k])))
    if ref["alias"] != got["alias"]:
        bad.append(("alias_relation", "%s expected %s" % (got["alias"], ref["alias"])))
    elif ref["alias_canonical"] != got["alias_canonical"]:
        bad.append(("alias_relation", "canonical %s expected %s" % (got["alias_canonical"], ref["alias_canonical"])))
    for fn in FUNCS:
        r, g = ref["funcs"][fn], got["funcs"][fn]
        if r["sig"] != g["sig"]:
            bad.append((fn + "_function", "signature %s expected %s" % (g["sig"], r["sig"])))
        elif not _close(r["vals"], g["vals"]):
            bad.append((fn + "_function", "values %s expected %s" % (json.dumps(g["vals"])[:160], json.dumps(r["vals"])[:160])))
    if not _close(ref["delay_arguments"], got["delay_arguments"]):
        bad.append(("delay_arguments", "%s expected %s" % (json.dumps(got["delay_arguments"])[:160], json.dumps(ref["delay_arguments"])[:160])))
    if ref.get("delay_duration_symbols") != got.get("delay_duration_symbols"):
        drift.append(("duration-structure", "%s vs %s" % (got.get("delay_duration_symbols"), ref.get("delay_duration_symbols"))))
    return bad, drift


def decode(proj):
    """content ids / options visible in an observation of the history-family model M.
    -> {"vars": {...}, "funs": {...}}: ids read from start attributes / from the residual values."""
    names = {}
    for cat in ("states", "alg_states"):
        for v, a in zip(proj["vars"][cat], proj["attrs"][cat]):
            names[v[0]] = a
    all_names = set(names)

    def start(n):
        a = names.get(n)
        if a is None:
            return None
        v = a[3][1][0]        # start attribute, first parameter vector
        return int(v[0]) if isinstance(v, list) and v and not isinstance(v[0], str) else None

    def ids_from(vals):
        d = {"M": 0, "L": 0, "T": 0, "U": 0}
        for v in vals:
            if isinstance(v, str) or v is None:
                continue
            v = int(round(abs(v)))
            if 100 < v < 200:
                d["M"] = v - 100
            elif 200 < v < 300:
                d["L"] = v - 200
            elif 300 <= v < 400:
                d["T"] = v - 300
            elif 400 <= v < 500:
                d["U"] = v - 400
        return d
    dv = ids_from([start("x"), start("b.w"), start("b.t.z"), start("b.u.q")])
    dv["simp"] = "y" not in all_names
    dv["ev"] = "v[1]" in all_names
    dv["eve"] = "a" if "_a1" not in all_names else ("b" if "_b1" not in all_names else "none")
    nom = names.get("x")
    try:
        dv["by"] = int(nom[5][1][0][0]) or 1 if nom else 1     # nominal attribute of x: 0 (default) = version 1
    except Exception:
        dv["by"] = 1
    # residual at the point with every input 0 except parameters = 1 cannot be asked of the observation;
    # use differences instead: the residual is affine in its inputs, constants show at any two points.
    fv = proj["funcs"]["dae_residual"]
    return {"vars": dv, "funs_sig": fv["sig"]}


def residual_ids(model):
    """content ids read from the residual *function* of a model (what pickled functions / shared libraries compute)."""
    import casadi as ca
    import numpy as np
    f = model.dae_residual_function
    args = [ca.DM.zeros(*f.size_in(i)) for i in range(f.n_in())]
    args[-1] = ca.DM.ones(*f.size_in(f.n_in() - 1))
    vals = [float(v) for v in np.array(f.call(args)[0]).ravel()]
    d = {"M": 0, "L": 0, "T": 0, "U": 0}
    for v in vals:
        v = int(round(abs(v)))
        if 100 < v < 200:
            d["M"] = v - 100
        elif 200 < v < 300:
            d["L"] = v - 200
        elif 300 <= v < 400:
            d["T"] = v - 300
        elif 400 <= v < 500:
            d["U"] = v - 400
    d["n_eq"] = len(vals)
    return d


# ---------------------------------------------------------------------------------------------
# process isolation
# ---------------------------------------------------------------------------------------------
def isolated(fn, *args, timeout=120):
    """Run fn(*args) in a forked child; -> ("ok", result) | ("signal", signo) | ("exit", code) | ("timeout", None).
    The child's result must be picklable.  Exceptions of fn are machinery errors and are re-raised here."""
    r, w = os.pipe()
    pid = os.fork()
    if pid == 0:
        code = 0
        try:
            os.close(r)
            try:
                res = ("ok", fn(*args))
            except BaseException as e:  # noqa
                res = ("raise", "".join(traceback.format_exception(type(e), e, e.__traceback__)))
            with os.fdopen(w, "wb") as fh:
                pickle.dump(res, fh)
        except BaseException:
            code = 3
        finally:
            os._exit(code)
    os.close(w)
    data = b""
    with os.fdopen(r, "rb") as fh:
        data = fh.read()
    _, status = os.waitpid(pid, 0)
    if os.WIFSIGNALED(status):
        return ("signal", os.WTERMSIG(status))
    if not data:
        return ("exit", os.WEXITSTATUS(status))
    kind, val = pickle.loads(data)
    if kind == "raise":
        from vf.core import MachineryError
        raise MachineryError("isolated child failed:\n" + val)
    return (kind, val)


def signame(n):
    try:
        return signal.Signals(n).name
    except ValueError:
        return "SIG%d" % n
