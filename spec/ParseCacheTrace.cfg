CONSTANTS GoodTexts = {"g1","g2","g3"} BadTexts = {"b1","b2"} Versions = {"v1","v2","v3"} MaxDay = 1000 ExpChoices = {0,1,2,30}
  MaxOps = 100000000 InitedSkipsChecks = FALSE CatchesOnlyUnpickling = FALSE FaultsIncludeRemoval = FALSE
  Strict = TRUE
INIT TInit
NEXT TNext
VIEW TView
ACTION_CONSTRAINT At
INVARIANT NoneNeverStored
POSTCONDITION Accepted
CHECK_DEADLOCK FALSE
