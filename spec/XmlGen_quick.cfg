\* intended switches, quick family: TLC must pass; PROG lines feed the replay
CONSTANTS DeclEqLhsIsReference = TRUE EmitsElseWhen = TRUE ExpressionAttributes = TRUE
          Family = "quick"
INIT Init
NEXT Next
VIEW View
ACTION_CONSTRAINT Log
INVARIANT TypeOK
INVARIANT NeverRaises
INVARIANT Mirrors
INVARIANT Counts
INVARIANT ReadBack
INVARIANT NoElementMoved
CHECK_DEADLOCK FALSE
