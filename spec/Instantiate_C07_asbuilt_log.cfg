\* C07 as-built, invariants off: prints what the as-built operational model predicts for every program (cross-checked against the code)
CONSTANTS Family = "hier" MaxDepth = 3 Wide = FALSE
 DottedAttrAsValue = TRUE InnerArgsLoseScope = TRUE ReRenameFlatRefs = TRUE AliasOfAliasDropsMods = TRUE InheritedTypeInDerivedScope = TRUE
INIT Init
NEXT Next
VIEW View
CHECK_DEADLOCK FALSE
PROPERTY PhaseOrder
INVARIANT DeclIgnoresSpelling
