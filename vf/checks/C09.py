"""C09 - Connections produce exactly the Modelica connection-set equations.

Spec: spec/Connect.tla  (oracle mode, binding C)
  TLC enumerates every sequence of connect clauses of the bounded families (one representative per
  renaming of the ports), runs the implementation-shaped incremental algorithm of
  tree.expand_connectors (ProcessConnect / EmitFlowSums / EmitDisconnectedZeros) and checks, for every
  program, that the emitted rows and the declarative connection-set rows (connected components,
  potentials equal, SUM inside - SUM outside = 0, unconnected flows = 0) have the same solution space
  (exact integer elimination and the structural argument).  It prints one PROG line per program with
  the expected coefficient rows.
Binding: every printed program is rendered as Modelica text (ports renamed by a seeded, class
  preserving permutation), flattened by the real tree.flatten, the coefficient rows are read from the
  flat equations and the two row spaces are compared by exact-fraction RREF.
"""
import json
import os
import random
from concurrent.futures import ThreadPoolExecutor
from fractions import Fraction

from vf import tlc
from vf.core import MachineryError, exc_record
from vf.par import pmap

META = {
    "ready": True,
    "category": "model_checking",
    "technique": "TLA+ reference semantics of connection sets (Connect.tla) model-checked by TLC against the implementation-shaped incremental dictionary-merging algorithm; every enumerated connect program replayed through tree.flatten and compared by exact row-space equality",
    "text": "TLC enumerates all sequences of <= 4 connect clauses over inside connectors of 2-3 components and 2 outside connectors of the top model (plus clauses written inside component classes, and connector classes with several potential / flow / input / output / parameter variables), proves for each that the operational model of expand_connectors (keyed dictionary merge, flow sums with inside/outside sign, zeros for never-connected flows) has the same solution space as the declarative connection sets (rank E = rank D = rank E u D by exact elimination, and the structural zero-sum / sign-multiple argument), and emits the expected coefficient rows; each program is flattened by the real code and the row space of its flat equations must equal the expected one (exact fractions).",
    "note": "Trusted: TLC, the renderer (ports/variables -> Modelica text), the linear-form reader of flat equations and the 20-line RREF. Bounds: <= 4 clauses, <= 10 connectors, <= 4 connector variables; one representative per port renaming in TLC, renamings re-randomised in the binding. Arrays of connectors, expandable / hierarchical connectors, stream variables and connectors of different classes are not covered. For component connectors that are connected only from inside their own class both the literal reading of the property (no extra equation, as-built) and the Modelica 3.4 section 9.2 reading (flow = 0) are accepted.",
    "design_ref": "DESIGN.md section 5, C09; appendix C.4",
}

OBSERVABLE = "connection-equations-solution-space"
# "len0" = the empty connection graph (connectors present, no connect clause at all) must be in every family
SHAPES = ["len0", "fresh", "extend-left-set", "extend-right-set", "merge", "redundant", "self-new", "self-old"]

# ----------------------------------------------------------------------------------------------
# rendering (trusted, no expected-value logic)

KIND = {"p": ("", "v"), "f": ("flow ", "f"), "i": ("input ", "u"), "o": ("output ", "y"), "c": ("parameter ", "k"),
        "s": ("", "")}       # "s": the connector itself is a scalar signal (connector Pin = Real)


def varname(layout, j):
    return KIND[layout[j - 1]][1] + str(j)


def flat_var(p, j, layout):
    """name of connector variable j of port p in the flat class"""
    if layout[j - 1] == "s":
        return flat_port(p)
    return flat_port(p) + "." + varname(layout, j)


def flat_port(p):
    i, n = p
    if i == 0:
        return n
    return "c%d.%s" % (i, n) if n in ("a", "b") else "c%d.r.%s" % (i, n)


def ref_in_scope(p, sc):
    i, n = p
    if sc == 0:
        return flat_port(p)
    if i != sc:
        raise MachineryError("port %r is not visible in scope %r" % (p, sc))
    return n if n in ("a", "b") else "r." + n


def render(s):
    layout, ncomp, withleaf = s["layout"], s["ncomp"], s["withleaf"]
    if list(layout) == ["s"]:
        out = ["connector Pin = Real;"]
    else:
        out = ["connector Pin"]
        for j in range(1, len(layout) + 1):
            out.append("  %sReal %s;" % (KIND[layout[j - 1]][0], varname(layout, j)))
        out.append("end Pin;")
    if withleaf:
        out += ["model Leaf", "  Pin x;", "  Pin y;", "end Leaf;"]
    for i in range(1, ncomp + 1):
        out += ["model Comp%d" % i, "  Pin a;", "  Pin b;"]
        if withleaf:
            out.append("  Leaf r;")
        cl = [c for c in s["clauses"] if c["sc"] == i]
        if cl:
            out.append("equation")
            out += ["  connect(%s, %s);" % (ref_in_scope(c["l"], i), ref_in_scope(c["r"], i)) for c in cl]
        out.append("end Comp%d;" % i)
    out.append("model M")
    out += ["  Comp%d c%d;" % (i, i) for i in range(1, ncomp + 1)]
    out += ["  Pin p;", "  Pin q;"]
    cl = [c for c in s["clauses"] if c["sc"] == 0]
    if cl:
        out.append("equation")
        out += ["  connect(%s, %s);" % (ref_in_scope(c["l"], 0), ref_in_scope(c["r"], 0)) for c in cl]
    out.append("end M;")
    return "\n".join(out) + "\n"


def all_ports(ncomp, withleaf):
    ps = []
    for i in range(1, ncomp + 1):
        ps += [[i, "a"], [i, "b"]] + ([[i, "x"], [i, "y"]] if withleaf else [])
    return ps + [[0, "p"], [0, "q"]]


def make_perm(s, hier_family, rng):
    """class preserving renaming of the ports (the classes of Connect.tla!Cls)"""
    classes = {}
    for p in all_ports(s["ncomp"], s["withleaf"]):
        i, n = p
        if i == 0:
            k = "top"
        elif n in ("x", "y"):
            k = "leaf%d" % i
        else:
            k = "comp%d" % (i if hier_family else 0)
        classes.setdefault(k, []).append(p)
    perm = {}
    for k, ps in classes.items():
        qs = ps[:]
        rng.shuffle(qs)
        for a, b in zip(ps, qs):
            perm[tuple(a)] = b
    return perm


def apply_perm(s, perm):
    def pp(p):
        return perm[tuple(p)]

    def rows(rs):
        return [[[pp(t[0]), t[1], t[2]] for t in r] for r in rs]
    out = dict(s)
    out["clauses"] = [{"sc": c["sc"], "l": pp(c["l"]), "r": pp(c["r"])} for c in s["clauses"]]
    out["rows"] = rows(s["rows"])
    out["alt"] = rows(s["alt"])
    out["emitted"] = rows(s["emitted"])
    return out


# ----------------------------------------------------------------------------------------------
# reading the flat equations (trusted: generic linear-form reader + RREF)

def _lin(e, ast):
    if isinstance(e, (ast.Symbol, ast.ComponentRef)):
        if getattr(e, "child", None):
            raise ValueError("unflattened reference %s" % e.name)
        idx = [i.value for ia in getattr(e, "indices", []) for i in ia if i is not None] if isinstance(e, ast.ComponentRef) else []
        if idx:
            raise ValueError("subscripted reference %s%s" % (e.name, idx))
        return {e.name: Fraction(1)}
    if isinstance(e, ast.Primary):
        if isinstance(e.value, bool) or not isinstance(e.value, (int, float)):
            raise ValueError("non-numeric primary %r" % (e.value,))
        return {"1": Fraction(e.value)} if e.value else {}
    if isinstance(e, ast.Expression):
        ops = [_lin(o, ast) for o in e.operands]
        if e.operator == "-" and len(ops) == 1:
            return {k: -v for k, v in ops[0].items()}
        if e.operator == "+" and len(ops) == 1:
            return ops[0]
        if e.operator in ("+", "-") and len(ops) == 2:
            sg = 1 if e.operator == "+" else -1
            r = dict(ops[0])
            for k, v in ops[1].items():
                r[k] = r.get(k, 0) + sg * v
            return r
        if e.operator == "*" and len(ops) == 2:
            for a, b in ((ops[0], ops[1]), (ops[1], ops[0])):
                if set(a) <= {"1"}:
                    f = a.get("1", Fraction(0))
                    return {k: f * v for k, v in b.items()}
        raise ValueError("non-linear operator %r/%d" % (e.operator, len(ops)))
    raise ValueError("unexpected node %s" % type(e).__name__)


def eq_row(eq, ast):
    if not isinstance(eq, ast.Equation):
        raise ValueError("not an equation: %s" % type(eq).__name__)
    l = _lin(eq.left, ast)
    for k, v in _lin(eq.right, ast).items():
        l[k] = l.get(k, 0) - v
    return {k: v for k, v in l.items() if v != 0}


def rref(rows, cols):
    """reduced row echelon form (exact); rows = list of dict col->Fraction; returns list of tuples"""
    idx = {c: n for n, c in enumerate(cols)}
    m = []
    for r in rows:
        v = [Fraction(0)] * len(cols)
        for k, x in r.items():
            v[idx[k]] += Fraction(x)
        m.append(v)
    piv = 0
    for c in range(len(cols)):
        k = next((i for i in range(piv, len(m)) if m[i][c] != 0), None)
        if k is None:
            continue
        m[piv], m[k] = m[k], m[piv]
        d = m[piv][c]
        m[piv] = [x / d for x in m[piv]]
        for i in range(len(m)):
            if i != piv and m[i][c] != 0:
                f = m[i][c]
                m[i] = [x - f * y for x, y in zip(m[i], m[piv])]
        piv += 1
    return [tuple(r) for r in m[:piv]]


def in_span(row, basis_rref, cols):
    return len(rref([dict(zip(cols, b)) for b in basis_rref] + [row], cols)) == len(basis_rref)


def terms_to_row(terms, layout):
    r = {}
    for p, j, c in terms:
        n = flat_var(p, j, layout)
        r[n] = r.get(n, 0) + Fraction(c)
    return {k: v for k, v in r.items() if v != 0}


def fmt_row(r):
    return " ".join("%+d*%s" % (v, k) if v.denominator == 1 else "%+s*%s" % (v, k) for k, v in sorted(r.items())) or "0"


# ----------------------------------------------------------------------------------------------
# one program through the real code

def observe(s):
    """-> {"rows": [dict], "symbols": [...]} or {"exc": record}"""
    from pymoca import parser, tree, ast
    text = render(s)
    t = parser.parse(text, bypass_cache=True)
    if t is None:
        raise MachineryError("renderer produced text that does not parse:\n" + text)
    try:
        flat = tree.flatten(t, ast.ComponentRef(name="M"))
        cls = flat.classes["M"]
        rows = []
        for e in cls.equations:
            try:
                rows.append(eq_row(e, ast))
            except ValueError as ex:
                return {"exc": {"exception_type": None, "detail": "flat equation is not a linear connection equation: %s" % ex,
                                "kind": "unreadable-equation"}}
        return {"rows": rows, "symbols": list(cls.symbols)}
    except MachineryError:
        raise
    except Exception as ex:  # the code under test raised
        return {"exc": dict(exc_record(ex), kind="exception")}


def casadi_rows(s):
    """secondary observation (auxiliary, drift only): rows of the integer Jacobian of the CasADi DAE residual"""
    import casadi as ca
    import numpy as np
    from pymoca import parser
    from pymoca.backends.casadi.generator import generate
    t = parser.parse(render(s), bypass_cache=True)
    m = generate(t, "M", {})
    f = m.dae_residual_function
    xs = [ca.MX.sym("x%d" % i, f.size1_in(i)) for i in range(f.n_in())]
    res = f(*xs)
    if res is None or f.n_out() == 0:      # a model without equations
        return []
    jac = ca.Function("J", xs, [ca.jacobian(res, ca.vertcat(*xs[1:]))])
    J = np.array(jac(*[np.zeros(f.size1_in(i)) for i in range(f.n_in())]))
    names = [v.symbol.name() for cat in (m.states, m.der_states, m.alg_states, m.inputs, m.constants, m.parameters) for v in cat]
    if J.shape[1] != len(names):
        raise ValueError("jacobian has %d columns for %d variables" % (J.shape[1], len(names)))
    rows = []
    for r in J:
        rows.append({names[k]: Fraction(float(x)).limit_denominator(1000) for k, x in enumerate(r) if x != 0})
    return rows


def kinds_of(rows, layout):
    ks = set()
    names = {}
    for j in range(1, len(layout) + 1):
        names[varname(layout, j)] = {"p": "potential", "i": "potential", "o": "potential", "f": "flow", "c": "parameter",
                                     "s": "potential"}[layout[j - 1]]
    for r in rows:
        for k in r:
            ks.add("potential" if list(layout) == ["s"] else names.get(k.rsplit(".", 1)[-1], "other"))
    return sorted(ks)


def compare(s, obs, corrupt=None):
    """returns (records, drifts).  `corrupt` is used by the binding self-test only."""
    layout = s["layout"]
    shape = sorted(t for t in s["tags"] if not t.startswith("len"))
    if "exc" in obs:
        e = obs["exc"]
        return [{"observable": e["kind"], "tags": shape, "exception_type": e.get("exception_type"), "detail": e["detail"]}], []
    got = [dict(r) for r in obs["rows"]]
    if corrupt:
        got = corrupt(got)
    exp = [terms_to_row(t, layout) for t in s["rows"]]
    alt = [terms_to_row(t, layout) for t in s.get("alt") or []]
    cols = sorted({k for r in got + exp + alt for k in r} | {flat_var(p, j, layout)
                                                            for p in all_ports(s["ncomp"], s["withleaf"])
                                                            for j in range(1, len(layout) + 1)})
    R_got, R_exp = rref(got, cols), rref(exp, cols)
    drifts = []
    if R_got == R_exp:
        if alt:
            drifts.append("as-built: no zero-flow equation for a component connector connected only as outside connector (Modelica 3.4 sec. 9.2 asks for one)")
    elif alt and R_got == rref(alt, cols):
        drifts.append("code follows the Modelica 3.4 sec. 9.2 reading for component connectors")
    else:
        missing = [r for r in exp if not in_span(r, R_got, cols)]
        extra = [r for r in got if not in_span(r, R_exp, cols)]
        cls_ = (["under-constrained"] if missing else []) + (["over-constrained"] if extra else [])
        kinds = kinds_of(missing + extra, layout)
        detail = "rank got %d expected %d; expected rows not implied by the flat equations: [%s]; flat equations not implied by the connection sets: [%s]; clauses %s layout %s" % (
            len(R_got), len(R_exp), "; ".join(fmt_row(r) for r in missing[:4]), "; ".join(fmt_row(r) for r in extra[:4]),
            [(c["sc"], flat_port(c["l"]), flat_port(c["r"])) for c in s["clauses"]], "".join(layout))
        return [{"observable": OBSERVABLE, "tags": shape + cls_ + kinds, "exception_type": None, "detail": detail}], drifts
    # auxiliary: exact emitted list as the spec's operational model predicts it (order only under the identity renaming)
    em = [terms_to_row(t, layout) for t in s["emitted"]]
    key = lambda r: sorted((k, str(v)) for k, v in r.items())  # noqa: E731
    if s.get("identity"):
        if [key(r) for r in em] != [key(r) for r in got]:
            drifts.append("emitted equation list differs from the operational model (same solution space)")
    elif sorted(key(r) for r in em) != sorted(key(r) for r in got):
        drifts.append("emitted equation multiset differs from the operational model (same solution space)")
    want_syms = {flat_var(p, j, layout) for p in all_ports(s["ncomp"], s["withleaf"]) for j in range(1, len(layout) + 1)}
    if set(obs["symbols"]) != want_syms:
        drifts.append("flat symbol set differs from the connector variables")
    return [], drifts


def _one(s):
    obs = observe(s)
    recs, drifts = compare(s, obs)
    if s.get("jacobian") and not recs and "rows" in obs:
        # cross-check of the reader: the CasADi residual of the same model must have the same row space
        try:
            jr = casadi_rows(s)
            cols = sorted({k for r in jr + obs["rows"] for k in r})
            if rref(jr, cols) != rref(obs["rows"], cols):
                drifts.append("casadi residual jacobian has a different row space than the flat equations")
        except MachineryError:
            raise
        except Exception as ex:
            drifts.append("casadi cross-check not possible: %s" % type(ex).__name__)
    return {"recs": recs, "drifts": drifts, "nrows": len(obs.get("rows", []))}


# ----------------------------------------------------------------------------------------------

def scenario_of(pl, hier_family, withleaf, rng, identity):
    s = {"layout": pl["prog"]["layout"], "ncomp": pl["prog"]["ncomp"], "withleaf": withleaf,
         "clauses": pl["prog"]["clauses"], "rows": pl["expect"]["rows"], "alt": pl["expect"]["alt"],
         "emitted": pl["expect"]["emitted"], "tags": sorted(pl["tags"]), "identity": identity}
    if not identity:
        s = apply_perm(s, make_perm(s, hier_family, rng))
    return s


def configs(tier, seed):
    """cfg, family flags, fulllen = FullLen of the cfg, parts = (Part, NParts) shares that are run, need = tags that must occur"""
    if tier != "thorough":
        return [
            dict(cfg="Connect_quick.cfg", what="one-level family: <=3 clauses all, 4 clauses 1/32", hier=False, leaf=False,
                 fulllen=4, parts=[(seed % 32, 32)], need=SHAPES),
            dict(cfg="Connect_hier.cfg", what="two-level family: <=2 clauses all, 3 clauses 1/16", hier=True, leaf=True,
                 fulllen=3, parts=[(seed % 16, 16)], need=SHAPES + ["hier", "strict-gap"]),
            dict(cfg="Connect_layouts.cfg", what="connector layouts: <=1 clause all, 2 clauses 1/8", hier=True, leaf=True,
                 fulllen=2, parts=[(seed % 8, 8)], need=["len0", "fresh", "hier"]),
        ]
    return [
        dict(cfg="Connect_quick.cfg", what="one-level family: ALL programs of <= 4 clauses", hier=False, leaf=False,
             fulllen=4, parts=[(k, 4) for k in range(4)], need=SHAPES),
        dict(cfg="Connect_hier_thorough.cfg", what="two-level family: <=2 clauses all, 3 clauses 1/2, 4 clauses 1/16", hier=True, leaf=True,
             fulllen=3, parts=[((seed + k) % 8, 8) for k in range(4)], need=SHAPES + ["hier", "strict-gap"]),
        dict(cfg="Connect_layouts_thorough.cfg", what="connector layouts: <=1 clause all, 2 clauses 1/2, 3 clauses 1/8", hier=True, leaf=True,
             fulllen=2, parts=[((seed + k) % 4, 4) for k in range(2)], need=SHAPES + ["hier"]),
        dict(cfg="Connect_three.cfg", what="three components: <=2 clauses all, 3 clauses 1/2, 4 clauses 1/16", hier=False, leaf=False,
             fulllen=3, parts=[((seed + k) % 8, 8) for k in range(4)], need=SHAPES),
    ]


def run(ctx):
    procs = min(16, int(os.environ.get("VERIF_PROCS", "16")))
    jobs = []
    for c in configs(ctx.tier, ctx.seed):
        for part, nparts in c["parts"]:
            jobs.append((c, part, nparts))

    def tl(job):
        c, part, nparts = job
        return tlc.run("Connect", c["cfg"], workers=1, env={"C09_PART": part, "C09_NPARTS": nparts}, timeout=3000)
    with ThreadPoolExecutor(max_workers=max(1, min(len(jobs), procs, 8))) as ex:
        results = list(ex.map(tl, jobs))
    # the stricter Modelica 3.4 sec. 9.2 reading: the switch must bite, and its characterisation must hold
    r92 = tlc.run("Connect", "Connect_strict92.cfg", workers=1)
    ctx.add_tlc(r92, "as-built vs sec. 9.2 reading: expected counterexample")
    if "SameSolutionsGeneric" not in r92.violated:
        raise MachineryError("Connect_strict92.cfg was expected to violate SameSolutionsGeneric")

    tag_cov, per_cfg = {}, {}
    selftest_pool = []
    for (c, part, nparts), res in zip(jobs, results):
        ctx.add_tlc(res, "%s [part %d/%d]" % (c["what"], part, nparts))
        if res.violated:
            raise MachineryError("spec Connect violates %s in %s:\n%s" % (res.violated, c["cfg"], res.cex[:3000]))
        progs = res.tr("PROG")
        if not progs:
            raise MachineryError("no PROG lines from %s" % c["cfg"])
        res.out, res.tagged = "", {}           # hundreds of MB in the thorough tier
        if (part, nparts) != c["parts"][0]:    # the short programs are the same in every share
            progs = [pl for pl in progs if len(pl["prog"]["clauses"]) >= c["fulllen"]]
        rng = random.Random(ctx.seed * 7919 + part)
        scen = [scenario_of(pl, c["hier"], c["leaf"], rng, identity=(n % 3 == 0)) for n, pl in enumerate(progs)]
        for n, s_ in enumerate(scen):      # CasADi cross-check on a share of the programs
            s_["jacobian"] = (n % 10 == 1)
        outs = pmap(_one, scen, procs)
        seen = set()
        for s, o in zip(scen, outs):
            ctx.programs += 1
            for t in s["tags"]:
                tag_cov[t] = tag_cov.get(t, 0) + 1
                seen.add(t)
            for d in o["drifts"]:
                ctx.note_drift(d)
            for rec in o["recs"]:
                ctx.violation(rec, s)
            if not o["recs"] and len(s["clauses"]) >= 3 and len(selftest_pool) < 6 and "f" in s["layout"] and "merge" in s["tags"]:
                selftest_pool.append(s)
            if len(s["clauses"]) == 3 and "merge" in s["tags"]:
                ctx.sample({"modelica": render(s), "expected_rows": [fmt_row(terms_to_row(t, s["layout"])) for t in s["rows"]],
                            "flat_equation_count": o["nrows"], "tags": s["tags"]}, limit=4)
        missing = [t for t in c["need"] if t not in seen] if (part, nparts) == c["parts"][0] else []
        if missing:
            raise MachineryError("vacuous: program classes %s never produced by %s" % (missing, c["cfg"]))
        per_cfg["%s[%d/%d]" % (c["cfg"], part, nparts)] = len(progs)
    ctx.traces += ctx.programs

    # binding self-test: a corrupted observation must be rejected
    if not selftest_pool:
        raise MachineryError("no program available for the binding self-test")
    for s in selftest_pool:
        obs = observe(s)

        def flip(rows):
            for r in rows:
                if len(r) >= 2 and any(k.rsplit(".", 1)[-1].startswith("f") for k in r):
                    k = sorted(r)[0]
                    r[k] = -r[k]
                    return rows
            raise MachineryError("self-test: no flow sum row to corrupt")

        def drop_zero(rows):
            for n, r in enumerate(rows):
                if len(r) == 1:
                    return rows[:n] + rows[n + 1:]
            for n, r in enumerate(rows):
                if any(k.rsplit(".", 1)[-1].startswith("v") for k in r):
                    return rows[:n] + rows[n + 1:]
            raise MachineryError("self-test: nothing to drop")
        for name, fn in (("flip-sign", flip), ("drop-equation", drop_zero)):
            recs, _ = compare(s, obs, corrupt=fn)
            if not recs:
                # dropping a redundant potential equation legitimately keeps the space; only flip must always be seen
                if name == "flip-sign":
                    raise MachineryError("binding self-test: corrupted observation (%s) was accepted" % name)
    ctx.extra["per_tag_programs"] = tag_cov
    ctx.extra["programs_per_config"] = per_cfg
    ctx.assumptions += [
        "all connectors of a program have the same connector class",
        "one representative per class-preserving port renaming is enumerated by TLC; the binding re-randomises the renaming",
        "for component connectors connected only as outside connectors both readings (no equation / flow = 0) are accepted",
    ]
    full = ctx.tier == "thorough"
    return {"exhaustive": False, "explanation": ("all programs of the one-level family with <= 4 clauses; " if full else
                                                 "all programs with <= 3 clauses of the one-level family, a seeded share of the longest; ")
            + "seeded shares of the two-level and layout families (see programs_per_config)"}


def replay(ctx, sc):
    return _one(sc)["recs"]
