\* mutation: duration dependency indices off by one - RoundTrip must FAIL
CONSTANTS XKinds = {"lit"}
          YKinds = {"none"}
          Aliases = {"none"}
          Delays = {"par","par_par2"}
          Opts = {"base"}
          FKinds = {"none"}
          Typed = {FALSE}
          Strs = {FALSE}
          Outs = {TRUE}
          SwapDepClasses = FALSE
          ForgetOutputs = FALSE
          DurDepsOffByOne = TRUE
          ConstMXNotMX = FALSE
          TruthyOptions = FALSE
INIT Init
NEXT Next
INVARIANT RoundTrip
INVARIANT NoMXPickled
INVARIANT SwitchedIsFresh
CHECK_DEADLOCK FALSE
