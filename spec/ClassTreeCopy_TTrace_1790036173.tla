---- MODULE ClassTreeCopy_TTrace_1790036173 ----
EXTENDS Sequences, TLCExt, Toolbox, Naturals, TLC, ClassTreeCopy

_expression ==
    LET ClassTreeCopy_TEExpression == INSTANCE ClassTreeCopy_TEExpression
    IN ClassTreeCopy_TEExpression!expression
----

_trace ==
    LET ClassTreeCopy_TETrace == INSTANCE ClassTreeCopy_TETrace
    IN ClassTreeCopy_TETrace!trace
----

_inv ==
    ~(
        TLCGet("level") = Len(_TETrace)
        /\
        val = (<<[Leaf |-> [syms |-> {"x", "u"}, eqs |-> {"Leaf0"}, here |-> TRUE], Mid |-> [syms |-> {"y"}, eqs |-> {"Mid0"}, here |-> TRUE], Top |-> [syms |-> {"z"}, eqs |-> {"Top0"}, here |-> TRUE]], [Leaf |-> [syms |-> {"x"}, eqs |-> {"Leaf0"}, here |-> TRUE], Mid |-> [syms |-> {"y"}, eqs |-> {"Mid0"}, here |-> TRUE], Top |-> [syms |-> {"z"}, eqs |-> {"Top0"}, here |-> TRUE]]>>)
        /\
        hist = (<<[i |-> 1, act |-> "deepcopy", raises |-> FALSE], [c |-> "Leaf", s |-> "u", i |-> 1, act |-> "add_symbol", raises |-> FALSE]>>)
        /\
        ops = (2)
        /\
        last = ([c |-> "Leaf", s |-> "u", i |-> 1, act |-> "add_symbol", expect |-> <<[Leaf |-> [ok |-> TRUE, err |-> "", syms |-> {"x", "u"}, eqs |-> {"Leaf0"}], Mid |-> [ok |-> TRUE, err |-> "", syms |-> {"y", "l.x", "l.u"}, eqs |-> {"Leaf0", "Mid0"}], Top |-> [ok |-> TRUE, err |-> "", syms |-> {"y", "z", "l.x", "l.u"}, eqs |-> {"Leaf0", "Mid0", "Top0"}]], [Leaf |-> [ok |-> TRUE, err |-> "", syms |-> {"x"}, eqs |-> {"Leaf0"}], Mid |-> [ok |-> TRUE, err |-> "", syms |-> {"y", "l.x"}, eqs |-> {"Leaf0", "Mid0"}], Top |-> [ok |-> TRUE, err |-> "", syms |-> {"y", "z", "l.x"}, eqs |-> {"Leaf0", "Mid0", "Top0"}]]>>, asbuilt |-> <<[Leaf |-> [ok |-> TRUE, err |-> "", syms |-> {"x", "u"}, eqs |-> {"Leaf0"}], Mid |-> [ok |-> TRUE, err |-> "", syms |-> {"y", "l.x", "l.u"}, eqs |-> {"Leaf0", "Mid0"}], Top |-> [ok |-> TRUE, err |-> "", syms |-> {"y", "z", "l.x", "l.u"}, eqs |-> {"Leaf0", "Mid0", "Top0"}]], [Leaf |-> [ok |-> TRUE, err |-> "", syms |-> {"x"}, eqs |-> {"Leaf0"}], Mid |-> [ok |-> TRUE, err |-> "", syms |-> {"y", "l.x", "l.u"}, eqs |-> {"Leaf0", "Mid0"}], Top |-> [ok |-> TRUE, err |-> "", syms |-> {"y", "z", "l.x", "l.u"}, eqs |-> {"Leaf0", "Mid0", "Top0"}]]>>, parents |-> <<[Leaf |-> "own", Mid |-> "own", Top |-> "own"], [Leaf |-> "foreign", Mid |-> "foreign", Top |-> "foreign"]>>, raises |-> FALSE])
        /\
        obj = (<<[syms |-> {}, eqs |-> {}, kids |-> [Leaf |-> 2, Mid |-> 3, Top |-> 4], src |-> 1, kind |-> "tree", name |-> "", parent |-> 0], [syms |-> {"x", "u"}, eqs |-> {"Leaf0"}, kids |-> <<>>, src |-> 2, kind |-> "class", name |-> "Leaf", parent |-> 1], [syms |-> {"y"}, eqs |-> {"Mid0"}, kids |-> <<>>, src |-> 3, kind |-> "class", name |-> "Mid", parent |-> 1], [syms |-> {"z"}, eqs |-> {"Top0"}, kids |-> <<>>, src |-> 4, kind |-> "class", name |-> "Top", parent |-> 1], [syms |-> {}, eqs |-> {}, kids |-> [Leaf |-> 6, Mid |-> 7, Top |-> 8], src |-> 1, kind |-> "tree", name |-> "", parent |-> 0], [syms |-> {"x"}, eqs |-> {"Leaf0"}, kids |-> <<>>, src |-> 2, kind |-> "class", name |-> "Leaf", parent |-> 1], [syms |-> {"y"}, eqs |-> {"Mid0"}, kids |-> <<>>, src |-> 3, kind |-> "class", name |-> "Mid", parent |-> 1], [syms |-> {"z"}, eqs |-> {"Top0"}, kids |-> <<>>, src |-> 4, kind |-> "class", name |-> "Top", parent |-> 1]>>)
        /\
        roots = (<<1, 5>>)
    )
----

_init ==
    /\ val = _TETrace[1].val
    /\ roots = _TETrace[1].roots
    /\ hist = _TETrace[1].hist
    /\ last = _TETrace[1].last
    /\ obj = _TETrace[1].obj
    /\ ops = _TETrace[1].ops
----

_next ==
    /\ \E i,j \in DOMAIN _TETrace:
        /\ \/ /\ j = i + 1
              /\ i = TLCGet("level")
        /\ val  = _TETrace[i].val
        /\ val' = _TETrace[j].val
        /\ roots  = _TETrace[i].roots
        /\ roots' = _TETrace[j].roots
        /\ hist  = _TETrace[i].hist
        /\ hist' = _TETrace[j].hist
        /\ last  = _TETrace[i].last
        /\ last' = _TETrace[j].last
        /\ obj  = _TETrace[i].obj
        /\ obj' = _TETrace[j].obj
        /\ ops  = _TETrace[i].ops
        /\ ops' = _TETrace[j].ops

\* Uncomment the ASSUME below to write the states of the error trace
\* to the given file in Json format. Note that you can pass any tuple
\* to `JsonSerialize`. For example, a sub-sequence of _TETrace.
    \* ASSUME
    \*     LET J == INSTANCE Json
    \*         IN J!JsonSerialize("ClassTreeCopy_TTrace_1790036173.json", _TETrace)

=============================================================================

 Note that you can extract this module `ClassTreeCopy_TEExpression`
  to a dedicated file to reuse `expression` (the module in the 
  dedicated `ClassTreeCopy_TEExpression.tla` file takes precedence 
  over the module `ClassTreeCopy_TEExpression` below).

---- MODULE ClassTreeCopy_TEExpression ----
EXTENDS Sequences, TLCExt, Toolbox, Naturals, TLC, ClassTreeCopy

expression == 
    [
        \* To hide variables of the `ClassTreeCopy` spec from the error trace,
        \* remove the variables below.  The trace will be written in the order
        \* of the fields of this record.
        val |-> val
        ,roots |-> roots
        ,hist |-> hist
        ,last |-> last
        ,obj |-> obj
        ,ops |-> ops
        
        \* Put additional constant-, state-, and action-level expressions here:
        \* ,_stateNumber |-> _TEPosition
        \* ,_valUnchanged |-> val = val'
        
        \* Format the `val` variable as Json value.
        \* ,_valJson |->
        \*     LET J == INSTANCE Json
        \*     IN J!ToJson(val)
        
        \* Lastly, you may build expressions over arbitrary sets of states by
        \* leveraging the _TETrace operator.  For example, this is how to
        \* count the number of times a spec variable changed up to the current
        \* state in the trace.
        \* ,_valModCount |->
        \*     LET F[s \in DOMAIN _TETrace] ==
        \*         IF s = 1 THEN 0
        \*         ELSE IF _TETrace[s].val # _TETrace[s-1].val
        \*             THEN 1 + F[s-1] ELSE F[s-1]
        \*     IN F[_TEPosition - 1]
    ]

=============================================================================



Parsing and semantic processing can take forever if the trace below is long.
 In this case, it is advised to uncomment the module below to deserialize the
 trace from a generated binary file.

\*
\*---- MODULE ClassTreeCopy_TETrace ----
\*EXTENDS IOUtils, TLC, ClassTreeCopy
\*
\*trace == IODeserialize("ClassTreeCopy_TTrace_1790036173.bin", TRUE)
\*
\*=============================================================================
\*

---- MODULE ClassTreeCopy_TETrace ----
EXTENDS TLC, ClassTreeCopy

trace == 
    <<
    ([val |-> <<[Leaf |-> [syms |-> {"x"}, eqs |-> {"Leaf0"}, here |-> TRUE], Mid |-> [syms |-> {"y"}, eqs |-> {"Mid0"}, here |-> TRUE], Top |-> [syms |-> {"z"}, eqs |-> {"Top0"}, here |-> TRUE]]>>,hist |-> <<>>,ops |-> 0,last |-> [act |-> "init"],obj |-> <<[syms |-> {}, eqs |-> {}, kids |-> [Leaf |-> 2, Mid |-> 3, Top |-> 4], src |-> 1, kind |-> "tree", name |-> "", parent |-> 0], [syms |-> {"x"}, eqs |-> {"Leaf0"}, kids |-> <<>>, src |-> 2, kind |-> "class", name |-> "Leaf", parent |-> 1], [syms |-> {"y"}, eqs |-> {"Mid0"}, kids |-> <<>>, src |-> 3, kind |-> "class", name |-> "Mid", parent |-> 1], [syms |-> {"z"}, eqs |-> {"Top0"}, kids |-> <<>>, src |-> 4, kind |-> "class", name |-> "Top", parent |-> 1]>>,roots |-> <<1>>]),
    ([val |-> <<[Leaf |-> [syms |-> {"x"}, eqs |-> {"Leaf0"}, here |-> TRUE], Mid |-> [syms |-> {"y"}, eqs |-> {"Mid0"}, here |-> TRUE], Top |-> [syms |-> {"z"}, eqs |-> {"Top0"}, here |-> TRUE]], [Leaf |-> [syms |-> {"x"}, eqs |-> {"Leaf0"}, here |-> TRUE], Mid |-> [syms |-> {"y"}, eqs |-> {"Mid0"}, here |-> TRUE], Top |-> [syms |-> {"z"}, eqs |-> {"Top0"}, here |-> TRUE]]>>,hist |-> <<[i |-> 1, act |-> "deepcopy", raises |-> FALSE]>>,ops |-> 1,last |-> [i |-> 1, act |-> "deepcopy", expect |-> <<[Leaf |-> [ok |-> TRUE, err |-> "", syms |-> {"x"}, eqs |-> {"Leaf0"}], Mid |-> [ok |-> TRUE, err |-> "", syms |-> {"y", "l.x"}, eqs |-> {"Leaf0", "Mid0"}], Top |-> [ok |-> TRUE, err |-> "", syms |-> {"y", "z", "l.x"}, eqs |-> {"Leaf0", "Mid0", "Top0"}]], [Leaf |-> [ok |-> TRUE, err |-> "", syms |-> {"x"}, eqs |-> {"Leaf0"}], Mid |-> [ok |-> TRUE, err |-> "", syms |-> {"y", "l.x"}, eqs |-> {"Leaf0", "Mid0"}], Top |-> [ok |-> TRUE, err |-> "", syms |-> {"y", "z", "l.x"}, eqs |-> {"Leaf0", "Mid0", "Top0"}]]>>, asbuilt |-> <<[Leaf |-> [ok |-> TRUE, err |-> "", syms |-> {"x"}, eqs |-> {"Leaf0"}], Mid |-> [ok |-> TRUE, err |-> "", syms |-> {"y", "l.x"}, eqs |-> {"Leaf0", "Mid0"}], Top |-> [ok |-> TRUE, err |-> "", syms |-> {"y", "z", "l.x"}, eqs |-> {"Leaf0", "Mid0", "Top0"}]], [Leaf |-> [ok |-> TRUE, err |-> "", syms |-> {"x"}, eqs |-> {"Leaf0"}], Mid |-> [ok |-> TRUE, err |-> "", syms |-> {"y", "l.x"}, eqs |-> {"Leaf0", "Mid0"}], Top |-> [ok |-> TRUE, err |-> "", syms |-> {"y", "z", "l.x"}, eqs |-> {"Leaf0", "Mid0", "Top0"}]]>>, parents |-> <<[Leaf |-> "own", Mid |-> "own", Top |-> "own"], [Leaf |-> "foreign", Mid |-> "foreign", Top |-> "foreign"]>>, raises |-> FALSE],obj |-> <<[syms |-> {}, eqs |-> {}, kids |-> [Leaf |-> 2, Mid |-> 3, Top |-> 4], src |-> 1, kind |-> "tree", name |-> "", parent |-> 0], [syms |-> {"x"}, eqs |-> {"Leaf0"}, kids |-> <<>>, src |-> 2, kind |-> "class", name |-> "Leaf", parent |-> 1], [syms |-> {"y"}, eqs |-> {"Mid0"}, kids |-> <<>>, src |-> 3, kind |-> "class", name |-> "Mid", parent |-> 1], [syms |-> {"z"}, eqs |-> {"Top0"}, kids |-> <<>>, src |-> 4, kind |-> "class", name |-> "Top", parent |-> 1], [syms |-> {}, eqs |-> {}, kids |-> [Leaf |-> 6, Mid |-> 7, Top |-> 8], src |-> 1, kind |-> "tree", name |-> "", parent |-> 0], [syms |-> {"x"}, eqs |-> {"Leaf0"}, kids |-> <<>>, src |-> 2, kind |-> "class", name |-> "Leaf", parent |-> 1], [syms |-> {"y"}, eqs |-> {"Mid0"}, kids |-> <<>>, src |-> 3, kind |-> "class", name |-> "Mid", parent |-> 1], [syms |-> {"z"}, eqs |-> {"Top0"}, kids |-> <<>>, src |-> 4, kind |-> "class", name |-> "Top", parent |-> 1]>>,roots |-> <<1, 5>>]),
    ([val |-> <<[Leaf |-> [syms |-> {"x", "u"}, eqs |-> {"Leaf0"}, here |-> TRUE], Mid |-> [syms |-> {"y"}, eqs |-> {"Mid0"}, here |-> TRUE], Top |-> [syms |-> {"z"}, eqs |-> {"Top0"}, here |-> TRUE]], [Leaf |-> [syms |-> {"x"}, eqs |-> {"Leaf0"}, here |-> TRUE], Mid |-> [syms |-> {"y"}, eqs |-> {"Mid0"}, here |-> TRUE], Top |-> [syms |-> {"z"}, eqs |-> {"Top0"}, here |-> TRUE]]>>,hist |-> <<[i |-> 1, act |-> "deepcopy", raises |-> FALSE], [c |-> "Leaf", s |-> "u", i |-> 1, act |-> "add_symbol", raises |-> FALSE]>>,ops |-> 2,last |-> [c |-> "Leaf", s |-> "u", i |-> 1, act |-> "add_symbol", expect |-> <<[Leaf |-> [ok |-> TRUE, err |-> "", syms |-> {"x", "u"}, eqs |-> {"Leaf0"}], Mid |-> [ok |-> TRUE, err |-> "", syms |-> {"y", "l.x", "l.u"}, eqs |-> {"Leaf0", "Mid0"}], Top |-> [ok |-> TRUE, err |-> "", syms |-> {"y", "z", "l.x", "l.u"}, eqs |-> {"Leaf0", "Mid0", "Top0"}]], [Leaf |-> [ok |-> TRUE, err |-> "", syms |-> {"x"}, eqs |-> {"Leaf0"}], Mid |-> [ok |-> TRUE, err |-> "", syms |-> {"y", "l.x"}, eqs |-> {"Leaf0", "Mid0"}], Top |-> [ok |-> TRUE, err |-> "", syms |-> {"y", "z", "l.x"}, eqs |-> {"Leaf0", "Mid0", "Top0"}]]>>, asbuilt |-> <<[Leaf |-> [ok |-> TRUE, err |-> "", syms |-> {"x", "u"}, eqs |-> {"Leaf0"}], Mid |-> [ok |-> TRUE, err |-> "", syms |-> {"y", "l.x", "l.u"}, eqs |-> {"Leaf0", "Mid0"}], Top |-> [ok |-> TRUE, err |-> "", syms |-> {"y", "z", "l.x", "l.u"}, eqs |-> {"Leaf0", "Mid0", "Top0"}]], [Leaf |-> [ok |-> TRUE, err |-> "", syms |-> {"x"}, eqs |-> {"Leaf0"}], Mid |-> [ok |-> TRUE, err |-> "", syms |-> {"y", "l.x", "l.u"}, eqs |-> {"Leaf0", "Mid0"}], Top |-> [ok |-> TRUE, err |-> "", syms |-> {"y", "z", "l.x", "l.u"}, eqs |-> {"Leaf0", "Mid0", "Top0"}]]>>, parents |-> <<[Leaf |-> "own", Mid |-> "own", Top |-> "own"], [Leaf |-> "foreign", Mid |-> "foreign", Top |-> "foreign"]>>, raises |-> FALSE],obj |-> <<[syms |-> {}, eqs |-> {}, kids |-> [Leaf |-> 2, Mid |-> 3, Top |-> 4], src |-> 1, kind |-> "tree", name |-> "", parent |-> 0], [syms |-> {"x", "u"}, eqs |-> {"Leaf0"}, kids |-> <<>>, src |-> 2, kind |-> "class", name |-> "Leaf", parent |-> 1], [syms |-> {"y"}, eqs |-> {"Mid0"}, kids |-> <<>>, src |-> 3, kind |-> "class", name |-> "Mid", parent |-> 1], [syms |-> {"z"}, eqs |-> {"Top0"}, kids |-> <<>>, src |-> 4, kind |-> "class", name |-> "Top", parent |-> 1], [syms |-> {}, eqs |-> {}, kids |-> [Leaf |-> 6, Mid |-> 7, Top |-> 8], src |-> 1, kind |-> "tree", name |-> "", parent |-> 0], [syms |-> {"x"}, eqs |-> {"Leaf0"}, kids |-> <<>>, src |-> 2, kind |-> "class", name |-> "Leaf", parent |-> 1], [syms |-> {"y"}, eqs |-> {"Mid0"}, kids |-> <<>>, src |-> 3, kind |-> "class", name |-> "Mid", parent |-> 1], [syms |-> {"z"}, eqs |-> {"Top0"}, kids |-> <<>>, src |-> 4, kind |-> "class", name |-> "Top", parent |-> 1]>>,roots |-> <<1, 5>>])
    >>
----


=============================================================================

---- CONFIG ClassTreeCopy_TTrace_1790036173 ----
CONSTANTS
    DeepCopyRebindsParents = FALSE
    CopyHookBoundToCopy = FALSE
    FlattenCopiesTop = FALSE
    MaxTrees = 3
    MaxOps = 4

INVARIANT
    _inv

CHECK_DEADLOCK
    \* CHECK_DEADLOCK off because of PROPERTY or INVARIANT above.
    FALSE

INIT
    _init

NEXT
    _next

CONSTANT
    _TETrace <- _trace

ALIAS
    _expression
=============================================================================
\* Generated on Tue Sep 22 00:16:27 UTC 2026