\* intended merge (a package's own definition replaces a within-placeholder): all shapes, all splits, all file orders; TR-log
CONSTANTS MergeIntoPlaceholder = TRUE Shapes = {1,2,3,4,5,6}
INIT Init
NEXT Next
VIEW View
ACTION_CONSTRAINT Log
INVARIANT TypeOK
INVARIANT PrefixConfluence
INVARIANT Confluence
INVARIANT FlatConfluence
CHECK_DEADLOCK FALSE
