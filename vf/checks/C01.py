"""C01 - Parse cache is transparent over any cache history.

Spec: spec/ParseCache.tla (+ ParseCacheTrace.tla)
Binding A: the complete TLC state graph of the intended config is replayed into the real
  parser.parse() on scratch cache folders (transition tour + random walks + directed shortest
  histories into every 'raise' edge of the as-built graph).  Per step the observables the
  property names are compared (returned tree == uncached parse; None iff syntax error; no
  exception; no row for a failed parse); the projected db state is compared with the spec
  state as model drift.
Binding B: free-running random histories (more texts, versions, days than the TLC bound) are
  recorded from the real code and validated by ParseCacheTrace.tla.
"""
import importlib
import json
import os
import pickle
import random
import shutil
import sqlite3
import tempfile
import time as _realtime
from pathlib import Path

from vf import tlc, graph, par
from vf.core import MachineryError, exc_record, REPO
from vf.astdump import dump, first_diff

META = {
    "ready": True,
    "category": "model_checking",
    "technique": "TLA+ spec ParseCache.tla model-checked by TLC (intended + as-built configs); every transition of its state graph replayed into the real parse() with fault injection on the sqlite file; recorded histories validated by ParseCacheTrace.tla",
    "text": "TLC checks ResultIsFresh/NeverRaises/NoneNeverStored on the spec for all histories of parse/reload/version change/clock advance/entry, layout and file corruption within the bound, and its complete transition graph is replayed against parser.parse() on real sqlite files with a controlled clock: each returned tree is compared structurally with an uncached parse, None iff syntax error, no exception, no row stored for a failed parse. Random walks go beyond the exhaustive bound; recorded free-running histories are validated against the spec.",
    "note": "Trusted: TLC, sqlite3, the adapter's fault injectors (second sqlite connection / raw file writes) and the structural tree dump. Clock at day granularity with strictly increasing microseconds. Deleting the cache file and Windows/NFS behaviour are not covered. Blobs that unpickle to a different valid tree are outside 'no longer unpickles'.",
    "design_ref": "DESIGN.md section 3, C01",
}

BASE = 1_700_000_000
VERS = {"v1": "1.0.0", "v2": "2.0.0", "v3": "3.1.4", "dirty": "1.0.0+3.gabcdef0.dirty"}
DBNAME = "model_txt_cache.db"

SMALL = [
    "model M\n  Real x(start=1);\n  parameter Real k = 2;\nequation\n  der(x) = -k*x;\nend M;\n",
    "package P\n  constant Real c = 3.5;\n  model A\n    Real y;\n  equation\n    y = c + 1;\n  end A;\nend P;\n",
    "model Q\n  Real a, b;\n  input Real u;\n  output Real z;\nequation\n  a = 2*u;\n  b = a - 1;\n  z = if a > b then a else b;\nend Q;\n",
    "model R\n  Real v[3];\nequation\n  for i in 1:3 loop\n    v[i] = i * 2;\n  end for;\nend R;\n",
]


NEAR_DUP_KINDS = ["digit", "linebreak", "case", "string-ws", "tail", "head"]


def _near_dups(text, rng, kind):
    """three good texts that differ minimally in the way `kind` says (but parse to different trees):
    a cache key that normalises line breaks / case / white space, or looks only at a prefix or suffix
    of the text, confuses them"""
    import re
    i = text.index(";") + 1          # after the first declaration / statement of the first class
    if kind == "linebreak":
        ins = ["\n  // note\n  Real extra__;", "\n  // note\r  Real extra__;", "\n  // note\r\n  Real extra__; Real extra2__;"]
    elif kind == "case":
        ins = ["\n  Real extra__;", "\n  Real EXTRA__;", "\n  Real Extra__;"]
    elif kind == "string-ws":
        ins = ['\n  Real extra__ "a b";', '\n  Real extra__ "a  b";', '\n  Real extra__ "a\tb";']
    elif kind == "tail":
        return [text + "model Z__\n  Real q = %d;\nend Z__;\n" % k for k in (1, 2, 3)]
    elif kind == "head":
        return ["model %s__\nend %s__;\n" % (k, k) + text for k in ("A", "B", "C")]
    else:
        nums = [m for m in re.finditer(r"(?<![\w.])\d+(?![\w.])", text)]
        if not nums:
            return [text + "\nmodel Extra__ Real q = %d; end Extra__;\n" % k for k in (1, 2, 3)]
        m = rng.choice(nums)
        v = int(m.group())
        return [text[:m.start()] + str(v + k) + text[m.end():] for k in (0, 1 + rng.randrange(3), 5 + rng.randrange(3))]
    return [text[:i] + x + text[i:] for x in ins]


def _broken(text, rng):
    """a syntactically broken variant"""
    k = rng.randrange(4)
    semis = [i for i, c in enumerate(text) if c == ";"]
    if k == 0 and semis:
        i = rng.choice(semis)
        return text[:i] + text[i + 1:]
    if k == 1:
        return text.rstrip().rstrip(";")[:-1] + " end;"
    if k == 2:
        return text.replace("equation", "equation equation ==", 1) if "equation" in text else text + " model"
    return text + "\nmodel"


_fresh = {}


def fresh(text):
    """uncached parse: (is_none, dump)"""
    import pymoca.parser as P
    if text not in _fresh:
        t = P.parse(text, bypass_cache=True)
        _fresh[text] = (t is None, None if t is None else dump(t))
    return _fresh[text]


def text_pool(rng, big=False):
    """a {'g1','g2','g3','b1','b2'} assignment of concrete texts; verified good / bad by an uncached parse"""
    bases = list(SMALL)
    if big:
        mdir = os.path.join(REPO, "test", "models")
        names = sorted(f for f in os.listdir(mdir) if f.endswith(".mo"))
        rng.shuffle(names)
        for n in names[:3]:
            try:
                bases.append(open(os.path.join(mdir, n), encoding="utf-8").read())
            except OSError:
                pass
    for _ in range(80):
        base = rng.choice(bases)
        kind = rng.choice(NEAR_DUP_KINDS)
        g = _near_dups(base, rng, kind)
        cand = {"g1": g[0], "g2": g[1], "g3": g[2], "b1": _broken(g[0], rng), "b2": _broken(g[1], rng)}
        if len(set(cand.values())) < 5:
            continue
        ok = all(not fresh(cand[x])[0] for x in ("g1", "g2", "g3")) and all(fresh(cand[x])[0] for x in ("b1", "b2"))
        if ok and len({fresh(cand[x])[1] for x in ("g1", "g2", "g3")}) == 3:
            return cand
    raise MachineryError("could not build a text pool")


class FakeTime:
    """stands in for the `time` module inside pymoca.parser: day controlled, microseconds strictly increasing"""

    def __init__(self):
        self.day = 0
        self.n = 0

    def time_ns(self):
        self.n += 1
        return (BASE + self.day * 86400) * 10**9 + self.n * 1000

    def time(self):
        return self.time_ns() / 1e9

    def __getattr__(self, k):
        return getattr(_realtime, k)


WRONG_MODELS = [
    "CREATE TABLE models (txt_hash TEXT, data BLOB)",
    "CREATE TABLE models (txt_hash TEXT, pymoca_version TEXT, data BLOB, last_hit TIMESTAMP INTEGER)",
    "CREATE TABLE models (pymoca_version TEXT, txt_hash TEXT, data BLOB, last_hit TIMESTAMP INTEGER, PRIMARY KEY (txt_hash, pymoca_version))",
    "CREATE TABLE models (txt_hash TEXT, pymoca_version TEXT, data BLOB, hit INTEGER, PRIMARY KEY (txt_hash, pymoca_version))",
    "CREATE TABLE models (foo TEXT)",
    # right names and key, wrong declared types (sqlite then compares text with integers)
    "CREATE TABLE models (txt_hash TEXT, pymoca_version TEXT, data BLOB, last_hit TEXT, PRIMARY KEY (txt_hash, pymoca_version))",
    "CREATE TABLE models (txt_hash TEXT, pymoca_version TEXT, data TEXT, last_hit TIMESTAMP INTEGER, PRIMARY KEY (txt_hash, pymoca_version))",
    "CREATE TABLE models (txt_hash BLOB, pymoca_version TEXT, data BLOB, last_hit TIMESTAMP INTEGER, PRIMARY KEY (txt_hash, pymoca_version))",
]
WRONG_META = ["CREATE TABLE metadata (foo TEXT)", "CREATE TABLE metadata (key TEXT, value TEXT)",
              "CREATE TABLE metadata (value TEXT, key TEXT, PRIMARY KEY (key))",
              "CREATE TABLE metadata (key TEXT, value INTEGER, PRIMARY KEY (key))"]
EXPECTED_MODELS = [(0, "txt_hash", "TEXT", 0, None, 1), (1, "pymoca_version", "TEXT", 0, None, 2),
                   (2, "data", "BLOB", 0, None, 0), (3, "last_hit", "TIMESTAMP INTEGER", 0, None, 0)]
EXPECTED_META = [(0, "key", "TEXT", 0, None, 1), (1, "value", "TEXT", 0, None, 0)]


class Adapter:
    def __init__(self, texts, rng, ver="v1"):
        import pymoca
        import pymoca.parser as P
        self.pymoca = pymoca
        self.P = P
        self.texts = texts
        self.rng = rng
        # tmpfs when available: every sqlite commit fsyncs
        shm = "/dev/shm" if os.path.isdir("/dev/shm") and os.access("/dev/shm", os.W_OK) else None
        self.dir = tempfile.mkdtemp(prefix="c01_", dir=shm)
        self.folder = Path(self.dir) / "cache"
        self.dbpath = self.folder / DBNAME
        self.clock = FakeTime()
        self.saved_version = pymoca.__version__
        pymoca.__version__ = VERS[ver]
        self._install()
        if hasattr(self.P.parse, "initialized_dbs"):
            self.P.parse.initialized_dbs.discard(self.dbpath)
        self.hashes = {self.P._calculate_txt_hash(t): s for s, t in texts.items()}
        self.faults = []     # fault actions since the last successful parse (for tags)

    def _install(self):
        self.P.time = self.clock

    def close(self):
        self.pymoca.__version__ = self.saved_version
        self.P.time = _realtime
        shutil.rmtree(self.dir, ignore_errors=True)

    # ---- actions ---------------------------------------------------------
    def apply(self, act):
        a = act["act"]
        if a == "parse":
            text = self.texts[act["t"]]
            obs = {}
            try:
                tree = self.P.parse(text, model_cache_folder=self.folder,
                                    cache_expiration_days=act["exp"], always_update_last_hit=act["upd"],
                                    bypass_cache=act["byp"])
                obs["none"] = tree is None
                obs["dump"] = None if tree is None else dump(tree)
            except Exception as e:  # noqa - the code under test raised
                obs["exc"] = exc_record(e)
            return obs
        if a == "reload":
            # a real importlib.reload costs ~10 ms (recompiles parser.py); 1 in 6 reloads is real, the
            # others reset exactly the state a reload resets for the cache: the function attribute
            if self.rng.randrange(6) == 0:
                self.P = importlib.reload(self.P)
                self._install()
            elif hasattr(self.P.parse, "initialized_dbs"):
                del self.P.parse.initialized_dbs
        elif a == "setversion":
            self.pymoca.__version__ = VERS[act["v"]]
        elif a == "tick":
            self.clock.day += 1
        elif a == "corruptentry":
            h = self.P._calculate_txt_hash(self.texts[act["t"]])
            good = pickle.dumps(self.P.parse(self.texts[act["t"]], bypass_cache=True))
            if act["kind"] == "empty":
                blob = b""
            else:
                k = self.rng.randrange(4)
                blob = [b"garbage", b"\x80\x04\x95garbage", b"this is not a pickle at all" * 3,
                        good[:2] + b"\xff\xfe" + good[2:40]][k]
                try:
                    pickle.loads(blob)
                    raise MachineryError("garbage blob unpickles")
                except MachineryError:
                    raise
                except Exception:
                    pass
            c = sqlite3.connect(self.dbpath)
            n = c.execute("UPDATE models SET data=? WHERE txt_hash=? AND pymoca_version=?",
                          (blob, h, VERS[act["v"]])).rowcount
            c.commit()
            c.close()
            if n != 1:
                return {"drift": "corruptentry-row-missing"}
            self.faults.append("corruptentry-" + act["kind"])
        elif a == "corruptlayout":
            c = sqlite3.connect(self.dbpath)
            tbl = "models" if act["tbl"] == "models" else "metadata"
            c.execute("DROP TABLE IF EXISTS %s" % tbl)
            if act["how"] == "wrong":
                c.execute(self.rng.choice(WRONG_MODELS if tbl == "models" else WRONG_META))
            c.commit()
            c.close()
            self.faults.append("corruptlayout-%s-%s" % (act["tbl"], act["how"]))
        elif a == "corruptfile":
            k = self.rng.randrange(4)
            data = open(self.dbpath, "rb").read()
            if k == 3:
                # page-valid damage: two records of the primary-key index point to each other's rows.  sqlite's
                # integrity_check calls this corrupt; queries keep "working".  Only injected while this process has
                # not (or no longer) initialised the database: a silently wrong but well-formed file met in the middle
                # of a process is outside the fault model (the cache has no checksums), like a blob that unpickles to
                # another tree.
                desync = None if self.dbpath in getattr(self.P.parse, "initialized_dbs", set()) else self._index_desync(data)
                if desync is not None:
                    with open(self.dbpath, "wb") as f:
                        f.write(desync)
                    self.faults.append("corruptfile")
                    return {}
                k = self.rng.randrange(3)
            junk = [b"this is not a database " * 200,
                    bytes(self.rng.randrange(256) for _ in range(4096)),
                    data[:100] + bytes(self.rng.randrange(256) for _ in range(max(0, len(data) - 100)))][k]
            with open(self.dbpath, "wb") as f:
                f.write(junk)
            self.faults.append("corruptfile")
        elif a == "removefile":
            os.remove(self.dbpath)
            self.faults.append("removefile")
        else:
            raise MachineryError("unknown action %r" % (act,))
        return {}

    def _index_desync(self, data):
        try:
            c = sqlite3.connect(self.dbpath)
            rows = c.execute("SELECT rowid, txt_hash, pymoca_version FROM models WHERE rowid BETWEEN 2 AND 127 ORDER BY rowid").fetchall()
            c.close()
        except sqlite3.DatabaseError:
            return None
        if len(rows) < 2:
            return None
        (ra, ha, va), (rb, hb, vb) = rows[0], rows[1]
        raw = bytearray(data)
        for h, v, old, new in ((ha, va, ra, rb), (hb, vb, rb, ra)):
            needle = h.encode() + v.encode() + bytes([old])
            if raw.count(needle) != 1:
                return None
            raw[raw.index(needle) + len(needle) - 1] = new
        return bytes(raw)

    # ---- observation of the real state ------------------------------------
    def bad_text_rows(self):
        """rows whose txt_hash is the hash of a text with a syntax error (must never exist)"""
        if not self.dbpath.exists():
            return []
        try:
            c = sqlite3.connect(self.dbpath)
            rows = [r[0] for r in c.execute("SELECT txt_hash FROM models")]
            c.close()
        except sqlite3.DatabaseError:
            return []
        return [self.hashes[h] for h in rows if h in self.hashes and self.hashes[h].startswith("b")]

    def project(self):
        inited = self.dbpath in getattr(self.P.parse, "initialized_dbs", set())
        ver = {v: k for k, v in VERS.items()}[self.pymoca.__version__]
        st = {"inited": inited, "ver": ver, "day": self.clock.day}
        if not self.dbpath.exists():
            st["db"] = {"file": "absent"}
            return st
        try:
            c = sqlite3.connect(self.dbpath)
            ok = c.execute("PRAGMA integrity_check").fetchone() == ("ok",)
            if not ok:
                raise sqlite3.DatabaseError("integrity")
            def layout(tbl, exp):
                if not c.execute("SELECT name FROM sqlite_master WHERE type='table' AND name=?", (tbl,)).fetchone():
                    return "absent"
                return "ok" if c.execute("PRAGMA table_info('%s')" % tbl).fetchall() == exp else "wrong"
            db = {"file": "db", "models": layout("models", EXPECTED_MODELS), "meta": layout("metadata", EXPECTED_META),
                  "rows": [], "lastPrune": 0}
            if db["models"] == "ok":
                rv = {v: k for k, v in VERS.items()}
                for h, v, data, hit in c.execute("SELECT txt_hash, pymoca_version, data, last_hit FROM models"):
                    if data == b"" or data is None:
                        kind = "empty"
                    else:
                        try:
                            pickle.loads(data)
                            kind = "good"
                        except Exception:
                            kind = "garbage"
                    db["rows"].append({"t": self.hashes.get(h, "?"), "v": rv.get(v, "?"), "blob": kind,
                                       "hit": (hit // 10**6 - BASE) // 86400})
            if db["meta"] == "ok":
                r = c.execute("SELECT value FROM metadata WHERE key='last_prune'").fetchone()
                if r:
                    db["lastPrune"] = (int(r[0]) // 10**6 - BASE) // 86400
            c.close()
            st["db"] = db
        except sqlite3.DatabaseError:
            st["db"] = {"file": "corrupt"}
        return st


def norm_state(s):
    s = json.loads(json.dumps(s))
    if "rows" in s["db"]:
        s["db"]["rows"] = sorted(s["db"]["rows"], key=lambda r: (r["t"], r["v"]))
    return s


def run_history(texts, acts, dsts, seed, check_state=True):
    """replay one history; returns (records, drift kinds, steps done)"""
    rng = random.Random(seed)
    init_ver = "v1"
    ad = Adapter(texts, rng, init_ver)
    recs, drift = [], []
    try:
        for k, act in enumerate(acts):
            obs = ad.apply(act)
            if obs.get("drift"):
                drift.append(obs["drift"])
                break   # the real state is no longer the state the spec path assumes
            if act["act"] == "parse":
                want_none, want_dump = fresh(texts[act["t"]])
                tags = ["path:" + str(act.get("path")), "byp" if act["byp"] else "cached",
                        "last-fault:" + (ad.faults[-1] if ad.faults else "none")]
                rec = None
                if "exc" in obs:
                    rec = dict(obs["exc"], observable="exception", tags=tags)
                elif obs["none"] != want_none:
                    rec = {"observable": "none-iff-syntax-error", "tags": tags, "exception_type": None,
                           "detail": "parse returned %s for a text that %s" % (
                               "None" if obs["none"] else "a tree", "parses" if not want_none else "has a syntax error")}
                elif not want_none and obs["dump"] != want_dump:
                    rec = {"observable": "tree-differs-from-uncached-parse", "tags": tags, "exception_type": None,
                           "detail": first_diff(obs["dump"], want_dump)}
                stored = ad.bad_text_rows()
                if stored and rec is None:
                    rec = {"observable": "failed-parse-stored", "tags": tags, "exception_type": None,
                           "detail": "cache has rows for texts with a syntax error: %s" % stored}
                if rec is not None:
                    rec["step"] = k
                    recs.append(rec)
                    break
                ad.faults = []
            if check_state and dsts is not None:
                got, want = norm_state(ad.project()), norm_state(dsts[k])
                if got != want:
                    kinds = [f for f in ("inited", "ver", "day") if got[f] != want[f]]
                    if got["db"] != want["db"]:
                        kinds.append("db:" + ",".join(sorted(f for f in set(got["db"]) | set(want["db"])
                                                             if got["db"].get(f) != want["db"].get(f))))
                    if not drift:
                        drift.append("%s after %s" % ("/".join(kinds), act["act"]))
                    # keep going: the remaining actions are still legal inputs, and verdicts only use the
                    # property's observables (result vs. uncached parse), never the spec state
                    check_state = False
        return recs, drift, k + 1 if acts else 0
    finally:
        ad.close()


def quiet():
    """antlr prints syntax errors of the deliberately broken texts to stderr; pymoca logs warnings"""
    import logging
    import sys
    logging.getLogger("pymoca").setLevel(logging.CRITICAL)
    try:
        from antlr4.error.ErrorListener import ConsoleErrorListener
        ConsoleErrorListener.syntaxError = lambda *a, **k: None
    except Exception:
        pass


def _job(job):
    texts, acts, dsts, seed, check_state = job
    quiet()
    try:
        return run_history(texts, acts, dsts, seed, check_state)
    except MachineryError as e:
        return ("MACHINERY", str(e))


# --------------------------------------------------------------------------- binding B
def record_history(seed, length, texts):
    """free-running random history on the real code; events carry what the code returned and the
    projected db state (rows, layouts) after each step"""
    rng = random.Random(seed)
    ad = Adapter(texts, rng, "v1")
    ev = []
    try:
        for _ in range(length):
            st = ad.project()
            r = rng.random()
            act = None
            if r < 0.55:
                act = {"act": "parse", "t": rng.choice(sorted(texts)), "exp": rng.choice([0, 1, 2, 30]),
                       "upd": rng.random() < 0.3, "byp": rng.random() < 0.1}
            elif r < 0.63:
                if st["inited"]:
                    act = {"act": "reload"}
            elif r < 0.71:
                act = {"act": "setversion", "v": rng.choice([v for v in VERS if v != st["ver"]])}
            elif r < 0.81:
                if ad.clock.day < 5:
                    act = {"act": "tick"}
            elif r < 0.89:
                rows = st["db"].get("rows") or []
                if rows:
                    row = rng.choice(rows)
                    kind = rng.choice(["garbage", "empty"])
                    if row["blob"] != kind:
                        act = {"act": "corruptentry", "t": row["t"], "v": row["v"], "kind": kind}
            elif r < 0.95:
                if st["db"]["file"] == "db":
                    tbl = rng.choice(["models", "meta"])
                    if st["db"][tbl] == "ok":
                        act = {"act": "corruptlayout", "tbl": tbl, "how": rng.choice(["wrong", "absent"])}
            else:
                if st["db"]["file"] == "db":
                    act = {"act": "corruptfile"}
            if act is None:
                continue
            obs = ad.apply(act)
            e = dict(act, ev=act["act"])
            if act["act"] == "parse":
                if "exc" in obs:
                    e["result"] = ["raise", obs["exc"]["exception_type"]]
                elif obs["none"]:
                    e["result"] = ["none"]
                else:
                    want_none, want_dump = fresh(texts[act["t"]])
                    e["result"] = ["tree", act["t"]] if (not want_none and obs["dump"] == want_dump) else ["wrongtree"]
            e["state"] = norm_state(ad.project())
            ev.append(e)
            if act["act"] == "parse" and e["result"][0] in ("raise", "wrongtree"):
                break
        return ev
    finally:
        ad.close()


def _rec_job(job):
    seed, length, texts = job
    quiet()
    return record_history(seed, length, texts)


def validate_traces(ctx, traces, what, cfg="ParseCacheTrace.cfg"):
    fd, path = tempfile.mkstemp(suffix=".json", prefix="c01tr_")
    with os.fdopen(fd, "w") as f:
        json.dump(traces, f)
    try:
        res = tlc.run("ParseCacheTrace", cfg, workers=1, env={"TRACE_FILE": path}, deadlock=False,
                      timeout=1800)
    finally:
        os.unlink(path)
    ctx.add_tlc(res, what)
    at = res.tr("AT")
    return (not res.violated), (at[-1] if at else {"tid": 1, "l": 1})


# --------------------------------------------------------------------------- main
def run(ctx):
    thorough = ctx.tier == "thorough"
    par.start()      # fork the replay workers while this process is still small
    rng = random.Random(ctx.seed)
    quiet()
    # 1. TLC: intended configs must satisfy the property; their TR-logs are the replay corpus
    graphs = []
    for cfg in (["ParseCache_medium.cfg", "ParseCache_two.cfg"] if thorough else ["ParseCache_quick.cfg", "ParseCache_two.cfg"]):
        r = tlc.run("ParseCache", cfg, workers=1, timeout=3000)
        ctx.add_tlc(r, "intended config %s: property holds on the spec; complete state graph with TR-log" % cfg)
        if r.violated:
            raise MachineryError("intended ParseCache config %s violates %s" % (cfg, r.violated))
        graphs.append((cfg, graph.Graph(r.tr(), init=[r.tr()[0]["src"]])))
    if thorough:
        r = tlc.run("ParseCache", "ParseCache_thorough.cfg", workers=16, timeout=3000)
        ctx.add_tlc(r, "intended config, 2 good texts x 2 versions x 3 expiration choices (no TR-log)")
        if r.violated:
            raise MachineryError("intended ParseCache_thorough violates %s" % r.violated)
    # 2. as-built config: TLC is expected to find the counterexample of the pinned code
    ra = tlc.run("ParseCache", "ParseCache_asbuilt.cfg", workers=4)
    ctx.add_tlc(ra, "as-built config (behaviour of the pinned code before the fix): expected to violate ResultIsFresh")
    ctx.extra["asbuilt_violates"] = ra.violated
    if not ra.violated:
        raise MachineryError("as-built config no longer produces the counterexample: the switches are vacuous")
    rg = tlc.run("ParseCache", "ParseCache_asbuilt_graph.cfg", workers=1)
    ctx.add_tlc(rg, "as-built state graph, source of directed histories into every raise edge")
    ga = graph.Graph(rg.tr(), init=[rg.tr()[0]["src"]])
    directed = shortest_paths_to(ga, lambda act: act.get("act") == "parse" and act["result"][0] == "raise")
    if not directed:
        raise MachineryError("no directed as-built histories")
    # 3. replay
    jobs = []
    gstats = {}
    plan = []
    for cfg, g in graphs:
        paths, covered = g.tour(max_len=150)
        if len(covered) != g.n_edges():
            raise MachineryError("tour covers %d of %d transitions" % (len(covered), g.n_edges()))
        walks = g.random_walks(100 if not thorough else 800, 80, ctx.seed + 1)
        gstats[cfg] = {"states": g.n_states(), "transitions": g.n_edges(), "tour_paths": len(paths), "random_walks": len(walks)}
        plan += [("tour", g, paths, True), ("walk", g, walks, True)]
    plan.append(("directed", ga, directed, False))
    gstats["directed_asbuilt_histories"] = len(directed)
    for kind, gg, plist, chk in plan:
        for p in plist:
            st = gg.steps(p)
            acts = [s[1] for s in st]
            dsts = [s[2] for s in st]
            texts = text_pool(rng, big=(rng.random() < (0.15 if thorough else 0.03)))
            jobs.append((texts, acts, dsts if chk else None, rng.randrange(1 << 30), chk))
    results = par.pmap(_job, jobs)
    acts_cov, steps = {}, 0
    for job, res in zip(jobs, results):
        if res[0] == "MACHINERY":
            raise MachineryError(res[1])
        recs, drift, done = res
        ctx.traces += 1
        steps += done
        for a in job[1][:done]:
            key = a["act"] + (":" + a["path"] if a["act"] == "parse" else "")
            acts_cov[key] = acts_cov.get(key, 0) + 1
        for d in drift:
            ctx.note_drift(d)
        for rec in recs:
            k = rec.pop("step")
            ctx.violation(rec, {"kind": "history", "texts": job[0], "acts": job[1][:k + 1], "seed": job[3]})
    for need in ("parse:hit", "parse:miss", "parse:reparse-after-bad-blob", "parse:bypass", "reload", "setversion", "tick",
                 "corruptentry", "corruptlayout", "corruptfile"):
        if not acts_cov.get(need):
            raise MachineryError("vacuous: %s never replayed" % need)
    ctx.sample({"kind": "tour path (first steps)", "acts": jobs[0][1][:8]})
    ctx.sample({"kind": "directed history into an as-built raise edge", "acts": [s[1] for s in ga.steps(directed[0])]})
    # 4. binding B
    n_tr = 60 if not thorough else 600
    rjobs = [(ctx.seed * 1000 + i, 60, text_pool(rng, big=False)) for i in range(n_tr)]
    traces = par.pmap(_rec_job, rjobs)
    ctx.traces += len(traces)
    pending = list(range(len(traces)))
    for _round in range(6):
        ok, last = validate_traces(ctx, [traces[i] for i in pending],
                                   "strict trace validation of %d recorded free-running histories" % len(pending))
        if ok:
            break
        # a strict rejection is model drift unless the loose mode (property observables only) rejects too
        ctx.note_drift("recorded-history-state-differs-from-spec")
        bad_i = pending[min(last["tid"], len(pending)) - 1]
        pending.remove(bad_i)
    okl, last = validate_traces(ctx, traces, "loose trace validation (property observables only) of all %d histories" % len(traces),
                                cfg="ParseCacheTrace_loose.cfg")
    if not okl:
        tid, l = last["tid"], last["l"]
        tr = traces[tid - 1] if tid <= len(traces) else []
        ev = tr[l - 1] if l - 1 < len(tr) else None
        isparse = bool(ev) and ev.get("ev") == "parse"
        obs = "recorded-trace-rejected"
        if isparse and ev["result"][0] == "raise":
            obs = "exception"
        elif isparse and ev["result"][0] == "wrongtree":
            obs = "tree-differs-from-uncached-parse"
        elif isparse:
            obs = "none-iff-syntax-error"
        ctx.violation({"observable": obs, "tags": ["recorded", "ev:" + (ev["ev"] if ev else "end")],
                       "exception_type": ev["result"][1] if isparse and ev["result"][0] == "raise" else None,
                       "detail": "ParseCacheTrace (loose) rejects recorded history %d at event %d: %s" % (
                           tid, l, json.dumps({k: v for k, v in (ev or {}).items() if k != "state"}))},
                      {"kind": "recorded", "texts": rjobs[tid - 1][2] if tid <= len(rjobs) else None,
                       "events": [{k: v for k, v in e.items() if k != "state"} for e in tr[:l]],
                       "seed": rjobs[tid - 1][0] if tid <= len(rjobs) else 0})
    ctx.sample({"kind": "recorded history (first events)", "events": [{k: v for k, v in e.items() if k != "state"} for e in traces[0][:5]]})
    # 5. binding self-test: a corrupted logged field must be rejected by the trace spec
    bad = json.loads(json.dumps(traces[:5]))
    done = False
    for t in bad:
        for e in t:
            if e["ev"] == "parse" and e["result"][0] == "tree" and not done:
                e["result"] = ["none"]
                done = True
    if done:
        ok2, _ = validate_traces(ctx, bad, "binding self-test: corrupted recorded result must be rejected",
                                 cfg="ParseCacheTrace_loose.cfg")
        if ok2:
            raise MachineryError("trace spec accepted a corrupted trace")
    ctx.extra["per_action_replayed"] = acts_cov
    gstats["replayed_steps"] = steps
    ctx.extra["graph"] = gstats
    ctx.assumptions += ["clock strictly increasing; days advance only through Tick",
                        "corruption = the fault kinds listed by the property; file deletion excluded"]
    return {"exhaustive": True}


def shortest_paths_to(g, pred):
    """for every edge whose action satisfies pred: one shortest path from init ending with that edge,
    de-duplicated by (action without args that do not matter, source state)"""
    from collections import deque
    init = g.inits[0]
    prev = {init: None}
    q = deque([init])
    while q:
        s = q.popleft()
        for ei in g.out[s]:
            d = g.edges[ei][2]
            if d not in prev:
                prev[d] = (s, ei)
                q.append(d)
    out, seen = [], set()
    for ei, (s, act, d) in enumerate(g.edges):
        if not pred(act) or s not in prev:
            continue
        sig = (act.get("path"), act.get("t"), s)
        if sig in seen:
            continue
        seen.add(sig)
        path = [ei]
        cur = s
        while prev[cur] is not None:
            cur, pe = prev[cur]
            path.append(pe)
        path.reverse()
        out.append(path)
    return out


def replay(ctx, sc):
    quiet()
    if sc.get("kind") == "recorded":
        # re-run the recorded operations on the real code and judge by the property's observables
        acts = [{k: v for k, v in e.items() if k not in ("ev", "result")} for e in sc["events"]]
        recs, _, _ = run_history(sc["texts"], acts, None, sc.get("seed", 0), check_state=False)
    else:
        recs, _, _ = run_history(sc["texts"], sc["acts"], None, sc.get("seed", 0), check_state=False)
    for r in recs:
        r.pop("step", None)
    return recs
