--------------------------- MODULE SimplifyTrace ---------------------------
(* Code -> spec trace validation for C14 / C15 (binding B).

   The batch file (env TRACE_FILE) is a JSON array of traces.  A trace is recorded from ONE real
   Model.simplify(options) run through the guarded hook pymoca.backends.casadi.model._VERIF_HOOK
   (called after every option-guarded pass of _simplify_once) and a wrapper around
   AliasRelation.add:

     {"ev":"begin", "opts":[...], "S":[..],"D":[..],"A":[..],"I":[..],"P":[..],"K":[..],
                    "neq":n, "syms":[names referenced by (initial) equations], "blocks":[[[n,s],..],..]}
     {"ev":"add",   "x":[n,s], "y":[n,s], "blocks":[...]}          alias_relation.add(x, y) inside detect_aliases
     {"ev":"pass",  "name":<hook name>, S, D, A, I, P, K, neq, syms, blocks}   the model after that pass
     {"ev":"raise", "exc":...}                                     simplify() raised (reported failure)
     {"ev":"end"}

   The trace is validated against the pipeline of Simplify.tla on the OBSERVED name sets, equation
   counts and referenced-symbol sets:
     Order          the passes come in the order of Simplify!Passes (repeated for iterative simplification)
     Balance        |S|+|A|-neq is unchanged by every pass                                     (C15)
     SelfContained  every referenced symbol is a live name (or time / the affine state vectors) (C15)
     Frame          a pass whose option is off changes nothing; an enabled pass changes only what the
                    corresponding action of Simplify.tla can change (e.g. eliminate_constant_assignments
                    moves algebraic names to the constants and drops exactly as many equations)
     Alias          every alias_relation.add is AliasRelation!AddTo on the current relation, is consistent,
                    happens only inside an enabled detect_aliases pass, and the logged partition equals the
                    spec's; every detect_aliases pass drops one equation and one algebraic variable per add (C14/C15)
   A trace that fails a check is REJECTED: the spec prints <<"REJ", {tid, l, failed: [names]}>> and goes on
   with the next trace, so one TLC run gives the verdict for every trace of the batch.             *)
EXTENDS Integers, Sequences, FiniteSets, TLC, TLCExt, Json, IOUtils, FiniteSetsExt, SequencesExt

Batch == JsonDeserialize(IOEnv.TRACE_FILE)

VARIABLES tid, l, pc, cur, rel, adds, rejected

tvars == <<tid, l, pc, cur, rel, adds, rejected>>

Passes == <<"expand_vectors_sx", "resolve_parameter_values", "replace_parameter_expressions",
            "replace_constant_expressions", "eliminate_constant_assignments",
            "replace_parameter_values", "replace_constant_values",
            "eliminable_variable_expression", "expand_vectors_mx",
            "factor_and_simplify_equations", "detect_aliases", "reduce_affine_expression",
            "expand_mx">>
VectorNames == {"states_vector", "der_states_vector", "alg_states_vector", "inputs_vector"}
Eliminable(x) == x \in {"e_1", "e_2", "e_3", "e_s"}        \* names matching the eliminable_variable_expression used by the harness
DerOf(x) == "der(" \o x \o ")"

(* the signed alias relation of C17 *)
AR == INSTANCE AliasRelation WITH Names <- {}, MaxRel <- 1, MaxOps <- 0,
                                  rel <- <<rel>>, pairs <- <<{}>>, ops <- 0, last <- [act |-> "none"]

ToSigned(p) == <<p[1], p[2]>>
ToBlock(b) == {ToSigned(b[k]) : k \in DOMAIN b}
ToBlocks(bs) == {ToBlock(bs[k]) : k \in DOMAIN bs}
SetOf(s) == {s[i] : i \in DOMAIN s}

Snap(e) == [S |-> SetOf(e.S), D |-> SetOf(e.D), A |-> SetOf(e.A), I |-> SetOf(e.I), P |-> SetOf(e.P),
            K |-> SetOf(e.K), neq |-> e.neq, syms |-> SetOf(e.syms), opts |-> cur.opts]
NoSnap == [S |-> {}, D |-> {}, A |-> {}, I |-> {}, P |-> {}, K |-> {}, neq |-> 0, syms |-> {}, opts |-> {}]

TInit == tid = 1 /\ l = 1 /\ pc = 0 /\ cur = NoSnap /\ rel = {} /\ adds = 0 /\ rejected = {}

Ev == Batch[tid][l]
HasEv == tid <= Len(Batch) /\ l <= Len(Batch[tid])
Has(o) == o \in cur.opts
Bal(s) == Cardinality(s.S) + Cardinality(s.A) - s.neq
LiveOf(s) == s.S \cup s.D \cup s.A \cup s.I \cup s.P \cup s.K
SameSets(a, b) == a.S = b.S /\ a.D = b.D /\ a.A = b.A /\ a.I = b.I /\ a.P = b.P /\ a.K = b.K
Same(a, b) == SameSets(a, b) /\ a.neq = b.neq

(* what an ENABLED pass may do to the observed name sets and equation count (Simplify.tla, per action) *)
Frame(name, a, b) ==
    CASE name \in {"expand_vectors_sx", "expand_vectors_mx", "resolve_parameter_values",
                   "factor_and_simplify_equations", "reduce_affine_expression", "expand_mx"}
              -> Same(a, b)
      [] name \in {"replace_parameter_expressions", "replace_parameter_values"}
              -> b.P \subseteq a.P /\ a.S = b.S /\ a.D = b.D /\ a.A = b.A /\ a.I = b.I /\ a.K = b.K /\ a.neq = b.neq
      [] name = "replace_constant_expressions"
              -> b.K \subseteq a.K /\ a.S = b.S /\ a.D = b.D /\ a.A = b.A /\ a.I = b.I /\ a.P = b.P /\ a.neq = b.neq
      [] name = "eliminate_constant_assignments"
              -> /\ b.A \subseteq a.A /\ b.K = a.K \cup (a.A \ b.A)
                 /\ a.S = b.S /\ a.D = b.D /\ a.I = b.I /\ a.P = b.P
                 /\ b.neq = a.neq - Cardinality(a.A \ b.A)
      [] name = "replace_constant_values"
              -> b.K = {} /\ a.S = b.S /\ a.D = b.D /\ a.A = b.A /\ a.I = b.I /\ a.P = b.P /\ a.neq = b.neq
      [] name = "eliminable_variable_expression"
              -> LET goneS == a.S \ b.S
                     goneA == a.A \ (b.A \cup b.S)
                     promoted == a.A \cap b.S
                 IN  /\ \A x \in goneS \cup goneA : Eliminable(x)
                     /\ b.S = (a.S \ goneS) \cup promoted
                     /\ b.A \subseteq a.A
                     /\ b.D = (a.D \ {DerOf(x) : x \in goneS}) \cup {DerOf(x) : x \in promoted}
                     /\ a.I = b.I /\ a.P = b.P /\ a.K = b.K
                     /\ b.neq = a.neq - Cardinality(goneS \cup goneA)
      [] name = "detect_aliases"
              -> /\ b.A \subseteq a.A /\ a.S = b.S /\ a.D = b.D /\ a.I = b.I /\ a.P = b.P /\ a.K = b.K
                 /\ b.neq = a.neq - adds
                 /\ Cardinality(a.A \ b.A) = adds
                 \* an eliminated variable is a non-trivial member of the relation and some member of its class lives on
                 /\ \A x \in a.A \ b.A : \E blk \in rel : <<x, 1>> \in blk /\ \E y \in blk : y[1] \in LiveOf(b)

Checks(e, b) ==
    LET name == e.name
        on == IF name = "eliminable_variable_expression" THEN Has(name)
              ELSE IF name \in {"expand_vectors_sx", "expand_vectors_mx"} THEN Has("expand_vectors")
              ELSE Has(name)
    IN  [Order |-> pc \in 1..Len(Passes) /\ Passes[pc] = name,
         Balance |-> Bal(b) = Bal(cur),
         SelfContained |-> b.syms \subseteq LiveOf(b) \cup {"time"} \cup VectorNames,
         Frame |-> IF on THEN Frame(name, cur, b) ELSE Same(cur, b),
         Alias |-> /\ ToBlocks(e.blocks) = (IF name = "replace_constant_values" /\ on
                                            THEN {blk \in rel : \A y \in blk : y[1] \notin cur.K} ELSE rel)
                   /\ (name # "detect_aliases" => adds = 0)]
AllTrue(r) == \A f \in DOMAIN r : r[f]
Failed(r) == {f \in DOMAIN r : ~r[f]}

NextTrace == /\ tid' = tid + 1 /\ l' = 1 /\ pc' = 0 /\ cur' = NoSnap /\ rel' = {} /\ adds' = 0

TBegin == /\ HasEv /\ Ev.ev = "begin" /\ pc = 0
          /\ cur' = [Snap(Ev) EXCEPT !.opts = SetOf(Ev.opts)]
          /\ rel' = ToBlocks(Ev.blocks)
          /\ pc' = 1 /\ l' = l + 1 /\ adds' = 0
          /\ UNCHANGED <<tid, rejected>>

TPass == /\ HasEv /\ Ev.ev = "pass" /\ pc >= 1
         /\ \E e \in {Ev} : \E b \in {Snap(e)} : \E c \in {Checks(e, b)} :
              IF AllTrue(c)
              THEN /\ cur' = b
                   /\ rel' = ToBlocks(e.blocks)
                   /\ pc' = IF pc = Len(Passes) THEN 1 ELSE pc + 1      \* iterative simplification starts over
                   /\ adds' = 0 /\ l' = l + 1
                   /\ UNCHANGED <<tid, rejected>>
              ELSE /\ PrintT(<<"REJ", ToJson([tid |-> tid, l |-> l, ev |-> e.name, failed |-> Failed(c)])>>)
                   /\ rejected' = rejected \cup {tid}
                   /\ NextTrace

AddChecks(e) ==
    LET x == ToSigned(e.x)
        y == ToSigned(e.y)
    IN  [InDetectAliases |-> pc \in 1..Len(Passes) /\ Passes[pc] = "detect_aliases" /\ Has("detect_aliases"),
         Consistent |-> AR!Consistent(rel, x, y),
         Closure |-> ToBlocks(e.blocks) = AR!AddTo(rel, x, y),
         KeepsLive |-> x[1] \in LiveOf(cur) /\ y[1] \in cur.A]

TAdd == /\ HasEv /\ Ev.ev = "add" /\ pc >= 1
        /\ \E c \in {AddChecks(Ev)} :
             IF AllTrue(c)
             THEN /\ rel' = AR!AddTo(rel, ToSigned(Ev.x), ToSigned(Ev.y))
                  /\ adds' = adds + 1 /\ l' = l + 1
                  /\ UNCHANGED <<tid, pc, cur, rejected>>
             ELSE /\ PrintT(<<"REJ", ToJson([tid |-> tid, l |-> l, ev |-> "add", failed |-> Failed(c)])>>)
                  /\ rejected' = rejected \cup {tid}
                  /\ NextTrace

(* simplify() raised: a reported failure, the trace ends here *)
TRaise == /\ HasEv /\ Ev.ev = "raise" /\ pc >= 1
          /\ l' = l + 1 /\ UNCHANGED <<tid, pc, cur, rel, adds, rejected>>

TEnd == /\ HasEv /\ Ev.ev = "end" /\ pc >= 1
        /\ IF pc = 1 /\ adds = 0
           THEN l' = l + 1 /\ UNCHANGED <<tid, pc, cur, rel, adds, rejected>>
           ELSE /\ PrintT(<<"REJ", ToJson([tid |-> tid, l |-> l, ev |-> "end", failed |-> {"Order"}])>>)
                /\ rejected' = rejected \cup {tid}
                /\ NextTrace

TNextTrace == /\ tid <= Len(Batch) /\ l = Len(Batch[tid]) + 1
              /\ UNCHANGED rejected
              /\ NextTrace

(* end of the batch: report the verdicts (the harness requires this line: a run that stops earlier could
   not explain some event and is a machinery failure) *)
TDone == /\ tid = Len(Batch) + 1 /\ pc = 0
         /\ PrintT(<<"DONE", ToJson([traces |-> Len(Batch), rejected |-> rejected])>>)
         /\ pc' = -1 /\ UNCHANGED <<tid, l, cur, rel, adds, rejected>>

TNext == TBegin \/ TPass \/ TAdd \/ TRaise \/ TEnd \/ TNextTrace \/ TDone

TView == <<tid, l, pc, cur, rel, adds, rejected>>
TypeOK == /\ tid \in 1..Len(Batch) + 1 /\ pc \in -1..Len(Passes) /\ adds >= 0
          /\ rejected \subseteq 1..Len(Batch)
=============================================================================
