\* mutation: option values compared by truthiness only - SwitchedIsFresh must FAIL
CONSTANTS XKinds = {"lit"}
          YKinds = {"none"}
          Aliases = {"none"}
          Delays = {"none"}
          Opts = {"eva","evb"}
          FKinds = {"none"}
          Typed = {FALSE}
          Strs = {FALSE}
          Outs = {TRUE}
          SwapDepClasses = FALSE
          ForgetOutputs = FALSE
          DurDepsOffByOne = FALSE
          ConstMXNotMX = FALSE
          TruthyOptions = TRUE
INIT Init
NEXT Next
INVARIANT RoundTrip
INVARIANT NoMXPickled
INVARIANT SwitchedIsFresh
CHECK_DEADLOCK FALSE
