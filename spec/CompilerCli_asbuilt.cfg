\* as-built switches (pinned tree): PROG log with the expected (declarative) and the as-built status
\* quick family: every invocation within 2 changes of a base call (no 3-change sample: SampleDev = 9 disables it; thorough has it)
CONSTANTS MaxDev = 2  SampleDev = 9  MaxPaths = 2  MaxModels = 2  MaxModelsRich = 2  MaxOpts = 2
          CliCountsTranslateFailures = FALSE  CliCatchesTranslateErrors = FALSE  CliCountsMissingModelFile = FALSE
          Emit = TRUE  NParts <- NPartsEnv  Part <- PartEnv
INIT Init
NEXT Next
INVARIANT DeviationsExplainAll
ACTION_CONSTRAINT Log
INVARIANT NoWorkAfterUsageError
PROPERTY ErrorsMonotone
CHECK_DEADLOCK FALSE
