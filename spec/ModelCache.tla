------------------------------ MODULE ModelCache ------------------------------
(* Properties C20 (and the history side of C19/C21): the CasADi model cache of
   pymoca, src/pymoca/backends/casadi/api.py  (transfer_model / load_model /
   _compile_model / save_model).

   C20: across any history of edits to .mo files in the model folder and the
   library folders (every edit gets a later mtime than the cache), additions of
   such files, option changes and pymoca version changes, transfer_model with
   caching returns a model equal to compiling the CURRENT sources with the
   CURRENT options.

   What is modelled
   ----------------
   files    the .mo files:  M (model folder), S (sub-folder of the model folder,
            addable), L1 and A (library folder lib1; A addable), L2 (library
            folder lib2).  A file has a content id (0 = absent) and an mtime
            taken from an explicit logical clock.
   cachef   the file <model>.pymoca_cache: what it was compiled from (the
            abstract model), the options and version stored in it, its mtime.
            The same file serves cache mode (pickled functions inside) and
            codegen mode (paths of shared libraries inside).
   libs     the four shared libraries on disk (codegen), as one unit: the
            abstract model they were generated from.
   held     process state: the library image that a CachedModel still alive in
            this process keeps mapped (dlopen is keyed by path name).
   opts, ver, clock   current option set, pymoca version, logical time.

   An abstract model is [src, simp, ev, by]: the content id of every file that
   the compile could see, the two option bits that change the result and the
   pymoca version that compiled it.  The harness makes every one of these
   visible in the real compiled model.

   Transfer is ONE step of the history (as the property quantifies); inside it
   the operators follow the code:  MtimeCheck, VersionCheck, OptionsCheck,
   Load, Compile, Save.

   As-built switches (DESIGN 2.4)
     LibFoldersInKey   TRUE (intended): a change of library_folders invalidates.
                       FALSE (pinned code): api.py:338 removes library_folders
                       from the options comparison.
     FreshLibHandles   TRUE (intended): a codegen hit computes with the libraries
                       that are on disk.  FALSE (pinned code): ca.external(path)
                       returns the image that is already mapped under that path
                       while an earlier CachedModel is alive.                     *)
EXTENDS Integers, Sequences, FiniteSets, TLC, Json

CONSTANTS K,                \* content ids are 1..K
          Editable,         \* files that Edit may rewrite
          Addable,          \* files that are absent initially and may be added
          OptNames,         \* option sets in play, subset of {"O1",...,"O6"}
          Modes,            \* subset of {"cache","codegen"}
          Versions,         \* pymoca versions
          Holds,            \* may the caller keep a returned codegen model alive: subset of BOOLEAN
          MaxClock,         \* bound on the logical clock (= number of edits/additions)
          LibFoldersInKey, FreshLibHandles,
          OptionValuesCompared,   \* TRUE (the code): option VALUES are compared.  FALSE = regression: only whether an
                                  \* option is switched on (truthiness) - must violate ResultIsFresh for O5/O6
          Beyond            \* histories OUTSIDE the property's premise, subset of {"backdated", "split"} ({} for C20 itself)

VARIABLES files, cachef, libs, held, opts, ver, clock, last,
          pending           \* a transfer that has compiled but not yet saved (only with "split" \in Beyond)
vars == <<files, cachef, libs, held, opts, ver, clock, last, pending>>

Files == {"M", "S", "L1", "A", "L2"}
FolderOf == [M |-> "model", S |-> "model/sub", L1 |-> "lib1", A |-> "lib1", L2 |-> "lib2"]

(* eve = value of the NON-boolean option eliminable_variable_expression: "none" (None), "a" (r"_a\w*"), "b" (r"_b\w*");
   O5 and O6 differ only in the VALUE of that option (both truthy) *)
OptOf(n) == CASE n = "O1" -> [simp |-> FALSE, ev |-> FALSE, lib |-> "lib1", eve |-> "none"]
              [] n = "O2" -> [simp |-> TRUE,  ev |-> FALSE, lib |-> "lib1", eve |-> "none"]   \* a simplification option differs
              [] n = "O3" -> [simp |-> FALSE, ev |-> TRUE,  lib |-> "lib1", eve |-> "none"]   \* expand_vectors differs
              [] n = "O4" -> [simp |-> FALSE, ev |-> FALSE, lib |-> "lib2", eve |-> "none"]   \* only library_folders differs
              [] n = "O5" -> [simp |-> FALSE, ev |-> FALSE, lib |-> "lib1", eve |-> "a"]
              [] n = "O6" -> [simp |-> FALSE, ev |-> FALSE, lib |-> "lib1", eve |-> "b"]

(* os.walk over [model_folder] + library_folders: which files a call with options o sees *)
Visible(f, o) == FolderOf[f] \in {"model", "model/sub"} \/ FolderOf[f] = o.lib
Present(f) == files[f].c # 0

Src(o) == [f \in Files |-> IF Visible(f, o) THEN files[f].c ELSE 0]
(* _compile_model: the result also depends on WHICH pymoca compiles (that is why the version is checked);
   the harness makes the compiling version visible in the model *)
Compile(o) == [src |-> Src(o), simp |-> o.simp, ev |-> o.ev, eve |-> o.eve, by |-> ver]

-----------------------------------------------------------------------------
Init == /\ files = [f \in Files |-> [c |-> IF f \in Addable \/ f \in {"A", "S"} THEN 0 ELSE 1, mt |-> 0]]
        /\ cachef = <<>>
        /\ libs = <<>>
        /\ held = <<>>
        /\ opts = "O1"
        /\ ver = 1
        /\ clock = 0
        /\ last = [act |-> "init"]
        /\ pending = <<>>

(* rewrite an existing file; the new mtime is later than everything so far, in particular than the cache *)
Edit(f, k) ==
    /\ f \in Editable /\ Present(f) /\ clock < MaxClock
    /\ clock' = clock + 1
    /\ files' = [files EXCEPT ![f] = [c |-> k, mt |-> clock + 1]]
    /\ last' = [act |-> "edit", f |-> f, k |-> k]
    /\ UNCHANGED <<cachef, libs, held, opts, ver, pending>>

Add(f, k) ==
    /\ f \in Addable /\ ~Present(f) /\ clock < MaxClock
    /\ clock' = clock + 1
    /\ files' = [files EXCEPT ![f] = [c |-> k, mt |-> clock + 1]]
    /\ last' = [act |-> "add", f |-> f, k |-> k]
    /\ UNCHANGED <<cachef, libs, held, opts, ver, pending>>

ChangeOptions(n) ==
    /\ n \in OptNames /\ n # opts
    /\ opts' = n
    /\ last' = [act |-> "options", o |-> n]
    /\ UNCHANGED <<files, cachef, libs, held, ver, clock, pending>>

ChangeVersion(v) ==
    /\ v \in Versions /\ v # ver
    /\ ver' = v
    /\ last' = [act |-> "version", v |-> v]
    /\ UNCHANGED <<files, cachef, libs, held, opts, clock, pending>>

(* the caller drops every model it got earlier: the mapped library images go away *)
Release ==
    /\ held # <<>>
    /\ held' = <<>>
    /\ last' = [act |-> "release"]
    /\ UNCHANGED <<files, cachef, libs, opts, ver, clock, pending>>

-----------------------------------------------------------------------------
(* load_model, in the order of the code *)
C == cachef[1]
MtimeCheck(o) ==                                            \* api.py:309-317, "getmtime(file) > cache_mtime" invalidates
    \A f \in Files : (Visible(f, o) /\ Present(f)) => files[f].mt <= C.mt
VersionCheck == C.ver = ver                                 \* api.py:332
Key(o, mode) == [simp |-> o.simp, ev |-> o.ev, mode |-> mode,
                 eve |-> IF OptionValuesCompared THEN o.eve ELSE (IF o.eve = "none" THEN "off" ELSE "on"),
                 lib |-> IF LibFoldersInKey THEN o.lib ELSE "-"]
OptionsCheck(o, mode) == Key(C.o, C.mode) = Key(o, mode)    \* api.py:335-343
Hit(o, mode) == cachef # <<>> /\ MtimeCheck(o) /\ VersionCheck /\ OptionsCheck(o, mode)

(* where the four functions of a loaded model come from (api.py:351-360) *)
LoadFuns == IF C.mode = "cache" THEN C.model                    \* pickled inside the cache file
            ELSE IF held # <<>> /\ ~FreshLibHandles THEN held[1]  \* ca.external: image already mapped under this path
            ELSE libs[1]

Transfer(mode, hold) ==
    LET o     == OptOf(opts)
        fresh == Compile(o)
        hit   == Hit(o, mode)
        ret   == IF hit THEN [vars |-> C.model, funs |-> LoadFuns]
                        ELSE [vars |-> fresh, funs |-> fresh]          \* a miss returns the freshly compiled Model
        dev   == (IF hit /\ C.o.lib # o.lib THEN {"libs-not-in-key"} ELSE {})
                 \cup (IF hit /\ C.o.eve # o.eve THEN {"option-value-not-compared"} ELSE {})
                 \cup (IF hit /\ mode = "codegen" /\ ret.funs # libs[1] THEN {"held-lib-handle"} ELSE {})
    IN  /\ mode \in Modes
        /\ hold \in (IF mode = "codegen" /\ hit THEN Holds ELSE {FALSE})
        /\ cachef' = IF hit THEN cachef                                 \* save_model, stamped with the time of the save
                     ELSE <<[model |-> fresh, o |-> o, mode |-> mode, ver |-> ver, mt |-> clock]>>
        /\ libs' = IF ~hit /\ mode = "codegen" THEN <<fresh>> ELSE libs
        /\ held' = IF hit /\ mode = "codegen" /\ hold THEN <<ret.funs>> ELSE held
        /\ last' = [act |-> "transfer", mode |-> mode, hold |-> hold, hit |-> hit, ret |-> ret,
                    fresh |-> [vars |-> fresh, funs |-> fresh], dev |-> dev]
        /\ pending = <<>>
        /\ UNCHANGED <<files, opts, ver, clock, pending>>

-----------------------------------------------------------------------------
(* OUTSIDE the premise of C20 - kept in the spec to state exactly where the guarantee ends.

   "backdated": a file is replaced by one whose mtime is NOT later than the cache (cp -p, tar x, rsync -t,
                an editor/VCS that restores timestamps).  No mtime based cache can notice it.
   "split":     transfer_model is not atomic: it reads the sources, compiles (minutes for big models) and
                only then writes the cache file, which gets the time of the WRITE.  A file saved in an
                editor while the compile runs is older than the cache that does not contain it.         *)
EditBackdated(f, k) ==
    /\ "backdated" \in Beyond
    /\ f \in Editable /\ Present(f) /\ k # files[f].c
    /\ files' = [files EXCEPT ![f] = [c |-> k, mt |-> files[f].mt]]
    /\ last' = [act |-> "edit_backdated", f |-> f, k |-> k]
    /\ UNCHANGED <<cachef, libs, held, opts, ver, clock, pending>>

TransferBegin(mode) ==          \* load_model misses, _compile_model has read the sources
    /\ "split" \in Beyond /\ mode \in Modes /\ pending = <<>>
    /\ ~Hit(OptOf(opts), mode)
    /\ pending' = <<[model |-> Compile(OptOf(opts)), o |-> OptOf(opts), mode |-> mode, ver |-> ver]>>
    /\ last' = [act |-> "transfer_begin", mode |-> mode]
    /\ UNCHANGED <<files, cachef, libs, held, opts, ver, clock>>

TransferEnd ==                  \* save_model: the cache file is stamped NOW
    /\ pending # <<>>
    /\ cachef' = <<[model |-> pending[1].model, o |-> pending[1].o, mode |-> pending[1].mode,
                    ver |-> pending[1].ver, mt |-> clock]>>
    /\ libs' = IF pending[1].mode = "codegen" THEN <<pending[1].model>> ELSE libs
    /\ pending' = <<>>
    /\ last' = [act |-> "transfer_end", mode |-> pending[1].mode]
    /\ UNCHANGED <<files, held, opts, ver, clock>>

Next == \/ \E f \in Files, k \in 1..K : Edit(f, k) \/ Add(f, k)
        \/ \E n \in OptNames : ChangeOptions(n)
        \/ \E v \in Versions : ChangeVersion(v)
        \/ \E m \in Modes, h \in BOOLEAN : Transfer(m, h)
        \/ Release
        \/ \E f \in Files, k \in 1..K : EditBackdated(f, k)
        \/ \E m \in Modes : TransferBegin(m)
        \/ TransferEnd

Spec == Init /\ [][Next]_vars

-----------------------------------------------------------------------------
(* The property, stated without reference to how load_model decides *)

AbstractModels == [src : [Files -> 0..K], simp : BOOLEAN, ev : BOOLEAN, eve : {"none", "a", "b"}, by : Versions]
Opt1(s, T) == s = <<>> \/ (Len(s) = 1 /\ s[1] \in T)
TypeOK ==
    /\ files \in [Files -> [c : 0..K, mt : 0..MaxClock]]
    /\ Opt1(cachef, [model : AbstractModels, o : {OptOf(n) : n \in OptNames},
                     mode : Modes, ver : Versions, mt : 0..MaxClock])
    /\ Opt1(libs, AbstractModels)
    /\ Opt1(held, AbstractModels)
    /\ opts \in OptNames /\ ver \in Versions /\ clock \in 0..MaxClock

(* C20 itself: every transfer returns the compile of the current sources under the current options *)
ResultIsFresh == last.act = "transfer" => last.ret = last.fresh
(* the same as an action property: with a VIEW that hides `last`, TLC evaluates a state invariant only on the
   first representative of a view class, but an action property on every transition it generates *)
ResultIsFreshAct == [][last'.act = "transfer" => last'.ret = last'.fresh]_vars

(* the state invariant behind it: whenever load_model WOULD accept the cache (for any option set and
   mode a caller could use now), what it would hand out is the fresh compile *)
HitImpliesFresh ==
    \A n \in OptNames, m \in Modes :
        Hit(OptOf(n), m) => /\ C.model = Compile(OptOf(n))
                            /\ (m = "codegen" => /\ libs = <<C.model>>
                                                 /\ (held # <<>> /\ ~FreshLibHandles => held = libs))

(* the premise of the property is maintained by the clock *)
ClockInv == /\ \A f \in Files : files[f].mt <= clock
            /\ cachef # <<>> => C.mt <= clock
            /\ (cachef # <<>> /\ C.mode = "codegen") => libs # <<>>

(* an edit / addition invalidates the cache for every option set that can see the file *)
EditInvalidates ==
    [][last'.act \in {"edit", "add"} =>
         \A n \in OptNames, m \in Modes : Visible(last'.f, OptOf(n)) => ~(Hit(OptOf(n), m))']_vars

(* right after a transfer the cache is valid for the options it was called with *)
TransferLeavesValidCache ==
    [][\A m \in Modes : (last'.act = "transfer" /\ last'.mode = m) => (Hit(OptOf(opts), m))']_vars

(* a hit never writes; a miss always rewrites the cache file (and the libraries in codegen mode) *)
HitIsReadOnly ==
    [][last'.act = "transfer" =>
         IF last'.hit THEN cachef' = cachef /\ libs' = libs
         ELSE cachef'[1].mt = clock /\ (last'.mode = "codegen" => libs' = <<cachef'[1].model>>)]_vars

-----------------------------------------------------------------------------
(* Quotient used for the transition graph: mtimes matter only through "newer than the cache" *)
Newer == IF cachef = <<>> THEN {} ELSE {f \in Files : Present(f) /\ files[f].mt > C.mt}
Proj == [pending |-> pending,
         files  |-> [f \in Files |-> files[f].c],
         newer  |-> Newer,
         cachef |-> IF cachef = <<>> THEN <<>> ELSE <<[model |-> C.model, o |-> C.o, mode |-> C.mode, ver |-> C.ver]>>,
         libs   |-> libs, held |-> held, opts |-> opts, ver |-> ver]
View == Proj
Log == PrintT(<<"TR", ToJson([src |-> Proj, act |-> last', dst |-> Proj'])>>)
=============================================================================
