\* C08 quick: modification family to depth 2 (x3 spellings), intended switches, every invariant
CONSTANTS Family = "mods" MaxDepth = 2 Wide = FALSE
 DottedAttrAsValue = FALSE InnerArgsLoseScope = FALSE ReRenameFlatRefs = FALSE AliasOfAliasDropsMods = FALSE InheritedTypeInDerivedScope = FALSE
INIT Init
NEXT Next
VIEW View
CHECK_DEADLOCK FALSE
PROPERTY PhaseOrder
INVARIANT DeclIgnoresSpelling
INVARIANT OpEqualsDecl
INVARIANT SpellingInvariance
INVARIANT OneVariablePerLeaf
INVARIANT CanonicalAccepted
INVARIANT ModsArriveInOrder
INVARIANT NothingPending
