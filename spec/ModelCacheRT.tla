----------------------------- MODULE ModelCacheRT -----------------------------
(* Property C19: a model loaded from the pymoca model cache equals a fresh
   compile.  This module is the "Load(Save(m)) = m" part that belongs to
   ModelCache.tla (C20 treats the model as an opaque value; here it is opened up).

   Oracle mode (DESIGN 2.2 C).  Init picks a program from a bounded family
   (a product of small feature domains; the derivation of the abstract model
   from the features is done HERE, the harness only prints the same features as
   Modelica text).  The phases follow api.py:

     Compile   _compile_model             features -> abstract model
     Save      save_model  (188-291)      Variable.to_dict (MX attributes -> None),
                                          dependency classification of every attribute
                                          (NOT_MX / MX_DEPENDENT / MX_INDEPENDENT),
                                          dependency lists of the delay durations
     Load      load_model  (362-485)      attributes rebuilt from the metadata function
                                          (symbolic parameters for DEPENDENT, NaN
                                          parameters for INDEPENDENT), durations rebuilt
                                          with false dependencies replaced by NaN

   Values.  The model has one Real parameter p that attributes may depend on
   (and q for delay durations).  An attribute value is an affine form
   [k, a, b] = a*p + b with representation k \in {"py" (python scalar), "mx"
   (CasADi MX expression)}.  A duration is an affine form over {p, q}.
   Nan is a value; a*Nan + b = Nan unless a = 0.

   RoundTrip (checked by TLC for every program of the family) says that the
   loaded model has the same variables (names, order, category, python type),
   the same attribute VALUES for every parameter value, the same outputs, delay
   states, strings, alias relation and the same duration values.

   Mutation switches (FALSE = what the code does); with a switch TRUE TLC must
   find a RoundTrip counterexample - they show the invariant is not vacuous:
     SwapDepClasses      MX_DEPENDENT / MX_INDEPENDENT exchanged in save_model
     ForgetOutputs       db["outputs"] not restored
     DurDepsOffByOne     symbol indices of the duration dependencies shifted by one
     ConstMXNotMX        a constant MX attribute classified NOT_MX
     TruthyOptions       option values compared by truthiness only (SwitchedIsFresh must fail)

   After Load the same program is requested once more under the SIBLING option set (eva <-> evb, the
   others have none): the cache must not be used, the result is the compile under the new options
   (SwitchedIsFresh).  This is the part of "for every model and option set" that a single miss/hit
   pair cannot see.                                                                            *)
EXTENDS Integers, Sequences, FiniteSets, TLC, Json

CONSTANTS XKinds,        \* kinds for the four attributes of x: subset of {"none","lit","pdep"}
          YKinds,        \* kind used for min/max/nominal of y
          Aliases,       \* subset of {"none","pos","neg"}:  y = 2*x+1 | y = x | y = -x
          Delays,        \* subset of {"none","lit","par","par_lit","par_par2","sum"}
          Opts,          \* subset of {"base","aliases","rcv","ev","eva","evb"}; eva / evb = eliminable_variable_expression
                         \* r"_a\w*" / r"_b\w*": two option sets that differ only in the VALUE of a non-boolean option
          FKinds,        \* kind of x.fixed: subset of {"none","lit","pdep"}; "pdep" = bound to the Boolean parameter bb.
                         \* Under option set "rpv" (replace_parameter_values) the parameters are substituted: Real attributes
                         \* become python numbers, but fixed = bb stays an MX - a CONSTANT MX (class MX_INDEPENDENT)
          Typed, Strs, Outs,      \* subsets of BOOLEAN: Integer/Boolean variables, a String parameter, an output
          SwapDepClasses, ForgetOutputs, DurDepsOffByOne,
          ConstMXNotMX,  \* mutation: a constant MX attribute is classified NOT_MX (its value is then lost: to_dict stored None)
          TruthyOptions  \* mutation: load_model compares only whether an option is switched on, not its value

VARIABLES prog, phase, model, db, loaded, switched

vars == <<prog, phase, model, db, loaded, switched>>

Attrs == <<"start", "min", "max", "nominal", "fixed">>
NA == 5
Nan == 0 - 1000000            \* numeric stand-in for NaN (TLC cannot compare a string with a number)

(* attribute values: defaults, literals and parameter-dependent forms per attribute *)
Default(at) == [k |-> "py", a |-> 0, b |-> CASE at = "start" -> 0 [] at = "min" -> 0 - 999 [] at = "max" -> 999 [] at = "nominal" -> 0 [] at = "fixed" -> 0]
Lit(at)     == [k |-> "py", a |-> 0, b |-> CASE at = "start" -> 1 [] at = "min" -> 0 - 4 [] at = "max" -> 3 [] at = "nominal" -> 2 [] at = "fixed" -> 1]
PDep(at)    == CASE at = "start"   -> [k |-> "mx", a |-> 1, b |-> 0]          \* p
                 [] at = "min"     -> [k |-> "mx", a |-> 0 - 1, b |-> 0]      \* -p
                 [] at = "max"     -> [k |-> "mx", a |-> 2, b |-> 0]          \* 2*p
                 [] at = "nominal" -> [k |-> "mx", a |-> 1, b |-> 1]          \* p+1
                 [] at = "fixed"   -> [k |-> "mx", a |-> 1, b |-> 0]          \* bb (Boolean parameter)
ValueOf(kind, at) == CASE kind = "none" -> Default(at) [] kind = "lit" -> Lit(at) [] kind = "pdep" -> PDep(at)

Eval(v, pv) == IF v.a = 0 THEN v.b ELSE IF pv = Nan THEN Nan ELSE v.a * pv + v.b
ParamValues == {0 - 1, 0, 2}

(* durations: affine over p and q *)
Dur(cp, cq, c0, k) == [cp |-> cp, cq |-> cq, c0 |-> c0, k |-> k]
DurationsOf(d) == CASE d = "none"     -> <<>>
                    [] d = "lit"      -> <<Dur(0, 0, 2, "py")>>
                    [] d = "par"      -> <<Dur(1, 0, 0, "mx")>>
                    [] d = "par_lit"  -> <<Dur(1, 0, 0, "mx"), Dur(0, 0, 3, "py")>>
                    [] d = "par_par2" -> <<Dur(1, 0, 0, "mx"), Dur(0, 1, 0, "mx")>>
                    [] d = "sum"      -> <<Dur(1, 1, 0, "mx"), Dur(0, 1, 1, "mx")>>
EvalDur(d, pv, qv) == LET tp == IF d.cp = 0 THEN 0 ELSE IF pv = Nan THEN Nan ELSE d.cp * pv
                          tq == IF d.cq = 0 THEN 0 ELSE IF qv = Nan THEN Nan ELSE d.cq * qv
                      IN  IF tp = Nan \/ tq = Nan THEN Nan ELSE tp + tq + d.c0

Programs == [xk : [1..4 -> XKinds], xf : FKinds, yk : YKinds, alias : Aliases, delay : Delays, opt : Opts,
             typed : Typed, str : Strs, out : Outs]

(* programs outside the supported subset (calibration, see notes/C19.md) are not in the family *)
InFamily(pr) == /\ (pr.xf = "pdep" => pr.typed)                      \* fixed = bb needs the Boolean parameter
                /\ (pr.opt = "rpv" => pr.delay \in {"none", "lit"})     \* replace_parameter_values + parameter-dependent duration: C22's finding

-----------------------------------------------------------------------------
(* Compile: features -> abstract model.  With detect_aliases an alias y is eliminated and its attributes
   are merged into x by the simplifier (C16's business): those attributes are then "merged" - the spec
   does not predict their value, only that Save/Load must preserve it. *)
Var(n, cat, ty, at) == [name |-> n, cat |-> cat, ty |-> ty, attrs |-> at]
NoAttrs == [i \in 1..NA |-> Default(Attrs[i])]
(* replace_parameter_values: every parameter has a number (p = 2, bb = true): Real attributes end up as python numbers,
   the Boolean one stays a (now constant) MX *)
Resolved(pr, v, at) == IF pr.opt # "rpv" \/ v.k # "mx" THEN v
                       ELSE IF at = "fixed" THEN [k |-> "mx", a |-> 0, b |-> Eval(v, 1)]
                       ELSE [k |-> "py", a |-> 0, b |-> Eval(v, 2)]
Merged(pr) == pr.opt = "aliases" /\ pr.alias # "none"

CompileOf(pr) ==
    LET xa == [i \in 1..NA |-> IF i = 5 THEN Resolved(pr, ValueOf(pr.xf, "fixed"), "fixed")
                               ELSE IF Merged(pr) /\ i > 1 /\ (pr.xk[i] # "none" \/ pr.yk # "none")
                               THEN [k |-> "merged", a |-> IF pr.xk[i] = "pdep" \/ pr.yk = "pdep" THEN 1 ELSE 0, b |-> 0]
                               ELSE Resolved(pr, ValueOf(pr.xk[i], Attrs[i]), Attrs[i])]
        ya == [i \in 1..NA |-> IF i \in {1, 5} THEN Default(Attrs[i]) ELSE Resolved(pr, ValueOf(pr.yk, Attrs[i]), Attrs[i])]
        nd == Len(DurationsOf(pr.delay))
        states == <<Var("x", "states", "float", xa)>>
        algs == (IF Merged(pr) THEN <<>> ELSE <<Var("y", "alg_states", "float", ya)>>)
                \o (IF pr.typed THEN <<Var("k", "alg_states", "int", NoAttrs), Var("f", "alg_states", "bool", NoAttrs)>> ELSE <<>>)
                \o (IF pr.opt = "ev" THEN <<Var("v[1]", "alg_states", "float", NoAttrs), Var("v[2]", "alg_states", "float", NoAttrs)>>
                                     ELSE <<Var("v", "alg_states", "float", NoAttrs)>>)
                \o (IF pr.opt = "eva" THEN <<>> ELSE <<Var("_a1", "alg_states", "float", NoAttrs)>>)    \* _a1 = 2*x, eliminated by r"_a\w*"
                \o (IF pr.opt = "evb" THEN <<>> ELSE <<Var("_b1", "alg_states", "float", NoAttrs)>>)    \* _b1 = 3*x, eliminated by r"_b\w*"
                \o (IF pr.out THEN <<Var("o", "alg_states", "float", NoAttrs)>> ELSE <<>>)
                \o (IF pr.opt = "aliases" THEN <<>>        \* d_i = delay(...) is an alias of the delay input and is eliminated
                    ELSE [i \in 1..nd |-> Var(IF i = 1 THEN "d1" ELSE "d2", "alg_states", "float", NoAttrs)])
        dname(i) == (IF i = 1 THEN "_pymoca_delay_0" ELSE "_pymoca_delay_1") \o (IF pr.opt = "ev" THEN "[1,1]" ELSE "")
        inputs == [i \in 1..nd |-> Var(dname(i), "inputs", "float", NoAttrs)]      \* one input per delay(...) expression
                  \o <<Var("u", "inputs", "float", [NoAttrs EXCEPT ![2] = Resolved(pr, PDep("min"), "min")])>>
        consts == IF pr.opt = "rcv" THEN <<>> ELSE <<Var("c", "constants", "float", NoAttrs)>>
        params == IF pr.opt = "rpv" THEN <<>> ELSE     \* all parameters have numeric values and are substituted away
                  <<Var("p", "parameters", "float", NoAttrs),
                    Var("q", "parameters", "float", [NoAttrs EXCEPT ![3] = PDep("max")])>>
                  \o (IF pr.typed THEN <<Var("n", "parameters", "int", NoAttrs), Var("bb", "parameters", "bool", NoAttrs)>> ELSE <<>>)
    IN  [vars |-> states \o algs \o inputs \o params \o consts,
         outputs |-> IF pr.out THEN <<"o">> ELSE <<>>,
         ndelay |-> nd,
         durations |-> DurationsOf(pr.delay),
         strings |-> IF pr.str THEN <<"s">> ELSE <<>>,
         alias |-> IF Merged(pr) THEN <<"x", pr.alias>> ELSE <<>>]

(* save_model *)
NOT_MX == 0
PyNone == [k |-> "None", a |-> 0, b |-> 0]
MX_DEPENDENT == IF SwapDepClasses THEN 2 ELSE 1
MX_INDEPENDENT == IF SwapDepClasses THEN 1 ELSE 2
IsMX(v) == v.k # "py"
Classify(v) == IF ~IsMX(v) THEN NOT_MX
               ELSE IF v.a # 0 THEN MX_DEPENDENT
               ELSE IF ConstMXNotMX THEN NOT_MX ELSE MX_INDEPENDENT
DurDeps(d) == {s \in {"p", "q"} : (s = "p" /\ d.cp # 0) \/ (s = "q" /\ d.cq # 0)}
Shift(S) == IF DurDepsOffByOne THEN {IF s = "p" THEN "q" ELSE "none" : s \in S} ELSE S

SaveOf(m) ==
    [vars |-> [i \in 1..Len(m.vars) |->
                 [name |-> m.vars[i].name, cat |-> m.vars[i].cat, ty |-> m.vars[i].ty,
                  dict |-> [j \in 1..NA |-> IF IsMX(m.vars[i].attrs[j]) THEN PyNone ELSE m.vars[i].attrs[j]],   \* Variable.to_dict
                  dep  |-> [j \in 1..NA |-> Classify(m.vars[i].attrs[j])]]],
     meta |-> [i \in 1..Len(m.vars) |-> [j \in 1..NA |-> [a |-> m.vars[i].attrs[j].a, b |-> m.vars[i].attrs[j].b]]],   \* variable_metadata_function
     outputs |-> m.outputs, ndelay |-> m.ndelay, strings |-> m.strings, alias |-> m.alias,
     durfun |-> m.durations,                                                                                    \* delay_arguments_function
     durdeps |-> [i \in 1..Len(m.durations) |-> Shift(DurDeps(m.durations[i]))]]

(* load_model *)
LoadAttr(d, i, j) ==
    LET dep == d.vars[i].dep[j]
        f   == d.meta[i][j]
    IN  IF dep = 1 THEN [k |-> "mx", a |-> f.a, b |-> f.b]                                 \* metadata(parameter symbols)
        ELSE IF dep = 2 THEN [k |-> "mx", a |-> 0, b |-> Eval([a |-> f.a, b |-> f.b], Nan)]  \* MX(metadata(nan))
        ELSE d.vars[i].dict[j]
LoadDur(d, i) ==
    LET raw    == d.durfun[i]
        actual == UNION {d.durdeps[k] : k \in 1..Len(d.durdeps)}
        mine   == d.durdeps[i]
        keep(s) == IF mine = {} THEN FALSE ELSE s \in mine       \* everything else is replaced by NaN
    IN  [cp |-> raw.cp, cq |-> raw.cq, c0 |-> raw.c0, k |-> "mx", nanp |-> ~keep("p"), nanq |-> ~keep("q")]
LoadOf(d) ==
    [vars |-> [i \in 1..Len(d.vars) |-> [name |-> d.vars[i].name, cat |-> d.vars[i].cat, ty |-> d.vars[i].ty,
                                         attrs |-> [j \in 1..NA |-> LoadAttr(d, i, j)]]],
     outputs |-> IF ForgetOutputs THEN <<>> ELSE d.outputs,
     ndelay |-> d.ndelay, strings |-> d.strings, alias |-> d.alias,
     durations |-> [i \in 1..Len(d.durfun) |-> LoadDur(d, i)]]

-----------------------------------------------------------------------------
Init == /\ prog \in {pr \in Programs : InFamily(pr)}
        /\ phase = "chosen" /\ model = <<>> /\ db = <<>> /\ loaded = <<>> /\ switched = <<>>

Compile == phase = "chosen" /\ model' = CompileOf(prog) /\ phase' = "compiled" /\ UNCHANGED <<prog, db, loaded, switched>>
Save    == phase = "compiled" /\ db' = SaveOf(model) /\ phase' = "saved" /\ UNCHANGED <<prog, model, loaded, switched>>

(* the options check of load_model (api.py: old_opts != new_opts), reduced to the one non-boolean option *)
Sibling(o) == IF o = "eva" THEN "evb" ELSE IF o = "evb" THEN "eva" ELSE o
OptValue(o) == IF o \in {"eva", "evb"} THEN (IF TruthyOptions THEN "on" ELSE o) ELSE o
SameOptions(o1, o2) == OptValue(o1) = OptValue(o2)

Tags(pr) == {"opt:" \o pr.opt, "alias:" \o pr.alias, "delay:" \o pr.delay, "y:" \o pr.yk}
            \cup (IF pr.typed THEN {"typed"} ELSE {}) \cup (IF pr.str THEN {"string"} ELSE {}) \cup (IF pr.out THEN {"output"} ELSE {})
            \cup {"fixed:" \o pr.xf}
            \cup {"x:" \o pr.xk[1] \o "," \o pr.xk[2] \o "," \o pr.xk[3] \o "," \o pr.xk[4]}
Expect == [dep |-> [i \in 1..Len(db.vars) |-> [name |-> db.vars[i].name, cat |-> db.vars[i].cat,
                                               dep |-> db.vars[i].dep,
                                               sure |-> [j \in 1..NA |-> model.vars[i].attrs[j].k # "merged"]]],
           durdeps |-> [i \in 1..Len(db.durdeps) |-> db.durdeps[i]],
           names |-> [i \in 1..Len(db.vars) |-> db.vars[i].name]]
Load    == /\ phase = "saved" /\ loaded' = LoadOf(db) /\ phase' = "loaded" /\ UNCHANGED <<prog, model, db, switched>>
           /\ PrintT(<<"PROG", ToJson([prog |-> prog, tags |-> Tags(prog), expect |-> Expect, sibling |-> Sibling(prog.opt)])>>)

(* third call: same sources, sibling option set *)
Switch  == /\ phase = "loaded" /\ Sibling(prog.opt) # prog.opt
           /\ switched' = IF SameOptions(prog.opt, Sibling(prog.opt)) THEN loaded      \* cache accepted
                           ELSE CompileOf([prog EXCEPT !.opt = Sibling(prog.opt)])      \* InvalidCacheError -> recompile
           /\ phase' = "switched" /\ UNCHANGED <<prog, model, db, loaded>>

Next == Compile \/ Save \/ Load \/ Switch

-----------------------------------------------------------------------------
(* the property on the abstract model *)
SameVars == /\ Len(loaded.vars) = Len(model.vars)
            /\ \A i \in 1..Len(model.vars) :
                 /\ loaded.vars[i].name = model.vars[i].name
                 /\ loaded.vars[i].cat = model.vars[i].cat
                 /\ loaded.vars[i].ty = model.vars[i].ty
SameAttrValues == \A i \in 1..Len(model.vars) : \A j \in 1..NA : \A pv \in ParamValues :
                     Eval(loaded.vars[i].attrs[j], pv) = Eval(model.vars[i].attrs[j], pv)
DurValue(d, pv, qv) == IF "nanp" \in DOMAIN d
                       THEN EvalDur(d, IF d.nanp THEN Nan ELSE pv, IF d.nanq THEN Nan ELSE qv)
                       ELSE EvalDur(d, pv, qv)
SameDurations == /\ Len(loaded.durations) = Len(model.durations)
                 /\ \A i \in 1..Len(model.durations) : \A pv \in ParamValues, qv \in ParamValues :
                        DurValue(loaded.durations[i], pv, qv) = DurValue(model.durations[i], pv, qv)
SwitchedIsFresh == phase = "switched" =>
    LET want == CompileOf([prog EXCEPT !.opt = Sibling(prog.opt)])
    IN  /\ Len(switched.vars) = Len(want.vars)
        /\ \A i \in 1..Len(want.vars) : switched.vars[i].name = want.vars[i].name
RoundTrip == phase \in {"loaded", "switched"} =>
                /\ SameVars /\ SameAttrValues /\ SameDurations
                /\ loaded.outputs = model.outputs /\ loaded.ndelay = model.ndelay
                /\ loaded.strings = model.strings /\ loaded.alias = model.alias
(* what Variable.to_dict hands to pickle never contains an MX *)
NoMXPickled == phase \in {"saved", "loaded"} =>
                 \A i \in 1..Len(db.vars) : \A j \in 1..NA :
                    (db.vars[i].dict[j] = PyNone) = (db.vars[i].dep[j] # NOT_MX)
=============================================================================
