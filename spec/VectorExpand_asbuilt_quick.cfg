\* (fixed in /repo by 7be568a: the switch is TRUE again; kept for regression)
\* C18 family (quick), AS-BUILT: a list-valued attribute of an array inside an array of components is indexed with
\* the whole index tuple (TypeError).  No invariant listed: PROG lines carry modelraises; the harness replays.
CONSTANTS Tier = "quick" NestedAttrByOwnDims = TRUE
INIT Init
NEXT Next
INVARIANT NamesAgree
INVARIANT RenamingFaithful
CHECK_DEADLOCK FALSE
