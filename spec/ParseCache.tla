----------------------------- MODULE ParseCache -----------------------------
(* Property C01: parser.parse() with its sqlite text cache is transparent over
   any history of the cache folder.

   Abstract state of src/pymoca/parser.py::parse
     db      the cache database file
               "absent"                        no file
               "corrupt"                       file exists, is not a sqlite database
               [models, meta, rows, lastPrune] a database; models/meta \in
                                               {"absent","wrong","ok"} is the layout of the
                                               two tables; rows : Key -> [blob, hit]
     inited  this process has the db path in parse.initialized_dbs
     ver     pymoca.__version__ ("dirty" = a version ending in ".dirty")
     day     the clock, in days (the binding maps it to strictly increasing microseconds)
     last    history variable (hidden by VIEW): last action with its observable result

   Parse() is ONE action (the library is sequential); its definition is the
   sequential composition of operators named after the code blocks of parse().
   Environment actions are the faults the property lists, enabled at ANY point
   of a history, i.e. also after this process initialised the database.

   As-built switches (DESIGN 2.4) reproduce deviations of the pinned code:
     InitedSkipsChecks       integrity/layout checks run once per process only, a later
                             corrupt file / wrong layout makes the lookup raise
     CatchesOnlyUnpickling   only pickle.UnpicklingError is caught; an empty blob raises EOFError
*)
EXTENDS Integers, Sequences, FiniteSets, TLC, Json

CONSTANTS GoodTexts, BadTexts,    \* texts that parse / have a syntax error
          Versions,               \* clean versions; "dirty" is always available
          MaxDay,                 \* clock bound
          ExpChoices,             \* values of cache_expiration_days that are explored
          MaxOps,                 \* history length bound (large = unbounded; the graph is finite)
          InitedSkipsChecks, CatchesOnlyUnpickling,
          FaultsIncludeRemoval    \* deleting the file is modelled but not a listed fault

VARIABLES db, inited, ver, day, ops, last
vars == <<db, inited, ver, day, ops, last>>

Texts == GoodTexts \cup BadTexts
Keys == Texts \X Versions
BlobKinds == {"good", "garbage", "empty"}   \* garbage -> UnpicklingError, empty -> EOFError
Layouts == {"absent", "wrong", "ok"}

Fresh(t) == IF t \in GoodTexts THEN <<"tree", t>> ELSE <<"none">>   \* what an uncached parse returns

EmptyRows == [k \in {} |-> 0]
EmptyDb == [file |-> "db", models |-> "absent", meta |-> "absent", rows |-> EmptyRows, lastPrune |-> 0]
AbsentDb == [EmptyDb EXCEPT !.file = "absent"]     \* TLC cannot compare records with strings: one shape
CorruptDb == [EmptyDb EXCEPT !.file = "corrupt"]
IsDb(d) == d.file = "db"

Max(a, b) == IF a >= b THEN a ELSE b
Restrict(f, S) == [k \in S |-> f[k]]

-----------------------------------------------------------------------------
(* the code blocks of parse(), as operators on the db value *)

Connect(d) == IF d.file = "absent" THEN EmptyDb ELSE d       \* sqlite3.connect creates the file

(* PRAGMA integrity_check fails -> close, os.remove, connect again *)
IntegrityOrRecreate(d) == IF d.file = "corrupt" THEN EmptyDb ELSE d

(* _check_database_structure, first half: table models *)
CheckModels(d) == IF d.models = "ok" THEN d
                  ELSE [d EXCEPT !.models = "ok", !.rows = EmptyRows]
(* second half: table metadata and its two keys *)
CheckMeta(d, now) == IF d.meta = "ok" THEN d
                     ELSE [d EXCEPT !.meta = "ok", !.lastPrune = now]

(* DELETE FROM models WHERE last_hit < now - exp ; UPDATE last_prune *)
Expired(row, now, exp) == row.hit <= now - exp
Prune(d, now, exp) ==
    [d EXCEPT !.rows = Restrict(@, {k \in DOMAIN @ : ~Expired(@[k], now, exp)}),
              !.lastPrune = Max(@, now)]   \* max(value+1us, now): the clock is strictly increasing

InitBlock(d, now, exp) == Prune(CheckMeta(CheckModels(IntegrityOrRecreate(d)), now), now, exp)

Found(d, k) == k \in DOMAIN d.rows
(* UPDATE models SET last_hit = max(last_hit+1, now) when always_update or older than a day *)
Touch(d, k, now, upd) ==
    IF Found(d, k) /\ (upd \/ d.rows[k].hit <= now - 1)
    THEN [d EXCEPT !.rows[k].hit = Max(@, now)] ELSE d   \* max(last_hit+1us, now)
Store(d, k, now) ==
    [d EXCEPT !.rows = [kk \in DOMAIN @ \cup {k} |-> IF kk = k THEN [blob |-> "good", hit |-> now] ELSE @[kk]]]

(* can the SELECT on table models run at all? *)
Usable(d) == IsDb(d) /\ d.models = "ok"

-----------------------------------------------------------------------------
Init == /\ db = AbsentDb /\ inited = FALSE /\ ver = (CHOOSE v \in Versions : TRUE) /\ day = 0 /\ ops = 0
        /\ last = [act |-> "init"]

Result(t, exp, upd, byp, res, path) ==
    last' = [act |-> "parse", t |-> t, exp |-> exp, upd |-> upd, byp |-> byp, result |-> res, path |-> path]

Parse(t, exp, upd, byp) ==
    IF byp \/ ver = "dirty"
    THEN /\ Result(t, exp, upd, byp, Fresh(t), "bypass")
         /\ UNCHANGED <<db, inited>>
    ELSE
      LET d1   == Connect(db)
          skip == inited /\ InitedSkipsChecks
          \* intended: a process that finds its database unusable runs the init block again
          d2   == IF skip \/ (inited /\ Usable(d1)) THEN d1 ELSE InitBlock(d1, day, exp)
          k    == <<t, ver>>
      IN  IF ~Usable(d2)
          THEN \* as-built only: sqlite3.DatabaseError / OperationalError escapes
               /\ Result(t, exp, upd, byp, <<"raise", "db">>, "lookup-raises")
               /\ db' = d2 /\ inited' = TRUE
          ELSE
            LET found == Found(d2, k)
                d3    == Touch(d2, k, day, upd)
                blob  == IF found THEN d2.rows[k].blob ELSE "none"
            IN  IF found /\ blob = "empty" /\ CatchesOnlyUnpickling
                THEN /\ Result(t, exp, upd, byp, <<"raise", "unpickle">>, "unpickle-raises")
                     /\ db' = d3 /\ inited' = TRUE
                ELSE IF found /\ blob = "good"
                THEN /\ Result(t, exp, upd, byp, <<"tree", t>>, "hit")
                     /\ db' = d3 /\ inited' = TRUE
                ELSE \* miss, or entry that no longer unpickles: parse, store unless None
                     /\ Result(t, exp, upd, byp, Fresh(t), IF found THEN "reparse-after-bad-blob" ELSE "miss")
                     /\ db' = IF t \in GoodTexts THEN Store(d3, k, day) ELSE d3
                     /\ inited' = TRUE

(* bypass_cache=TRUE never looks at the other arguments: one representative combination *)
ParseAct == \/ \E t \in Texts, exp \in ExpChoices, upd \in BOOLEAN :
                Parse(t, exp, upd, FALSE) /\ UNCHANGED <<ver, day>>
            \/ \E t \in Texts : Parse(t, 30, FALSE, TRUE) /\ UNCHANGED <<ver, day>>

(* ---- environment: the faults and events the property quantifies over ---- *)
Reload == /\ inited /\ inited' = FALSE /\ last' = [act |-> "reload"]
          /\ UNCHANGED <<db, ver, day>>
SetVersion == \E v \in (Versions \cup {"dirty"}) \ {ver} :
                 /\ ver' = v /\ last' = [act |-> "setversion", v |-> v]
                 /\ UNCHANGED <<db, inited, day>>
Tick == /\ day < MaxDay /\ day' = day + 1 /\ last' = [act |-> "tick"]
        /\ UNCHANGED <<db, inited, ver>>
CorruptEntry == /\ IsDb(db)
                /\ \E k \in DOMAIN db.rows, kind \in BlobKinds \ {"good"} :
                      /\ db.rows[k].blob # kind
                      /\ db' = [db EXCEPT !.rows[k].blob = kind]
                      /\ last' = [act |-> "corruptentry", t |-> k[1], v |-> k[2], kind |-> kind]
                /\ UNCHANGED <<inited, ver, day>>
CorruptLayout == /\ IsDb(db)
                 /\ \E tbl \in {"models", "meta"}, how \in {"wrong", "absent"} :
                       /\ db[tbl] = "ok"
                       /\ db' = IF tbl = "models" THEN [db EXCEPT !.models = how, !.rows = EmptyRows]
                                                  ELSE [db EXCEPT !.meta = how]
                       /\ last' = [act |-> "corruptlayout", tbl |-> tbl, how |-> how]
                 /\ UNCHANGED <<inited, ver, day>>
CorruptFile == /\ db.file = "db" /\ db' = CorruptDb /\ last' = [act |-> "corruptfile"]
               /\ UNCHANGED <<inited, ver, day>>
RemoveFile == /\ FaultsIncludeRemoval /\ db.file # "absent" /\ db' = AbsentDb /\ last' = [act |-> "removefile"]
              /\ UNCHANGED <<inited, ver, day>>

Next == /\ ops < MaxOps /\ ops' = ops + 1
        /\ (ParseAct \/ Reload \/ SetVersion \/ Tick \/ CorruptEntry \/ CorruptLayout \/ CorruptFile \/ RemoveFile)
Spec == Init /\ [][Next]_vars

-----------------------------------------------------------------------------
(* The property *)
(* `last' is hidden by VIEW, so these are action properties: TLC evaluates them on EVERY explored
   transition, also on those that lead to an already known state *)
ResultIsFresh == [][last'.act = "parse" => last'.result = Fresh(last'.t)]_vars
NeverRaises == [][last'.act = "parse" => last'.result[1] # "raise"]_vars
NoneNeverStored == IsDb(db) => \A k \in DOMAIN db.rows : k[1] \in GoodTexts

(* spec sanity, not verdict relevant *)
TypeOK == /\ db \in {AbsentDb, CorruptDb} \/
             (/\ db.file = "db" /\ db.models \in Layouts /\ db.meta \in Layouts
              /\ DOMAIN db.rows \subseteq Keys
              /\ \A k \in DOMAIN db.rows : db.rows[k].blob \in BlobKinds /\ db.rows[k].hit \in 0..MaxDay
              /\ (db.models # "ok" => DOMAIN db.rows = {}))
          /\ inited \in BOOLEAN /\ ver \in Versions \cup {"dirty"} /\ day \in 0..MaxDay
(* a row only disappears through pruning or a fault / recreation of its table *)
RowsOnlyLeaveWhenExpiredOrLost ==
    [][(IsDb(db) /\ IsDb(db') /\ last'.act = "parse" /\ db.models = "ok" /\ db'.models = "ok")
        => \A k \in DOMAIN db.rows \ DOMAIN db'.rows : Expired(db.rows[k], day, last'.exp)]_vars

-----------------------------------------------------------------------------
Proj(d, i, v, dy) == [db |-> IF IsDb(d) THEN [file |-> "db", models |-> d.models, meta |-> d.meta,
                                                lastPrune |-> IF d.meta = "ok" THEN d.lastPrune ELSE 0,
                                                rows |-> {[t |-> k[1], v |-> k[2], blob |-> d.rows[k].blob, hit |-> d.rows[k].hit] : k \in DOMAIN d.rows}]
                                          ELSE [file |-> d.file],
                      inited |-> i, ver |-> v, day |-> dy]
View == <<db, inited, ver, day>>
ViewOps == <<db, inited, ver, day, ops>>
Log == PrintT(<<"TR", ToJson([src |-> Proj(db, inited, ver, day), act |-> last', dst |-> Proj(db', inited', ver', day')])>>)
=============================================================================
