------------------------------- MODULE EvalGen -------------------------------
(* Operational model of pymoca's CasADi generator (backends/casadi/generator.py)
   for the program fragment of Eval.tla, and the oracle machine that TLC runs.

   Eval.tla says what a flat equation MEANS (arrays in Modelica order, 1-based
   subscripts, IndexOK, sequential algorithm sections).  This module says what
   the generator DOES:

     * symbols are r x c matrices stored COLUMN-major, subscripts become 0-based
       (get_indexed_symbol: "sl - 1"), integer subscripts are range-checked, slices
       become Python slices handed to CasADi (negative start wraps around, stop
       beyond the length raises inside CasADi),
     * operators go through OP_MAP to MX methods ("and" -> __mul__, "or" -> __add__, ...),
     * if-expressions and if-equations are folded from the right into if_else chains,
     * a for-equation is a loop body over placeholder symbols ("indexed symbols")
       mapped over arange(start, stop + step, step); the k-th column of
       orig[index_function(indices - 1)] feeds iteration k; the result is
       transposed, so the rows come out equation-major,
     * a function is executed symbolically (get_function): assignments are
       substituted in order, an if-statement is merged PER VARIABLE into if_else
       chains, a for-statement is unrolled into assignments,
     * an equation is lhs - rhs with the "transpose the rhs if that makes the
       shapes fit" and the "truncate surplus function outputs" rules.

   Places where the pinned code deviates from what the properties need are
   Boolean CONSTANTs (DESIGN 2.4); *_intended.cfg sets them so that the
   invariants hold, *_asbuilt.cfg as the code behaves (TLC then produces the
   shortest counterexample program, which the harness replays on the code).

   Machine: Init picks a program; one TranslateEquation step per equation
   (exitEquation ..., first the equation section, then the initial one);
   Finish (exitClass: discard empty, veccat).  Invariants compare, per
   equation and evaluation point, the value of the lowered form with the
   declarative rows.                                                         *)
EXTENDS EvalFam, Json, SequencesExt, IOUtils

CONSTANTS DivMapped,              \* "/" maps to an MX method that exists        (was "__div__", absent in casadi 3.8; fixed in /repo 292c263,
                                  \*                                               so the as-built cfgs now also say TRUE)
          SlicesRangeChecked,     \* slice bounds are checked against 1..n       (as built: unchecked Python slice)
          LoopIndexRangeChecked,  \* loop-dependent subscripts are checked       (as built: negative 0-based index wraps around)
          PartialSubscriptIsRow,  \* A[i] on a matrix means A[i, :]              (as built: linear column-major element i)
          CallFirstOutput,        \* f(..) inside an expression = first output   (as built: vertcat of all outputs)
          StepRangeParsed,        \* a:b:c is start:step:stop                    (as built: read as start:stop:step)
          RangeStopExact,         \* a loop range never goes beyond its stop      (as built: arange(start, stop + step, step) overshoots
                                  \*                                               when stop - start is no multiple of step)
          IfStmtSequential,       \* if-statement branches run sequentially      (as built: merged per variable, in order of first appearance)
          ExploreOptions          \* TRUE: every program under all 8 (unroll_loops, inline_functions, expand_mx) sets (C12)

ASSUME RatSane        \* Rat.tla: field / order laws of the exact arithmetic on a small grid, checked by TLC at start-up

-----------------------------------------------------------------------------
(* matrices as CasADi stores them: r x c, elements column-major *)
MM(r, c, d) == [r |-> r, c |-> c, d |-> d]
M11(q)  == MM(1, 1, <<q>>)
MErr    == MM(-1, -1, <<>>)
MIsErr(a) == a.r < 0
MShape(dims) == IF Len(dims) = 0 THEN <<1, 1>> ELSE IF Len(dims) = 1 THEN <<dims[1], 1>> ELSE <<dims[1], dims[2]>>
ToM(v) == IF Len(v.sh) < 2 THEN MM(MShape(v.sh)[1], 1, v.d)
          ELSE LET r == v.sh[1] c == v.sh[2]
               IN  MM(r, c, [j \in 1..(r * c) |-> v.d[((j - 1) % r) * c + ((j - 1) \div r) + 1]])
MT(a) == MM(a.c, a.r, [j \in 1..(a.r * a.c) |-> a.d[((j - 1) % a.c) * a.r + ((j - 1) \div a.c) + 1]])
MEmpty == MM(0, 1, <<>>)

(* OP_MAP of generator.py, and what the MX methods compute on scalars *)
OpMap == [o \in {"*", "+", "-", "/", "^", ">", "<", "<=", ">=", "==", "min", "max", "abs", "and", "or"} |->
            CASE o = "*" -> "__mul__" [] o = "+" -> "__add__" [] o = "-" -> "__sub__"
              [] o = "/" -> (IF DivMapped THEN "__truediv__" ELSE "__div__")
              [] o = "^" -> "__pow__" [] o = ">" -> "__gt__" [] o = "<" -> "__lt__" [] o = "<=" -> "__le__"
              [] o = ">=" -> "__ge__" [] o = "==" -> "__eq__" [] o = "min" -> "fmin" [] o = "max" -> "fmax"
              [] o = "abs" -> "fabs" [] o = "and" -> "__mul__" [] o = "or" -> "__add__"]
MXMethods2 == {"__mul__", "__add__", "__sub__", "__truediv__", "__pow__", "__gt__", "__lt__", "__le__", "__ge__", "__eq__", "fmin", "fmax"}
MXMethods1 == {"fabs", "floor", "ceil", "sign"} \cup Elementary
MX2(m, x, y) ==
    IF IsUnd(x) \/ IsUnd(y) THEN Und
    ELSE CASE m = "__mul__" -> RMul(x, y) [] m = "__add__" -> RAdd(x, y) [] m = "__sub__" -> RSub(x, y)
           [] m = "__truediv__" -> RDiv(x, y) [] m = "__pow__" -> RPow(x, y)
           [] m = "__gt__" -> Bool(RLt(y, x)) [] m = "__lt__" -> Bool(RLt(x, y))
           [] m = "__le__" -> Bool(RLe(x, y)) [] m = "__ge__" -> Bool(RLe(y, x))
           [] m = "__eq__" -> Bool(x = y)
           [] m = "fmin" -> (IF RLt(y, x) THEN y ELSE x) [] m = "fmax" -> (IF RLt(x, y) THEN y ELSE x)
MX1(m, x) ==
    IF IsUnd(x) THEN Und
    ELSE CASE m = "neg" -> RNeg(x) [] m = "fabs" -> RAbs(x) [] m = "floor" -> RFloor(x) [] m = "ceil" -> RCeil(x)
           [] m = "sign" -> RSign(x) [] OTHER -> Und

MBin(m, a, b) ==
    IF MIsErr(a) \/ MIsErr(b) THEN MErr
    ELSE IF a.r = b.r /\ a.c = b.c THEN MM(a.r, a.c, [i \in DOMAIN a.d |-> MX2(m, a.d[i], b.d[i])])
    ELSE IF a.r * a.c = 1 THEN MM(b.r, b.c, [i \in DOMAIN b.d |-> MX2(m, a.d[1], b.d[i])])
    ELSE IF b.r * b.c = 1 THEN MM(a.r, a.c, [i \in DOMAIN a.d |-> MX2(m, a.d[i], b.d[1])])
    ELSE MErr
MUn(m, a) == IF MIsErr(a) THEN MErr ELSE MM(a.r, a.c, [i \in DOMAIN a.d |-> MX1(m, a.d[i])])

RECURSIVE MVcat(_)
MVcat(ms) ==      \* vertical concatenation of column vectors / equally wide matrices
    IF ms = <<>> THEN MEmpty
    ELSE IF Len(ms) = 1 THEN ms[1]
    ELSE LET a == ms[1]
             b == MVcat(Tail(ms))
         IN  IF MIsErr(a) \/ MIsErr(b) THEN MErr
             ELSE IF a.r = 0 THEN b ELSE IF b.r = 0 THEN a
             ELSE IF a.c # b.c THEN MErr
             ELSE MM(a.r + b.r, a.c, [j \in 1..((a.r + b.r) * a.c) |->
                        LET col == (j - 1) \div (a.r + b.r)
                            row == (j - 1) % (a.r + b.r)
                        IN  IF row < a.r THEN a.d[col * a.r + row + 1] ELSE b.d[col * b.r + (row - a.r) + 1]])
MVec(a) == IF MIsErr(a) THEN a ELSE MM(a.r * a.c, 1, a.d)

-----------------------------------------------------------------------------
(* lowered expressions ("MX graph") *)
LC(m)             == [k |-> "c", m |-> m]
LSym(n, r, c)     == [k |-> "sym", n |-> n, r |-> r, c |-> c]
LGet(x, idx, r, c) == [k |-> "get", x |-> x, idx |-> idx, r |-> r, c |-> c]    \* 0-based column-major positions
LUn(m, x)         == [k |-> "un", m |-> m, x |-> x]
LBin(m, x, y)     == [k |-> "bin", m |-> m, x |-> x, y |-> y]
LIte(c, t, e)     == [k |-> "ite", c |-> c, t |-> t, e |-> e]                   \* if_else(c, t, e, True)
LVcat(xs)         == [k |-> "vcat", xs |-> xs]
LTr(x)            == [k |-> "T", x |-> x]
LSum(x)           == [k |-> "sum1", x |-> x]
LIVar(n)          == [k |-> "ivar", n |-> n]                                    \* loop index variable
(* loop-indexed placeholder symbol: at iteration t it is column t of orig[...]:
   case "A": first subscript depends on the loop index, sel = fixed 0-based columns (or <<>> for a vector)
   case "B": second subscript depends on the loop index, sel = fixed 0-based rows              *)
LISym(n, cs, ie, sel, r) == [k |-> "isym", n |-> n, cs |-> cs, ie |-> ie, sel |-> sel, r |-> r]
LMap(body, n, vals) == [k |-> "map", body |-> body, n |-> n, vals |-> vals]
LCall(outs, ins, args, first) == [k |-> "call", outs |-> outs, ins |-> ins, args |-> args, first |-> first]
LRaise(why)       == [k |-> "raise", why |-> why]
IsRaise(x)        == x.k = "raise"

FirstRaise(xs) == IF \E i \in DOMAIN xs : IsRaise(xs[i]) THEN xs[CHOOSE i \in DOMAIN xs : IsRaise(xs[i]) /\ \A j \in 1..(i - 1) : ~IsRaise(xs[j])]
                  ELSE LRaise("none")
AnyRaise(xs) == \E i \in DOMAIN xs : IsRaise(xs[i])

(* static shape of a lowered expression, <<r, c>> *)
RECURSIVE Sh(_)
Sh(x) ==
    CASE x.k = "c"    -> <<x.m.r, x.m.c>>
      [] x.k = "sym"  -> <<x.r, x.c>>
      [] x.k = "get"  -> <<x.r, x.c>>
      [] x.k = "un"   -> Sh(x.x)
      [] x.k = "bin"  -> (LET a == Sh(x.x) IN IF a = <<1, 1>> THEN Sh(x.y) ELSE a)
      [] x.k = "ite"  -> Sh(x.t)
      [] x.k = "vcat" -> (IF x.xs = <<>> THEN <<0, 1>>
                          ELSE LET RECURSIVE Rows(_)
                                   Rows(i) == IF i = 0 THEN 0 ELSE Sh(x.xs[i])[1] + Rows(i - 1)
                               IN  <<Rows(Len(x.xs)), Sh(x.xs[1])[2]>>)
      [] x.k = "T"    -> (LET a == Sh(x.x) IN <<a[2], a[1]>>)
      [] x.k = "sum1" -> <<1, Sh(x.x)[2]>>
      [] x.k = "ivar" -> <<1, 1>>
      [] x.k = "isym" -> <<x.r, 1>>
      [] x.k = "unr"  -> <<x.n, x.m>>
      [] x.k = "map"  -> (LET RECURSIVE Rows(_)
                              Rows(i) == IF i = 0 THEN 0 ELSE Sh(x.body[i])[1] * Sh(x.body[i])[2] + Rows(i - 1)
                          IN  <<Len(x.vals), Rows(Len(x.body))>>)
      [] x.k = "call" -> <<(IF x.first THEN 1 ELSE Len(x.outs)), 1>>
      [] OTHER -> <<-1, -1>>

-----------------------------------------------------------------------------
(* generator context: program, declared shapes, innermost loop, function-local scope *)
G(P, loop, fn) == [P |-> P, loop |-> loop, fn |-> fn]
NoLoop == <<>>
InLoop(g) == g.loop # <<>>

DimsOf(P, name) ==      \* <<>> scalar, <<n>>, <<r, c>>;  <<-1>> unknown name
    IF name = "time" THEN <<>>
    ELSE IF \E i \in DOMAIN P.comps : P.comps[i].name = name THEN P.comps[CompIndex(P, name)].dims
    ELSE IF \E i \in DOMAIN P.comps : name = "der(" \o P.comps[i].name \o ")"
         THEN P.comps[CHOOSE i \in DOMAIN P.comps : name = "der(" \o P.comps[i].name \o ")"].dims
    ELSE <<-1>>

(* get_integer: the integer value of a structural expression, or "mx" if it depends on the loop
   index, or "raise".  As built, a negated literal makes ca.symvar fail (RuntimeError).          *)
RECURSIVE MentionsLoopVar(_, _), HasNegLit(_)
MentionsLoopVar(e, g) ==
    \/ (e.k = "ref" /\ e.a = <<>> /\ InLoop(g) /\ e.n = g.loop[1].n)
    \/ \E i \in DOMAIN e.a : MentionsLoopVar(e.a[i], g)
HasNegLit(e) == (e.k = "un" /\ e.n = "-" /\ e.a[1].k = "lit") \/ (e.k = "lit" /\ e.n # "sci" /\ e.v[1] < 0)
                \/ \E i \in DOMAIN e.a : HasNegLit(e.a[i])
GetInteger(e, g) ==
    IF MentionsLoopVar(e, g) THEN [kind |-> "mx"]
    ELSE IF HasNegLit(e) THEN [kind |-> "raise"]
    ELSE LET q == IntOf(e, Cx(g.P, SEnv(g.P), NoLoc))
         IN  IF IsUnd(q) THEN [kind |-> "raise"] ELSE [kind |-> "int", i |-> q[1]]

(* CasADi's handling of a Python slice(start, stop) on a dimension of length len *)
CasadiSlice(start, stop, len) ==
    IF start < -len \/ stop > len THEN [ok |-> FALSE, list |-> <<>>]
    ELSE LET s == IF start < 0 THEN start + len ELSE start
             e == IF stop < 0 THEN stop + len ELSE stop
         IN  [ok |-> TRUE, list |-> IntSeq(s, e - 1)]

(* one non-loop subscript -> [kind |-> "int" | "slice" | "mx" | "raise", list |-> 0-based positions] *)
PyIndex(s, dim, g) ==
    IF s.k = "colon" THEN [kind |-> "slice", list |-> IntSeq(0, dim - 1)]
    ELSE IF s.k = "slice"
         THEN LET lo == GetInteger(s.a[1], g)
                  hi == GetInteger(s.a[2], g)
              IN  IF lo.kind # "int" \/ hi.kind # "int" THEN [kind |-> "raise", list |-> <<>>]
                  ELSE IF SlicesRangeChecked
                       THEN (IF lo.i > hi.i THEN [kind |-> "slice", list |-> <<>>]
                             ELSE IF lo.i < 1 \/ hi.i > dim THEN [kind |-> "raise", list |-> <<>>]
                             ELSE [kind |-> "slice", list |-> IntSeq(lo.i - 1, hi.i - 1)])
                       ELSE LET cs == CasadiSlice(lo.i - 1, hi.i, dim)         \* "sl.start - 1, sl.stop"
                            IN  IF cs.ok THEN [kind |-> "slice", list |-> cs.list] ELSE [kind |-> "raise", list |-> <<>>]
    ELSE LET v == GetInteger(s, g)
         IN  IF v.kind = "mx" THEN [kind |-> "mx", list |-> <<>>]
             ELSE IF v.kind = "raise" THEN [kind |-> "raise", list |-> <<>>]
             ELSE IF v.i <= 0 \/ v.i > dim THEN [kind |-> "raise", list |-> <<>>]     \* "if sl <= 0 or sl > dim"
             ELSE [kind |-> "int", list |-> <<v.i - 1>>]

(* orig[R, C] on an r x c symbol: 0-based column-major positions *)
Pos2(R, C, r) == Flatten([j \in DOMAIN C |-> [i \in DOMAIN R |-> C[j] * r + R[i]]])

LowerIndexed(e, name, g) ==
    LET dims == DimsOf(g.P, name)
        nd   == Len(dims)
        rc   == MShape(dims)
        sym  == LSym(name, rc[1], rc[2])
        subs == IF PartialSubscriptIsRow /\ Len(e.a) < nd THEN e.a \o [i \in 1..(nd - Len(e.a)) |-> Colon] ELSE e.a
    IN  IF nd = 0 THEN LRaise("ValueError: symbol is not an array")
        ELSE IF Len(subs) > nd THEN LRaise("ValueError: too many indices")
        ELSE LET ps == [i \in DOMAIN subs |-> PyIndex(subs[i], dims[i], g)]
             IN  IF \E i \in DOMAIN ps : ps[i].kind = "raise" THEN LRaise("ValueError: index out of bounds")
                 ELSE IF \E i \in DOMAIN ps : ps[i].kind = "mx"
                 THEN (* get_indexed_symbol, for-loop branch *)
                      IF ps[1].kind = "mx"
                      THEN IF Len(ps) = 1 THEN LISym(name, "A", subs[1], <<>>, 1)
                           ELSE IF ps[2].kind = "mx" THEN LRaise("nested loop index")
                           ELSE LISym(name, "A", subs[1], ps[2].list, Len(ps[2].list))
                      ELSE LISym(name, "B", subs[2], ps[1].list, Len(ps[1].list))
                 ELSE IF Len(ps) = 1 THEN LGet(sym, ps[1].list, Len(ps[1].list), 1)               \* s[indices[0]]: linear
                 ELSE LGet(sym, Pos2(ps[1].list, ps[2].list, rc[1]), Len(ps[1].list), Len(ps[2].list))

RECURSIVE Lower(_, _), LowerAll(_, _), FoldIf(_, _, _), FnOutputs(_, _), SX(_, _, _), Subst(_, _)

LowerAll(es, g) == [i \in DOMAIN es |-> Lower(es[i], g)]

FoldIf(parts, i, g) ==          \* exitIfExpression: start from the else value, wrap conditions from the last to the first
    IF i = Len(parts) THEN Lower(parts[i], g)
    ELSE LET c == Lower(parts[i], g)
             t == Lower(parts[i + 1], g)
             r == FoldIf(parts, i + 2, g)
         IN  IF IsRaise(c) THEN c ELSE IF IsRaise(t) THEN t ELSE IF IsRaise(r) THEN r ELSE LIte(c, t, r)

Lower(e, g) ==
    CASE e.k = "lit" -> LC(M11(IF e.n = "sci" THEN Und ELSE e.v))
      [] e.k = "ref" ->
            IF e.a = <<>> /\ InLoop(g) /\ e.n = g.loop[1].n THEN LIVar(e.n)
            ELSE IF g.fn THEN LSym(e.n, 1, 1)                                   \* function-local scalar
            ELSE IF DimsOf(g.P, e.n) = <<-1>> THEN LRaise("KeyError")
            ELSE IF e.a = <<>> THEN LSym(e.n, MShape(DimsOf(g.P, e.n))[1], MShape(DimsOf(g.P, e.n))[2])
            ELSE LowerIndexed(e, e.n, g)
      [] e.k = "der" ->           \* get_derivative: der(x) is a symbol of the same shape, indexed like x
            LET r == e.a[1]
                dn == "der(" \o r.n \o ")"
            IN  IF r.a = <<>> THEN LSym(dn, MShape(DimsOf(g.P, dn))[1], MShape(DimsOf(g.P, dn))[2])
                ELSE LowerIndexed(r, dn, g)
      [] e.k = "un" ->
            LET x == Lower(e.a[1], g)
            IN  IF IsRaise(x) THEN x
                ELSE IF e.n = "-" THEN LUn("neg", x)
                ELSE IF e.n = "not" THEN LIte(x, LC(M11(Zero)), LC(M11(One)))   \* ca.if_else(x, 0, 1, True)
                ELSE x
      [] e.k = "bin" ->
            LET x  == Lower(e.a[1], g)
                y  == Lower(e.a[2], g)
                op == CASE e.n = ".+" -> "+" [] e.n = ".-" -> "-" [] e.n = ".*" -> "*" [] e.n = "./" -> "/" [] e.n = ".^" -> "^"
                        [] OTHER -> e.n                                         \* "if op.startswith('.'): op = op[1:]"
            IN  IF IsRaise(x) THEN x ELSE IF IsRaise(y) THEN y
                ELSE IF e.n = "*"                                               \* "mtimes": fine when an operand is scalar
                     THEN (IF Sh(x) = <<1, 1>> \/ Sh(y) = <<1, 1>> THEN LBin("__mul__", x, y) ELSE LRaise("matrix product: not modelled"))
                ELSE IF op \notin DOMAIN OpMap THEN LRaise("Unknown function " \o op)
                ELSE IF OpMap[op] \notin MXMethods2 THEN LRaise("AttributeError: MX has no " \o OpMap[op])
                ELSE LBin(OpMap[op], x, y)
      [] e.k = "if"  -> FoldIf(e.a, 1, g)
      [] e.k = "arr" ->           \* exitArray keeps python lists of literals; ca.MX(list) of numbers is a column
            IF \A i \in DOMAIN e.a : e.a[i].k = "lit" THEN LC(MM(Len(e.a), 1, [i \in DOMAIN e.a |-> e.a[i].v]))
            ELSE IF \A i \in DOMAIN e.a : e.a[i].k = "ref" /\ e.a[i].a = <<>> THEN LRaise("KeyError")
            ELSE LRaise("NotImplementedError: nested list")
      [] e.k = "call" ->
            LET xs == LowerAll(e.a, g)
            IN  IF AnyRaise(xs) THEN FirstRaise(xs)
                ELSE IF e.n \in DOMAIN OpMap /\ Len(xs) = 2 THEN LBin(OpMap[e.n], xs[1], xs[2])
                ELSE IF e.n \in DOMAIN OpMap /\ Len(xs) = 1 THEN LUn(OpMap[e.n], xs[1])
                ELSE IF e.n = "sum" THEN LSum(xs[1])
                ELSE IF e.n \in MXMethods1 THEN LUn(e.n, xs[1])                 \* hasattr(MX, op)
                ELSE IF e.n = "delay" THEN LUn("delay", xs[1])                  \* a fresh input symbol shaped like the argument: uninterpreted
                ELSE IF IsUserFunc(g.P, e.n)
                     THEN LET outs == FnOutputs(FuncNamed(g.P, e.n), g.P)
                          IN  IF AnyRaise(outs) THEN FirstRaise(outs)
                              ELSE LCall(outs, FuncNamed(g.P, e.n).ins, xs, CallFirstOutput /\ Len(outs) > 1)
                ELSE LRaise("Unknown function " \o e.n)
      [] OTHER -> LRaise("unexpected node " \o e.k)

(* ca.substitute(expr, symbols, values) on function-local symbols *)
Subst(x, vals) ==
    CASE x.k = "sym"  -> (IF x.n \in DOMAIN vals THEN vals[x.n] ELSE x)
      [] x.k = "un"   -> [x EXCEPT !.x = Subst(x.x, vals)]
      [] x.k = "bin"  -> [x EXCEPT !.x = Subst(x.x, vals), !.y = Subst(x.y, vals)]
      [] x.k = "ite"  -> [x EXCEPT !.c = Subst(x.c, vals), !.t = Subst(x.t, vals), !.e = Subst(x.e, vals)]
      [] x.k = "call" -> [x EXCEPT !.args = [i \in DOMAIN x.args |-> Subst(x.args[i], vals)]]
      [] x.k = "vcat" -> [x EXCEPT !.xs = [i \in DOMAIN x.xs |-> Subst(x.xs[i], vals)]]
      [] OTHER -> x

(* replace the loop index variable by a constant (what mapping the loop body over f.values does) *)
RECURSIVE SubstIVar(_, _, _)
SubstIVar(x, n, v) ==
    CASE x.k = "ivar" -> (IF x.n = n THEN LC(M11(RI(v))) ELSE x)
      [] x.k = "un"   -> [x EXCEPT !.x = SubstIVar(x.x, n, v)]
      [] x.k = "bin"  -> [x EXCEPT !.x = SubstIVar(x.x, n, v), !.y = SubstIVar(x.y, n, v)]
      [] x.k = "ite"  -> [x EXCEPT !.c = SubstIVar(x.c, n, v), !.t = SubstIVar(x.t, n, v), !.e = SubstIVar(x.e, n, v)]
      [] x.k = "call" -> [x EXCEPT !.args = [i \in DOMAIN x.args |-> SubstIVar(x.args[i], n, v)]]
      [] OTHER -> x

(* np.arange(start, stop + step, step) *)
RECURSIVE Arange(_, _, _)
Arange(a, b, s) == IF (s > 0 /\ a >= b) \/ (s < 0 /\ a <= b) \/ s = 0 THEN <<>> ELSE <<a>> \o Arange(a + s, b, s)

(* ForLoop.__init__: start and step must be literals, stop goes through get_integer.
   The parser stores a:b:c as Slice(start = a, stop = b, step = c).                  *)
LoopValues(e, g) ==
    LET three == Len(e.a) = 4
        first == e.a[1]
        sec   == IF three THEN e.a[4] ELSE e.a[2]      \* textual second and third items of the range
        third == IF three THEN e.a[2] ELSE ILit(1)
        pStart == first
        pStop  == IF three /\ StepRangeParsed THEN third ELSE sec
        pStep  == IF three /\ StepRangeParsed THEN sec ELSE third
        stop  == GetInteger(pStop, g)
    IN  IF pStart.k # "lit" \/ pStep.k # "lit" \/ HasNegLit(pStart) \/ HasNegLit(pStep) THEN [ok |-> FALSE, vals |-> <<>>]
        ELSE IF stop.kind # "int" THEN [ok |-> FALSE, vals |-> <<>>]
        ELSE [ok |-> TRUE, vals |-> Arange(pStart.v[1], stop.i + (IF RangeStopExact THEN (IF pStep.v[1] > 0 THEN 1 ELSE -1) ELSE pStep.v[1]), pStep.v[1])]

(* statement lowering inside get_function: vals = current symbolic value of every local variable *)
RECURSIVE FirstAppearance(_, _)
FirstAppearance(names, seen) ==
    IF names = <<>> THEN <<>>
    ELSE IF Head(names) \in seen THEN FirstAppearance(Tail(names), seen)
    ELSE <<Head(names)>> \o FirstAppearance(Tail(names), seen \cup {Head(names)})

SX(stmts, vals, P) ==
    IF stmts = <<>> THEN vals
    ELSE LET s  == Head(stmts)
             gf == G(P, NoLoop, TRUE)
         IN  IF "#raise" \in DOMAIN vals THEN vals
             ELSE CASE s.k = "asg" ->
                    LET r == Lower(s.a[2], gf)
                    IN  IF IsRaise(r) THEN Bind(vals, "#raise", r)
                        ELSE SX(Tail(stmts), Bind(vals, s.a[1].n, Subst(r, vals)), P)
               [] s.k = "ifst" ->
                    LET nb     == (Len(s.a) + 1) \div 2                           \* number of branches incl. else
                        blk(j) == IF j < nb THEN s.a[2 * j].a ELSE s.a[Len(s.a)].a
                        cnd(j) == Lower(s.a[2 * j - 1], gf)
                    IN  IF IfStmtSequential
                        THEN (* every branch is executed on its own copy of the store; then, per variable, an if_else chain *)
                             LET after == [j \in 1..nb |-> SX(blk(j), vals, P)]
                                 names == FirstAppearance(Flatten([j \in 1..nb |-> [m \in DOMAIN blk(j) |-> blk(j)[m].a[1].n]]), {})
                                 RECURSIVE Chain(_, _)
                                 Chain(x, j) == IF j = nb THEN after[nb][x]
                                                ELSE LIte(Subst(cnd(j), vals), after[j][x], Chain(x, j + 1))
                                 RECURSIVE Put(_, _)
                                 Put(i, acc) == IF i > Len(names) THEN acc ELSE Put(i + 1, Bind(acc, names[i], Chain(names[i], 1)))
                             IN  SX(Tail(stmts), Put(1, vals), P)
                        ELSE (* exitIfStatement: values grouped per left-hand side in order of first appearance,
                                folded into if_else chains; get_function then substitutes them one after the other *)
                             LET names == FirstAppearance(Flatten([j \in 1..nb |-> [m \in DOMAIN blk(j) |-> blk(j)[m].a[1].n]]), {})
                                 rhs(x, j) == LET m == CHOOSE mm \in DOMAIN blk(j) : blk(j)[mm].a[1].n = x
                                              IN  Lower(blk(j)[m].a[2], gf)
                                 RECURSIVE Chain(_, _)
                                 Chain(x, j) == IF j = nb THEN rhs(x, nb) ELSE LIte(cnd(j), rhs(x, j), Chain(x, j + 1))
                                 RECURSIVE Put(_, _)
                                 Put(i, acc) == IF i > Len(names) THEN acc
                                                ELSE Put(i + 1, Bind(acc, names[i], Subst(Chain(names[i], 1), acc)))
                             IN  SX(Tail(stmts), Put(1, vals), P)
               [] s.k = "forst" ->
                    LET lv == LoopValues(s, gf)
                        body == s.a[3].a
                        gl == G(P, <<[n |-> s.n, vals |-> lv.vals]>>, TRUE)
                        RECURSIVE Iter(_, _, _)
                        Iter(t, m, acc) ==      \* for i: for j: Assignment(variable_j, res[j, i]), substituted in order
                            IF t > Len(lv.vals) THEN acc
                            ELSE IF m > Len(body) THEN Iter(t + 1, 1, acc)
                            ELSE Iter(t, m + 1, Bind(acc, body[m].a[1].n,
                                                     Subst(SubstIVar(Lower(body[m].a[2], gl), s.n, lv.vals[t]), acc)))
                    IN  IF ~lv.ok THEN Bind(vals, "#raise", LRaise("loop range"))
                        ELSE SX(Tail(stmts), Iter(1, 1, vals), P)

FnOutputs(fd, P) ==
    LET v0 == [x \in {fd.ins[i] : i \in DOMAIN fd.ins} |-> LSym(x, 1, 1)]
        vf == SX(fd.body, v0, P)
    IN  IF "#raise" \in DOMAIN vf THEN <<vf["#raise"]>>
        ELSE [i \in DOMAIN fd.outs |-> IF fd.outs[i] \in DOMAIN vf THEN vf[fd.outs[i]] ELSE LRaise("output never assigned")]

-----------------------------------------------------------------------------
(* equations *)
RECURSIVE LowerEq(_, _), LowerBlk(_, _)

IsUserCall(e, P) == e.k = "call" /\ IsUserFunc(P, e.n)

LowerBlk(eqs, g) == [i \in DOMAIN eqs |-> LowerEq(eqs[i], g)]

(* every loop-indexed placeholder of a lowered body, to apply CasADi's eager range check at exitForEquation *)
RECURSIVE ISyms(_)
ISyms(x) ==
    CASE x.k = "isym" -> {x}
      [] x.k \in {"un", "T", "sum1"} -> ISyms(x.x)
      [] x.k = "bin"  -> ISyms(x.x) \cup ISyms(x.y)
      [] x.k = "ite"  -> ISyms(x.c) \cup ISyms(x.t) \cup ISyms(x.e)
      [] x.k = "vcat" -> UNION {ISyms(x.xs[i]) : i \in DOMAIN x.xs}
      [] x.k = "call" -> UNION {ISyms(x.args[i]) : i \in DOMAIN x.args}
      [] x.k = "get"  -> ISyms(x.x)
      [] OTHER -> {}

(* 1-based index values of a placeholder over the loop values: F(index_expr) mapped over f.values *)
IdxVals(s, n, vals, P) ==
    [t \in DOMAIN vals |-> IntOf(s.ie, Cx(P, SEnv(P), Bind(NoLoc, n, vals[t])))]
AxisLen(s, P) == LET d == DimsOf(P, s.n) IN IF Len(d) = 1 THEN d[1] ELSE IF s.cs = "A" THEN d[1] ELSE d[2]
ISymInRange(s, n, vals, P) ==
    \A t \in DOMAIN vals :
        LET q == IdxVals(s, n, vals, P)[t]
        IN  /\ ~IsUnd(q)
            /\ IF LoopIndexRangeChecked THEN q[1] - 1 >= 0 /\ q[1] - 1 < AxisLen(s, P)
               ELSE q[1] - 1 >= -AxisLen(s, P) /\ q[1] - 1 < AxisLen(s, P)       \* CasADi accepts [-len, len)

LowerEq(e, g) ==
    CASE e.k = "eq" ->
            LET l == IF e.a[1].k = "tup" THEN (LET xs == LowerAll(e.a[1].a, g) IN IF AnyRaise(xs) THEN FirstRaise(xs) ELSE LVcat(xs))
                     ELSE Lower(e.a[1], g)
                rr == Lower(e.a[2], g)
                uc == IsUserCall(e.a[2], g.P)
                r0 == IF uc /\ ~IsRaise(rr) THEN [rr EXCEPT !.first = FALSE]    \* the right-hand side as a whole: all outputs
                      ELSE rr
            IN  IF IsRaise(l) THEN l ELSE IF IsRaise(r0) THEN r0
                ELSE LET sl == Sh(l)
                         s0 == Sh(r0)
                         r1 == IF uc /\ sl[1] < s0[1] THEN LGet(r0, IntSeq(0, sl[1] - 1), sl[1], 1)     \* src_right[0 : src_left.size1()]
                               ELSE r0
                         s1 == IF uc /\ sl[1] < s0[1] THEN <<sl[1], 1>> ELSE s0
                         r2 == IF sl # s1 /\ sl = <<s1[2], s1[1]>> THEN LTr(r1) ELSE r1
                         s2 == IF sl # s1 /\ sl = <<s1[2], s1[1]>> THEN sl ELSE s1
                     IN  IF sl # s2 /\ sl # <<1, 1>> /\ s2 # <<1, 1>> THEN LRaise("RuntimeError: dimension mismatch")
                         ELSE LBin("__sub__", l, r2)
      [] e.k = "ifeq" ->          \* exitIfEquation
            LET nb     == (Len(e.a) + 1) \div 2
                blk(j) == LowerBlk(IF j < nb THEN e.a[2 * j].a ELSE e.a[Len(e.a)].a, g)
                cnd(j) == Lower(e.a[2 * j - 1], g)
                RECURSIVE Chain(_)
                Chain(j) == IF j = nb THEN LVcat(blk(nb)) ELSE LIte(cnd(j), LVcat(blk(j)), Chain(j + 1))
            IN  IF \E j \in 1..nb : AnyRaise(blk(j)) THEN FirstRaise(blk(CHOOSE j \in 1..nb : AnyRaise(blk(j))))
                ELSE IF \E j \in 1..(nb - 1) : IsRaise(cnd(j)) THEN cnd(CHOOSE j \in 1..(nb - 1) : IsRaise(cnd(j)))
                ELSE IF \E j \in 1..nb : Len(blk(j)) # Len(blk(1)) THEN LRaise("branches differ in length")
                ELSE Chain(1)
      [] e.k = "for" ->
            LET lv == LoopValues(e, g)
                gl == G(g.P, <<[n |-> e.n, vals |-> lv.vals]>>, FALSE)
                body == LowerBlk(e.a[3].a, gl)
            IN  IF InLoop(g) THEN LRaise("nested for-loops are not supported")
                ELSE IF ~lv.ok THEN LRaise("loop range")
                ELSE IF lv.vals = <<>> THEN LC(MM(0, 0, <<>>))                      \* ca.MX(): discarded by exitClass
                ELSE IF AnyRaise(body) THEN FirstRaise(body)
                ELSE IF \E i \in DOMAIN body : \E s \in ISyms(body[i]) : ~ISymInRange(s, e.n, lv.vals, g.P)
                     THEN LRaise("RuntimeError: out of bounds")
                ELSE LMap(body, e.n, lv.vals)
      [] OTHER -> LRaise("unexpected equation node")

Wrap(i, len) == IF i < 0 THEN i + len ELSE i

-----------------------------------------------------------------------------
(* C12 - representation-only options.  generator.py:105-106 turns unroll_loops into the map mode
   ("inline" = the mapped loop body is instantiated once per iteration, "serial" = one map node) and
   inline_functions into the call mode (the function body is substituted at the call site, or a call
   node is kept); expand_mx (model.py:1295-1297) re-expresses the finished functions element by element
   as SX, which has no counterpart at this level of abstraction: it is the identity here.
   Represent rewrites a lowered equation accordingly; the invariants then hold for all 8 option sets
   with the SAME declarative value, which is the property.                                          *)
DefaultOpt == [unroll |-> TRUE, inline |-> TRUE, expand |-> FALSE]
OptSets == IF ExploreOptions THEN [unroll : BOOLEAN, inline : BOOLEAN, expand : BOOLEAN] ELSE {DefaultOpt}

LUnr(cols, n, m) == [k |-> "unr", cols |-> cols, n |-> n, m |-> m]     \* cols[t] = the body instantiated for iteration t

RECURSIVE Instantiate(_, _, _, _, _), Represent(_, _, _)
(* one iteration of a loop body: the index variable becomes a constant, every placeholder the element(s) it stands for *)
Instantiate(x, n, vals, t, P) ==
    CASE x.k = "ivar" -> (IF x.n = n THEN LC(M11(RI(vals[t]))) ELSE x)
      [] x.k = "isym" ->
            LET d   == DimsOf(P, x.n)
                rc  == MShape(d)
                i0  == Wrap(IdxVals(x, n, vals, P)[t][1] - 1, AxisLen(x, P))
                sym == LSym(x.n, rc[1], rc[2])
            IN  IF x.sel = <<>> /\ rc[2] = 1 THEN LGet(sym, <<i0>>, 1, 1)
                ELSE IF x.cs = "A" THEN LGet(sym, [j \in DOMAIN x.sel |-> x.sel[j] * rc[1] + i0], x.r, 1)
                ELSE LGet(sym, [j \in DOMAIN x.sel |-> i0 * rc[1] + x.sel[j]], x.r, 1)
      [] x.k \in {"un", "T", "sum1"} -> [x EXCEPT !.x = Instantiate(x.x, n, vals, t, P)]
      [] x.k = "get"  -> [x EXCEPT !.x = Instantiate(x.x, n, vals, t, P)]
      [] x.k = "bin"  -> [x EXCEPT !.x = Instantiate(x.x, n, vals, t, P), !.y = Instantiate(x.y, n, vals, t, P)]
      [] x.k = "ite"  -> [x EXCEPT !.c = Instantiate(x.c, n, vals, t, P), !.t = Instantiate(x.t, n, vals, t, P), !.e = Instantiate(x.e, n, vals, t, P)]
      [] x.k = "vcat" -> [x EXCEPT !.xs = [i \in DOMAIN x.xs |-> Instantiate(x.xs[i], n, vals, t, P)]]
      [] x.k = "call" -> [x EXCEPT !.args = [i \in DOMAIN x.args |-> Instantiate(x.args[i], n, vals, t, P)]]
      [] OTHER -> x

Represent(x, opt, P) ==
    CASE x.k = "call" ->
            LET args == [i \in DOMAIN x.args |-> Represent(x.args[i], opt, P)]
            IN  IF opt.inline
                THEN LET binding == [nm \in {x.ins[i] : i \in DOMAIN x.ins} |-> args[CHOOSE i \in DOMAIN x.ins : x.ins[i] = nm]]
                         outs == [i \in DOMAIN x.outs |-> Subst(x.outs[i], binding)]
                     IN  IF x.first THEN outs[1] ELSE LVcat(outs)
                ELSE [x EXCEPT !.args = args]
      [] x.k = "map" ->
            LET body == [i \in DOMAIN x.body |-> Represent(x.body[i], opt, P)]
                RECURSIVE Rows(_)
                Rows(i) == IF i = 0 THEN 0 ELSE Sh(x.body[i])[1] * Sh(x.body[i])[2] + Rows(i - 1)
            IN  IF opt.unroll
                THEN LUnr([t \in DOMAIN x.vals |-> [i \in DOMAIN body |-> Instantiate(body[i], x.n, x.vals, t, P)]], Len(x.vals), Rows(Len(x.body)))
                ELSE [x EXCEPT !.body = body]
      [] x.k \in {"un", "T", "sum1", "get"} -> [x EXCEPT !.x = Represent(x.x, opt, P)]
      [] x.k = "bin"  -> [x EXCEPT !.x = Represent(x.x, opt, P), !.y = Represent(x.y, opt, P)]
      [] x.k = "ite"  -> [x EXCEPT !.c = Represent(x.c, opt, P), !.t = Represent(x.t, opt, P), !.e = Represent(x.e, opt, P)]
      [] x.k = "vcat" -> [x EXCEPT !.xs = [i \in DOMAIN x.xs |-> Represent(x.xs[i], opt, P)]]
      [] OTHER -> x

-----------------------------------------------------------------------------
(* evaluation of a lowered expression: env name -> matrix, it = current loop iteration (or none) *)
NoIter == [n |-> "", v |-> 0, t |-> 0, vals |-> <<>>]

RECURSIVE Run(_, _, _, _)
Run(x, env, it, P) ==
    CASE x.k = "c"    -> x.m
      [] x.k = "sym"  -> (IF x.n \in DOMAIN env THEN env[x.n] ELSE MErr)
      [] x.k = "ivar" -> M11(RI(it.v))
      [] x.k = "get"  -> LET a == Run(x.x, env, it, P)
                         IN  IF MIsErr(a) THEN a ELSE MM(x.r, x.c, [j \in DOMAIN x.idx |-> a.d[x.idx[j] + 1]])
      [] x.k = "un"   -> MUn(x.m, Run(x.x, env, it, P))
      [] x.k = "bin"  -> MBin(x.m, Run(x.x, env, it, P), Run(x.y, env, it, P))
      [] x.k = "ite"  -> LET c == Run(x.c, env, it, P)
                         IN  IF MIsErr(c) \/ c.r * c.c # 1 THEN MErr
                             ELSE IF IsUnd(c.d[1]) THEN (LET t == Run(x.t, env, it, P) IN IF MIsErr(t) THEN t ELSE MM(t.r, t.c, [i \in DOMAIN t.d |-> Und]))
                             ELSE IF ~IsZero(c.d[1]) THEN Run(x.t, env, it, P) ELSE Run(x.e, env, it, P)
      [] x.k = "vcat" -> MVcat([i \in DOMAIN x.xs |-> Run(x.xs[i], env, it, P)])
      [] x.k = "T"    -> LET a == Run(x.x, env, it, P) IN IF MIsErr(a) THEN a ELSE MT(a)
      [] x.k = "sum1" -> LET a == Run(x.x, env, it, P)
                             RECURSIVE S(_)
                             S(i) == IF i = 0 THEN Zero ELSE RAdd(a.d[i], S(i - 1))
                         IN  IF MIsErr(a) THEN a ELSE IF a.c # 1 THEN MErr ELSE M11(S(a.r))
      [] x.k = "isym" ->          \* column it.t of orig[index_function(indices - 1)] (transposed for case A)
            LET o   == env[x.n]
                q   == IdxVals(x, it.n, it.vals, P)[it.t]
                i0  == Wrap(q[1] - 1, AxisLen(x, P))
            IN  IF x.sel = <<>> /\ o.c = 1 THEN M11(o.d[i0 + 1])
                ELSE IF x.cs = "A" THEN MM(x.r, 1, [j \in DOMAIN x.sel |-> o.d[x.sel[j] * o.r + i0 + 1]])
                ELSE MM(x.r, 1, [j \in DOMAIN x.sel |-> o.d[i0 * o.r + x.sel[j] + 1]])
      [] x.k = "map"  ->          \* res[0].T : iterations x rows, column-major => equation-major rows
            LET n    == Len(x.vals)
                col  == [t \in 1..n |-> MVcat([i \in DOMAIN x.body |-> MVec(Run(x.body[i], env, [n |-> x.n, v |-> x.vals[t], t |-> t, vals |-> x.vals], P))])]
                m    == col[1].r
            IN  IF \E t \in 1..n : MIsErr(col[t]) THEN MErr
                ELSE MM(n, m, [j \in 1..(n * m) |-> col[((j - 1) % n) + 1].d[((j - 1) \div n) + 1]])
      [] x.k = "unr"  ->          \* same arrangement as the map: iterations x rows
            LET col == [t \in 1..x.n |-> MVcat([i \in DOMAIN x.cols[t] |-> MVec(Run(x.cols[t][i], env, it, P))])]
            IN  IF \E t \in 1..x.n : MIsErr(col[t]) THEN MErr
                ELSE MM(x.n, x.m, [j \in 1..(x.n * x.m) |-> col[((j - 1) % x.n) + 1].d[((j - 1) \div x.n) + 1]])
      [] x.k = "call" ->
            LET av  == [i \in DOMAIN x.args |-> Run(x.args[i], env, it, P)]
                fe  == [nm \in {x.ins[i] : i \in DOMAIN x.ins} |-> av[CHOOSE i \in DOMAIN x.ins : x.ins[i] = nm]]
                ov  == [i \in DOMAIN x.outs |-> Run(x.outs[i], fe, it, P)]
            IN  IF \E i \in DOMAIN av : MIsErr(av[i]) \/ av[i].r * av[i].c # 1 THEN MErr
                ELSE IF x.first THEN ov[1] ELSE MVcat(ov)
      [] OTHER -> MErr

MEnvOf(e) == [x \in DOMAIN e |-> ToM(e[x])]

(* rows of one lowered equation in environment e, in the order veccat gives them; "raise" / "err" markers *)
GenRows(low, P, e) ==
    IF IsRaise(low) THEN [st |-> "raise", d |-> <<>>]
    ELSE LET m == Run(low, MEnvOf(e), NoIter, P)
         IN  IF MIsErr(m) THEN [st |-> "err", d |-> <<>>] ELSE [st |-> "ok", d |-> m.d]

DeclRows(eq, P, e) ==
    LET v == EqRows(eq, Cx(P, e, NoLoc))
    IN  IF v = IdxErr THEN [st |-> "raise", d |-> <<>>] ELSE IF IsErr(v) THEN [st |-> "err", d |-> <<>>] ELSE [st |-> "ok", d |-> v.d]

-----------------------------------------------------------------------------
(* the machine *)
(* (the chosen item is carried in the state: TLC does not cache ItemSet, whose evaluation needs RECURSIVE operators) *)
VARIABLES item,    \* the program [fam, prog, extra]
          pc,      \* "translate" | "done"
          k,       \* equations translated so far (the equation section first, then the initial equation section)
          decl,    \* declarative side: per translated equation, per point, its rows
          gen,     \* operational side, same layout
          env,     \* the evaluation points: per point the value of every variable, der(.) and time
          opt,     \* the representation options this run of the generator uses
          cur      \* self.src[equation]: the lowered form of the equation translated last
vars == <<item, pc, k, decl, gen, env, opt, cur>>

P0 == item.prog
Pts == 1..NPts
NE == Len(P0.eqs)
AllEqs == P0.eqs \o P0.ieqs

(* the harness may split a family over several TLC processes: shard VF_SHARD of VF_NSHARDS (environment) *)
NShards == IF "VF_NSHARDS" \in DOMAIN IOEnv THEN atoi(IOEnv.VF_NSHARDS) ELSE 1
ShardNo == IF "VF_SHARD" \in DOMAIN IOEnv THEN atoi(IOEnv.VF_SHARD) ELSE 0
Shard == IF NShards = 1 THEN ItemSet
         ELSE LET its == SetToSeq(ItemSet) IN {its[i] : i \in {j \in DOMAIN its : j % NShards = ShardNo}}

(* Generator.__init__ + get_symbol: the shapes are the declared (literal / pinned) dimensions *)
Init == /\ item \in Shard /\ pc = "translate" /\ k = 0 /\ decl = <<>> /\ gen = <<>>
        /\ env = [t \in Pts |-> EnvAt(item.prog, t)]
        /\ opt \in OptSets
        /\ cur = LRaise("nothing translated yet")

(* exitEquation / exitIfEquation / exitForEquation for the next equation of the walk *)
TranslateEquation ==
    /\ pc = "translate" /\ k < Len(AllEqs)
    /\ cur' = LET lw == LowerEq(AllEqs[k + 1], G(P0, NoLoop, FALSE))
              IN  IF IsRaise(lw) THEN lw ELSE Represent(lw, opt, P0)
    /\ decl' = Append(decl, [t \in Pts |-> DeclRows(AllEqs[k + 1], P0, env[t])])
    /\ gen'  = Append(gen,  [t \in Pts |-> GenRows(cur', P0, env[t])])
    /\ k' = k + 1 /\ UNCHANGED <<item, pc, env, opt>>

Rejects(side) == \E i \in DOMAIN side : side[i][1].st = "raise"
Bag(s) == [x \in {s[i] : i \in DOMAIN s} |-> Cardinality({i \in DOMAIN s : s[i] = x})]

(* C23 on the model: the generator raises exactly for the programs that violate IndexOK *)
RejectsIffIndexBadAtDone ==
    ~HasEmptySlice(P0) => \A i \in DOMAIN decl : (decl[i][1].st = "raise") <=> (gen[i][1].st = "raise")
(* C11 on the model: for every translated equation and every point where the meaning is defined,
   the lowered form has the same rows (as a bag: the order inside one equation is not prescribed) *)
GenValueAgreesAtDone ==
    \A i \in DOMAIN decl : \A t \in Pts :
        (decl[i][t].st = "ok" /\ gen[i][t].st # "raise" /\ \A j \in DOMAIN decl[i][t].d : ~IsUnd(decl[i][t].d[j]))
            => (gen[i][t].st = "ok" /\ Bag(gen[i][t].d) = Bag(decl[i][t].d))
PtDefined(t) == \A i \in DOMAIN decl : decl[i][t].st = "ok" /\ \A j \in DOMAIN decl[i][t].d : ~IsUnd(decl[i][t].d[j])
DefinedPts == SelectSeq(<<1, 2, 3, 4>>, PtDefined)

ElemRow(P, t) == LET e == P.eqs[1]
                     cx == Cx(P, env[t], NoLoc)
                 IN  [f |-> e.a[2].n, lhs |-> Val(e.a[1], cx).d[1], arg |-> Val(e.a[2].a[1], cx).d[1]]
Expect ==
    IF item.fam = "index" /\ HasEmptySlice(P0) THEN [kind |-> "any"]
    ELSE IF Rejects(decl) THEN [kind |-> "reject"]
    ELSE IF item.fam = "elem"
         THEN [kind |-> "elem", pts |-> [t \in Pts |-> [t |-> t, env |-> env[t], row |-> ElemRow(P0, t)]]]
    ELSE [kind |-> "rows",
          pts |-> [j \in DOMAIN DefinedPts |->
                     LET t == DefinedPts[j]
                     IN  [t |-> t, env |-> env[t],
                          dae  |-> [i \in 1..NE |-> decl[i][t].d],
                          init |-> [i \in 1..(Len(decl) - NE) |-> decl[NE + i][t].d]]]]

(* what the operational model predicts for this program (under the switches of the cfg): does generation
   raise, the residual rows in veccat order at the defined points, and the TLC verdict of the invariants *)
ModelSide ==
    [raises |-> Rejects(gen),
     rows   |-> [j \in DOMAIN DefinedPts |-> [i \in DOMAIN gen |-> gen[i][DefinedPts[j]].d]],
     ok     |-> [i \in DOMAIN gen |-> \A t \in Pts : gen[i][t].st # "err"],
     agrees |-> RejectsIffIndexBadAtDone /\ GenValueAgreesAtDone]

(* exitClass: the translated equations become model.equations / initial_equations; the oracle line is printed *)
Finish == /\ pc = "translate" /\ k = Len(AllEqs) /\ pc' = "done" /\ UNCHANGED <<item, k, decl, gen, env, opt, cur>>
          /\ PrintT(<<"PROG", ToJson([prog |-> P0, tags |-> TagsOf(item), expect |-> Expect, model |-> ModelSide, opt |-> opt,
                                      allpts |-> [t \in Pts |-> [t |-> t, env |-> env[t]]]])>>)

Next == TranslateEquation \/ Finish
Spec == Init /\ [][Next]_vars

-----------------------------------------------------------------------------
(* invariants: the property on the specification itself (checked by TLC in the *intended* configs) *)
WellTyped == pc = "done" => \A i \in DOMAIN decl : \A t \in Pts : decl[i][t].st # "err"     \* family definitions are well typed
RejectsIffIndexBad == pc = "done" => RejectsIffIndexBadAtDone
GenValueAgrees     == pc = "done" => GenValueAgreesAtDone

(* sanity theorems of the reference semantics the property relies on (Eval_sanity.cfg) *)
SanityIfEq ==   \* an if-equation is the if-expression of its residuals
    \A t \in Pts : LET cx == Cx(P0, env[t], NoLoc) IN
        \A i \in DOMAIN P0.eqs :
            LET e == P0.eqs[i] IN
            (e.k = "ifeq" /\ Len(e.a) = 3 /\ Len(e.a[2].a) = 1 /\ e.a[2].a[1].k = "eq" /\ e.a[3].a[1].k = "eq") =>
                LET a == e.a[2].a[1] b == e.a[3].a[1]
                    asIf == Eq(IfE(<<e.a[1], Bin("-", a.a[1], a.a[2]), Bin("-", b.a[1], b.a[2])>>), ILit(0))
                IN  EqRows(e, cx) = EqRows(asIf, cx) \/ HasUnd(EqRows(e, cx))
SanityLoop ==   \* a for-equation is its unrolling
    \A t \in Pts : LET cx == Cx(P0, env[t], NoLoc) IN
        \A i \in DOMAIN P0.eqs :
            LET e == P0.eqs[i] IN
            (e.k = "for" /\ Len(e.a) = 3 /\ ~IsUnd(IntOf(e.a[1], cx)) /\ ~IsUnd(IntOf(e.a[2], cx))) =>
                LET lo == IntOf(e.a[1], cx)[1] hi == IntOf(e.a[2], cx)[1]
                    RECURSIVE Unroll(_)
                    Unroll(v) == IF v > hi THEN Empty ELSE Cat(BlkRows(e.a[3].a, 1, [cx EXCEPT !.loc = Bind(cx.loc, e.n, v)]), Unroll(v + 1))
                IN  EqRows(e, cx) = Unroll(lo)
=============================================================================
